import ScyllaVerif.Model.Prepared
/-!
# C14 — prepared statements survive server-side eviction transparently and faithfully

Theorems about `Model/Prepared.lean` (a small-step transition system: any number of callers, nodes and statement
objects; a history is any list of `Step`s).

Part A — the DRIVER's reaction to each response, for every state. Nothing is assumed about WHICH response a node
  gives; two wire-level conventions of the model's `Resp` type are side conditions: `Resp.error c` stands for an
  ERROR other than 0x2500 (0x2500 is `Resp.unprepared`), and a `newId` / `mid` is only present on a connection with
  the extension (result.rs:767, 820 mask the flag otherwise: `metaUsed`/`rowsMalformed` take `ext`).
  `unprepared_transparent` (single steps), `reprepare_id_mismatch_is_error`, `execute_carries_statement_id`,
  `batch_unknown_id_is_error`, `batch_known_id_reprepares_and_resends`, `decode_metadata_used`,
  `malformed_rows_is_error`, `exec_error_or_void_is_outcome`, `reprepare_unexpected_result_is_error`,
  `request_built_from_current_metadata`, `next_execution_presents_latest_id`, `nonempty_never_replaced_by_empty`;
  lifted to arbitrary interleavings by `caller_untouched_by_others`, `others_frame`, `statement_identity_immutable`.
Part B — END TO END under the explicit server assumption `NodeOK`/`EventOK` (a node's result-metadata id determines
  its columns, ids are non-empty, no byzantine answer pending, and `serve` is how a node answers): invariant `Inv`
  over all histories (`inv_exec`), `decode_metadata_faithful`, and the history-level `eviction_transparent`
  (UNPREPARED in flight ⇒ through ANY interleaving with other callers' steps: PREPARE, PREPARED, the same EXECUTE,
  and the caller ends with the rows the node encoded, decoded under the node's columns);
  `noext_current_is_announced_at_preparation` for clusters without the extension.
F-C14-1 — the clause "decoded with the most recently announced metadata" is FALSE without the extension when
  `use_cached_result_metadata` is on: `most_recent_announcement_not_used_without_extension` (counterexample) and
  the `decode_latest_announcement_partial_*` theorems (extension on / option off / nothing changed since creation).
-/
namespace ScyllaVerif.Props.C14
open ScyllaVerif.Prepared

/-! ## Part A.0 — the pure pieces -/

/-- connection.rs:990-996, 1015-1036: what an EXECUTE presents, by cases. -/
theorem cachedParams_ext_nonempty (u : Bool) (m : RMeta) (h : m.colCount ≠ 0) :
    cachedParams true u m = ⟨true, some m, some (m.id.getD "")⟩ := by
  simp [cachedParams, h]

/-- zero-column rule: metadata is always requested, nothing cached is used, the EMPTY id is presented. -/
theorem cachedParams_zero_cols (hasExt u : Bool) (m : RMeta) (h : m.colCount = 0) :
    cachedParams hasExt u m = ⟨false, none, if hasExt then some "" else none⟩ := by
  cases hasExt <;> simp [cachedParams, h]

theorem cachedParams_noext (u : Bool) (m : RMeta) (h : m.colCount ≠ 0) :
    cachedParams false u m = ⟨u, if u then some m else none, none⟩ := by
  cases u <;> simp [cachedParams, h]

/-- the skip flag is set exactly when cached metadata accompanies the request, and that metadata is the argument -/
theorem cachedParams_cached (hasExt u : Bool) (m : RMeta) :
    (cachedParams hasExt u m).cached = (if (cachedParams hasExt u m).skip then some m else none) := by
  simp [cachedParams]

theorem cachedParams_mid_iff_ext (hasExt u : Bool) (m : RMeta) :
    (cachedParams hasExt u m).mid.isSome = hasExt := by
  unfold cachedParams
  cases hasExt <;> simp <;> split <;> simp_all

/-- result.rs:901-945 -/
theorem metaUsed_server (ext : Bool) (cached : Option RMeta) (r : RowsResp) (h : r.noMeta = false) :
    metaUsed ext cached r = ⟨if ext then r.newId else none, r.colCount, r.cols⟩ := by simp [metaUsed, newIdSeen, h]

theorem metaUsed_cached (ext : Bool) (c : RMeta) (r : RowsResp) (h : r.noMeta = true) : metaUsed ext (some c) r = c := by
  simp [metaUsed, h]

theorem metaUsed_none (ext : Bool) (r : RowsResp) (h : r.noMeta = true) : metaUsed ext none r = RMeta.empty := by
  simp [metaUsed, h]

/-- result.rs:767, 820: without the extension the METADATA_CHANGED flag is not honoured: the metadata a response
carries never has an id, and NO_METADATA is never a parse error -/
theorem noext_ignores_new_id (cached : Option RMeta) (r : RowsResp) :
    rowsMalformed false r = false ∧ (r.noMeta = false → (metaUsed false cached r).id = none) := by
  simp [rowsMalformed, newIdSeen, metaUsed]
  intro h; simp [h]

/-- connection.rs:938-972: after a response whose metadata carries an id, the statement carries that id … -/
theorem handleNewId_id (cur mu : RMeta) (m : Id) (h : mu.id = some m) : (handleNewId cur mu).id = some m := by
  unfold handleNewId
  simp only [h]
  by_cases hc : cur.id = some m
  · split <;> simp_all
  · have : (some m != cur.id) = true := by
      simp only [bne_iff_ne, ne_eq]; exact fun e => hc e.symm
    simp [this, h]

/-- … and either IS the response's metadata, or already had that id (and then is only kept when it is non-empty or
the new one is empty). -/
theorem handleNewId_cases (cur mu : RMeta) (m : Id) (h : mu.id = some m) :
    handleNewId cur mu = mu ∨
      (handleNewId cur mu = cur ∧ cur.id = some m ∧ (cur.colCount ≠ 0 ∨ mu.colCount = 0)) := by
  unfold handleNewId
  simp only [h]
  by_cases hc : cur.id = some m
  · by_cases h2 : (cur.colCount == 0 && mu.colCount != 0) = true
    · left; simp_all
    · right
      have : (some m != cur.id) = false := by simp [hc]
      refine ⟨by simp_all, hc, ?_⟩
      by_cases h3 : cur.colCount = 0
      · right; simp_all
      · left; exact h3
  · left
    have : (some m != cur.id) = true := by
      simp only [bne_iff_ne, ne_eq]; exact fun e => hc e.symm
    simp [this]

theorem handleNewId_noid (cur mu : RMeta) (h : mu.id = none) : handleNewId cur mu = cur := by
  simp [handleNewId, h]

/-- connection.rs:705-711 -/
theorem reprepare_id_mismatch (stmtId : SId) (cur : RMeta) (p : PrepResp) (h : p.id ≠ stmtId) :
    reprepare stmtId cur p = .error .idChanged := by
  simp [reprepare, h]

/-- connection.rs:713-742: complete characterisation of the metadata after a successful re-preparation -/
theorem reprepare_ok (stmtId : SId) (cur : RMeta) (p : PrepResp) (h : p.id = stmtId) :
    reprepare stmtId cur p = .ok
      (if (prepMeta p).id.isSome ∧ (cur.colCount = 0 ∨ (prepMeta p).colCount ≠ 0) ∧ cur.id ≠ (prepMeta p).id
       then prepMeta p else cur) := by
  unfold reprepare
  simp only [h, bne_self_eq_false, Bool.false_eq_true, ↓reduceIte]
  cases hid : (prepMeta p).id with
  | none => simp
  | some i =>
    by_cases h0 : cur.colCount = 0 <;> by_cases h1 : (prepMeta p).colCount = 0 <;>
      by_cases h2 : cur.id = some i <;> simp [h0, h1, h2]

/-- `nonempty_never_replaced_by_empty` (connection.rs:721-736): non-empty current metadata is never replaced by the
empty metadata of a PREPARED response. -/
theorem nonempty_never_replaced_by_empty (stmtId : SId) (cur : RMeta) (p : PrepResp)
    (hcur : cur.colCount ≠ 0) (hp : (prepMeta p).colCount = 0) :
    reprepare stmtId cur p = .ok cur ∨ reprepare stmtId cur p = .error .idChanged := by
  by_cases h : p.id = stmtId
  · left; rw [reprepare_ok _ _ _ h]; simp [hcur, hp]
  · right; exact reprepare_id_mismatch _ _ _ h

/-- a connection WITHOUT the extension never changes the current metadata on re-preparation
(connection.rs:715-717: `id().is_none()` → return) -/
theorem reprepare_noext_keeps (stmtId : SId) (cur : RMeta) (p : PrepResp) (hm : p.mid = none) (h : p.id = stmtId) :
    reprepare stmtId cur p = .ok cur := by
  rw [reprepare_ok _ _ _ h]; simp [prepMeta, hm]

-- non-vacuity: a late0 statement, metadata learnt from an EXECUTE, then re-prepared
example : reprepare ⟨"q0", 0⟩ ⟨some "m3", 2, [⟨"a", .int⟩, ⟨"b", .text⟩]⟩ ⟨⟨"q0", 0⟩, some "mE", true, 0, []⟩
    = .ok ⟨some "m3", 2, [⟨"a", .int⟩, ⟨"b", .text⟩]⟩ := by rfl
example : reprepare ⟨"q0", 0⟩ ⟨some "mE", 0, []⟩ ⟨⟨"q0", 0⟩, some "m1", false, 1, [⟨"a", .int⟩]⟩
    = .ok ⟨some "m1", 1, [⟨"a", .int⟩]⟩ := by rfl
example : handleNewId ⟨some "m3", 0, []⟩ ⟨some "m3", 1, [⟨"a", .int⟩]⟩ = ⟨some "m3", 1, [⟨"a", .int⟩]⟩ := by decide
example : cachedParams true false ⟨none, 1, [⟨"a", .int⟩]⟩ = ⟨true, some ⟨none, 1, [⟨"a", .int⟩]⟩, some ""⟩ := by decide

/-! ## Part A.1 — frame lemmas: what the OTHER steps of an interleaving cannot touch -/

@[simp] private theorem upd_same {α : Type} (f : Nat → α) (k : Nat) (v : α) : upd f k v k = v := by simp [upd]
@[simp] private theorem upd_other {α : Type} (f : Nat → α) (k i : Nat) (v : α) (h : i ≠ k) : upd f k v i = f i := by
  simp [upd, h]

/-- which caller a step belongs to (`none` for node events) -/
def stepCaller : Step → Option Nat
  | .start k _ => some k
  | .serve k => some k
  | .recv k => some k
  | .event _ _ => none

private theorem finish_caller (st : State) (k j : Nat) (o : Outcome) (h : j ≠ k) :
    ((finish st k o).1.caller j) = st.caller j := by simp [finish, setCaller, h]

private theorem send_caller (st : State) (k j : Nat) (pc : Pc) (n : Nat) (r : Req) (h : j ≠ k) :
    ((send st k pc n r).1.caller j) = st.caller j := by simp [send, setCaller, h]

@[simp] private theorem handleResp_caller (st : State) (e : Bool) (o : Nat) (c : Option RMeta) (r : Resp) :
    (handleResp st e o c r).caller = st.caller := by
  cases r <;> simp [handleResp, setCur]
  split <;> rfl

@[simp] private theorem handleResp_node (st : State) (e : Bool) (o : Nat) (c : Option RMeta) (r : Resp) :
    (handleResp st e o c r).node = st.node := by
  cases r <;> simp [handleResp, setCur]
  split <;> rfl

/-- A step of another caller, or a node event, leaves caller `j`'s program counter and message in flight alone. -/
theorem other_steps_keep_caller (st : State) (x : Step) (j : Nat) (h : stepCaller x ≠ some j) :
    (step st x).1.caller j = st.caller j := by
  cases x with
  | event n e => simp [step, eventStep]
  | serve k =>
    have hk : j ≠ k := fun e => h (by simp [stepCaller, e])
    simp only [step, serveStep]
    split <;> simp [hk]
  | start k op =>
    have hk : j ≠ k := fun e => h (by simp [stepCaller, e])
    simp only [step, start]
    split
    · cases op with
      | prepare s n => simp [setCaller, hk]
      | execute a => simp only; split <;> simp [setCaller, hk]
      | batch a => simp only; split <;> simp [setCaller, hk]
    · rfl
  | recv k =>
    have hk : j ≠ k := fun e => h (by simp [stepCaller, e])
    simp only [step, recv]
    repeat' split
    all_goals simp [finish, send, setCaller, setCur, hk]

/-! ## Part A.2 — the driver's reactions, for every state -/

/-- every field of an EXECUTE frame except the skip flag and the presented metadata id comes from the statement
object (id) and the operation (complete value list, consistency, serial consistency, timestamp, page size, paging
state) -/
theorem execFrame_fields (s : Stmt) (op : ExecOp) (cp : CParams) :
    execFrame s op cp = ⟨s.id, cp.mid, cp.skip, op.values, op.cl, op.scl, op.ts, op.pageSize, op.ps⟩ := rfl

/-- two frames of the same operation and statement differ at most in skip flag and presented metadata id -/
def SameButMetadata (a b : ExecReq) : Prop :=
  a.id = b.id ∧ a.values = b.values ∧ a.cl = b.cl ∧ a.scl = b.scl ∧ a.ts = b.ts ∧ a.pageSize = b.pageSize ∧ a.ps = b.ps

/-- connection.rs:1055-1063: the statement's own timestamp wins; otherwise one is drawn from the connection's
generator (if it has one) exactly once, when the request is first built. -/
theorem drawTs_spec (st : State) (node : Nat) (own : Option Int) :
    (own.isSome → drawTs st node own = (own, st.tsCtr)) ∧
    (own = none → (st.node node).gen = false → drawTs st node own = (none, st.tsCtr)) ∧
    (own = none → (st.node node).gen = true →
      drawTs st node own = (some (Int.ofNat (1000000 + st.tsCtr)), st.tsCtr + 1)) := by
  cases own <;> simp [drawTs]

/-- connection.rs:1061-1090. The EXECUTE an execution starts with says what the caller asked for, carries the id of
the statement object, and its metadata parameters (skip flag, presented id, cached metadata kept for decoding) are
computed from the statement's result metadata AS OF THIS MOMENT. -/
theorem request_built_from_current_metadata (st : State) (k : Nat) (a : ExecArgs) (o : Nat)
    (hidle : st.caller k = ⟨.idle, .none⟩) (hslot : st.slot a.slot = some o) :
    let cp := cachedParams (st.node a.node).ext a.useCached (st.objs o).cur
    let op : ExecOp := ⟨o, a.node, a.useCached, a.cl, a.scl, (drawTs st a.node a.ts).1, a.pageSize, a.ps, a.values⟩
    let rq : Req := .execute (execFrame (st.objs o) op cp)
    start st k (.execute a) =
      (setCaller { st with tsCtr := (drawTs st a.node a.ts).2 } k ⟨.exec1 op cp.cached, .req a.node rq⟩, .sent a.node rq) := by
  simp [start, hidle, hslot]

theorem exec_unprepared_sends_prepare (st : State) (k : Nat) (op : ExecOp) (cached : Option RMeta) (uid : SId)
    (hc : st.caller k = ⟨.exec1 op cached, .resp (.unprepared uid)⟩) :
    recv st k = (setCaller st k ⟨.execPrep op, .req op.node (.prepare (st.objs op.obj).text)⟩,
                 .sent op.node (.prepare (st.objs op.obj).text)) := by
  simp [recv, hc, handleResp, send]

theorem exec_reprepared_resends (st : State) (k : Nat) (op : ExecOp) (p : PrepResp)
    (hc : st.caller k = ⟨.execPrep op, .resp (.prepared p)⟩) (hid : p.id = (st.objs op.obj).id) :
    ∃ cur', reprepare (st.objs op.obj).id (st.objs op.obj).cur p = .ok cur' ∧
      let cp := cachedParams (st.node op.node).ext op.useCached cur'
      let rq : Req := .execute (execFrame (st.objs op.obj) op cp)
      recv st k = (setCaller (setCur st op.obj cur') k ⟨.exec2 op cp.cached, .req op.node rq⟩, .sent op.node rq) := by
  rw [reprepare_ok _ _ _ hid]
  refine ⟨_, rfl, ?_⟩
  simp only [recv, hc]
  rw [reprepare_ok _ _ _ hid]
  simp [send, setCur, execFrame]

theorem exec_final_response_is_outcome (st : State) (k : Nat) (op : ExecOp) (cached : Option RMeta) (r : Resp)
    (hc : st.caller k = ⟨.exec2 op cached, .resp r⟩) :
    recv st k = (setCaller (handleResp st (st.node op.node).ext op.obj cached r) k ⟨.idle, .none⟩,
                 .done (execOutcome (st.node op.node).ext cached r)) := by
  simp [recv, hc, finish]

theorem exec_first_response_is_outcome (st : State) (k : Nat) (op : ExecOp) (cached : Option RMeta) (r : Resp)
    (hc : st.caller k = ⟨.exec1 op cached, .resp r⟩) (hr : ∀ uid, r ≠ .unprepared uid) :
    recv st k = (setCaller (handleResp st (st.node op.node).ext op.obj cached r) k ⟨.idle, .none⟩,
                 .done (execOutcome (st.node op.node).ext cached r)) := by
  cases r with
  | unprepared uid => exact absurd rfl (hr uid)
  | _ => simp [recv, hc, finish]

/-- `unprepared_transparent`, single steps (the history-level statement is `eviction_transparent` below). If the
first EXECUTE is answered UNPREPARED, then (1) a PREPARE of the same statement text is sent to the same node; (2) in
any state in which this caller waits for the re-preparation and the PREPARED response with the same id is delivered,
the same EXECUTE — same id, complete value list, consistency, serial consistency, timestamp, page size, paging state;
only the skip flag and the presented result-metadata id are recomputed — is sent to the same node; (3) in any state
in which that EXECUTE's response is delivered, that response is what the caller sees. `caller_untouched_by_others`
and `statement_identity_immutable` say that no interleaved step of another caller and no node event changes this
caller's program counter or the statement's id and text, so (2) and (3) apply at every later point of every history. -/
theorem unprepared_transparent (st : State) (k : Nat) (op : ExecOp) (cached : Option RMeta) (uid : SId)
    (h1 : st.caller k = ⟨.exec1 op cached, .resp (.unprepared uid)⟩) :
    (recv st k).2 = .sent op.node (.prepare (st.objs op.obj).text) ∧
    (recv st k).1.caller k = ⟨.execPrep op, .req op.node (.prepare (st.objs op.obj).text)⟩ ∧
    (∀ (st2 : State) (p : PrepResp), st2.caller k = ⟨.execPrep op, .resp (.prepared p)⟩ → p.id = (st2.objs op.obj).id →
      ∃ rq cached2,
        (recv st2 k).2 = .sent op.node (.execute rq) ∧
        (recv st2 k).1.caller k = ⟨.exec2 op cached2, .req op.node (.execute rq)⟩ ∧
        rq.id = (st2.objs op.obj).id ∧ rq.values = op.values ∧ rq.cl = op.cl ∧ rq.scl = op.scl ∧ rq.ts = op.ts ∧
        rq.pageSize = op.pageSize ∧ rq.ps = op.ps) ∧
    (∀ (st3 : State) (cached2 : Option RMeta) (r : Resp), st3.caller k = ⟨.exec2 op cached2, .resp r⟩ →
      (recv st3 k).2 = .done (execOutcome (st3.node op.node).ext cached2 r) ∧ (recv st3 k).1.caller k = ⟨.idle, .none⟩) := by
  refine ⟨?_, ?_, ?_, ?_⟩
  · rw [exec_unprepared_sends_prepare st k op cached uid h1]
  · rw [exec_unprepared_sends_prepare st k op cached uid h1]; simp [setCaller]
  · intro st2 p h2 hid
    obtain ⟨cur', _, h⟩ := exec_reprepared_resends st2 k op p h2 hid
    simp only at h
    rw [h]
    exact ⟨_, (cachedParams (st2.node op.node).ext op.useCached cur').cached, rfl, by simp [setCaller],
      rfl, rfl, rfl, rfl, rfl, rfl, rfl⟩
  · intro st3 cached2 r h3
    rw [exec_final_response_is_outcome st3 k op cached2 r h3]
    exact ⟨rfl, by simp [setCaller]⟩

/-- `reprepare_id_mismatch_is_error`: the re-preparation returned another id ⇒ the caller gets RepreparedIdChanged;
nothing is sent and no statement changes. -/
theorem reprepare_id_mismatch_is_error (st : State) (k : Nat) (op : ExecOp) (p : PrepResp)
    (hc : st.caller k = ⟨.execPrep op, .resp (.prepared p)⟩) (hid : p.id ≠ (st.objs op.obj).id) :
    recv st k = (setCaller st k ⟨.idle, .none⟩, .done .repreparedIdChanged) := by
  simp [recv, hc, reprepare_id_mismatch _ _ _ hid, finish]

/-- a failed re-preparation reaches the caller as that error -/
theorem reprepare_failure_is_error (st : State) (k : Nat) (op : ExecOp) (c : Nat)
    (hc : st.caller k = ⟨.execPrep op, .resp (.error c)⟩) :
    recv st k = (setCaller st k ⟨.idle, .none⟩, .done (.dbError c)) := by
  simp [recv, hc, finish]

/-- a non-PREPARED result to the re-preparation (never sent by a real node) is UnexpectedResponse -/
theorem reprepare_unexpected_result_is_error (st : State) (k : Nat) (op : ExecOp) (r : Resp)
    (hc : st.caller k = ⟨.execPrep op, .resp r⟩) (hr : r = .void ∨ ∃ rr, r = .rows rr) :
    recv st k = (setCaller st k ⟨.idle, .none⟩, .done .unexpectedResponse) := by
  rcases hr with rfl | ⟨rr, rfl⟩ <;> simp [recv, hc, finish]

theorem batch_reprepare_id_mismatch_is_error (st : State) (k : Nat) (op : BatchOp) (frame : BatchReq) (o : Nat)
    (p : PrepResp) (hc : st.caller k = ⟨.batchPrep op frame o, .resp (.prepared p)⟩) (hid : p.id ≠ (st.objs o).id) :
    recv st k = (setCaller st k ⟨.idle, .none⟩, .done .repreparedIdChanged) := by
  simp [recv, hc, reprepare_id_mismatch _ _ _ hid, finish]

/-- `execute_carries_statement_id`: whenever any step of any history puts an EXECUTE on the wire, it carries the id
of the statement object of that caller's operation (ids of statement objects never change:
`statement_identity_immutable`), the operation's complete value list and parameters, and goes to the operation's node.
In particular an id learnt from a re-preparation is never executed. -/
theorem execute_carries_statement_id (st : State) (x : Step) (n : Nat) (r : ExecReq)
    (h : (step st x).2 = .sent n (.execute r)) :
    ∃ k op cached, stepCaller x = some k ∧
      (((step st x).1.caller k).pc = .exec1 op cached ∨ ((step st x).1.caller k).pc = .exec2 op cached) ∧
      r.id = ((step st x).1.objs op.obj).id ∧ r.values = op.values ∧ n = op.node ∧
      r.cl = op.cl ∧ r.scl = op.scl ∧ r.ts = op.ts ∧ r.pageSize = op.pageSize ∧ r.ps = op.ps := by
  cases x with
  | event n' e => simp [step, eventStep] at h
  | serve k => simp only [step, serveStep] at h; split at h <;> simp at h
  | start k op =>
    simp only [step, start] at h ⊢
    split at h
    · cases op with
      | prepare s n' => simp at h
      | batch a => simp only at h; split at h <;> simp at h
      | execute a =>
        simp only at h ⊢
        split at h
        · simp at h
        · rename_i o ho
          simp only [Obs.sent.injEq, Req.execute.injEq] at h
          obtain ⟨hn, hr⟩ := h
          subst hn hr
          exact ⟨k, ⟨o, a.node, a.useCached, a.cl, a.scl, (drawTs st a.node a.ts).1, a.pageSize, a.ps, a.values⟩,
            (cachedParams (st.node a.node).ext a.useCached (st.objs o).cur).cached, rfl,
            Or.inl (by simp [setCaller]), by simp [setCaller, execFrame], by simp [execFrame], rfl,
            by simp [execFrame]⟩
    · simp at h
  | recv k =>
    simp only [step] at h ⊢
    rcases hck : st.caller k with ⟨pc, wire⟩
    cases wire with
    | none => simp [recv, hck] at h
    | req n' r' => simp [recv, hck] at h
    | resp resp =>
      cases pc with
      | idle => simp [recv, hck] at h
      | fresh s n' t => cases resp <;> simp [recv, hck, finish] at h
      | exec1 op c => cases resp <;> simp [recv, hck, finish, send] at h
      | exec2 op c => simp [recv, hck, finish] at h
      | batch op f =>
        cases resp <;> simp only [recv, hck] at h <;> (try split at h) <;> simp [finish, send] at h
      | batchPrep op f o =>
        cases resp <;> simp only [recv, hck] at h <;> (try split at h) <;> simp [finish, send] at h
      | execPrep op =>
        cases resp with
        | prepared p =>
          by_cases hid : p.id = (st.objs op.obj).id
          · obtain ⟨cur', _, hr⟩ := exec_reprepared_resends st k op p hck hid
            simp only at hr
            rw [hr] at h ⊢
            simp only [Obs.sent.injEq, Req.execute.injEq] at h
            obtain ⟨hn, hr'⟩ := h
            subst hn hr'
            exact ⟨k, op, (cachedParams (st.node op.node).ext op.useCached cur').cached, rfl,
              Or.inr (by simp [setCaller]), by simp [setCaller, setCur, execFrame], rfl, rfl, rfl, rfl, rfl, rfl, rfl⟩
          · rw [reprepare_id_mismatch_is_error st k op p hck hid] at h; simp at h
        | _ => simp [recv, hck, finish] at h

/-! ### batches -/

private theorem findInBatch_none (objs : Nat → Stmt) (id : SId) (items : List (Nat × List Nat))
    (h : ∀ it ∈ items, (objs it.1).id ≠ id) : findInBatch objs id items = none := by
  induction items with
  | nil => rfl
  | cons x xs ih =>
    obtain ⟨o, v⟩ := x
    have hx : (objs o).id ≠ id := h (o, v) (by simp)
    simp only [findInBatch, beq_iff_eq, hx, ↓reduceIte]
    exact ih (fun it hit => h it (by simp [hit]))

private theorem findInBatch_none_imp (objs : Nat → Stmt) (id : SId) (items : List (Nat × List Nat))
    (h : findInBatch objs id items = none) : ∀ it ∈ items, (objs it.1).id ≠ id := by
  induction items with
  | nil => simp
  | cons x xs ih =>
    obtain ⟨o, v⟩ := x
    simp only [findInBatch] at h
    split at h
    · simp at h
    · rename_i hne
      intro it hit
      rcases List.mem_cons.mp hit with e | e
      · subst e; simpa using hne
      · exact ih h it e

private theorem findInBatch_some (objs : Nat → Stmt) (id : SId) (items : List (Nat × List Nat)) (o : Nat)
    (h : findInBatch objs id items = some o) : (∃ v, (o, v) ∈ items) ∧ (objs o).id = id := by
  induction items with
  | nil => simp [findInBatch] at h
  | cons x xs ih =>
    obtain ⟨o', v⟩ := x
    simp only [findInBatch] at h
    split at h
    · rename_i heq
      simp only [Option.some.injEq] at h
      subst h
      exact ⟨⟨v, by simp⟩, by simpa using heq⟩
    · obtain ⟨⟨v', hv⟩, hid⟩ := ih h
      exact ⟨⟨v', by simp [hv]⟩, hid⟩

/-- connection.rs:1203-1210: the BATCH frame lists the ids of the statement objects with the caller's values -/
theorem batch_frame_says_what_was_asked (st : State) (k : Nat) (a : BatchArgs) (items : List (Nat × List Nat))
    (hidle : st.caller k = ⟨.idle, .none⟩) (hres : resolveItems st.slot a.items = some items) :
    let ts := (drawTs st a.node a.ts).1
    let frame : BatchReq := ⟨items.map (fun (o, v) => ((st.objs o).id, v)), a.cl, a.scl, ts⟩
    start st k (.batch a) =
      (setCaller { st with tsCtr := (drawTs st a.node a.ts).2 } k
         ⟨.batch ⟨a.node, a.cl, a.scl, ts, items⟩ frame, .req a.node (.batch frame)⟩, .sent a.node (.batch frame)) := by
  simp [start, hidle, hres]

/-- `batch_unknown_id_is_error`: UNPREPARED naming an id that no statement of the batch has ⇒ the caller gets
RepreparedIdMissingInBatch, nothing is sent, nothing changes. -/
theorem batch_unknown_id_is_error (st : State) (k : Nat) (op : BatchOp) (frame : BatchReq) (id : SId)
    (hc : st.caller k = ⟨.batch op frame, .resp (.unprepared id)⟩)
    (hnot : ∀ it ∈ op.items, (st.objs it.1).id ≠ id) :
    recv st k = (setCaller st k ⟨.idle, .none⟩, .done .repreparedIdMissingInBatch) := by
  simp [recv, hc, findInBatch_none _ _ _ hnot, finish]

/-- UNPREPARED naming the id of a statement of the batch ⇒ PREPARE of THAT statement's text to the same node;
and when (at whatever later point) the PREPARED response with the same id arrives, the IDENTICAL batch frame is sent
again to the same node (the loop of connection.rs:1212-1245). -/
theorem batch_known_id_reprepares_and_resends (st : State) (k : Nat) (op : BatchOp) (frame : BatchReq) (id : SId)
    (hc : st.caller k = ⟨.batch op frame, .resp (.unprepared id)⟩) (it : Nat × List Nat) (hit : it ∈ op.items)
    (hid : (st.objs it.1).id = id) :
    ∃ o, (∃ v, (o, v) ∈ op.items) ∧ (st.objs o).id = id ∧
      recv st k = (setCaller st k ⟨.batchPrep op frame o, .req op.node (.prepare (st.objs o).text)⟩,
                   .sent op.node (.prepare (st.objs o).text)) ∧
      ∀ (st2 : State) (p : PrepResp), st2.caller k = ⟨.batchPrep op frame o, .resp (.prepared p)⟩ →
        p.id = (st2.objs o).id →
        (recv st2 k).2 = .sent op.node (.batch frame) ∧
        (recv st2 k).1.caller k = ⟨.batch op frame, .req op.node (.batch frame)⟩ := by
  cases hf : findInBatch st.objs id op.items with
  | none => exact absurd hid (findInBatch_none_imp _ _ _ hf it hit)
  | some o =>
    obtain ⟨hmem, hoid⟩ := findInBatch_some _ _ _ _ hf
    refine ⟨o, hmem, hoid, by simp [recv, hc, hf, send], ?_⟩
    intro st2 p h2 hpid
    simp only [recv, h2]
    rw [reprepare_ok _ _ _ hpid]
    simp [send, setCaller]

/-! ### decoding and the current result metadata -/

/-- `decode_metadata_faithful`, driver part: the rows the caller gets are decoded with the metadata the server sent
along when it sent one; otherwise with the metadata cached FOR THIS REQUEST (the statement's current metadata when
the request was built, `request_built_from_current_metadata`); otherwise (nothing cached, nothing sent) with the
empty metadata. (`ext` = whether the operation's connection negotiated the extension: without it a METADATA_CHANGED
flag is not honoured, result.rs:767.) -/
theorem decode_metadata_used (st : State) (k : Nat) (op : ExecOp) (cached : Option RMeta) (r : RowsResp)
    (hpc : (st.caller k).pc = .exec1 op cached ∨ (st.caller k).pc = .exec2 op cached)
    (hw : (st.caller k).wire = .resp (.rows r)) (hwf : rowsMalformed (st.node op.node).ext r = false) :
    let ext := (st.node op.node).ext
    (recv st k).2 = .done (.rows (metaUsed ext cached r)
      (decodeRows (metaUsed ext cached r).cols r.rows.count r.rows.cells) r.more) ∧
    (metaUsed ext cached r =
      if r.noMeta = false then ⟨if ext then r.newId else none, r.colCount, r.cols⟩ else cached.getD RMeta.empty) := by
  constructor
  · rcases hpc with hpc | hpc <;> simp [recv, hw, hpc, finish, execOutcome, hwf]
  · cases hn : r.noMeta <;> cases cached <;> simp [metaUsed, newIdSeen, hn]

/-- the error branch of `decode_metadata_used`: NO_METADATA together with METADATA_CHANGED on a connection with the
extension is a parse error and leaves the statement alone (result.rs:822-825) -/
theorem malformed_rows_is_error (st : State) (k : Nat) (op : ExecOp) (cached : Option RMeta) (r : RowsResp)
    (hpc : (st.caller k).pc = .exec1 op cached ∨ (st.caller k).pc = .exec2 op cached)
    (hw : (st.caller k).wire = .resp (.rows r)) (hwf : rowsMalformed (st.node op.node).ext r = true) :
    recv st k = (setCaller st k ⟨.idle, .none⟩, .done .parseError) := by
  rcases hpc with hpc | hpc <;> simp [recv, hw, hpc, finish, execOutcome, hwf, handleResp]

/-- a non-UNPREPARED ERROR / a Void answer to an EXECUTE reaches the caller as such and leaves the statement alone.
Side condition `c ≠ 0x2500`: on the wire ERROR 0x2500 IS the UNPREPARED response (`Resp.unprepared`). -/
theorem exec_error_or_void_is_outcome (st : State) (k : Nat) (op : ExecOp) (cached : Option RMeta) (r : Resp)
    (hpc : (st.caller k).pc = .exec1 op cached ∨ (st.caller k).pc = .exec2 op cached)
    (hw : (st.caller k).wire = .resp r)
    (hr : r = .void ∨ ∃ c, c ≠ unpreparedCode ∧ r = .error c) :
    recv st k = (setCaller st k ⟨.idle, .none⟩,
      .done (match r with | .error c => .dbError c | _ => .void)) := by
  rcases hr with rfl | ⟨c, _, rfl⟩ <;> rcases hpc with hpc | hpc <;>
    simp [recv, hw, hpc, finish, execOutcome, handleResp]

/-- the current metadata after a Rows response was handled -/
theorem cur_after_rows (st : State) (k : Nat) (op : ExecOp) (cached : Option RMeta) (r : RowsResp)
    (hpc : (st.caller k).pc = .exec1 op cached ∨ (st.caller k).pc = .exec2 op cached)
    (hw : (st.caller k).wire = .resp (.rows r)) (hwf : rowsMalformed (st.node op.node).ext r = false) :
    ((recv st k).1.objs op.obj).cur = handleNewId (st.objs op.obj).cur (metaUsed (st.node op.node).ext cached r) := by
  rcases hpc with hpc | hpc <;> simp [recv, hw, hpc, finish, handleResp, hwf, setCaller, setCur]

/-- `next_execution_presents_latest_id`. After a response carrying metadata with a new id `m` was handled (on a
connection with the extension), the statement's current metadata has id `m` — it IS the announced metadata, unless the
statement already had id `m` (then it is kept if it is non-empty or the announced one is empty) — and the next
EXECUTE of that statement on a connection with the extension presents `m` and asks to skip the metadata, provided the
current metadata has columns; with zero columns it presents the EMPTY id and asks for the metadata (zero-column rule). -/
theorem next_execution_presents_latest_id (st : State) (k : Nat) (op : ExecOp) (cached : Option RMeta)
    (r : RowsResp) (m : Id)
    (hpc : (st.caller k).pc = .exec1 op cached ∨ (st.caller k).pc = .exec2 op cached)
    (hw : (st.caller k).wire = .resp (.rows r)) (hext0 : (st.node op.node).ext = true)
    (hnm : r.noMeta = false) (hid : r.newId = some m) :
    let st' := (recv st k).1
    (st'.objs op.obj).cur.id = some m ∧
    ((st'.objs op.obj).cur = ⟨some m, r.colCount, r.cols⟩ ∨
      ((st'.objs op.obj).cur = (st.objs op.obj).cur ∧ (st.objs op.obj).cur.id = some m ∧
        ((st.objs op.obj).cur.colCount ≠ 0 ∨ r.colCount = 0))) ∧
    (∀ (j : Nat) (a : ExecArgs), st'.caller j = ⟨.idle, .none⟩ → st'.slot a.slot = some op.obj →
      (st'.node a.node).ext = true →
      ∃ rq cp op', (start st' j (.execute a)).2 = .sent a.node (.execute rq) ∧
        ((start st' j (.execute a)).1.caller j).pc = .exec1 op' cp ∧ op'.obj = op.obj ∧
        (((st'.objs op.obj).cur.colCount ≠ 0 → rq.mid = some m ∧ rq.skip = true ∧ cp = some (st'.objs op.obj).cur) ∧
         ((st'.objs op.obj).cur.colCount = 0 → rq.mid = some "" ∧ rq.skip = false ∧ cp = none))) := by
  have hwf : rowsMalformed (st.node op.node).ext r = false := by simp [rowsMalformed, hnm]
  have hmu : metaUsed (st.node op.node).ext cached r = ⟨some m, r.colCount, r.cols⟩ := by
    simp [metaUsed, newIdSeen, hnm, hid, hext0]
  have hcur := cur_after_rows st k op cached r hpc hw hwf
  rw [hmu] at hcur
  intro st'
  have hcur' : (st'.objs op.obj).cur = handleNewId (st.objs op.obj).cur ⟨some m, r.colCount, r.cols⟩ := hcur
  refine ⟨?_, ?_, ?_⟩
  · rw [hcur']; exact handleNewId_id _ _ m rfl
  · rw [hcur']
    rcases handleNewId_cases (st.objs op.obj).cur ⟨some m, r.colCount, r.cols⟩ m rfl with h | ⟨h1, h2, h3⟩
    · left; exact h
    · right; exact ⟨h1, h2, h3⟩
  · intro j a hidle hslot hext
    have hidm : (st'.objs op.obj).cur.id = some m := by rw [hcur']; exact handleNewId_id _ _ m rfl
    rw [request_built_from_current_metadata st' j a op.obj hidle hslot]
    refine ⟨_, (cachedParams (st'.node a.node).ext a.useCached (st'.objs op.obj).cur).cached,
      ⟨op.obj, a.node, a.useCached, a.cl, a.scl, (drawTs st' a.node a.ts).1, a.pageSize, a.ps, a.values⟩, rfl,
      by simp [setCaller], rfl, ?_, ?_⟩
    · intro hne; simp [hext, cachedParams_ext_nonempty _ _ hne, hidm, execFrame]
    · intro h0; simp [hext, cachedParams_zero_cols _ _ _ h0, execFrame]

/-- `nonempty_never_replaced_by_empty`, in the transition system: a PREPARED response announcing zero columns never
changes a statement whose current metadata has columns (execution and batch re-preparation alike). -/
theorem reprepare_keeps_nonempty (st : State) (k : Nat) (o : Nat) (p : PrepResp)
    (hpc : (∃ op, (st.caller k).pc = .execPrep op ∧ op.obj = o) ∨ (∃ op frame, (st.caller k).pc = .batchPrep op frame o))
    (hw : (st.caller k).wire = .resp (.prepared p))
    (hcur : (st.objs o).cur.colCount ≠ 0) (hp : (prepMeta p).colCount = 0) :
    ((recv st k).1.objs o).cur = (st.objs o).cur := by
  rcases hpc with ⟨op, hpc, rfl⟩ | ⟨op, frame, hpc⟩
  · simp only [recv, hw, hpc]
    rcases nonempty_never_replaced_by_empty (st.objs op.obj).id (st.objs op.obj).cur p hcur hp with h | h <;>
      simp [h, finish, send, setCaller, setCur]
  · simp only [recv, hw, hpc]
    rcases nonempty_never_replaced_by_empty (st.objs o).id (st.objs o).cur p hcur hp with h | h <;>
      simp [h, finish, send, setCaller, setCur]

/-! ## Part A.3 — identity of statement objects -/

private theorem setCur_ident (st : State) (o' : Nat) (m : RMeta) (o : Nat) :
    ((setCur st o' m).objs o).id = (st.objs o).id ∧ ((setCur st o' m).objs o).text = (st.objs o).text ∧
    ((setCur st o' m).objs o).initial = (st.objs o).initial ∧ (setCur st o' m).nObjs = st.nObjs := by
  simp only [setCur, upd]; split <;> simp_all

private theorem handleResp_ident (st : State) (e : Bool) (o' : Nat) (c : Option RMeta) (r : Resp) (o : Nat) :
    ((handleResp st e o' c r).objs o).id = (st.objs o).id ∧ ((handleResp st e o' c r).objs o).text = (st.objs o).text ∧
    ((handleResp st e o' c r).objs o).initial = (st.objs o).initial ∧ (handleResp st e o' c r).nObjs = st.nObjs := by
  cases r <;> simp [handleResp]
  split
  · simp
  · exact setCur_ident _ _ _ _

/-- One step never changes the id, the text or the initially announced metadata of an existing statement object
(prepared.rs:211-219: only `current_result_metadata` is an `ArcSwap`), and objects are only ever added. -/
private theorem statement_identity_immutable_step (st : State) (x : Step) (o : Nat) (h : o < st.nObjs) :
    ((step st x).1.objs o).id = (st.objs o).id ∧ ((step st x).1.objs o).text = (st.objs o).text ∧
    ((step st x).1.objs o).initial = (st.objs o).initial ∧ st.nObjs ≤ (step st x).1.nObjs := by
  cases x with
  | event n e => simp [step, eventStep]
  | serve k => simp only [step, serveStep]; split <;> simp
  | start k op =>
    simp only [step, start]
    split
    · cases op with
      | prepare s n => simp [setCaller]
      | execute a => simp only; split <;> simp [setCaller]
      | batch a => simp only; split <;> simp [setCaller]
    · simp
  | recv k =>
    simp only [step]
    rcases hck : st.caller k with ⟨pc, wire⟩
    cases wire with
    | none => simp [recv, hck]
    | req n' r' => simp [recv, hck]
    | resp resp =>
      cases pc with
      | idle => simp [recv, hck]
      | fresh s n' t =>
        have hne : o ≠ st.nObjs := Nat.ne_of_lt h
        cases resp <;> simp [recv, hck, finish, setCaller, upd, hne]
      | exec1 op c =>
        have := handleResp_ident st (st.node op.node).ext op.obj c resp o
        cases resp <;> simp_all [recv, finish, send, setCaller] <;> omega
      | exec2 op c =>
        have := handleResp_ident st (st.node op.node).ext op.obj c resp o
        simp_all [recv, finish, setCaller]
      | execPrep op =>
        cases resp <;> simp only [recv, hck] <;> (try split) <;>
          simp [finish, send, setCaller, setCur_ident, (setCur_ident _ _ _ o).2.2.2]
      | batch op f =>
        cases resp <;> simp only [recv, hck] <;> (try split) <;> simp [finish, send, setCaller]
      | batchPrep op f o' =>
        cases resp <;> simp only [recv, hck] <;> (try split) <;>
          simp [finish, send, setCaller, setCur_ident, (setCur_ident _ _ _ o).2.2.2]

/-- `statement_identity_immutable`: over ANY history. -/
theorem statement_identity_immutable (xs : List Step) (st : State) (o : Nat) (h : o < st.nObjs) :
    ((exec st xs).objs o).id = (st.objs o).id ∧ ((exec st xs).objs o).text = (st.objs o).text ∧
    ((exec st xs).objs o).initial = (st.objs o).initial ∧ st.nObjs ≤ (exec st xs).nObjs := by
  induction xs generalizing st with
  | nil => simp [exec]
  | cons x xs ih =>
    obtain ⟨h1, h2, h3, h4⟩ := statement_identity_immutable_step st x o h
    obtain ⟨g1, g2, g3, g4⟩ := ih (step st x).1 (Nat.lt_of_lt_of_le h h4)
    simp only [exec]
    exact ⟨g1.trans h1, g2.trans h2, g3.trans h3, Nat.le_trans h4 g4⟩

/-! ## Part A.4 — reachability: statement objects, slots and program counters stay well-formed -/

/-- a statement object was created from a PREPARED answer to a PREPARE of exactly its text: the node knows the text as
a statement, and the id the object holds was issued for EXACTLY that text (ids are functions of the exact bytes) -/
def ObjOK (o : Stmt) : Prop := o.id.text = o.text ∧ ∃ s, stmtOfText o.text = some s

/-- program counters only refer to existing statement objects (`n` = number of objects) -/
def PcOK (n : Nat) : Pc → Prop
  | .idle => True
  | .fresh _ _ _ => True
  | .exec1 op _ => op.obj < n
  | .execPrep op => op.obj < n
  | .exec2 op _ => op.obj < n
  | .batch op _ => ∀ it ∈ op.items, it.1 < n
  | .batchPrep op _ o => o < n ∧ ∀ it ∈ op.items, it.1 < n

/-- a first preparation in flight: the PREPARE carries the text the caller gave, byte for byte, and a PREPARED answer
to it names exactly that text -/
def WireOK (c : Caller) : Prop :=
  match c.pc, c.wire with
  | .fresh _ _ text, .req _ r => r = .prepare text
  | .fresh _ _ text, .resp (.prepared p) => p.id.text = text ∧ ∃ s, stmtOfText text = some s
  | _, _ => True

/-- well-formedness of a reachable state -/
def WF (st : State) : Prop :=
  (∀ o, o < st.nObjs → ObjOK (st.objs o)) ∧ (∀ s o, st.slot s = some o → o < st.nObjs) ∧
  (∀ k, PcOK st.nObjs (st.caller k).pc ∧ WireOK (st.caller k))

private theorem PcOK_mono {n m : Nat} (h : n ≤ m) (pc : Pc) (hp : PcOK n pc) : PcOK m pc := by
  cases pc <;> simp only [PcOK] at hp ⊢
  · exact Nat.lt_of_lt_of_le hp h
  · exact Nat.lt_of_lt_of_le hp h
  · exact Nat.lt_of_lt_of_le hp h
  · exact fun it hit => Nat.lt_of_lt_of_le (hp it hit) h
  · exact ⟨Nat.lt_of_lt_of_le hp.1 h, fun it hit => Nat.lt_of_lt_of_le (hp.2 it hit) h⟩

private theorem serve_prepared_id (n : Node) (t : String) (p : PrepResp) (h : (serve n (.prepare t)).2 = .prepared p) :
    p.id.text = t ∧ ∃ s, stmtOfText t = some s := by
  simp only [serve] at h
  split at h
  · simp at h
  · rename_i s hs
    split at h
    · simp at h
    · split at h
      · simp at h
      · simp only [Resp.prepared.injEq] at h
        subst h
        exact ⟨rfl, s, hs⟩

private theorem resolveItems_lt (slot : Nat → Option Nat) (n : Nat) (hs : ∀ s o, slot s = some o → o < n)
    (items r : List (Nat × List Nat)) (h : resolveItems slot items = some r) : ∀ it ∈ r, it.1 < n := by
  induction items generalizing r with
  | nil => simp [resolveItems] at h; subst h; simp
  | cons x xs ih =>
    obtain ⟨s, v⟩ := x
    simp only [resolveItems] at h
    split at h
    · rename_i o r' ho hr'
      simp only [Option.some.injEq] at h
      subst h
      intro it hit
      rcases List.mem_cons.mp hit with e | e
      · subst e; exact hs s o ho
      · exact ih r' hr' it e
    · simp at h

private theorem nObjs_mono_step (st : State) (x : Step) : st.nObjs ≤ (step st x).1.nObjs := by
  by_cases h0 : 0 < st.nObjs
  · exact (statement_identity_immutable_step st x 0 h0).2.2.2
  · have : st.nObjs = 0 := by omega
    omega

private theorem objOK_of_ident {a b : Stmt} (h1 : b.id = a.id) (h2 : b.text = a.text) (h : ObjOK a) : ObjOK b := by
  obtain ⟨hi, s, hs⟩ := h
  exact ⟨by rw [h1, h2]; exact hi, s, by rw [h2]; exact hs⟩

/-- `WF` is preserved by every step of every kind. -/
theorem wf_step (st : State) (x : Step) (hwf : WF st) : WF (step st x).1 := by
  obtain ⟨hobjs, hslots, hcallers⟩ := hwf
  have hmono := nObjs_mono_step st x
  -- callers other than the one stepping
  have hother : ∀ j, stepCaller x ≠ some j →
      PcOK (step st x).1.nObjs ((step st x).1.caller j).pc ∧ WireOK ((step st x).1.caller j) := by
    intro j hj
    rw [other_steps_keep_caller st x j hj]
    exact ⟨PcOK_mono hmono _ (hcallers j).1, (hcallers j).2⟩
  cases x with
  | event n e =>
    exact ⟨hobjs, hslots, fun k => hother k (by simp [stepCaller])⟩
  | serve k =>
    refine ⟨?_, ?_, ?_⟩
    · intro o ho
      have : (step st (.serve k)).1.objs = st.objs := by simp only [step, serveStep]; split <;> rfl
      have hn : (step st (.serve k)).1.nObjs = st.nObjs := by simp only [step, serveStep]; split <;> rfl
      rw [this]; exact hobjs o (hn ▸ ho)
    · intro s o hso
      have : (step st (.serve k)).1.slot = st.slot := by simp only [step, serveStep]; split <;> rfl
      have hn : (step st (.serve k)).1.nObjs = st.nObjs := by simp only [step, serveStep]; split <;> rfl
      rw [hn]; exact hslots s o (this ▸ hso)
    · intro j
      by_cases hj : j = k
      · subst hj
        have hk := hcallers j
        simp only [step, serveStep]
        split
        · rename_i n r hw
          simp only [upd_same]
          refine ⟨hk.1, ?_⟩
          cases hpc : (st.caller j).pc <;> simp only [WireOK, hpc] <;> try trivial
          rename_i slot node text
          have hreq : r = .prepare text := by
            have := hk.2; simp only [WireOK, hpc, hw] at this; exact this
          subst hreq
          cases hr : (serve (st.node n) (.prepare text)).2 <;> simp only [hr] <;> try trivial
          exact serve_prepared_id _ _ _ hr
        · exact hk
      · exact hother j (by simp [stepCaller]; exact fun e => hj e.symm)
  | start k op =>
    have hobjs' : (step st (.start k op)).1.objs = st.objs := by
      simp only [step, start]
      split
      · cases op with
        | prepare s n => simp [setCaller]
        | execute a => simp only; split <;> simp [setCaller]
        | batch a => simp only; split <;> simp [setCaller]
      · rfl
    have hn : (step st (.start k op)).1.nObjs = st.nObjs := by
      simp only [step, start]
      split
      · cases op with
        | prepare s n => simp [setCaller]
        | execute a => simp only; split <;> simp [setCaller]
        | batch a => simp only; split <;> simp [setCaller]
      · rfl
    have hslot' : (step st (.start k op)).1.slot = st.slot := by
      simp only [step, start]
      split
      · cases op with
        | prepare s n => simp [setCaller]
        | execute a => simp only; split <;> simp [setCaller]
        | batch a => simp only; split <;> simp [setCaller]
      · rfl
    refine ⟨fun o ho => by rw [hobjs']; exact hobjs o (hn ▸ ho),
            fun s o h => by rw [hn]; exact hslots s o (hslot' ▸ h), ?_⟩
    intro j
    by_cases hj : j = k
    · subst hj
      have hk := hcallers j
      rw [hn]
      simp only [step, start]
      split
      · cases op with
        | prepare s n => simp [setCaller, PcOK, WireOK]
        | execute a =>
          simp only
          split
          · exact hk
          · rename_i o ho
            simp only [setCaller, upd_same, PcOK, WireOK]
            exact ⟨hslots _ _ ho, trivial⟩
        | batch a =>
          simp only
          split
          · exact hk
          · rename_i items hres
            simp only [setCaller, upd_same, PcOK, WireOK]
            exact ⟨resolveItems_lt st.slot st.nObjs hslots _ _ hres, trivial⟩
      · exact hk
    · exact hother j (by simp [stepCaller]; exact fun e => hj e.symm)
  | recv k =>
    have hk := hcallers k
    rcases hck : st.caller k with ⟨pc, wire⟩
    rw [hck] at hk
    -- everything except a fresh prepare keeps objects' identity and the slots
    have hold : ∀ o, o < st.nObjs → ObjOK ((step st (.recv k)).1.objs o) := fun o ho =>
      objOK_of_ident (statement_identity_immutable_step st (.recv k) o ho).1
        (statement_identity_immutable_step st (.recv k) o ho).2.1 (hobjs o ho)
    have hfinal : ∀ j, j ≠ k →
        PcOK (step st (.recv k)).1.nObjs ((step st (.recv k)).1.caller j).pc ∧ WireOK ((step st (.recv k)).1.caller j) :=
      fun j hj => hother j (by simp [stepCaller]; exact fun e => hj e.symm)
    cases wire with
    | none =>
      have : (step st (.recv k)).1 = st := by simp [step, recv, hck]
      rw [this]; exact ⟨hobjs, hslots, hcallers⟩
    | req n' r' =>
      have : (step st (.recv k)).1 = st := by simp [step, recv, hck]
      rw [this]; exact ⟨hobjs, hslots, hcallers⟩
    | resp resp =>
      by_cases hfresh : ∃ slot node text p, pc = .fresh slot node text ∧ resp = .prepared p
      · obtain ⟨slot, node, text, p, rfl, rfl⟩ := hfresh
        obtain ⟨hptext, hknown⟩ : p.id.text = text ∧ ∃ s, stmtOfText text = some s := by
          have := hk.2; simpa [WireOK] using this
        have hst : (step st (.recv k)).1 =
            setCaller { st with objs := upd st.objs st.nObjs ⟨text, p.id, prepMeta p, prepMeta p⟩, nObjs := st.nObjs + 1,
                                slot := upd st.slot slot (some st.nObjs) } k ⟨.idle, .none⟩ := by
          simp [step, recv, hck, finish]
        rw [hst]
        refine ⟨?_, ?_, ?_⟩
        · intro o ho
          simp only [setCaller, upd] at ho ⊢
          split
          · exact ⟨hptext, hknown⟩
          · exact hobjs o (by omega)
        · intro s' o hso
          simp only [setCaller, upd] at hso ⊢
          split at hso
          · simp only [Option.some.injEq] at hso; omega
          · exact Nat.lt_succ_of_lt (hslots s' o hso)
        · intro j
          simp only [setCaller, upd]
          split
          · simp [PcOK, WireOK]
          · exact ⟨PcOK_mono (Nat.le_succ _) _ (hcallers j).1, (hcallers j).2⟩
      · -- no object is created: nObjs and slots unchanged
        have hR : ∀ (e : Bool) (o : Nat) (c : Option RMeta) (r : Resp),
            (handleResp st e o c r).nObjs = st.nObjs ∧ (handleResp st e o c r).slot = st.slot := by
          intro e o c r
          cases r <;> simp [handleResp]
          split <;> simp [setCur]
        have hn : (step st (.recv k)).1.nObjs = st.nObjs ∧ (step st (.recv k)).1.slot = st.slot := by
          cases pc with
          | idle => simp [step, recv, hck]
          | fresh slot node text =>
            cases resp with
            | prepared p => exact absurd ⟨_, _, _, _, rfl, rfl⟩ hfresh
            | _ => simp [step, recv, hck, finish, setCaller]
          | exec1 op c => cases resp <;> simp [step, recv, hck, finish, send, setCaller, hR]
          | exec2 op c => simp [step, recv, hck, finish, setCaller, hR]
          | execPrep op =>
            cases resp <;> simp only [step, recv, hck] <;> (try split) <;> simp [finish, send, setCaller, setCur]
          | batch op f =>
            cases resp <;> simp only [step, recv, hck] <;> (try split) <;> simp [finish, send, setCaller]
          | batchPrep op f o =>
            cases resp <;> simp only [step, recv, hck] <;> (try split) <;> simp [finish, send, setCaller, setCur]
        refine ⟨fun o ho => hold o (hn.1 ▸ ho), fun s o h => by rw [hn.1]; exact hslots s o (hn.2 ▸ h), ?_⟩
        intro j
        by_cases hj : j = k
        · subst hj
          rw [hn.1]
          have hpk := hk.1
          cases pc with
          | idle => simp [step, recv, hck, PcOK, WireOK]
          | fresh slot node text =>
            cases resp with
            | prepared p => exact absurd ⟨_, _, _, _, rfl, rfl⟩ hfresh
            | _ => simp [step, recv, hck, finish, setCaller, PcOK, WireOK]
          | exec1 op c =>
            simp only [PcOK] at hpk
            cases resp <;> simp [step, recv, hck, finish, send, setCaller, PcOK, WireOK, hpk]
          | exec2 op c => simp [step, recv, hck, finish, setCaller, PcOK, WireOK]
          | execPrep op =>
            simp only [PcOK] at hpk
            cases resp <;> simp only [step, recv, hck] <;> (try split) <;>
              simp [finish, send, setCaller, PcOK, WireOK, hpk]
          | batch op f =>
            simp only [PcOK] at hpk
            cases resp with
            | unprepared id =>
              simp only [step, recv, hck]
              split
              · rename_i o ho
                obtain ⟨⟨v, hv⟩, _⟩ := findInBatch_some _ _ _ _ ho
                simp only [send, setCaller, upd_same, PcOK, WireOK]
                exact ⟨⟨hpk _ hv, hpk⟩, trivial⟩
              · simp [finish, setCaller, PcOK, WireOK]
            | _ => simp [step, recv, hck, finish, setCaller, PcOK, WireOK]
          | batchPrep op f o =>
            simp only [PcOK] at hpk
            cases resp <;> simp only [step, recv, hck] <;> (try split) <;>
              simp [finish, send, setCaller, PcOK, WireOK]
            exact fun a b h => hpk.2 (a, b) h
        · exact hfinal j hj

/-- `WF` holds along EVERY history. -/
theorem wf_exec (xs : List Step) (st : State) (hwf : WF st) : WF (exec st xs) := by
  induction xs generalizing st with
  | nil => exact hwf
  | cons x xs ih => exact ih _ (wf_step st x hwf)

/-! ### the statement text is sent exactly as the caller gave it -/

/-- the first preparation: the PREPARE frame carries the text the caller passed to `prepare()`, byte for byte -/
theorem first_preparation_sends_given_text (st : State) (k slot node : Nat) (text : String)
    (hidle : st.caller k = ⟨.idle, .none⟩) :
    start st k (.prepare slot node text) =
      (setCaller st k ⟨.fresh slot node text, .req node (.prepare text)⟩, .sent node (.prepare text)) := by
  simp [start, hidle]

/-- … and the statement object created from the PREPARED answer stores exactly that text (it never changes
afterwards: `statement_identity_immutable`) together with the id the node issued -/
theorem created_object_keeps_given_text (st : State) (k slot node : Nat) (text : String) (p : PrepResp)
    (hc : st.caller k = ⟨.fresh slot node text, .resp (.prepared p)⟩) :
    (recv st k).1.slot slot = some st.nObjs ∧ ((recv st k).1.objs st.nObjs).text = text ∧
    ((recv st k).1.objs st.nObjs).id = p.id := by
  simp [recv, hc, finish, setCaller]

/-- `reprepare_sends_original_text`: EVERY PREPARE any step of any history puts on the wire is either a first
preparation carrying the caller's text, or a re-preparation - after UNPREPARED to an EXECUTE or to a BATCH - carrying
the stored text of that statement object UNCHANGED (no trimming, no normalisation: a node derives the id from the
exact bytes, `serve`: `idOf text idv`), to the operation's node. -/
theorem reprepare_sends_original_text (st : State) (x : Step) (n : Nat) (t : String)
    (h : (step st x).2 = .sent n (.prepare t)) :
    (∃ k slot, x = .start k (.prepare slot n t)) ∨
    (∃ k op cached, x = .recv k ∧ (st.caller k).pc = .exec1 op cached ∧ t = (st.objs op.obj).text ∧ n = op.node) ∨
    (∃ k op frame o, x = .recv k ∧ (st.caller k).pc = .batch op frame ∧ (∃ v, (o, v) ∈ op.items) ∧
      t = (st.objs o).text ∧ n = op.node) := by
  cases x with
  | event n' e => simp [step, eventStep] at h
  | serve k => simp only [step, serveStep] at h; split at h <;> simp at h
  | start k op =>
    simp only [step, start] at h
    split at h
    · cases op with
      | prepare s n' text =>
        simp only [Obs.sent.injEq, Req.prepare.injEq] at h
        obtain ⟨hn, ht⟩ := h
        subst hn ht
        exact Or.inl ⟨k, s, rfl⟩
      | batch a => simp only at h; split at h <;> simp at h
      | execute a => simp only at h; split at h <;> simp at h
    · simp at h
  | recv k =>
    simp only [step] at h
    rcases hck : st.caller k with ⟨pc, wire⟩
    cases wire with
    | none => simp [recv, hck] at h
    | req n' r' => simp [recv, hck] at h
    | resp resp =>
      cases pc with
      | idle => simp [recv, hck] at h
      | fresh s n' t' => cases resp <;> simp [recv, hck, finish] at h
      | exec2 op c => simp [recv, hck, finish] at h
      | execPrep op =>
        cases resp <;> simp only [recv, hck] at h <;> (try split at h) <;> simp [finish, send] at h
      | batchPrep op f o =>
        cases resp <;> simp only [recv, hck] at h <;> (try split at h) <;> simp [finish, send] at h
      | exec1 op c =>
        cases resp with
        | unprepared uid =>
          rw [exec_unprepared_sends_prepare st k op c uid hck] at h
          simp only [Obs.sent.injEq, Req.prepare.injEq] at h
          exact Or.inr (Or.inl ⟨k, op, c, rfl, by rw [hck], h.2.symm, h.1.symm⟩)
        | _ => simp [recv, hck, finish] at h
      | batch op f =>
        cases resp with
        | unprepared id =>
          simp only [recv, hck] at h
          split at h
          · rename_i o ho
            obtain ⟨hv, _⟩ := findInBatch_some _ _ _ _ ho
            simp only [send, Obs.sent.injEq, Req.prepare.injEq] at h
            exact Or.inr (Or.inr ⟨k, op, f, o, rfl, by rw [hck], hv, h.2.symm, h.1.symm⟩)
          · simp [finish] at h
        | _ => simp [recv, hck, finish] at h

/-! ## Part B — end to end, under the server assumption

ASSUMPTION (about ScyllaDB, not proved, stated as hypotheses `NodeOK` / `EventOK` and as the definition `serve`):
a node's result-metadata id determines its columns (`colsOf`, an arbitrary function: "the id is a hash of the
metadata"), ids are non-empty byte strings, a schema change installs such a pair, and a node answers EXECUTE as
`serve` says (metadata + id iff the presented id is not its current one; NO_METADATA iff skip was requested). -/

section EndToEnd
variable (colsOf : Id → List Col)

/-- metadata with an id and columns carries the columns that id stands for -/
def GoodMeta (m : RMeta) : Prop := ∀ i, m.id = some i → m.colCount ≠ 0 → m.cols = colsOf i

def NodeOK (n : Node) : Prop :=
  n.ov = none ∧ ∀ s, (n.st s).smeta.cols = colsOf (n.st s).smeta.mid ∧ (n.st s).smeta.mid ≠ ""

def EventOK : Event → Prop
  | .schemaChange _ m => m.cols = colsOf m.mid ∧ m.mid ≠ ""
  | .override _ => False
  | _ => True

def RespOK : Resp → Prop
  | .rows r => ∀ i, r.newId = some i → r.cols = colsOf i
  | .prepared p => GoodMeta colsOf (prepMeta p)
  | _ => True

/-- what links a request in flight to the metadata cached for decoding its response -/
def ParamsOK (ext : Bool) (cached : Option RMeta) (r : ExecReq) : Prop :=
  r.skip = cached.isSome ∧ (ext = true → r.mid = some (match cached with | some cm => cm.id.getD "" | none => ""))

def CachedOK (cached : Option RMeta) : Prop := ∀ cm, cached = some cm → GoodMeta colsOf cm ∧ cm.colCount ≠ 0

def CallerOK (ext : Nat → Bool) (c : Caller) : Prop :=
  (match c.pc with
   | .exec1 op cached => CachedOK colsOf cached ∧ ∀ n r, c.wire = .req n (.execute r) → n = op.node ∧ ParamsOK (ext n) cached r
   | .exec2 op cached => CachedOK colsOf cached ∧ ∀ n r, c.wire = .req n (.execute r) → n = op.node ∧ ParamsOK (ext n) cached r
   | _ => True) ∧
  (∀ r, c.wire = .resp r → RespOK colsOf r)

/-- the invariant of all histories -/
def Inv (st : State) : Prop :=
  (∀ n, NodeOK colsOf (st.node n)) ∧ (∀ o, GoodMeta colsOf (st.objs o).cur) ∧
  (∀ k, CallerOK colsOf (fun n => (st.node n).ext) (st.caller k))

private theorem handleNewId_either (cur mu : RMeta) : handleNewId cur mu = cur ∨ handleNewId cur mu = mu := by
  unfold handleNewId
  split
  · left; rfl
  · simp only
    split
    · right; rfl
    · left; rfl

private theorem reprepare_either (id : SId) (cur : RMeta) (p : PrepResp) (m : RMeta) (h : reprepare id cur p = .ok m) :
    m = cur ∨ m = prepMeta p := by
  by_cases hid : p.id = id
  · rw [reprepare_ok _ _ _ hid] at h
    simp only [Except.ok.injEq] at h
    split at h
    · right; exact h.symm
    · left; exact h.symm
  · rw [reprepare_id_mismatch _ _ _ hid] at h; cases h

private theorem goodMeta_empty : GoodMeta colsOf RMeta.empty := by
  intro i h; simp [RMeta.empty] at h

private theorem goodMeta_metaUsed (ext : Bool) (cached : Option RMeta) (r : RowsResp) (hc : CachedOK colsOf cached)
    (hr : RespOK colsOf (.rows r)) : GoodMeta colsOf (metaUsed ext cached r) := by
  unfold metaUsed
  split
  · cases cached with
    | none => exact goodMeta_empty colsOf
    | some c => exact (hc c rfl).1
  · intro i hi _
    cases ext <;> simp [newIdSeen] at hi
    exact hr i hi

private theorem cachedParams_ok (ext u : Bool) (cur : RMeta) (hg : GoodMeta colsOf cur) :
    CachedOK colsOf (cachedParams ext u cur).cached ∧
    ∀ (id : SId) (vals : List Nat) (cl : Nat) (scl : Option Nat) (ts : Option Int) (pg : Option Nat) (ps : Option String),
      ParamsOK ext (cachedParams ext u cur).cached
        ⟨id, (cachedParams ext u cur).mid, (cachedParams ext u cur).skip, vals, cl, scl, ts, pg, ps⟩ := by
  by_cases h0 : cur.colCount = 0
  · rw [cachedParams_zero_cols _ _ _ h0]
    refine ⟨fun cm h => by simp at h, fun _ _ _ _ _ _ _ => ⟨by simp, fun he => by simp [he]⟩⟩
  · cases ext with
    | true =>
      rw [cachedParams_ext_nonempty _ _ h0]
      exact ⟨fun cm h => by simp at h; subst h; exact ⟨hg, h0⟩, fun _ _ _ _ _ _ _ => ⟨by simp, fun _ => by simp⟩⟩
    | false =>
      rw [cachedParams_noext _ _ h0]
      refine ⟨fun cm h => ?_, fun _ _ _ _ _ _ _ => ⟨by cases u <;> simp, fun he => by simp at he⟩⟩
      cases u <;> simp at h
      subst h; exact ⟨hg, h0⟩

private theorem serve_ext (n : Node) (r : Req) : (serve n r).1.ext = n.ext := by
  cases r <;> simp only [serve] <;> (repeat' split) <;> first | rfl | simp

private theorem serve_st (n : Node) (r : Req) : (serve n r).1.st = n.st := by
  cases r <;> simp only [serve] <;> (repeat' split) <;> first | rfl | simp

private theorem serve_ov (n : Node) (r : Req) (h : n.ov = none) : (serve n r).1.ov = none := by
  cases r <;> simp only [serve, h] <;> (repeat' split) <;> first | rfl | simp_all [isExecOv]

/-- without a pending byzantine answer `serve` is the plain abstract server -/
theorem serve_plain_execute (n : Node) (r : ExecReq) (hov : n.ov = none) :
    serve n (.execute r) =
      match lookupId r.id n.prepared with
      | none => (n, .unprepared (if n.liar then bogusId else r.id))
      | some s =>
        let m := (n.st s).smeta
        let g := genRows m.cols (r.values.headD 0) r.pageSize r.ps
        if (n.ext && r.mid != some m.mid) = true then
          (n, .rows ⟨false, some m.mid, m.cols.length, m.cols, g.2, g.1⟩)
        else if r.skip = true then (n, .rows ⟨true, none, m.cols.length, [], g.2, g.1⟩)
        else (n, .rows ⟨false, none, m.cols.length, m.cols, g.2, g.1⟩) := by
  have h1 : ∀ o : Ov, ((none : Option Ov) == some o) = false := fun o => rfl
  cases h : lookupId r.id n.prepared with
  | none => simp [serve, h]
  | some s =>
    simp only [serve, h, hov, isExecOv, h1, Bool.false_eq_true, ↓reduceIte, Bool.false_and, Bool.not_false, Bool.and_true]

theorem serve_plain_prepare (n : Node) (text : String) (s : Nat) (hov : n.ov = none)
    (hs : stmtOfText text = some s) (hpf : (n.st s).prepFail = false) :
    serve n (.prepare text) =
      ({ n with prepared := idOf text (n.st s).idv :: n.prepared },
       .prepared ⟨idOf text (n.st s).idv, if n.ext then some (announcedMid (n.st s).kind (n.st s).smeta) else none,
                  !((n.st s).kind == .normal),
                  if (n.st s).kind == .normal then (n.st s).smeta.cols.length else 0,
                  if (n.st s).kind == .normal then (n.st s).smeta.cols else []⟩) := by
  simp [serve, hov, hs, hpf]

/-- every response the abstract server produces is well-formed w.r.t. `colsOf` -/
theorem serve_respOK (n : Node) (r : Req) (hn : NodeOK colsOf n) : RespOK colsOf (serve n r).2 := by
  obtain ⟨hov, hst⟩ := hn
  cases r with
  | prepare t =>
    cases hs : stmtOfText t with
    | none => simp [serve, hs, RespOK]
    | some s =>
      cases hpf : (n.st s).prepFail with
      | true => simp [serve, hs, hpf, RespOK]
      | false =>
        rw [serve_plain_prepare n t s hov hs hpf]
        simp only [RespOK, GoodMeta, prepMeta]
        intro i hi hcc
        cases hk : (n.st s).kind <;> simp [hk] at hcc hi ⊢
        cases he : n.ext <;> simp [he, announcedMid] at hi
        subst hi
        exact (hst s).1
  | execute r =>
    rw [serve_plain_execute n r hov]
    split
    · simp [RespOK]
    · rename_i s _
      simp only
      split <;> (try split) <;> simp [RespOK]
      exact (hst s).1
  | batch b => simp only [serve]; split <;> simp [RespOK]

private theorem applyEvent_ext (n : Node) (e : Event) : (applyEvent n e).ext = n.ext := by
  cases e <;> simp [applyEvent]

theorem applyEvent_ok (n : Node) (e : Event) (hn : NodeOK colsOf n) (he : EventOK colsOf e) :
    NodeOK colsOf (applyEvent n e) := by
  obtain ⟨hov, hn⟩ := hn
  cases e with
  | evict s => exact ⟨hov, hn⟩
  | liar on => exact ⟨hov, hn⟩
  | override o => exact absurd he (by simp [EventOK])
  | schemaChange s m =>
    refine ⟨hov, fun s' => ?_⟩
    simp only [applyEvent, setSt]
    split
    · exact he
    · exact hn s'
  | idChange s =>
    refine ⟨hov, fun s' => ?_⟩
    simp only [applyEvent, setSt]
    split
    · rename_i h; subst h; exact hn s'
    · exact hn s'
  | prepFail s on =>
    refine ⟨hov, fun s' => ?_⟩
    simp only [applyEvent, setSt]
    split
    · rename_i h; subst h; exact hn s'
    · exact hn s'

private theorem recv_node (st : State) (k : Nat) : (recv st k).1.node = st.node := by
  rcases hck : st.caller k with ⟨pc, wire⟩
  cases wire with
  | none => simp [recv, hck]
  | req n' r' => simp [recv, hck]
  | resp resp =>
    cases pc <;> cases resp <;> simp only [recv, hck] <;> (try split) <;>
      simp [finish, send, setCaller, setCur]

private theorem start_node (st : State) (k : Nat) (op : Op) : (start st k op).1.node = st.node := by
  simp only [start]
  split
  · cases op with
    | prepare s n => simp [setCaller]
    | execute a => simp only; split <;> simp [setCaller]
    | batch a => simp only; split <;> simp [setCaller]
  · rfl

private theorem start_objs (st : State) (k : Nat) (op : Op) : (start st k op).1.objs = st.objs := by
  simp only [start]
  split
  · cases op with
    | prepare s n => simp [setCaller]
    | execute a => simp only; split <;> simp [setCaller]
    | batch a => simp only; split <;> simp [setCaller]
  · rfl

private theorem goodMeta_setCur (st : State) (o' : Nat) (m : RMeta) (hst : ∀ o, GoodMeta colsOf (st.objs o).cur)
    (hm : GoodMeta colsOf m) : ∀ o, GoodMeta colsOf ((setCur st o' m).objs o).cur := by
  intro o
  simp only [setCur, upd]
  split
  · exact hm
  · exact hst o

private theorem recv_objs_good (st : State) (k : Nat) (hinv : Inv colsOf st) :
    ∀ o, GoodMeta colsOf ((recv st k).1.objs o).cur := by
  obtain ⟨_, hobjs, hcallers⟩ := hinv
  have hk := hcallers k
  rcases hck : st.caller k with ⟨pc, wire⟩
  rw [hck] at hk
  cases wire with
  | none => simpa [recv, hck] using hobjs
  | req n' r' => simpa [recv, hck] using hobjs
  | resp resp =>
    have hresp : RespOK colsOf resp := hk.2 resp rfl
    cases pc with
    | idle => simpa [recv, hck] using hobjs
    | fresh s n' t =>
      cases resp with
      | prepared p =>
        intro o
        simp only [recv, hck, finish, setCaller, upd]
        split
        · exact hresp
        · exact hobjs o
      | _ => simpa [recv, hck, finish, setCaller] using hobjs
    | exec1 op c =>
      have hc : CachedOK colsOf c := hk.1.1
      cases resp with
      | rows r =>
        simp only [recv, hck, finish, setCaller, handleResp]
        split
        · exact hobjs
        · apply goodMeta_setCur colsOf _ _ _ hobjs
          rcases handleNewId_either (st.objs op.obj).cur (metaUsed (st.node op.node).ext c r) with h | h <;> rw [h]
          · exact hobjs _
          · exact goodMeta_metaUsed colsOf _ c r hc hresp
      | _ => simpa [recv, hck, finish, send, setCaller, handleResp] using hobjs
    | exec2 op c =>
      have hc : CachedOK colsOf c := hk.1.1
      cases resp with
      | rows r =>
        simp only [recv, hck, finish, setCaller, handleResp]
        split
        · exact hobjs
        · apply goodMeta_setCur colsOf _ _ _ hobjs
          rcases handleNewId_either (st.objs op.obj).cur (metaUsed (st.node op.node).ext c r) with h | h <;> rw [h]
          · exact hobjs _
          · exact goodMeta_metaUsed colsOf _ c r hc hresp
      | _ => simpa [recv, hck, finish, setCaller, handleResp] using hobjs
    | execPrep op =>
      cases resp with
      | prepared p =>
        simp only [recv, hck]
        split
        · simpa [finish, setCaller] using hobjs
        · rename_i m hm
          simp only [send, setCaller]
          apply goodMeta_setCur colsOf _ _ _ hobjs
          rcases reprepare_either _ _ _ _ hm with h | h <;> rw [h]
          · exact hobjs _
          · exact hresp
      | _ => simpa [recv, hck, finish, setCaller] using hobjs
    | batch op f =>
      cases resp <;> simp only [recv, hck] <;> (try split) <;> simpa [finish, send, setCaller] using hobjs
    | batchPrep op f o' =>
      cases resp with
      | prepared p =>
        simp only [recv, hck]
        split
        · simpa [finish, setCaller] using hobjs
        · rename_i m hm
          simp only [send, setCaller]
          apply goodMeta_setCur colsOf _ _ _ hobjs
          rcases reprepare_either _ _ _ _ hm with h | h <;> rw [h]
          · exact hobjs _
          · exact hresp
      | _ => simpa [recv, hck, finish, setCaller] using hobjs

private theorem recv_caller_ok (st : State) (k : Nat) (hinv : Inv colsOf st) :
    CallerOK colsOf (fun n => (st.node n).ext) ((recv st k).1.caller k) := by
  have hk := hinv.2.2 k
  rcases hck : st.caller k with ⟨pc, wire⟩
  cases wire with
  | none => simpa [recv, hck] using hk
  | req n' r' => simpa [recv, hck] using hk
  | resp resp =>
    cases pc with
    | idle => simpa [recv, hck] using hk
    | execPrep op =>
      cases resp with
      | prepared p =>
        by_cases hid : p.id = (st.objs op.obj).id
        · obtain ⟨cur', hrep, hr⟩ := exec_reprepared_resends st k op p hck hid
          simp only at hr
          rw [hr]
          have hgood : GoodMeta colsOf cur' := by
            rw [hck] at hk
            rcases reprepare_either _ _ _ _ hrep with h | h <;> rw [h]
            · exact hinv.2.1 _
            · exact hk.2 _ rfl
          obtain ⟨h1, h2⟩ := cachedParams_ok colsOf (st.node op.node).ext op.useCached cur' hgood
          simp only [setCaller, upd_same, CallerOK]
          refine ⟨⟨h1, ?_⟩, by simp⟩
          intro n r hw
          simp only [Wire.req.injEq, Req.execute.injEq] at hw
          obtain ⟨hn, hr'⟩ := hw
          subst hn hr'
          exact ⟨rfl, h2 _ _ _ _ _ _ _⟩
        · rw [reprepare_id_mismatch_is_error st k op p hck hid]; simp [setCaller, CallerOK]
      | _ => simp [recv, hck, finish, setCaller, CallerOK]
    | fresh s n' t => cases resp <;> simp [recv, hck, finish, setCaller, CallerOK]
    | exec1 op c => cases resp <;> simp [recv, hck, finish, send, setCaller, CallerOK]
    | exec2 op c => simp [recv, hck, finish, setCaller, CallerOK]
    | batch op f =>
      cases resp <;> simp only [recv, hck] <;> (try split) <;> simp [finish, send, setCaller, CallerOK]
    | batchPrep op f o' =>
      cases resp <;> simp only [recv, hck] <;> (try split) <;> simp [finish, send, setCaller, CallerOK]

private theorem start_caller_ok (st : State) (k : Nat) (op : Op) (hinv : Inv colsOf st) :
    CallerOK colsOf (fun n => (st.node n).ext) ((start st k op).1.caller k) := by
  have hk := hinv.2.2 k
  simp only [start]
  split
  · cases op with
    | prepare s n => simp [setCaller, CallerOK]
    | batch a => simp only; split <;> simp [setCaller, CallerOK]; exact hk
    | execute a =>
      simp only
      split
      · exact hk
      · rename_i o ho
        obtain ⟨h1, h2⟩ := cachedParams_ok colsOf (st.node a.node).ext a.useCached (st.objs o).cur (hinv.2.1 o)
        simp only [setCaller, upd_same, CallerOK]
        refine ⟨⟨h1, ?_⟩, by simp⟩
        intro n r hw
        simp only [Wire.req.injEq, Req.execute.injEq, execFrame] at hw
        obtain ⟨hn, hr'⟩ := hw
        subst hn hr'
        exact ⟨rfl, h2 _ _ _ _ _ _ _⟩
  · exact hk

/-- `Inv` is preserved by every step (node events must respect the id ↦ columns function). -/
theorem inv_step (st : State) (x : Step) (hinv : Inv colsOf st)
    (hev : ∀ n e, x = .event n e → EventOK colsOf e) : Inv colsOf (step st x).1 := by
  obtain ⟨hnodes, hobjs, hcallers⟩ := hinv
  cases x with
  | event n e =>
    refine ⟨?_, hobjs, ?_⟩
    · intro n'
      simp only [step, eventStep, upd]
      split
      · exact applyEvent_ok colsOf _ _ (hnodes n) (hev n e rfl)
      · exact hnodes n'
    · intro k
      have hext : (fun n' => ((step st (.event n e)).1.node n').ext) = (fun n' => (st.node n').ext) := by
        funext n'
        simp only [step, eventStep, upd]
        split
        · rename_i h; subst h; exact applyEvent_ext _ _
        · rfl
      rw [hext]
      exact hcallers k
  | serve k =>
    simp only [step, serveStep]
    split
    · rename_i n r hw
      have hext : (fun n' => ((upd st.node n (serve (st.node n) r).1) n').ext) = (fun n' => (st.node n').ext) := by
        funext n'
        simp only [upd]
        split
        · rename_i h; subst h; exact serve_ext _ _
        · rfl
      refine ⟨?_, hobjs, ?_⟩
      · intro n'
        simp only [upd]
        split
        · exact ⟨serve_ov _ _ (hnodes n).1, fun s => by rw [serve_st]; exact (hnodes n).2 s⟩
        · exact hnodes n'
      · intro j
        simp only []
        rw [hext]
        simp only [upd]
        split
        · rename_i hj
          subst hj
          have hk := hcallers j
          refine ⟨?_, ?_⟩
          · cases hpc : (st.caller j).pc <;> simp only <;> try trivial
            all_goals (simp only [CallerOK, hpc] at hk; exact ⟨hk.1.1, fun n r h => by simp at h⟩)
          · intro r' hr'
            simp only [Wire.resp.injEq] at hr'
            subst hr'
            exact serve_respOK colsOf _ _ (hnodes n)
        · exact hcallers j
    · exact ⟨hnodes, hobjs, hcallers⟩
  | start k op =>
    simp only [step]
    refine ⟨?_, ?_, ?_⟩
    · rw [start_node]; exact hnodes
    · rw [start_objs]; exact hobjs
    · intro j
      rw [start_node]
      by_cases hj : j = k
      · subst hj; exact start_caller_ok colsOf st j op ⟨hnodes, hobjs, hcallers⟩
      · have := other_steps_keep_caller st (.start k op) j (by simp [stepCaller]; exact fun e => hj e.symm)
        simp only [step] at this
        rw [this]; exact hcallers j
  | recv k =>
    simp only [step]
    refine ⟨?_, recv_objs_good colsOf st k ⟨hnodes, hobjs, hcallers⟩, ?_⟩
    · rw [recv_node]; exact hnodes
    · intro j
      rw [recv_node]
      by_cases hj : j = k
      · subst hj; exact recv_caller_ok colsOf st j ⟨hnodes, hobjs, hcallers⟩
      · have := other_steps_keep_caller st (.recv k) j (by simp [stepCaller]; exact fun e => hj e.symm)
        simp only [step] at this
        rw [this]; exact hcallers j

/-- events of a history all respect the id ↦ columns function -/
def EventsOK : List Step → Prop
  | [] => True
  | .event _ e :: xs => EventOK colsOf e ∧ EventsOK xs
  | _ :: xs => EventsOK xs

/-- `Inv` holds along EVERY history (any length, any number of callers / nodes / statements, any interleaving). -/
theorem inv_exec (xs : List Step) (st : State) (hinv : Inv colsOf st) (hev : EventsOK colsOf xs) :
    Inv colsOf (exec st xs) := by
  induction xs generalizing st with
  | nil => exact hinv
  | cons x xs ih =>
    simp only [exec]
    cases x with
    | event n e =>
      exact ih _ (inv_step colsOf st _ hinv (fun n' e' h => by cases h; exact hev.1)) hev.2
    | start k op => exact ih _ (inv_step colsOf st _ hinv (fun n' e' h => by cases h)) hev
    | serve k => exact ih _ (inv_step colsOf st _ hinv (fun n' e' h => by cases h)) hev
    | recv k => exact ih _ (inv_step colsOf st _ hinv (fun n' e' h => by cases h)) hev

/-- `decode_metadata_faithful`, end to end. At any point of any history satisfying `Inv`: when a node WITH the
extension answers an EXECUTE without metadata (`NO_METADATA`), the metadata cached for that request — with which the
caller will decode the rows (`decode_metadata_used`) — has exactly the columns the node holds at that moment, i.e. the
columns under which `serve` encodes the rows of this very response. (When the node does send metadata the rows are
decoded with what it sent, `decode_metadata_used`.) -/
theorem decode_metadata_faithful (st : State) (hinv : Inv colsOf st) (k : Nat) (op : ExecOp) (cached : Option RMeta)
    (n : Nat) (r : ExecReq) (rr : RowsResp)
    (hpc : (st.caller k).pc = .exec1 op cached ∨ (st.caller k).pc = .exec2 op cached)
    (hw : (st.caller k).wire = .req n (.execute r)) (hext : (st.node n).ext = true)
    (hserve : (serve (st.node n) (.execute r)).2 = .rows rr) (hnm : rr.noMeta = true) :
    ∃ s c, lookupId r.id (st.node n).prepared = some s ∧ cached = some c ∧
      c.cols = ((st.node n).st s).smeta.cols ∧
      rr.rows = (genRows ((st.node n).st s).smeta.cols (r.values.headD 0) r.pageSize r.ps).1 ∧
      metaUsed true cached rr = c := by
  obtain ⟨hnodes, _, hcallers⟩ := hinv
  have hk := hcallers k
  have hpar : CachedOK colsOf cached ∧ ParamsOK true cached r := by
    rcases hpc with hpc | hpc <;> simp only [CallerOK, hpc] at hk
    · obtain ⟨⟨hc, hp⟩, _⟩ := hk
      have := (hp n r hw).2; rw [hext] at this; exact ⟨hc, this⟩
    · obtain ⟨⟨hc, hp⟩, _⟩ := hk
      have := (hp n r hw).2; rw [hext] at this; exact ⟨hc, this⟩
  obtain ⟨hc, hskip, hmid⟩ := hpar
  rw [serve_plain_execute _ _ (hnodes n).1] at hserve
  cases hs : lookupId r.id (st.node n).prepared with
  | none => simp [hs] at hserve
  | some s =>
    refine ⟨s, ?_⟩
    simp only [hs, hext, Bool.true_and] at hserve
    split at hserve
    · simp only [Resp.rows.injEq] at hserve; subst hserve; simp at hnm
    · rename_i hch
      split at hserve
      · rename_i hsk
        simp only [Resp.rows.injEq] at hserve
        have hm := hmid rfl
        have hmideq : r.mid = some ((st.node n).st s).smeta.mid := by simpa using hch
        cases cached with
        | none => simp [hsk] at hskip
        | some c =>
          refine ⟨c, rfl, rfl, ?_, ?_, ?_⟩
          · obtain ⟨hg, hcc⟩ := hc c rfl
            simp only at hm
            rw [hm] at hmideq
            simp only [Option.some.injEq] at hmideq
            cases hci : c.id with
            | none => rw [hci] at hmideq; simp at hmideq; exact absurd hmideq ((hnodes n).2 s).2
            | some i =>
              rw [hci] at hmideq; simp at hmideq
              rw [hg i hci hcc, hmideq]; exact (((hnodes n).2 s).1).symm
          · subst hserve; rfl
          · subst hserve; simp [metaUsed]
      · simp only [Resp.rows.injEq] at hserve; subst hserve; simp at hnm

/-- `decode_metadata_faithful` at the end of EVERY history from a state satisfying `Inv` (e.g. the initial cluster,
see the examples at the end) whose schema-change events respect the id ↦ columns function. -/
theorem decode_metadata_faithful_all_histories (xs : List Step) (st0 : State) (h0 : Inv colsOf st0)
    (hev : EventsOK colsOf xs) (k : Nat) (op : ExecOp) (cached : Option RMeta) (n : Nat) (r : ExecReq) (rr : RowsResp)
    (hpc : ((exec st0 xs).caller k).pc = .exec1 op cached ∨ ((exec st0 xs).caller k).pc = .exec2 op cached)
    (hw : ((exec st0 xs).caller k).wire = .req n (.execute r)) (hext : ((exec st0 xs).node n).ext = true)
    (hserve : (serve ((exec st0 xs).node n) (.execute r)).2 = .rows rr) (hnm : rr.noMeta = true) :
    ∃ s c, lookupId r.id ((exec st0 xs).node n).prepared = some s ∧ cached = some c ∧
      c.cols = (((exec st0 xs).node n).st s).smeta.cols ∧
      rr.rows = (genRows (((exec st0 xs).node n).st s).smeta.cols (r.values.headD 0) r.pageSize r.ps).1 ∧
      metaUsed true cached rr = c :=
  decode_metadata_faithful colsOf (exec st0 xs) (inv_exec colsOf xs st0 h0 hev) k op cached n r rr hpc hw hext hserve hnm

/-! ### the history-level statement: an eviction is transparent -/

/-- every step of `ys` is a step of a caller other than `k` (in particular: no node event) -/
def Others (k : Nat) (ys : List Step) : Prop := ∀ y ∈ ys, ∃ j, stepCaller y = some j ∧ j ≠ k

/-- `caller_untouched_by_others`: the lift of `other_steps_keep_caller` to any number of interleaved steps. -/
theorem caller_untouched_by_others (ys : List Step) (st : State) (k : Nat)
    (h : ∀ y ∈ ys, stepCaller y ≠ some k) : (exec st ys).caller k = st.caller k := by
  induction ys generalizing st with
  | nil => rfl
  | cons y ys ih =>
    simp only [exec]
    rw [ih _ (fun z hz => h z (by simp [hz]))]
    exact other_steps_keep_caller st y k (h y (by simp))

private theorem serve_prepared_mono (n : Node) (r : Req) (id : SId) (h : n.prepared.contains id = true) :
    (serve n r).1.prepared.contains id = true := by
  cases r <;> simp only [serve] <;> (repeat' split) <;> simp_all

/-- what the steps of callers (no node events) leave alone on every node, and on the statement objects -/
structure Frame (a b : State) : Prop where
  nodeSt : ∀ n, (b.node n).st = (a.node n).st
  nodeExt : ∀ n, (b.node n).ext = (a.node n).ext
  nodeOv : ∀ n, (a.node n).ov = none → (b.node n).ov = none
  prepared : ∀ n id, (a.node n).prepared.contains id = true → (b.node n).prepared.contains id = true
  ident : ∀ o, o < a.nObjs → (b.objs o).id = (a.objs o).id ∧ (b.objs o).text = (a.objs o).text
  nObjs : a.nObjs ≤ b.nObjs

theorem Frame.refl (a : State) : Frame a a :=
  ⟨fun _ => rfl, fun _ => rfl, fun _ h => h, fun _ _ h => h, fun _ _ => ⟨rfl, rfl⟩, Nat.le_refl _⟩

theorem Frame.trans {a b c : State} (h1 : Frame a b) (h2 : Frame b c) : Frame a c :=
  ⟨fun n => (h2.nodeSt n).trans (h1.nodeSt n), fun n => (h2.nodeExt n).trans (h1.nodeExt n),
   fun n h => h2.nodeOv n (h1.nodeOv n h), fun n id h => h2.prepared n id (h1.prepared n id h),
   fun o ho => ⟨((h2.ident o (Nat.lt_of_lt_of_le ho h1.nObjs)).1).trans (h1.ident o ho).1,
                ((h2.ident o (Nat.lt_of_lt_of_le ho h1.nObjs)).2).trans (h1.ident o ho).2⟩,
   Nat.le_trans h1.nObjs h2.nObjs⟩

theorem frame_step (st : State) (y : Step) (h : ∃ j, stepCaller y = some j) : Frame st (step st y).1 := by
  have hid : ∀ o, o < st.nObjs → ((step st y).1.objs o).id = (st.objs o).id ∧ ((step st y).1.objs o).text = (st.objs o).text :=
    fun o ho => ⟨(statement_identity_immutable_step st y o ho).1, (statement_identity_immutable_step st y o ho).2.1⟩
  have hn : st.nObjs ≤ (step st y).1.nObjs := by
    by_cases h0 : 0 < st.nObjs
    · exact (statement_identity_immutable_step st y 0 h0).2.2.2
    · have : st.nObjs = 0 := by omega
      omega
  cases y with
  | event n e => obtain ⟨j, hj⟩ := h; simp [stepCaller] at hj
  | start k op =>
    have hnode : (step st (.start k op)).1.node = st.node := start_node st k op
    exact ⟨fun n => by rw [hnode], fun n => by rw [hnode], fun n h => by rw [hnode]; exact h,
      fun n id h => by rw [hnode]; exact h, hid, hn⟩
  | recv k =>
    have hnode : (step st (.recv k)).1.node = st.node := recv_node st k
    exact ⟨fun n => by rw [hnode], fun n => by rw [hnode], fun n h => by rw [hnode]; exact h,
      fun n id h => by rw [hnode]; exact h, hid, hn⟩
  | serve k =>
    have hnode : ∀ n, (step st (.serve k)).1.node n = st.node n ∨
        ∃ r, (step st (.serve k)).1.node n = (serve (st.node n) r).1 := by
      intro n
      simp only [step, serveStep]
      split
      · rename_i n0 r _
        simp only [upd]
        split
        · rename_i e; subst e; exact Or.inr ⟨r, rfl⟩
        · exact Or.inl rfl
      · exact Or.inl rfl
    refine ⟨fun n => ?_, fun n => ?_, fun n h => ?_, fun n id h => ?_, hid, hn⟩
    · rcases hnode n with e | ⟨r, e⟩ <;> rw [e]; exact serve_st _ _
    · rcases hnode n with e | ⟨r, e⟩ <;> rw [e]; exact serve_ext _ _
    · rcases hnode n with e | ⟨r, e⟩ <;> rw [e]
      · exact h
      · exact serve_ov _ _ h
    · rcases hnode n with e | ⟨r, e⟩ <;> rw [e]
      · exact h
      · exact serve_prepared_mono _ _ _ h

theorem others_frame (ys : List Step) (st : State) (k : Nat) (h : Others k ys) : Frame st (exec st ys) := by
  induction ys generalizing st with
  | nil => exact Frame.refl st
  | cons y ys ih =>
    simp only [exec]
    obtain ⟨j, hj, _⟩ := h y (by simp)
    exact (frame_step st y ⟨j, hj⟩).trans (ih _ (fun z hz => h z (by simp [hz])))

theorem others_eventsOK (ys : List Step) (k : Nat) (h : Others k ys) : EventsOK colsOf ys := by
  induction ys with
  | nil => trivial
  | cons y ys ih =>
    have ih' := ih (fun z hz => h z (by simp [hz]))
    obtain ⟨j, hj, _⟩ := h y (by simp)
    cases y with
    | event n e => simp [stepCaller] at hj
    | start _ _ => exact ih'
    | serve _ => exact ih'
    | recv _ => exact ih'

theorem others_caller (ys : List Step) (st : State) (k : Nat) (h : Others k ys) :
    (exec st ys).caller k = st.caller k :=
  caller_untouched_by_others ys st k (fun y hy => by
    obtain ⟨j, hj, hne⟩ := h y hy
    rw [hj]; simp; exact hne)

/-- the typed rows a node's response carries (what `genRows` encodes) -/
def typedRow : List Col → Nat → Nat → Nat → List Val
  | [], _, _, _ => []
  | c :: cs, v, row, j =>
    (match c.ty with
     | .int => Val.int (v * 100 + row * 10 + j)
     | .text => Val.text (hexOfString s!"s{v}r{row}c{j}")) :: typedRow cs v row (j + 1)

def typedRows (cols : List Col) (v : Nat) (pageSize : Option Nat) (ps : Option String) : List (List Val) :=
  match pageSize with
  | none => [typedRow cols v 0 0, typedRow cols v 1 0]
  | some _ => [typedRow cols v (pageOf ps) 0]

private theorem decodeRow_rowCells (cols : List Col) (v row j : Nat) (rest : List Cell) :
    decodeRow cols (rowCells cols v row j ++ rest) = some (typedRow cols v row j, rest) := by
  induction cols generalizing j with
  | nil => simp [rowCells, decodeRow, typedRow]
  | cons c cs ih =>
    cases hty : c.ty <;> simp [rowCells, decodeRow, typedRow, hty, decodeCell, ih]

/-- round trip: the rows a node encodes under `cols` decode under `cols` to the typed rows (for every column list,
value, page) -/
theorem decodeRows_genRows (cols : List Col) (v : Nat) (pageSize : Option Nat) (ps : Option String) :
    decodeRows cols (genRows cols v pageSize ps).1.count (genRows cols v pageSize ps).1.cells
      = some (typedRows cols v pageSize ps) := by
  cases pageSize with
  | none =>
    simp only [genRows, typedRows, decodeRows]
    rw [decodeRow_rowCells cols v 0 0]
    have := decodeRow_rowCells cols v 1 0 []
    simp only [List.append_nil] at this
    simp [this, decodeRows]
  | some p =>
    simp only [genRows, typedRows, decodeRows]
    have := decodeRow_rowCells cols v (pageOf ps) 0 []
    simp only [List.append_nil] at this
    simp [this, decodeRows]


/-- `eviction_resend_any_node`: the first three conjuncts of `eviction_transparent` hold on ANY node, with or without
the extension: through any interleaving with other callers' steps the node sees PREPARE of the same text, answers
PREPARED with the same id, and sees the EXECUTE again with the same id, complete value list, consistency, serial
consistency, timestamp, page size and paging state. (What the caller then decodes on a node without the extension
is the F-C14-1 / CQL v4 question.) -/
theorem eviction_resend_any_node (st0 : State) (hinv : Inv colsOf st0) (k : Nat) (op : ExecOp) (cached : Option RMeta)
    (uid : SId) (s : Nat)
    (hc : st0.caller k = ⟨.exec1 op cached, .resp (.unprepared uid)⟩)
    (hobj : op.obj < st0.nObjs) (txt : String) (hs : stmtOfText txt = some s) (htext : (st0.objs op.obj).text = txt)
    (hid : (st0.objs op.obj).id = idOf txt (((st0.node op.node).st s).idv))
    (hpf : ((st0.node op.node).st s).prepFail = false)
    (ys0 ys1 ys2 : List Step)
    (h0 : Others k ys0) (h1 : Others k ys1) (h2 : Others k ys2) :
    let a := exec st0 ys0
    let b := recv a k
    let c := exec b.1 ys1
    let d := serveStep c k
    let e := exec d.1 ys2
    let f := recv e k
    b.2 = .sent op.node (.prepare (txt)) ∧
    (∃ p, d.2 = .served (.prepared p) ∧ p.id = (st0.objs op.obj).id) ∧
    (∃ rq, f.2 = .sent op.node (.execute rq) ∧ rq.id = (st0.objs op.obj).id ∧ rq.values = op.values ∧
        rq.cl = op.cl ∧ rq.scl = op.scl ∧ rq.ts = op.ts ∧ rq.pageSize = op.pageSize ∧ rq.ps = op.ps) := by
  intro a b c d e f
  -- state a
  have fa : Frame st0 a := others_frame ys0 st0 k h0
  have inva : Inv colsOf a := inv_exec colsOf ys0 st0 hinv (others_eventsOK colsOf ys0 k h0)
  have hca : a.caller k = ⟨.exec1 op cached, .resp (.unprepared uid)⟩ := by
    rw [show a = exec st0 ys0 from rfl, others_caller ys0 st0 k h0]; exact hc
  have hta : (a.objs op.obj).text = txt := ((fa.ident _ hobj).2).trans htext
  -- step b: PREPARE is sent
  have hb : b = (setCaller a k ⟨.execPrep op, .req op.node (.prepare (txt))⟩, .sent op.node (.prepare (txt))) := by
    rw [show b = recv a k from rfl, exec_unprepared_sends_prepare a k op cached uid hca, hta]
  have fb : Frame st0 b.1 := by
    rw [hb]; exact ⟨fa.nodeSt, fa.nodeExt, fa.nodeOv, fa.prepared, fa.ident, fa.nObjs⟩
  have invb : Inv colsOf b.1 := by
    have := inv_step colsOf a (.recv k) inva (fun _ _ h => by cases h)
    simpa [step] using this
  have hcb : b.1.caller k = ⟨.execPrep op, .req op.node (.prepare (txt))⟩ := by rw [hb]; simp [setCaller]
  -- state c
  have fc : Frame st0 c := fb.trans (others_frame ys1 b.1 k h1)
  have invc : Inv colsOf c := inv_exec colsOf ys1 b.1 invb (others_eventsOK colsOf ys1 k h1)
  have hcc : c.caller k = ⟨.execPrep op, .req op.node (.prepare (txt))⟩ := by
    rw [show c = exec b.1 ys1 from rfl, others_caller ys1 b.1 k h1]; exact hcb
  -- step d: the node prepares
  have hovc : (c.node op.node).ov = none := fc.nodeOv _ (hinv.1 op.node).1
  have hstc : (c.node op.node).st = (st0.node op.node).st := fc.nodeSt _
  have hserve_c := serve_plain_prepare (c.node op.node) (txt) s hovc hs
    (by rw [hstc]; exact hpf)
  have hd : d = ({ c with node := upd c.node op.node (serve (c.node op.node) (.prepare (txt))).1,
                          caller := upd c.caller k { c.caller k with wire := .resp (serve (c.node op.node) (.prepare (txt))).2 } },
                 .served (serve (c.node op.node) (.prepare (txt))).2) := by
    simp [show d = serveStep c k from rfl, serveStep, hcc]
  let pid : SId := idOf txt ((c.node op.node).st s).idv
  have hpid : pid = (st0.objs op.obj).id := by rw [hid, ← hstc]
  have fd : Frame c d.1 := by
    have := frame_step c (.serve k) ⟨k, rfl⟩
    simpa [step] using this
  have invd : Inv colsOf d.1 := by
    have := inv_step colsOf c (.serve k) invc (fun _ _ h => by cases h)
    simpa [step] using this
  have hcd : ∃ p, d.1.caller k = ⟨.execPrep op, .resp (.prepared p)⟩ ∧ d.2 = .served (.prepared p) ∧ p.id = pid := by
    rw [hd, hserve_c]
    exact ⟨_, by simp [hcc], rfl, rfl⟩
  have hprepd : (d.1.node op.node).prepared.contains pid = true := by
    rw [hd, hserve_c]; simp [pid]
  obtain ⟨p, hcdp, hd2, hpidp⟩ := hcd
  -- state e
  have fe0 : Frame d.1 e := others_frame ys2 d.1 k h2
  have fe : Frame st0 e := (fc.trans fd).trans fe0
  have inve : Inv colsOf e := inv_exec colsOf ys2 d.1 invd (others_eventsOK colsOf ys2 k h2)
  have hce : e.caller k = ⟨.execPrep op, .resp (.prepared p)⟩ := by
    rw [show e = exec d.1 ys2 from rfl, others_caller ys2 d.1 k h2]; exact hcdp
  have hide : p.id = (e.objs op.obj).id := by rw [hpidp, hpid, (fe.ident _ hobj).1]
  -- step f: the EXECUTE is sent again
  obtain ⟨cur', _, hf⟩ := exec_reprepared_resends e k op p hce hide
  simp only at hf
  have hf' : f = _ := hf
  have ff : Frame e f.1 := by
    have := frame_step e (.recv k) ⟨k, rfl⟩
    simpa [step] using this
  have invf : Inv colsOf f.1 := by
    have := inv_step colsOf e (.recv k) inve (fun _ _ h => by cases h)
    simpa [step] using this
  let cp := cachedParams (e.node op.node).ext op.useCached cur'
  let rq := execFrame (e.objs op.obj) op cp
  have hcf : f.1.caller k = ⟨.exec2 op cp.cached, .req op.node (.execute rq)⟩ := by rw [hf']; simp [setCaller, cp, rq]
  have hf2 : f.2 = .sent op.node (.execute rq) := by rw [hf']
  have hrqid : rq.id = (st0.objs op.obj).id := (fe.ident _ hobj).1
  exact ⟨by rw [hb], ⟨p, hd2, by rw [hpidp, hpid]⟩, ⟨rq, hf2, hrqid, rfl, rfl, rfl, rfl, rfl, rfl⟩⟩


/-- the state in which the re-sent EXECUTE is in flight (`g` of `eviction_transparent`), with everything the later steps
need: used by the theorems about node EVENTS falling inside the operation -/
theorem eviction_chain (st0 : State) (hinv : Inv colsOf st0) (k : Nat) (op : ExecOp) (cached : Option RMeta)
    (uid : SId) (s : Nat)
    (hc : st0.caller k = ⟨.exec1 op cached, .resp (.unprepared uid)⟩)
    (hobj : op.obj < st0.nObjs) (txt : String) (hs : stmtOfText txt = some s) (htext : (st0.objs op.obj).text = txt)
    (hid : (st0.objs op.obj).id = idOf txt (((st0.node op.node).st s).idv))
    (hpf : ((st0.node op.node).st s).prepFail = false)
    (ys0 ys1 ys2 ys3 : List Step)
    (h0 : Others k ys0) (h1 : Others k ys1) (h2 : Others k ys2) (h3 : Others k ys3) :
    let a := exec st0 ys0
    let b := recv a k
    let c := exec b.1 ys1
    let d := serveStep c k
    let e := exec d.1 ys2
    let f := recv e k
    let g := exec f.1 ys3
    ∃ cached2 rq, Inv colsOf g ∧ Frame st0 g ∧ g.caller k = ⟨.exec2 op cached2, .req op.node (.execute rq)⟩ ∧
      rq.id = (st0.objs op.obj).id ∧ rq.values = op.values ∧ rq.pageSize = op.pageSize ∧ rq.ps = op.ps ∧
      (g.node op.node).prepared.contains rq.id = true ∧ lookupId rq.id (g.node op.node).prepared = some s := by
  intro a b c d e f g
  -- state a
  have fa : Frame st0 a := others_frame ys0 st0 k h0
  have inva : Inv colsOf a := inv_exec colsOf ys0 st0 hinv (others_eventsOK colsOf ys0 k h0)
  have hca : a.caller k = ⟨.exec1 op cached, .resp (.unprepared uid)⟩ := by
    rw [show a = exec st0 ys0 from rfl, others_caller ys0 st0 k h0]; exact hc
  have hta : (a.objs op.obj).text = txt := ((fa.ident _ hobj).2).trans htext
  -- step b: PREPARE is sent
  have hb : b = (setCaller a k ⟨.execPrep op, .req op.node (.prepare (txt))⟩, .sent op.node (.prepare (txt))) := by
    rw [show b = recv a k from rfl, exec_unprepared_sends_prepare a k op cached uid hca, hta]
  have fb : Frame st0 b.1 := by
    rw [hb]; exact ⟨fa.nodeSt, fa.nodeExt, fa.nodeOv, fa.prepared, fa.ident, fa.nObjs⟩
  have invb : Inv colsOf b.1 := by
    have := inv_step colsOf a (.recv k) inva (fun _ _ h => by cases h)
    simpa [step] using this
  have hcb : b.1.caller k = ⟨.execPrep op, .req op.node (.prepare (txt))⟩ := by rw [hb]; simp [setCaller]
  -- state c
  have fc : Frame st0 c := fb.trans (others_frame ys1 b.1 k h1)
  have invc : Inv colsOf c := inv_exec colsOf ys1 b.1 invb (others_eventsOK colsOf ys1 k h1)
  have hcc : c.caller k = ⟨.execPrep op, .req op.node (.prepare (txt))⟩ := by
    rw [show c = exec b.1 ys1 from rfl, others_caller ys1 b.1 k h1]; exact hcb
  -- step d: the node prepares
  have hovc : (c.node op.node).ov = none := fc.nodeOv _ (hinv.1 op.node).1
  have hstc : (c.node op.node).st = (st0.node op.node).st := fc.nodeSt _
  have hserve_c := serve_plain_prepare (c.node op.node) (txt) s hovc hs
    (by rw [hstc]; exact hpf)
  have hd : d = ({ c with node := upd c.node op.node (serve (c.node op.node) (.prepare (txt))).1,
                          caller := upd c.caller k { c.caller k with wire := .resp (serve (c.node op.node) (.prepare (txt))).2 } },
                 .served (serve (c.node op.node) (.prepare (txt))).2) := by
    simp [show d = serveStep c k from rfl, serveStep, hcc]
  let pid : SId := idOf txt ((c.node op.node).st s).idv
  have hpid : pid = (st0.objs op.obj).id := by rw [hid, ← hstc]
  have fd : Frame c d.1 := by
    have := frame_step c (.serve k) ⟨k, rfl⟩
    simpa [step] using this
  have invd : Inv colsOf d.1 := by
    have := inv_step colsOf c (.serve k) invc (fun _ _ h => by cases h)
    simpa [step] using this
  have hcd : ∃ p, d.1.caller k = ⟨.execPrep op, .resp (.prepared p)⟩ ∧ d.2 = .served (.prepared p) ∧ p.id = pid := by
    rw [hd, hserve_c]
    exact ⟨_, by simp [hcc], rfl, rfl⟩
  have hprepd : (d.1.node op.node).prepared.contains pid = true := by
    rw [hd, hserve_c]; simp [pid]
  obtain ⟨p, hcdp, hd2, hpidp⟩ := hcd
  -- state e
  have fe0 : Frame d.1 e := others_frame ys2 d.1 k h2
  have fe : Frame st0 e := (fc.trans fd).trans fe0
  have inve : Inv colsOf e := inv_exec colsOf ys2 d.1 invd (others_eventsOK colsOf ys2 k h2)
  have hce : e.caller k = ⟨.execPrep op, .resp (.prepared p)⟩ := by
    rw [show e = exec d.1 ys2 from rfl, others_caller ys2 d.1 k h2]; exact hcdp
  have hide : p.id = (e.objs op.obj).id := by rw [hpidp, hpid, (fe.ident _ hobj).1]
  -- step f: the EXECUTE is sent again
  obtain ⟨cur', _, hf⟩ := exec_reprepared_resends e k op p hce hide
  simp only at hf
  have hf' : f = _ := hf
  have ff : Frame e f.1 := by
    have := frame_step e (.recv k) ⟨k, rfl⟩
    simpa [step] using this
  have invf : Inv colsOf f.1 := by
    have := inv_step colsOf e (.recv k) inve (fun _ _ h => by cases h)
    simpa [step] using this
  let cp := cachedParams (e.node op.node).ext op.useCached cur'
  let rq := execFrame (e.objs op.obj) op cp
  have hcf : f.1.caller k = ⟨.exec2 op cp.cached, .req op.node (.execute rq)⟩ := by rw [hf']; simp [setCaller, cp, rq]
  have hf2 : f.2 = .sent op.node (.execute rq) := by rw [hf']
  have hrqid : rq.id = (st0.objs op.obj).id := (fe.ident _ hobj).1
  -- state g
  have fg0 : Frame f.1 g := others_frame ys3 f.1 k h3
  have invg : Inv colsOf g := inv_exec colsOf ys3 f.1 invf (others_eventsOK colsOf ys3 k h3)
  have hcg : g.caller k = ⟨.exec2 op cp.cached, .req op.node (.execute rq)⟩ := by
    rw [show g = exec f.1 ys3 from rfl, others_caller ys3 f.1 k h3]; exact hcf
  have fdg : Frame d.1 g := (fe0.trans ff).trans fg0
  have fg : Frame st0 g := (fc.trans fd).trans fdg
  have hovg : (g.node op.node).ov = none := fg.nodeOv _ (hinv.1 op.node).1
  have hstg : (g.node op.node).st = (st0.node op.node).st := fg.nodeSt _
  have hprepg : (g.node op.node).prepared.contains rq.id = true := by
    rw [hrqid, ← hpid]; exact fdg.prepared _ _ hprepd
  have hlook : lookupId rq.id (g.node op.node).prepared = some s := by
    have hst : rq.id.text = txt := by rw [hrqid, hid]; rfl
    simp only [lookupId, hprepg, ↓reduceIte, hst, hs]
  exact ⟨cp.cached, rq, invg, fg, hcg, hrqid, rfl, rfl, rfl, hprepg, hlook⟩

/-- `eviction_transparent` (history level). Let a caller `k` have an EXECUTE answered UNPREPARED (response in
flight) by a node WITH the extension, in a state satisfying `Inv`; the statement is one the node can prepare
(`prepFail = false`, no byzantine answer pending) and its id is the one the node assigns (no id change). Then for
ANY steps `ys0 … ys4` of OTHER callers (their requests, the nodes' answers to them, their response handling —
including executions and re-preparations of the SAME statement object) interleaved between this caller's own five
steps `recv · serve · recv · serve · recv`:
  (1) the node sees PREPARE of the statement's text;
  (2) it answers PREPARED with the same id;
  (3) the node then sees an EXECUTE that agrees with the first one in id, complete value list, consistency, serial
      consistency, timestamp, page size and paging state (`op` is what `request_built_from_current_metadata` built
      the first frame from);
  (4) the caller ends with `.done (.rows m decoded more)`: the NORMAL result — `m.cols` are the columns the node
      holds, `decoded` are exactly the typed rows the node encoded (`typedRows`), `more` its paging state — and is
      idle again. -/
theorem eviction_transparent (st0 : State) (hinv : Inv colsOf st0) (k : Nat) (op : ExecOp) (cached : Option RMeta)
    (uid : SId) (s : Nat)
    (hc : st0.caller k = ⟨.exec1 op cached, .resp (.unprepared uid)⟩)
    (hobj : op.obj < st0.nObjs) (txt : String) (hs : stmtOfText txt = some s) (htext : (st0.objs op.obj).text = txt)
    (hid : (st0.objs op.obj).id = idOf txt (((st0.node op.node).st s).idv))
    (hext : (st0.node op.node).ext = true) (hpf : ((st0.node op.node).st s).prepFail = false)
    (ys0 ys1 ys2 ys3 ys4 : List Step)
    (h0 : Others k ys0) (h1 : Others k ys1) (h2 : Others k ys2) (h3 : Others k ys3) (h4 : Others k ys4) :
    let a := exec st0 ys0
    let b := recv a k
    let c := exec b.1 ys1
    let d := serveStep c k
    let e := exec d.1 ys2
    let f := recv e k
    let g := exec f.1 ys3
    let h := serveStep g k
    let i := exec h.1 ys4
    let j := recv i k
    let cols := ((st0.node op.node).st s).smeta.cols
    b.2 = .sent op.node (.prepare (txt)) ∧
    (∃ p, d.2 = .served (.prepared p) ∧ p.id = (st0.objs op.obj).id) ∧
    (∃ rq, f.2 = .sent op.node (.execute rq) ∧ rq.id = (st0.objs op.obj).id ∧ rq.values = op.values ∧
        rq.cl = op.cl ∧ rq.scl = op.scl ∧ rq.ts = op.ts ∧ rq.pageSize = op.pageSize ∧ rq.ps = op.ps) ∧
    (∃ m more, j.2 = .done (.rows m (some (typedRows cols (op.values.headD 0) op.pageSize op.ps)) more) ∧
        m.cols = cols) ∧
    j.1.caller k = ⟨.idle, .none⟩ := by
  intro a b c d e f g h i j cols
  -- state a
  have fa : Frame st0 a := others_frame ys0 st0 k h0
  have inva : Inv colsOf a := inv_exec colsOf ys0 st0 hinv (others_eventsOK colsOf ys0 k h0)
  have hca : a.caller k = ⟨.exec1 op cached, .resp (.unprepared uid)⟩ := by
    rw [show a = exec st0 ys0 from rfl, others_caller ys0 st0 k h0]; exact hc
  have hta : (a.objs op.obj).text = txt := ((fa.ident _ hobj).2).trans htext
  -- step b: PREPARE is sent
  have hb : b = (setCaller a k ⟨.execPrep op, .req op.node (.prepare (txt))⟩, .sent op.node (.prepare (txt))) := by
    rw [show b = recv a k from rfl, exec_unprepared_sends_prepare a k op cached uid hca, hta]
  have fb : Frame st0 b.1 := by
    rw [hb]; exact ⟨fa.nodeSt, fa.nodeExt, fa.nodeOv, fa.prepared, fa.ident, fa.nObjs⟩
  have invb : Inv colsOf b.1 := by
    have := inv_step colsOf a (.recv k) inva (fun _ _ h => by cases h)
    simpa [step] using this
  have hcb : b.1.caller k = ⟨.execPrep op, .req op.node (.prepare (txt))⟩ := by rw [hb]; simp [setCaller]
  -- state c
  have fc : Frame st0 c := fb.trans (others_frame ys1 b.1 k h1)
  have invc : Inv colsOf c := inv_exec colsOf ys1 b.1 invb (others_eventsOK colsOf ys1 k h1)
  have hcc : c.caller k = ⟨.execPrep op, .req op.node (.prepare (txt))⟩ := by
    rw [show c = exec b.1 ys1 from rfl, others_caller ys1 b.1 k h1]; exact hcb
  -- step d: the node prepares
  have hovc : (c.node op.node).ov = none := fc.nodeOv _ (hinv.1 op.node).1
  have hstc : (c.node op.node).st = (st0.node op.node).st := fc.nodeSt _
  have hextc : (c.node op.node).ext = true := (fc.nodeExt _).trans hext
  have hserve_c := serve_plain_prepare (c.node op.node) (txt) s hovc hs
    (by rw [hstc]; exact hpf)
  have hd : d = ({ c with node := upd c.node op.node (serve (c.node op.node) (.prepare (txt))).1,
                          caller := upd c.caller k { c.caller k with wire := .resp (serve (c.node op.node) (.prepare (txt))).2 } },
                 .served (serve (c.node op.node) (.prepare (txt))).2) := by
    simp [show d = serveStep c k from rfl, serveStep, hcc]
  let pid : SId := idOf txt ((c.node op.node).st s).idv
  have hpid : pid = (st0.objs op.obj).id := by rw [hid, ← hstc]
  have fd : Frame c d.1 := by
    have := frame_step c (.serve k) ⟨k, rfl⟩
    simpa [step] using this
  have invd : Inv colsOf d.1 := by
    have := inv_step colsOf c (.serve k) invc (fun _ _ h => by cases h)
    simpa [step] using this
  have hcd : ∃ p, d.1.caller k = ⟨.execPrep op, .resp (.prepared p)⟩ ∧ d.2 = .served (.prepared p) ∧ p.id = pid := by
    rw [hd, hserve_c]
    exact ⟨_, by simp [hcc], rfl, rfl⟩
  have hprepd : (d.1.node op.node).prepared.contains pid = true := by
    rw [hd, hserve_c]; simp [pid]
  obtain ⟨p, hcdp, hd2, hpidp⟩ := hcd
  -- state e
  have fe0 : Frame d.1 e := others_frame ys2 d.1 k h2
  have fe : Frame st0 e := (fc.trans fd).trans fe0
  have inve : Inv colsOf e := inv_exec colsOf ys2 d.1 invd (others_eventsOK colsOf ys2 k h2)
  have hce : e.caller k = ⟨.execPrep op, .resp (.prepared p)⟩ := by
    rw [show e = exec d.1 ys2 from rfl, others_caller ys2 d.1 k h2]; exact hcdp
  have hide : p.id = (e.objs op.obj).id := by rw [hpidp, hpid, (fe.ident _ hobj).1]
  -- step f: the EXECUTE is sent again
  obtain ⟨cur', _, hf⟩ := exec_reprepared_resends e k op p hce hide
  simp only at hf
  have hf' : f = _ := hf
  have ff : Frame e f.1 := by
    have := frame_step e (.recv k) ⟨k, rfl⟩
    simpa [step] using this
  have invf : Inv colsOf f.1 := by
    have := inv_step colsOf e (.recv k) inve (fun _ _ h => by cases h)
    simpa [step] using this
  let cp := cachedParams (e.node op.node).ext op.useCached cur'
  let rq := execFrame (e.objs op.obj) op cp
  have hcf : f.1.caller k = ⟨.exec2 op cp.cached, .req op.node (.execute rq)⟩ := by rw [hf']; simp [setCaller, cp, rq]
  have hf2 : f.2 = .sent op.node (.execute rq) := by rw [hf']
  have hrqid : rq.id = (st0.objs op.obj).id := (fe.ident _ hobj).1
  -- state g
  have fg0 : Frame f.1 g := others_frame ys3 f.1 k h3
  have invg : Inv colsOf g := inv_exec colsOf ys3 f.1 invf (others_eventsOK colsOf ys3 k h3)
  have hcg : g.caller k = ⟨.exec2 op cp.cached, .req op.node (.execute rq)⟩ := by
    rw [show g = exec f.1 ys3 from rfl, others_caller ys3 f.1 k h3]; exact hcf
  have fdg : Frame d.1 g := (fe0.trans ff).trans fg0
  have fg : Frame st0 g := (fc.trans fd).trans fdg
  have hovg : (g.node op.node).ov = none := fg.nodeOv _ (hinv.1 op.node).1
  have hstg : (g.node op.node).st = (st0.node op.node).st := fg.nodeSt _
  have hextg : (g.node op.node).ext = true := (fg.nodeExt _).trans hext
  have hprepg : (g.node op.node).prepared.contains rq.id = true := by
    rw [hrqid, ← hpid]; exact fdg.prepared _ _ hprepd
  have hlook : lookupId rq.id (g.node op.node).prepared = some s := by
    have hst : rq.id.text = txt := by rw [hrqid, hid]; rfl
    simp only [lookupId, hprepg, ↓reduceIte, hst, hs]
  -- step h: the node answers with rows
  have hserve_g := serve_plain_execute (g.node op.node) rq hovg
  rw [hlook] at hserve_g
  simp only [hstg] at hserve_g
  have hh : h = ({ g with node := upd g.node op.node (serve (g.node op.node) (.execute rq)).1,
                          caller := upd g.caller k { g.caller k with wire := .resp (serve (g.node op.node) (.execute rq)).2 } },
                 .served (serve (g.node op.node) (.execute rq)).2) := by
    simp [show h = serveStep g k from rfl, serveStep, hcg]
  have hrows : ∃ rr, (serve (g.node op.node) (.execute rq)).2 = .rows rr ∧
      rr.rows = (genRows cols (rq.values.headD 0) rq.pageSize rq.ps).1 ∧
      (metaUsed true cp.cached rr).cols = cols ∧ rowsMalformed true rr = false := by
    by_cases hch : ((g.node op.node).ext && rq.mid != some ((st0.node op.node).st s).smeta.mid) = true
    · rw [hserve_g]; simp only [hch, ↓reduceIte]
      exact ⟨_, rfl, rfl, by simp [metaUsed, cols], by simp [rowsMalformed]⟩
    · by_cases hsk : rq.skip = true
      · have hs2 : (serve (g.node op.node) (.execute rq)).2 = .rows ⟨true, none, cols.length, [],
            (genRows cols (rq.values.headD 0) rq.pageSize rq.ps).2, (genRows cols (rq.values.headD 0) rq.pageSize rq.ps).1⟩ := by
          rw [hserve_g]; simp only [hch, hsk, ↓reduceIte]; rfl
        obtain ⟨s', c', hl', hc', hcols', _, hmu'⟩ := decode_metadata_faithful colsOf g invg k op cp.cached op.node rq _
          (Or.inr (by rw [hcg])) (by rw [hcg]) hextg hs2 rfl
        rw [hlook] at hl'
        simp only [Option.some.injEq] at hl'
        subst hl'
        refine ⟨_, hs2, rfl, ?_, by simp [rowsMalformed, newIdSeen]⟩
        rw [hmu', hcols', hstg]
      · rw [hserve_g]; simp only [hch, hsk, ↓reduceIte]
        exact ⟨_, rfl, rfl, by simp [metaUsed, cols], by simp [rowsMalformed, newIdSeen]⟩
  obtain ⟨rr, hrr, hrrows, hmcols, hwf⟩ := hrows
  have hch2 : h.1.caller k = ⟨.exec2 op cp.cached, .resp (.rows rr)⟩ := by rw [hh, ← hrr]; simp [hcg]
  have fh : Frame g h.1 := by
    have := frame_step g (.serve k) ⟨k, rfl⟩
    simpa [step] using this
  -- state i, step j
  have hci : i.caller k = ⟨.exec2 op cp.cached, .resp (.rows rr)⟩ := by
    rw [show i = exec h.1 ys4 from rfl, others_caller ys4 h.1 k h4]; exact hch2
  have fi : Frame st0 i := (fg.trans fh).trans (others_frame ys4 h.1 k h4)
  have hexti : (i.node op.node).ext = true := (fi.nodeExt _).trans hext
  have hj := exec_final_response_is_outcome i k op cp.cached (.rows rr) hci
  rw [hexti] at hj
  refine ⟨by rw [hb], ⟨p, hd2, by rw [hpidp, hpid]⟩, ⟨rq, hf2, hrqid, rfl, rfl, rfl, rfl, rfl, rfl⟩, ?_, ?_⟩
  · refine ⟨metaUsed true cp.cached rr, rr.more, ?_, hmcols⟩
    rw [show j = recv i k from rfl, hj]
    simp only [execOutcome, hwf, Bool.false_eq_true, ↓reduceIte, hmcols, hrrows]
    rw [decodeRows_genRows]
    rfl
  · rw [show j = recv i k from rfl, hj]; simp [setCaller]

/-! ### node events falling INSIDE the operation -/

private theorem evict_removes (n : Node) (s : Nat) (id : SId) (h : stmtOfText id.text = some s) :
    lookupId id (applyEvent n (.evict s)).prepared = none := by
  have hp : (applyEvent n (.evict s)).prepared = n.prepared.filter (fun e => stmtOfText e.text != some s) := rfl
  have : (applyEvent n (.evict s)).prepared.contains id = false := by
    rw [hp, List.contains_eq_mem]
    simp only [decide_eq_false_iff_not, List.mem_filter, not_and]
    intro _
    simp [h]
  unfold lookupId
  rw [this]
  rfl

/-- `second_eviction_reaches_caller`: if the node forgets the statement AGAIN after the re-preparation - the eviction
falls between the re-sent EXECUTE being sent and the node consuming it - the node answers UNPREPARED again and the
caller gets that error (`DbError::Unprepared`, 0x2500): the EXECUTE path re-prepares and re-sends ONCE
(connection.rs:1102-1146), through any interleaving of other callers' steps. -/
theorem second_eviction_reaches_caller (st0 : State) (hinv : Inv colsOf st0) (k : Nat) (op : ExecOp)
    (cached : Option RMeta) (uid : SId) (s : Nat)
    (hc : st0.caller k = ⟨.exec1 op cached, .resp (.unprepared uid)⟩)
    (hobj : op.obj < st0.nObjs) (txt : String) (hs : stmtOfText txt = some s) (htext : (st0.objs op.obj).text = txt)
    (hid : (st0.objs op.obj).id = idOf txt (((st0.node op.node).st s).idv))
    (hpf : ((st0.node op.node).st s).prepFail = false)
    (ys0 ys1 ys2 ys3 ys4 : List Step)
    (h0 : Others k ys0) (h1 : Others k ys1) (h2 : Others k ys2) (h3 : Others k ys3) (h4 : Others k ys4) :
    let g := exec (recv (exec (serveStep (exec (recv (exec st0 ys0) k).1 ys1) k).1 ys2) k).1 ys3
    let g' := (eventStep g op.node (.evict s)).1
    let h := serveStep g' k
    let j := recv (exec h.1 ys4) k
    (∃ u, h.2 = .served (.unprepared u)) ∧ j.2 = .done (.dbError unpreparedCode) ∧ j.1.caller k = ⟨.idle, .none⟩ := by
  intro g g' h j
  obtain ⟨cached2, rq, _, fg, hcg, hrqid, _, _, _, _, _⟩ := eviction_chain colsOf st0 hinv k op cached uid s hc hobj txt hs
    htext hid hpf ys0 ys1 ys2 ys3 h0 h1 h2 h3
  have hcg' : g'.caller k = ⟨.exec2 op cached2, .req op.node (.execute rq)⟩ := by
    show (eventStep g op.node (.evict s)).1.caller k = _
    simp [eventStep]; exact hcg
  have hnode : g'.node op.node = applyEvent (g.node op.node) (.evict s) := by
    show (eventStep g op.node (.evict s)).1.node op.node = _
    simp [eventStep]
  have hidt : stmtOfText rq.id.text = some s := by rw [hrqid, hid]; exact hs
  have hserve : (serve (g'.node op.node) (.execute rq)).2 = .unprepared (if (g'.node op.node).liar then bogusId else rq.id) := by
    rw [hnode]
    simp [serve, evict_removes _ s rq.id hidt]
  have hh : h = ({ g' with node := upd g'.node op.node (serve (g'.node op.node) (.execute rq)).1,
                           caller := upd g'.caller k { g'.caller k with wire := .resp (serve (g'.node op.node) (.execute rq)).2 } },
                 .served (serve (g'.node op.node) (.execute rq)).2) := by
    simp [show h = serveStep g' k from rfl, serveStep, hcg']
  have hch : h.1.caller k = ⟨.exec2 op cached2, .resp (.unprepared (if (g'.node op.node).liar then bogusId else rq.id))⟩ := by
    rw [hh, hserve]; simp [hcg']
  have hci : (exec h.1 ys4).caller k = ⟨.exec2 op cached2, .resp (.unprepared (if (g'.node op.node).liar then bogusId else rq.id))⟩ := by
    rw [others_caller ys4 h.1 k h4]; exact hch
  have hj := exec_final_response_is_outcome (exec h.1 ys4) k op cached2 _ hci
  refine ⟨⟨_, by rw [hh, hserve]⟩, ?_, ?_⟩
  · rw [show j = recv (exec h.1 ys4) k from rfl, hj]; simp [execOutcome]
  · rw [show j = recv (exec h.1 ys4) k from rfl, hj]; simp [setCaller]

/-- `id_change_inside_is_error`: if the node starts assigning ANOTHER id to the statement before it consumes the
re-preparation, the PREPARED answer carries that other id, the caller gets `RepreparedIdChanged`, and nothing is sent
afterwards - through any interleaving of other callers' steps. -/
theorem id_change_inside_is_error (st0 : State) (k : Nat) (op : ExecOp) (cached : Option RMeta) (uid : SId) (s : Nat)
    (hc : st0.caller k = ⟨.exec1 op cached, .resp (.unprepared uid)⟩)
    (hobj : op.obj < st0.nObjs) (txt : String) (hs : stmtOfText txt = some s) (htext : (st0.objs op.obj).text = txt)
    (hid : (st0.objs op.obj).id = idOf txt (((st0.node op.node).st s).idv))
    (hov : (st0.node op.node).ov = none) (hpf : ((st0.node op.node).st s).prepFail = false)
    (ys0 ys1 ys2 : List Step) (h0 : Others k ys0) (h1 : Others k ys1) (h2 : Others k ys2) :
    let c := exec (recv (exec st0 ys0) k).1 ys1
    let c' := (eventStep c op.node (.idChange s)).1
    let d := serveStep c' k
    let f := recv (exec d.1 ys2) k
    (∃ p, d.2 = .served (.prepared p) ∧ p.id ≠ (st0.objs op.obj).id) ∧
    f.2 = .done .repreparedIdChanged ∧ f.1.caller k = ⟨.idle, .none⟩ := by
  intro c c' d f
  have fa : Frame st0 (exec st0 ys0) := others_frame ys0 st0 k h0
  have hca : (exec st0 ys0).caller k = ⟨.exec1 op cached, .resp (.unprepared uid)⟩ := by
    rw [others_caller ys0 st0 k h0]; exact hc
  have hta : ((exec st0 ys0).objs op.obj).text = txt := ((fa.ident _ hobj).2).trans htext
  have hb : recv (exec st0 ys0) k = (setCaller (exec st0 ys0) k ⟨.execPrep op, .req op.node (.prepare txt)⟩, .sent op.node (.prepare txt)) := by
    rw [exec_unprepared_sends_prepare _ k op cached uid hca, hta]
  have fb : Frame st0 (recv (exec st0 ys0) k).1 := by
    rw [hb]; exact ⟨fa.nodeSt, fa.nodeExt, fa.nodeOv, fa.prepared, fa.ident, fa.nObjs⟩
  have hcb : (recv (exec st0 ys0) k).1.caller k = ⟨.execPrep op, .req op.node (.prepare txt)⟩ := by rw [hb]; simp [setCaller]
  have fc : Frame st0 c := fb.trans (others_frame ys1 _ k h1)
  have hcc : c.caller k = ⟨.execPrep op, .req op.node (.prepare txt)⟩ := by
    rw [show c = exec (recv (exec st0 ys0) k).1 ys1 from rfl, others_caller ys1 _ k h1]; exact hcb
  have hcc' : c'.caller k = ⟨.execPrep op, .req op.node (.prepare txt)⟩ := by
    show (eventStep c op.node (.idChange s)).1.caller k = _
    simp [eventStep]; exact hcc
  have hnode : c'.node op.node = applyEvent (c.node op.node) (.idChange s) := by
    show (eventStep c op.node (.idChange s)).1.node op.node = _
    simp [eventStep]
  have hstc : (c.node op.node).st = (st0.node op.node).st := fc.nodeSt _
  have hov' : (c'.node op.node).ov = none := by rw [hnode]; simp [applyEvent]; exact fc.nodeOv _ hov
  have hidv : ((c'.node op.node).st s).idv = ((st0.node op.node).st s).idv + 1 := by
    rw [hnode]; simp [applyEvent, setSt, hstc]
  have hpf' : ((c'.node op.node).st s).prepFail = false := by
    rw [hnode]; simp [applyEvent, setSt, hstc, hpf]
  have hserve := serve_plain_prepare (c'.node op.node) txt s hov' hs hpf'
  have hd : d = ({ c' with node := upd c'.node op.node (serve (c'.node op.node) (.prepare txt)).1,
                           caller := upd c'.caller k { c'.caller k with wire := .resp (serve (c'.node op.node) (.prepare txt)).2 } },
                 .served (serve (c'.node op.node) (.prepare txt)).2) := by
    simp [show d = serveStep c' k from rfl, serveStep, hcc']
  have hobjs_c' : c'.objs = c.objs := rfl
  have hd_objs : d.1.objs = c'.objs := by rw [hd]
  obtain ⟨p, hp, hcd⟩ : ∃ p, (serve (c'.node op.node) (.prepare txt)).2 = .prepared p ∧ p.id = idOf txt (((st0.node op.node).st s).idv + 1) := by
    rw [hserve]; exact ⟨_, rfl, by simp [hidv]⟩
  have hne : p.id ≠ (st0.objs op.obj).id := by
    rw [hcd, hid]; simp [idOf]
  have hcdk : d.1.caller k = ⟨.execPrep op, .resp (.prepared p)⟩ := by rw [hd, hp]; simp [hcc']
  have fd : Frame c' d.1 := by
    have := frame_step c' (.serve k) ⟨k, rfl⟩
    simpa [step] using this
  have fe : Frame d.1 (exec d.1 ys2) := others_frame ys2 d.1 k h2
  have hce : (exec d.1 ys2).caller k = ⟨.execPrep op, .resp (.prepared p)⟩ := by
    rw [others_caller ys2 d.1 k h2]; exact hcdk
  have hobj_c' : op.obj < c'.nObjs := Nat.lt_of_lt_of_le hobj fc.nObjs
  have hide : ((exec d.1 ys2).objs op.obj).id = (st0.objs op.obj).id := by
    have e1 := (fe.ident op.obj (Nat.lt_of_lt_of_le hobj_c' fd.nObjs)).1
    have e2 := (fd.ident op.obj hobj_c').1
    have e3 := (fc.ident op.obj hobj).1
    rw [e1, e2]; exact e3
  have hf := reprepare_id_mismatch_is_error (exec d.1 ys2) k op p hce (by rw [hide]; exact hne)
  refine ⟨⟨p, by rw [hd, hp], hne⟩, ?_, ?_⟩
  · rw [show f = recv (exec d.1 ys2) k from rfl, hf]
  · rw [show f = recv (exec d.1 ys2) k from rfl, hf]; simp [setCaller]

/-- `schema_change_inside_is_harmless`: the schema of the statement changes (id ↦ columns respected) after the
re-preparation, right before the node consumes the re-sent EXECUTE, on a node with the extension: the caller still ends
with the rows the node encoded, decoded under the node's NEW columns. -/
theorem schema_change_inside_is_harmless (st0 : State) (hinv : Inv colsOf st0) (k : Nat) (op : ExecOp)
    (cached : Option RMeta) (uid : SId) (s : Nat) (m : SMeta)
    (hc : st0.caller k = ⟨.exec1 op cached, .resp (.unprepared uid)⟩)
    (hobj : op.obj < st0.nObjs) (txt : String) (hs : stmtOfText txt = some s) (htext : (st0.objs op.obj).text = txt)
    (hid : (st0.objs op.obj).id = idOf txt (((st0.node op.node).st s).idv))
    (hext : (st0.node op.node).ext = true) (hpf : ((st0.node op.node).st s).prepFail = false)
    (hm : EventOK colsOf (.schemaChange s m))
    (ys0 ys1 ys2 ys3 ys4 : List Step)
    (h0 : Others k ys0) (h1 : Others k ys1) (h2 : Others k ys2) (h3 : Others k ys3) (h4 : Others k ys4) :
    let g := exec (recv (exec (serveStep (exec (recv (exec st0 ys0) k).1 ys1) k).1 ys2) k).1 ys3
    let g' := (eventStep g op.node (.schemaChange s m)).1
    let j := recv (exec (serveStep g' k).1 ys4) k
    (∃ mu more, j.2 = .done (.rows mu (some (typedRows m.cols (op.values.headD 0) op.pageSize op.ps)) more) ∧
      mu.cols = m.cols) ∧ j.1.caller k = ⟨.idle, .none⟩ := by
  intro g g' j
  obtain ⟨cached2, rq, invg, fg, hcg, hrqid, hv, hpg, hps, hprep, hlook⟩ := eviction_chain colsOf st0 hinv k op cached uid s
    hc hobj txt hs htext hid hpf ys0 ys1 ys2 ys3 h0 h1 h2 h3
  have invg' : Inv colsOf g' := by
    have := inv_step colsOf g (.event op.node (.schemaChange s m)) invg (fun n e h => by cases h; exact hm)
    simpa [step] using this
  have hcg' : g'.caller k = ⟨.exec2 op cached2, .req op.node (.execute rq)⟩ := by
    show (eventStep g op.node (.schemaChange s m)).1.caller k = _
    simp [eventStep]; exact hcg
  have hnode : g'.node op.node = applyEvent (g.node op.node) (.schemaChange s m) := by
    show (eventStep g op.node (.schemaChange s m)).1.node op.node = _
    simp [eventStep]
  have hextg' : (g'.node op.node).ext = true := by rw [hnode, applyEvent_ext]; exact (fg.nodeExt _).trans hext
  have hovg' : (g'.node op.node).ov = none := (invg'.1 op.node).1
  have hsm : ((g'.node op.node).st s).smeta = m := by rw [hnode]; simp [applyEvent, setSt]
  have hlook' : lookupId rq.id (g'.node op.node).prepared = some s := by rw [hnode]; simpa [applyEvent] using hlook
  have hserve := serve_plain_execute (g'.node op.node) rq hovg'
  rw [hlook'] at hserve
  simp only [hsm] at hserve
  let h := serveStep g' k
  have hh : h = ({ g' with node := upd g'.node op.node (serve (g'.node op.node) (.execute rq)).1,
                           caller := upd g'.caller k { g'.caller k with wire := .resp (serve (g'.node op.node) (.execute rq)).2 } },
                 .served (serve (g'.node op.node) (.execute rq)).2) := by
    simp [show h = serveStep g' k from rfl, serveStep, hcg']
  have hrows : ∃ rr, (serve (g'.node op.node) (.execute rq)).2 = .rows rr ∧
      rr.rows = (genRows m.cols (rq.values.headD 0) rq.pageSize rq.ps).1 ∧
      (metaUsed true cached2 rr).cols = m.cols ∧ rowsMalformed true rr = false := by
    by_cases hch : ((g'.node op.node).ext && rq.mid != some m.mid) = true
    · rw [hserve]; simp only [hch, ↓reduceIte]
      exact ⟨_, rfl, rfl, by simp [metaUsed], by simp [rowsMalformed]⟩
    · by_cases hsk : rq.skip = true
      · have hs2 : (serve (g'.node op.node) (.execute rq)).2 = .rows ⟨true, none, m.cols.length, [],
            (genRows m.cols (rq.values.headD 0) rq.pageSize rq.ps).2, (genRows m.cols (rq.values.headD 0) rq.pageSize rq.ps).1⟩ := by
          rw [hserve]; simp only [hch, hsk, ↓reduceIte]; rfl
        obtain ⟨s', c', hl', hc', hcols', _, hmu'⟩ := decode_metadata_faithful colsOf g' invg' k op cached2 op.node rq _
          (Or.inr (by rw [hcg'])) (by rw [hcg']) hextg' hs2 rfl
        rw [hlook'] at hl'
        simp only [Option.some.injEq] at hl'
        subst hl'
        refine ⟨_, hs2, rfl, ?_, by simp [rowsMalformed, newIdSeen]⟩
        rw [hmu', hcols', hsm]
      · rw [hserve]; simp only [hch, hsk, ↓reduceIte]
        exact ⟨_, rfl, rfl, by simp [metaUsed], by simp [rowsMalformed, newIdSeen]⟩
  obtain ⟨rr, hrr, hrrows, hmcols, hwf⟩ := hrows
  have hch2 : h.1.caller k = ⟨.exec2 op cached2, .resp (.rows rr)⟩ := by rw [hh, ← hrr]; simp [hcg']
  have hci : (exec h.1 ys4).caller k = ⟨.exec2 op cached2, .resp (.rows rr)⟩ := by
    rw [others_caller ys4 h.1 k h4]; exact hch2
  have fh : Frame g' h.1 := by
    have := frame_step g' (.serve k) ⟨k, rfl⟩
    simpa [step] using this
  have hexti : ((exec h.1 ys4).node op.node).ext = true :=
    (((others_frame ys4 h.1 k h4).nodeExt _).trans (fh.nodeExt _)).trans hextg'
  have hj := exec_final_response_is_outcome (exec h.1 ys4) k op cached2 (.rows rr) hci
  rw [hexti] at hj
  refine ⟨⟨metaUsed true cached2 rr, rr.more, ?_, hmcols⟩, ?_⟩
  · rw [show j = recv (exec h.1 ys4) k from rfl, hj]
    simp only [execOutcome, hwf, Bool.false_eq_true, ↓reduceIte, hmcols, hrrows]
    rw [decodeRows_genRows, hv, hpg, hps]
  · rw [show j = recv (exec h.1 ys4) k from rfl, hj]; simp [setCaller]

/-- `eviction_transparent` with its per-state hypotheses about the statement object DERIVED from reachability
(`WF`, preserved by every step: `wf_exec`): the object exists and the id it holds was issued for EXACTLY its text.
What remains a hypothesis is the situation itself: which statement `s` the node takes that text for, that the node
still assigns the same id version (no id change since), can prepare the statement, and has the extension. -/
theorem eviction_transparent_reachable (st0 : State) (hinv : Inv colsOf st0) (hwf : WF st0) (k : Nat) (op : ExecOp)
    (cached : Option RMeta) (uid : SId) (s : Nat)
    (hc : st0.caller k = ⟨.exec1 op cached, .resp (.unprepared uid)⟩)
    (hs : stmtOfText (st0.objs op.obj).text = some s)
    (hver : (st0.objs op.obj).id.ver = ((st0.node op.node).st s).idv)
    (hext : (st0.node op.node).ext = true)
    (hpf : ((st0.node op.node).st s).prepFail = false)
    (ys0 ys1 ys2 ys3 ys4 : List Step)
    (h0 : Others k ys0) (h1 : Others k ys1) (h2 : Others k ys2) (h3 : Others k ys3) (h4 : Others k ys4) :
    let j := recv (exec (serveStep (exec (recv (exec (serveStep (exec (recv (exec st0 ys0) k).1 ys1) k).1 ys2) k).1 ys3) k).1 ys4) k
    let cols := ((st0.node op.node).st s).smeta.cols
    (∃ m more, j.2 = .done (.rows m (some (typedRows cols (op.values.headD 0) op.pageSize op.ps)) more) ∧ m.cols = cols) ∧
    j.1.caller k = ⟨.idle, .none⟩ := by
  have hpc : PcOK st0.nObjs (st0.caller k).pc := (hwf.2.2 k).1
  rw [hc] at hpc
  have hobj : op.obj < st0.nObjs := hpc
  have hidt : (st0.objs op.obj).id.text = (st0.objs op.obj).text := (hwf.1 op.obj hobj).1
  have hid : (st0.objs op.obj).id = idOf (st0.objs op.obj).text (((st0.node op.node).st s).idv) := by
    cases hi : (st0.objs op.obj).id with
    | mk a b => rw [hi] at hidt hver; simp only at hidt hver; rw [← hidt, ← hver]; rfl
  have := eviction_transparent colsOf st0 hinv k op cached uid s hc hobj _ hs rfl hid hext hpf
    ys0 ys1 ys2 ys3 ys4 h0 h1 h2 h3 h4
  simp only at this
  exact ⟨this.2.2.2.1, this.2.2.2.2⟩

/-- "the re-sent EXECUTE equals the FIRST one": the operation record `op` that `eviction_transparent` /
`eviction_resend_any_node` compare the re-sent frame with IS what the first frame said - from the moment the
execution was started, through any steps of other callers. -/
theorem first_frame_determines_op (st : State) (k : Nat) (a : ExecArgs) (o : Nat)
    (hidle : st.caller k = ⟨.idle, .none⟩) (hslot : st.slot a.slot = some o) (ys : List Step) (h : Others k ys) :
    ∃ op cached r1, (start st k (.execute a)).2 = .sent a.node (.execute r1) ∧
      (exec (start st k (.execute a)).1 ys).caller k = ⟨.exec1 op cached, .req a.node (.execute r1)⟩ ∧
      r1.id = (st.objs o).id ∧ r1.values = op.values ∧ r1.cl = op.cl ∧ r1.scl = op.scl ∧ r1.ts = op.ts ∧
      r1.pageSize = op.pageSize ∧ r1.ps = op.ps ∧ op.obj = o ∧ op.node = a.node ∧
      r1.values = a.values ∧ r1.cl = a.cl ∧ r1.scl = a.scl ∧ r1.pageSize = a.pageSize ∧ r1.ps = a.ps := by
  rw [others_caller ys _ k h, request_built_from_current_metadata st k a o hidle hslot]
  exact ⟨⟨o, a.node, a.useCached, a.cl, a.scl, (drawTs st a.node a.ts).1, a.pageSize, a.ps, a.values⟩,
    (cachedParams (st.node a.node).ext a.useCached (st.objs o).cur).cached, _, rfl, by simp [setCaller],
    rfl, rfl, rfl, rfl, rfl, rfl, rfl, rfl, rfl, rfl, rfl, rfl, rfl, rfl⟩

/-- composition: from the start of an execution, through the node's UNPREPARED answer and any steps of other callers,
to the re-sent EXECUTE: it differs from the FIRST frame at most in the skip flag and the presented metadata id
(`SameButMetadata`), on any node. -/
theorem resent_execute_equals_first_frame (st : State) (hinv : Inv colsOf st) (hwf : WF st) (k : Nat) (a : ExecArgs)
    (o : Nat) (hidle : st.caller k = ⟨.idle, .none⟩) (hslot : st.slot a.slot = some o)
    (ysA ys0 ys1 ys2 : List Step) (hA : Others k ysA) (h0 : Others k ys0) (h1 : Others k ys1) (h2 : Others k ys2)
    (uid : SId) (s : Nat)
    (hun : (serveStep (exec (start st k (.execute a)).1 ysA) k).2 = .served (.unprepared uid))
    (hver : ∀ stU, stU = (serveStep (exec (start st k (.execute a)).1 ysA) k).1 →
      stmtOfText (stU.objs o).text = some s ∧
      (stU.objs o).id.ver = ((stU.node a.node).st s).idv ∧
      ((stU.node a.node).st s).prepFail = false) :
    ∃ r1 rq, (start st k (.execute a)).2 = .sent a.node (.execute r1) ∧
      (recv (exec (serveStep (exec (recv (exec (serveStep (exec (start st k (.execute a)).1 ysA) k).1 ys0) k).1 ys1) k).1 ys2) k).2
        = .sent a.node (.execute rq) ∧ SameButMetadata r1 rq := by
  obtain ⟨op, cached, r1, hsent, hcal, hr1id, hv, hcl, hscl, hts, hpg, hps, hobjo, hnode, _⟩ :=
    first_frame_determines_op st k a o hidle hslot ysA hA
  -- the state in which the UNPREPARED answer is in flight
  let stS := exec (start st k (.execute a)).1 ysA
  let stU := (serveStep stS k).1
  have hinvS : Inv colsOf stS :=
    inv_exec colsOf ysA _ (by simpa [step] using inv_step colsOf st (.start k (.execute a)) hinv (fun _ _ h => by cases h))
      (others_eventsOK colsOf ysA k hA)
  have hwfS : WF stS := wf_exec ysA _ (by simpa [step] using wf_step st (.start k (.execute a)) hwf)
  have hinvU : Inv colsOf stU := by simpa [step] using inv_step colsOf stS (.serve k) hinvS (fun _ _ h => by cases h)
  have hwfU : WF stU := by simpa [step] using wf_step stS (.serve k) hwfS
  have hcU : stU.caller k = ⟨.exec1 op cached, .resp (.unprepared uid)⟩ := by
    have hS : stS.caller k = ⟨.exec1 op cached, .req a.node (.execute r1)⟩ := hcal
    have hstep : serveStep stS k =
        ({ stS with node := upd stS.node a.node (serve (stS.node a.node) (.execute r1)).1,
                    caller := upd stS.caller k { stS.caller k with wire := .resp (serve (stS.node a.node) (.execute r1)).2 } },
         .served (serve (stS.node a.node) (.execute r1)).2) := by
      simp [serveStep, hS]
    have h3 : (serve (stS.node a.node) (.execute r1)).2 = .unprepared uid := by
      have h2 : (serveStep stS k).2 = .served (.unprepared uid) := hun
      rw [hstep] at h2; simpa using h2
    show (serveStep stS k).1.caller k = _
    rw [hstep]; simp [hS, h3]
  have hpc : PcOK stU.nObjs (stU.caller k).pc := (hwfU.2.2 k).1
  rw [hcU] at hpc
  have hobj : op.obj < stU.nObjs := hpc
  have hidt : (stU.objs op.obj).id.text = (stU.objs op.obj).text := (hwfU.1 op.obj hobj).1
  obtain ⟨hs, hv1, hv2⟩ := hver stU rfl
  rw [← hobjo] at hs hv1
  rw [← hnode] at hv1 hv2
  have hid : (stU.objs op.obj).id = idOf (stU.objs op.obj).text (((stU.node op.node).st s).idv) := by
    cases hi : (stU.objs op.obj).id with
    | mk x y => rw [hi] at hidt hv1; simp only at hidt hv1; rw [← hidt, ← hv1]; rfl
  have hres := eviction_resend_any_node colsOf stU hinvU k op cached uid s hcU hobj _ hs rfl hid hv2
    ys0 ys1 ys2 h0 h1 h2
  simp only at hres
  obtain ⟨_, _, rq, hrq, hrqid, hrv, hrcl, hrscl, hrts, hrpg, hrps⟩ := hres
  refine ⟨r1, rq, hsent, by rw [← hnode]; exact hrq, ?_⟩
  have hidsame : (stU.objs op.obj).id = (st.objs o).id := by
    have hoS : o < (start st k (.execute a)).1.nObjs := by
      have := hwf.2.1 _ _ hslot
      exact Nat.lt_of_lt_of_le this (by simpa [step] using nObjs_mono_step st (.start k (.execute a)))
    have e1 := (statement_identity_immutable ysA (start st k (.execute a)).1 o hoS).1
    have e0 : ((start st k (.execute a)).1.objs o).id = (st.objs o).id := by rw [start_objs]
    have e2 : (stU.objs o).id = (stS.objs o).id := by
      have : stU.objs = stS.objs := by show (serveStep stS k).1.objs = _; simp only [serveStep]; split <;> rfl
      rw [this]
    rw [hobjo, e2]; exact e1.trans e0
  exact ⟨by rw [hr1id, hrqid, hidsame], by rw [hv, hrv], by rw [hcl, hrcl], by rw [hscl, hrscl], by rw [hts, hrts],
    by rw [hpg, hrpg], by rw [hps, hrps]⟩

end EndToEnd

/-! ### batches: one round of the re-prepare loop, and the transparent case -/

private theorem findInBatch_congr (f g : Nat → Stmt) (id : SId) (items : List (Nat × List Nat))
    (h : ∀ it ∈ items, (g it.1).id = (f it.1).id) : findInBatch g id items = findInBatch f id items := by
  induction items with
  | nil => rfl
  | cons x xs ih =>
    obtain ⟨o, v⟩ := x
    simp only [findInBatch]
    rw [h (o, v) (by simp), ih (fun it hit => h it (by simp [hit]))]

private theorem firstUnknown_none (prepared : List SId) (stmts : List (SId × List Nat))
    (h : ∀ e ∈ stmts, prepared.contains e.1 = true) : firstUnknown prepared stmts = none := by
  induction stmts with
  | nil => rfl
  | cons x xs ih =>
    obtain ⟨id, v⟩ := x
    have hx := h (id, v) (by simp)
    simp only at hx
    simp only [firstUnknown, lookupId, hx, ↓reduceIte, Option.isSome_some]
    exact ih (fun e he => h e (by simp [he]))

/-- `batch_round_reprepares_named_statement`: ONE ROUND of the loop of connection.rs:1212-1245, at history level. A BATCH
answered UNPREPARED naming the id of one of its statements (object `o`, statement `s`), on any node that can prepare
it and still assigns that id; then through ANY interleaving with other callers' steps: the node sees PREPARE of
exactly THAT statement's text, answers PREPARED with the same id, and sees the whole BATCH again - the identical frame
(same statements, ids, values, consistency, serial consistency, timestamp). What the node answers to it is the next
round: the loop has no bound; it ends when the node stops answering UNPREPARED (`batch_eviction_transparent`). -/
theorem batch_round_reprepares_named_statement (st0 : State) (k : Nat) (op : BatchOp) (frame : BatchReq) (id : SId)
    (o s : Nat)
    (hc : st0.caller k = ⟨.batch op frame, .resp (.unprepared id)⟩)
    (hitems : ∀ it ∈ op.items, it.1 < st0.nObjs)
    (hfind : findInBatch st0.objs id op.items = some o)
    (txt : String) (hs : stmtOfText txt = some s) (htext : (st0.objs o).text = txt)
    (hid : (st0.objs o).id = idOf txt (((st0.node op.node).st s).idv))
    (hov : (st0.node op.node).ov = none) (hpf : ((st0.node op.node).st s).prepFail = false)
    (ys0 ys1 ys2 : List Step) (h0 : Others k ys0) (h1 : Others k ys1) (h2 : Others k ys2) :
    let a := exec st0 ys0
    let b := recv a k
    let c := exec b.1 ys1
    let d := serveStep c k
    let e := exec d.1 ys2
    let f := recv e k
    b.2 = .sent op.node (.prepare (txt)) ∧
    (∃ p, d.2 = .served (.prepared p) ∧ p.id = id) ∧
    f.2 = .sent op.node (.batch frame) ∧
    f.1.caller k = ⟨.batch op frame, .req op.node (.batch frame)⟩ ∧
    Frame st0 f.1 ∧ (f.1.node op.node).prepared.contains id = true := by
  intro a b c d e f
  obtain ⟨⟨v, hov'⟩, hoid⟩ := findInBatch_some _ _ _ _ hfind
  have hobj : o < st0.nObjs := hitems _ hov'
  have fa : Frame st0 a := others_frame ys0 st0 k h0
  have hca : a.caller k = ⟨.batch op frame, .resp (.unprepared id)⟩ := by
    rw [show a = exec st0 ys0 from rfl, others_caller ys0 st0 k h0]; exact hc
  have hfa : findInBatch a.objs id op.items = some o := by
    rw [findInBatch_congr st0.objs a.objs id op.items (fun it hit => (fa.ident _ (hitems it hit)).1)]; exact hfind
  have hta : (a.objs o).text = txt := ((fa.ident _ hobj).2).trans htext
  have hb : b = (setCaller a k ⟨.batchPrep op frame o, .req op.node (.prepare (txt))⟩,
                 .sent op.node (.prepare (txt))) := by
    simp [show b = recv a k from rfl, recv, hca, hfa, send, hta]
  have fb : Frame st0 b.1 := by
    rw [hb]; exact ⟨fa.nodeSt, fa.nodeExt, fa.nodeOv, fa.prepared, fa.ident, fa.nObjs⟩
  have hcb : b.1.caller k = ⟨.batchPrep op frame o, .req op.node (.prepare (txt))⟩ := by rw [hb]; simp [setCaller]
  have fc : Frame st0 c := fb.trans (others_frame ys1 b.1 k h1)
  have hcc : c.caller k = ⟨.batchPrep op frame o, .req op.node (.prepare (txt))⟩ := by
    rw [show c = exec b.1 ys1 from rfl, others_caller ys1 b.1 k h1]; exact hcb
  have hovc : (c.node op.node).ov = none := fc.nodeOv _ hov
  have hstc : (c.node op.node).st = (st0.node op.node).st := fc.nodeSt _
  have hserve_c := serve_plain_prepare (c.node op.node) (txt) s hovc hs
    (by rw [hstc]; exact hpf)
  have hd : d = ({ c with node := upd c.node op.node (serve (c.node op.node) (.prepare (txt))).1,
                          caller := upd c.caller k { c.caller k with wire := .resp (serve (c.node op.node) (.prepare (txt))).2 } },
                 .served (serve (c.node op.node) (.prepare (txt))).2) := by
    simp [show d = serveStep c k from rfl, serveStep, hcc]
  let pid : SId := idOf txt ((c.node op.node).st s).idv
  have hpid : pid = id := by rw [← hoid, hid, ← hstc]
  have fd : Frame c d.1 := by
    have := frame_step c (.serve k) ⟨k, rfl⟩
    simpa [step] using this
  have hcd : ∃ p, d.1.caller k = ⟨.batchPrep op frame o, .resp (.prepared p)⟩ ∧ d.2 = .served (.prepared p) ∧ p.id = pid := by
    rw [hd, hserve_c]
    exact ⟨_, by simp [hcc], rfl, rfl⟩
  have hprepd : (d.1.node op.node).prepared.contains pid = true := by
    rw [hd, hserve_c]; simp [pid]
  obtain ⟨p, hcdp, hd2, hpidp⟩ := hcd
  have fe0 : Frame d.1 e := others_frame ys2 d.1 k h2
  have fe : Frame st0 e := (fc.trans fd).trans fe0
  have hce : e.caller k = ⟨.batchPrep op frame o, .resp (.prepared p)⟩ := by
    rw [show e = exec d.1 ys2 from rfl, others_caller ys2 d.1 k h2]; exact hcdp
  have hide : p.id = (e.objs o).id := by rw [hpidp, hpid, (fe.ident _ hobj).1, hoid]
  have hf : f = (setCaller (setCur e o (if (prepMeta p).id.isSome ∧ ((e.objs o).cur.colCount = 0 ∨ (prepMeta p).colCount ≠ 0) ∧
        (e.objs o).cur.id ≠ (prepMeta p).id then prepMeta p else (e.objs o).cur)) k ⟨.batch op frame, .req op.node (.batch frame)⟩,
      .sent op.node (.batch frame)) := by
    simp only [show f = recv e k from rfl, recv, hce]
    rw [reprepare_ok _ _ _ hide]
    simp [send]
  have ff : Frame e f.1 := by
    have := frame_step e (.recv k) ⟨k, rfl⟩
    simpa [step] using this
  refine ⟨by rw [hb], ⟨p, hd2, by rw [hpidp, hpid]⟩, by rw [hf], by rw [hf]; simp [setCaller], fe.trans ff, ?_⟩
  rw [← hpid]
  exact ff.prepared _ _ (fe0.prepared _ _ hprepd)

/-- `batch_eviction_transparent`: if, moreover, every other statement of the batch is in the node's cache (the node
stopped evicting), the re-sent BATCH is answered normally and the caller ends idle with the normal (void) result -
through any interleaving with other callers' steps. -/
theorem batch_eviction_transparent (st0 : State) (k : Nat) (op : BatchOp) (frame : BatchReq) (id : SId)
    (o s : Nat)
    (hc : st0.caller k = ⟨.batch op frame, .resp (.unprepared id)⟩)
    (hitems : ∀ it ∈ op.items, it.1 < st0.nObjs)
    (hfind : findInBatch st0.objs id op.items = some o)
    (txt : String) (hs : stmtOfText txt = some s) (htext : (st0.objs o).text = txt)
    (hid : (st0.objs o).id = idOf txt (((st0.node op.node).st s).idv))
    (hov : (st0.node op.node).ov = none) (hpf : ((st0.node op.node).st s).prepFail = false)
    (hrest : ∀ e ∈ frame.stmts, e.1 = id ∨ (st0.node op.node).prepared.contains e.1 = true)
    (ys0 ys1 ys2 ys3 ys4 : List Step)
    (h0 : Others k ys0) (h1 : Others k ys1) (h2 : Others k ys2) (h3 : Others k ys3) (h4 : Others k ys4) :
    let f := recv (exec (serveStep (exec (recv (exec st0 ys0) k).1 ys1) k).1 ys2) k
    let g := exec f.1 ys3
    let h := serveStep g k
    let i := exec h.1 ys4
    let j := recv i k
    f.2 = .sent op.node (.batch frame) ∧ h.2 = .served .void ∧ j.2 = .done .void ∧ j.1.caller k = ⟨.idle, .none⟩ := by
  intro f g h i j
  obtain ⟨_, _, hf2, hcf, ff, hprepf⟩ := batch_round_reprepares_named_statement st0 k op frame id o s hc hitems hfind txt hs
    htext hid hov hpf ys0 ys1 ys2 h0 h1 h2
  have fg : Frame f.1 g := others_frame ys3 f.1 k h3
  have hcg : g.caller k = ⟨.batch op frame, .req op.node (.batch frame)⟩ := by
    rw [show g = exec f.1 ys3 from rfl, others_caller ys3 f.1 k h3]; exact hcf
  have hall : ∀ e ∈ frame.stmts, (g.node op.node).prepared.contains e.1 = true := by
    intro e he
    rcases hrest e he with h | h
    · rw [h]; exact fg.prepared _ _ hprepf
    · exact fg.prepared _ _ (ff.prepared _ _ h)
  have hserve : serve (g.node op.node) (.batch frame) = (g.node op.node, .void) := by
    simp [serve, firstUnknown_none _ _ hall]
  have hh : h = ({ g with node := upd g.node op.node (g.node op.node),
                          caller := upd g.caller k { g.caller k with wire := .resp .void } }, .served .void) := by
    simp [show h = serveStep g k from rfl, serveStep, hcg, hserve]
  have hch : h.1.caller k = ⟨.batch op frame, .resp .void⟩ := by rw [hh]; simp [hcg]
  have hci : i.caller k = ⟨.batch op frame, .resp .void⟩ := by
    rw [show i = exec h.1 ys4 from rfl, others_caller ys4 h.1 k h4]; exact hch
  have hj : j = (setCaller i k ⟨.idle, .none⟩, .done .void) := by
    simp [show j = recv i k from rfl, recv, hci, finish]
  exact ⟨hf2, by rw [hh], by rw [hj], by rw [hj]; simp [setCaller]⟩


/-! ## Part B.2 — a cluster without the extension: the current metadata is the one announced at preparation -/

/-- responses of a node without the extension never carry a result-metadata id -/
def NoIdResp : Resp → Prop
  | .rows r => r.newId = none
  | .prepared p => p.mid = none
  | _ => True

theorem serve_noext (n : Node) (r : Req) (h : n.ext = false) : NoIdResp (serve n r).2 := by
  cases r <;> simp only [serve, h] <;> (repeat' split) <;> simp_all [NoIdResp]

def NoExtCaller (c : Caller) : Prop :=
  (match c.pc with
   | .exec1 _ cached => ∀ cm, cached = some cm → cm.id = none
   | .exec2 _ cached => ∀ cm, cached = some cm → cm.id = none
   | _ => True) ∧
  (∀ r, c.wire = .resp r → NoIdResp r)

/-- invariant of a cluster in which no node offers the extension -/
def NoExtInv (st : State) : Prop :=
  (∀ n, (st.node n).ext = false) ∧
  (∀ o, (st.objs o).cur = (st.objs o).initial ∧ (st.objs o).cur.id = none) ∧
  (∀ k, NoExtCaller (st.caller k))

private theorem cachedParams_cached_id (ext u : Bool) (cur : RMeta) (h : cur.id = none) :
    ∀ cm, (cachedParams ext u cur).cached = some cm → cm.id = none := by
  intro cm hcm
  rw [cachedParams_cached] at hcm
  split at hcm
  · simp only [Option.some.injEq] at hcm; subst hcm; exact h
  · simp at hcm

private theorem noext_objs_keep (st : State) (o' : Nat) (m : RMeta) (hm : m = (st.objs o').cur)
    (h : ∀ o, (st.objs o).cur = (st.objs o).initial ∧ (st.objs o).cur.id = none) :
    ∀ o, ((setCur st o' m).objs o).cur = ((setCur st o' m).objs o).initial ∧ ((setCur st o' m).objs o).cur.id = none := by
  intro o
  subst hm
  simp only [setCur, upd]
  split
  · rename_i e; subst e; exact h o
  · exact h o

private theorem noext_metaUsed_id (cached : Option RMeta) (r : RowsResp) (hc : ∀ cm, cached = some cm → cm.id = none)
    (_hr : NoIdResp (.rows r)) : (metaUsed false cached r).id = none := by
  unfold metaUsed
  split
  · cases cached with
    | none => rfl
    | some c => exact hc c rfl
  · rfl

theorem noext_step (st : State) (x : Step) (hinv : NoExtInv st) : NoExtInv (step st x).1 := by
  obtain ⟨hnodes, hobjs, hcallers⟩ := hinv
  cases x with
  | event n e =>
    refine ⟨?_, hobjs, hcallers⟩
    intro n'
    simp only [step, eventStep, upd]
    split
    · rename_i h; subst h; rw [applyEvent_ext]; exact hnodes n'
    · exact hnodes n'
  | serve k =>
    simp only [step, serveStep]
    split
    · rename_i n r hw
      refine ⟨?_, hobjs, ?_⟩
      · intro n'
        simp only [upd]
        split
        · rename_i h; subst h; rw [serve_ext]; exact hnodes n'
        · exact hnodes n'
      · intro j
        simp only [upd]
        split
        · rename_i hj
          subst hj
          have hk := hcallers j
          refine ⟨?_, ?_⟩
          · cases hpc : (st.caller j).pc <;> simp only <;> try trivial
            all_goals (simp only [NoExtCaller, hpc] at hk; exact hk.1)
          · intro r' hr'
            simp only [Wire.resp.injEq] at hr'
            subst hr'
            exact serve_noext _ _ (hnodes n)
        · exact hcallers j
    · exact ⟨hnodes, hobjs, hcallers⟩
  | start k op =>
    simp only [step]
    refine ⟨by rw [start_node]; exact hnodes, by rw [start_objs]; exact hobjs, ?_⟩
    intro j
    by_cases hj : j = k
    · subst hj
      have hk := hcallers j
      simp only [start]
      split
      · cases op with
        | prepare s n => simp [setCaller, NoExtCaller, NoIdResp]
        | batch a => simp only; split <;> simp [setCaller, NoExtCaller]; exact hk
        | execute a =>
          simp only
          split
          · exact hk
          · rename_i o ho
            simp only [setCaller, upd_same, NoExtCaller]
            exact ⟨cachedParams_cached_id _ _ _ (hobjs o).2, by simp⟩
      · exact hk
    · have := other_steps_keep_caller st (.start k op) j (by simp [stepCaller]; exact fun e => hj e.symm)
      simp only [step] at this
      rw [this]; exact hcallers j
  | recv k =>
    simp only [step]
    have hothers : ∀ j, j ≠ k → NoExtCaller ((recv st k).1.caller j) := by
      intro j hj
      have := other_steps_keep_caller st (.recv k) j (by simp [stepCaller]; exact fun e => hj e.symm)
      simp only [step] at this
      rw [this]; exact hcallers j
    have hk := hcallers k
    refine ⟨by rw [recv_node]; exact hnodes, ?_, ?_⟩
    · -- the statement objects
      rcases hck : st.caller k with ⟨pc, wire⟩
      rw [hck] at hk
      cases wire with
      | none => simpa [recv, hck] using hobjs
      | req n' r' => simpa [recv, hck] using hobjs
      | resp resp =>
        have hresp : NoIdResp resp := hk.2 resp rfl
        cases pc with
        | idle => simpa [recv, hck] using hobjs
        | fresh s n' t =>
          cases resp with
          | prepared p =>
            intro o
            simp only [recv, hck, finish, setCaller, upd]
            split
            · exact ⟨rfl, by simpa [prepMeta, NoIdResp] using hresp⟩
            · exact hobjs o
          | _ => simpa [recv, hck, finish, setCaller] using hobjs
        | exec1 op c =>
          cases resp with
          | rows r =>
            simp only [recv, hck, finish, setCaller, handleResp, hnodes op.node]
            split
            · exact hobjs
            · exact noext_objs_keep _ _ _
                (handleNewId_noid _ _ (noext_metaUsed_id c r hk.1 hresp)) hobjs
          | _ => simpa [recv, hck, finish, send, setCaller, handleResp] using hobjs
        | exec2 op c =>
          cases resp with
          | rows r =>
            simp only [recv, hck, finish, setCaller, handleResp, hnodes op.node]
            split
            · exact hobjs
            · exact noext_objs_keep _ _ _
                (handleNewId_noid _ _ (noext_metaUsed_id c r hk.1 hresp)) hobjs
          | _ => simpa [recv, hck, finish, setCaller, handleResp] using hobjs
        | execPrep op =>
          cases resp with
          | prepared p =>
            by_cases hid : p.id = (st.objs op.obj).id
            · simp only [recv, hck, reprepare_noext_keeps _ _ _ hresp hid, send, setCaller]
              exact noext_objs_keep _ _ _ rfl hobjs
            · simpa [recv, hck, reprepare_id_mismatch _ _ _ hid, finish, setCaller] using hobjs
          | _ => simpa [recv, hck, finish, setCaller] using hobjs
        | batch op f =>
          cases resp <;> simp only [recv, hck] <;> (try split) <;> simpa [finish, send, setCaller] using hobjs
        | batchPrep op f o' =>
          cases resp with
          | prepared p =>
            by_cases hid : p.id = (st.objs o').id
            · simp only [recv, hck, reprepare_noext_keeps _ _ _ hresp hid, send, setCaller]
              exact noext_objs_keep _ _ _ rfl hobjs
            · simpa [recv, hck, reprepare_id_mismatch _ _ _ hid, finish, setCaller] using hobjs
          | _ => simpa [recv, hck, finish, setCaller] using hobjs
    · -- the callers
      intro j
      by_cases hj : j = k
      · subst hj
        rcases hck : st.caller j with ⟨pc, wire⟩
        cases wire with
        | none => simpa [recv, hck] using hk
        | req n' r' => simpa [recv, hck] using hk
        | resp resp =>
          cases pc with
          | idle => simpa [recv, hck] using hk
          | execPrep op =>
            cases resp with
            | prepared p =>
              by_cases hid : p.id = (st.objs op.obj).id
              · obtain ⟨cur', hrep, hr⟩ := exec_reprepared_resends st j op p hck hid
                simp only at hr
                rw [hr]
                have hp : p.mid = none := by rw [hck] at hk; exact hk.2 _ rfl
                rw [reprepare_noext_keeps _ _ _ hp hid] at hrep
                simp only [Except.ok.injEq] at hrep
                subst hrep
                simp only [setCaller, upd_same, NoExtCaller]
                exact ⟨cachedParams_cached_id _ _ _ (hobjs op.obj).2, by simp⟩
              · rw [reprepare_id_mismatch_is_error st j op p hck hid]; simp [setCaller, NoExtCaller]
            | _ => simp [recv, hck, finish, setCaller, NoExtCaller]
          | fresh s n' t => cases resp <;> simp [recv, hck, finish, setCaller, NoExtCaller]
          | exec1 op c => cases resp <;> simp [recv, hck, finish, send, setCaller, NoExtCaller]
          | exec2 op c => simp [recv, hck, finish, setCaller, NoExtCaller]
          | batch op f =>
            cases resp <;> simp only [recv, hck] <;> (try split) <;> simp [finish, send, setCaller, NoExtCaller]
          | batchPrep op f o' =>
            cases resp <;> simp only [recv, hck] <;> (try split) <;> simp [finish, send, setCaller, NoExtCaller]
      · exact hothers j hj

/-- `noext_current_is_announced_at_preparation`: in a cluster without the extension, along EVERY history, the
current result metadata of every statement object is the metadata announced by the PREPARED response that created
it (second half of `decode_metadata_faithful`: without the extension, rows sent without metadata are decoded with
the columns announced at preparation — CQL v4 offers nothing better, prepared.rs:167-198; re-preparations do not
update them, connection.rs:715-717). -/
theorem noext_current_is_announced_at_preparation (xs : List Step) (st : State) (hinv : NoExtInv st) :
    NoExtInv (exec st xs) ∧ ∀ o, ((exec st xs).objs o).cur = ((exec st xs).objs o).initial := by
  induction xs generalizing st with
  | nil => exact ⟨hinv, fun o => (hinv.2.1 o).1⟩
  | cons x xs ih => simp only [exec]; exact ih _ (noext_step st x hinv)

/-! ## non-vacuity: a concrete cluster satisfies the invariants and produces the histories the theorems talk about -/

/-- how the caller writes statement 0 in the examples: surrounded by whitespace and newlines (`textV 0 3`) -/
def exText : String := "\n  q0\t \n"

def exCols : Id → List Col
  | "m1" => [⟨"a", .int⟩]
  | "m3" => [⟨"a", .int⟩, ⟨"b", .text⟩]
  | _ => []

def exNode (ext : Bool) : Node := ⟨ext, false, [], fun _ => ⟨0, ⟨"m1", [⟨"a", .int⟩]⟩, .normal, false⟩, false, none⟩

def exState (ext : Bool) : State :=
  { objs := fun _ => ⟨"", ⟨"", 0⟩, RMeta.empty, RMeta.empty⟩, nObjs := 0, slot := fun _ => none,
    node := fun _ => exNode ext, caller := fun _ => ⟨.idle, .none⟩, tsCtr := 0 }

theorem exState_inv : Inv exCols (exState true) :=
  ⟨fun _ => ⟨rfl, fun _ => ⟨rfl, by simp [exState, exNode]⟩⟩, fun _ => goodMeta_empty exCols,
   fun _ => ⟨trivial, fun _ h => by cases h⟩⟩

example : NoExtInv (exState false) :=
  ⟨fun _ => rfl, fun _ => ⟨rfl, rfl⟩, fun _ => ⟨trivial, fun _ h => by cases h⟩⟩

example : EventsOK exCols [.event 0 (.schemaChange 0 ⟨"m3", [⟨"a", .int⟩, ⟨"b", .text⟩]⟩), .event 0 (.evict 0)] :=
  ⟨⟨rfl, by decide⟩, trivial, trivial⟩

/-- prepare, execute (metadata skipped), schema change + eviction, execute: UNPREPARED, PREPARE, the same EXECUTE
with the NEW metadata id, rows without metadata decoded with the new columns -/
def exHistory : List Step :=
  [.start 0 (.prepare 0 0 exText), .serve 0, .recv 0,
   .start 0 (.execute ⟨0, 0, false, 6, none, none, none, none, [7]⟩), .serve 0, .recv 0,
   .event 0 (.schemaChange 0 ⟨"m3", [⟨"a", .int⟩, ⟨"b", .text⟩]⟩), .event 0 (.evict 0),
   .start 0 (.execute ⟨0, 0, false, 6, some 8, some 42, none, none, [8, 9]⟩), .serve 0, .recv 0, .serve 0, .recv 0,
   .serve 0, .recv 0]

example : (run (exState true) exHistory).2.drop 8 =
    [.sent 0 (.execute ⟨⟨exText, 0⟩, some "m1", true, [8, 9], 6, some 8, some 42, none, none⟩),
     .served (.unprepared ⟨exText, 0⟩),
     .sent 0 (.prepare exText),
     .served (.prepared ⟨⟨exText, 0⟩, some "m3", false, 2, [⟨"a", .int⟩, ⟨"b", .text⟩]⟩),
     .sent 0 (.execute ⟨⟨exText, 0⟩, some "m3", true, [8, 9], 6, some 8, some 42, none, none⟩),
     .served (.rows ⟨true, none, 2, [], none, ⟨2, [.int 800, .text "s8r0c1", .int 810, .text "s8r1c1"]⟩⟩),
     .done (.rows ⟨some "m3", 2, [⟨"a", .int⟩, ⟨"b", .text⟩]⟩
       (some [[.int 800, .text "733872306331"], [.int 810, .text "733872316331"]]) none)] := by
  decide +kernel

/-- `eviction_transparent` is not vacuous: the state of `exHistory` in which the UNPREPARED answer is in flight
satisfies all its hypotheses. -/
example :
    let st := exec (exState true) (exHistory.take 10)
    Inv exCols st ∧
    st.caller 0 = ⟨.exec1 ⟨0, 0, false, 6, some 8, some 42, none, none, [8, 9]⟩ (some ⟨some "m1", 1, [⟨"a", .int⟩]⟩),
                   .resp (.unprepared ⟨exText, 0⟩)⟩ ∧
    (0 : Nat) < st.nObjs ∧ stmtOfText (st.objs 0).text = some 0 ∧ (st.objs 0).text = exText ∧ (st.objs 0).id = idOf exText (((st.node 0).st 0).idv) ∧
    (st.node 0).ext = true ∧ ((st.node 0).st 0).prepFail = false :=
  ⟨inv_exec exCols _ _ exState_inv (by simp [exHistory, EventsOK, EventOK, exCols]),
   by decide +kernel, by decide +kernel, by decide +kernel, by decide +kernel, by decide +kernel, by decide +kernel⟩

theorem exState_wf (ext : Bool) : WF (exState ext) :=
  ⟨fun o h => absurd h (by simp [exState]), fun s o h => by simp [exState] at h, fun _ => ⟨trivial, trivial⟩⟩

/-- a batch of two executions of statement 0, evicted: UNPREPARED in flight -/
def exBatchHistory : List Step :=
  [.start 0 (.prepare 0 0 exText), .serve 0, .recv 0, .event 0 (.evict 0),
   .start 0 (.batch ⟨0, 6, some 8, some 5, [(0, [1]), (0, [2])]⟩), .serve 0]

/-- `batch_round_reprepares_named_statement` / `batch_eviction_transparent` are not vacuous -/
example :
    let st := exec (exState true) exBatchHistory
    let frame : BatchReq := ⟨[(⟨exText, 0⟩, [1]), (⟨exText, 0⟩, [2])], 6, some 8, some 5⟩
    st.caller 0 = ⟨.batch ⟨0, 6, some 8, some 5, [(0, [1]), (0, [2])]⟩ frame, .resp (.unprepared ⟨exText, 0⟩)⟩ ∧
    (∀ it ∈ [((0 : Nat), [1]), (0, [2])], it.1 < st.nObjs) ∧
    findInBatch st.objs ⟨exText, 0⟩ [(0, [1]), (0, [2])] = some 0 ∧
    stmtOfText (st.objs 0).text = some 0 ∧ (st.objs 0).text = exText ∧ (st.objs 0).id = idOf exText (((st.node 0).st 0).idv) ∧
    (st.node 0).ov = none ∧ ((st.node 0).st 0).prepFail = false ∧
    (∀ e ∈ frame.stmts, e.1 = (⟨exText, 0⟩ : SId) ∨ (st.node 0).prepared.contains e.1 = true) ∧
    WF st :=
  ⟨by decide +kernel, by decide +kernel, by decide +kernel, by decide +kernel, by decide +kernel, by decide +kernel,
   by decide +kernel, by decide +kernel, by decide +kernel, wf_exec _ _ (exState_wf true)⟩

/-! ## F-C14-1: what is FALSE of the current code, and the part that holds

FULL STATEMENT (property text: "… or, when the server omitted it as requested, with the metadata the server most
recently announced for that statement (at preparation, or later together with a new metadata id)"), for every history
with and without the extension and the skip-metadata option:

    rows a node sends WITHOUT metadata are decoded with the metadata most recently announced to this client for that
    statement object - by the creating PREPARED, by a METADATA_CHANGED response, or by a re-PREPARED response.

It is false on a connection WITHOUT the extension when `use_cached_result_metadata` is on: connection.rs:715-717
(`id().is_none()` → return) discards what a re-PREPARE announces (`reprepare_noext_keeps`). Witness: one consistent
node, ALTER, eviction, execute (known finding F-C14-1; the harness replays it against the real driver,
corpus/C14/scenarios.case). -/

def f1History : List Step :=
  [.start 0 (.prepare 0 0 exText), .serve 0, .recv 0,
   .event 0 (.schemaChange 0 ⟨"m3", [⟨"a", .int⟩, ⟨"b", .text⟩]⟩), .event 0 (.evict 0),
   .start 0 (.execute ⟨0, 0, true, 6, none, none, none, none, [5]⟩), .serve 0, .recv 0, .serve 0, .recv 0,
   .serve 0, .recv 0]

/-- the negation of the full statement on a concrete history: the re-PREPARED response announces `a:int, b:text`,
the rows are then sent without metadata in that layout, and the caller's result is decoded with `a:int` (the typed
decode fails: `none`) -/
theorem most_recent_announcement_not_used_without_extension :
    (run (exState false) f1History).2.drop 7 =
      [.sent 0 (.prepare exText),
       .served (.prepared ⟨⟨exText, 0⟩, none, false, 2, [⟨"a", .int⟩, ⟨"b", .text⟩]⟩),
       .sent 0 (.execute ⟨⟨exText, 0⟩, none, true, [5], 6, none, none, none, none⟩),
       .served (.rows ⟨true, none, 2, [], none, ⟨2, [.int 500, .text "s5r0c1", .int 510, .text "s5r1c1"]⟩⟩),
       .done (.rows ⟨none, 1, [⟨"a", .int⟩]⟩ none none)] := by
  decide +kernel

/-- `…_partial`, case "extension negotiated": `decode_metadata_faithful` (whatever the option says). -/
theorem decode_latest_announcement_partial_ext (colsOf : Id → List Col) (st : State) (hinv : Inv colsOf st) (k : Nat)
    (op : ExecOp) (cached : Option RMeta) (n : Nat) (r : ExecReq) (rr : RowsResp)
    (hpc : (st.caller k).pc = .exec1 op cached ∨ (st.caller k).pc = .exec2 op cached)
    (hw : (st.caller k).wire = .req n (.execute r)) (hext : (st.node n).ext = true)
    (hserve : (serve (st.node n) (.execute r)).2 = .rows rr) (hnm : rr.noMeta = true) :
    ∃ s c, lookupId r.id (st.node n).prepared = some s ∧ cached = some c ∧ c.cols = ((st.node n).st s).smeta.cols :=
  let ⟨s, c, h1, h2, h3, _⟩ := decode_metadata_faithful colsOf st hinv k op cached n r rr hpc hw hext hserve hnm
  ⟨s, c, h1, h2, h3⟩

/-- `…_partial`, case "no extension, option off": the request never asks to skip the metadata, nothing cached is
used, and the node sends its current columns along. -/
theorem decode_latest_announcement_partial_option_off (m : RMeta) (n : Node) (r : ExecReq) (s : Nat)
    (hext : n.ext = false) (hov : n.ov = none) (hl : lookupId r.id n.prepared = some s)
    (hskip : r.skip = (cachedParams false false m).skip) :
    (cachedParams false false m).cached = none ∧
    ∃ rr, (serve n (.execute r)).2 = .rows rr ∧ rr.noMeta = false ∧ rr.cols = (n.st s).smeta.cols := by
  have hs : (cachedParams false false m).skip = false := by
    by_cases h0 : m.colCount = 0
    · rw [cachedParams_zero_cols _ _ _ h0]
    · rw [cachedParams_noext _ _ h0]
  have hc : (cachedParams false false m).cached = none := by rw [cachedParams_cached, hs]; rfl
  refine ⟨hc, ?_⟩
  rw [serve_plain_execute n r hov, hl]
  simp [hext, hskip, hs]

/-- `…_partial`, case "no extension anywhere, option on": the request is built with the metadata announced by the
PREPARED that created the statement object - faithful exactly as long as the result metadata has not changed since. -/
theorem decode_latest_announcement_partial_noext_unchanged (st : State) (hinv : NoExtInv st) (k : Nat)
    (a : ExecArgs) (o : Nat) (hidle : st.caller k = ⟨.idle, .none⟩) (hslot : st.slot a.slot = some o) :
    ∃ op cached, ((start st k (.execute a)).1.caller k).pc = .exec1 op cached ∧ op.obj = o ∧
      ∀ c, cached = some c → c = (st.objs o).initial := by
  rw [request_built_from_current_metadata st k a o hidle hslot]
  refine ⟨⟨o, a.node, a.useCached, a.cl, a.scl, (drawTs st a.node a.ts).1, a.pageSize, a.ps, a.values⟩,
    (cachedParams (st.node a.node).ext a.useCached (st.objs o).cur).cached, by simp [setCaller], rfl, ?_⟩
  intro c hc
  rw [cachedParams_cached] at hc
  split at hc
  · simp only [Option.some.injEq] at hc; rw [← hc]; exact (hinv.2.1 o).1
  · simp at hc

end ScyllaVerif.Props.C14

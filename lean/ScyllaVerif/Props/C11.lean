/-
C11 — shard of a token and shard-aware source ports match ScyllaDB's algorithm.
Property theorems only (helper lemmas are `private`).  Model: `ScyllaVerif/Model/Sharding.lean`.
-/
import ScyllaVerif.Model.Sharding

namespace ScyllaVerif.Props.C11
open ScyllaVerif.Sharding

/-! ### shard of a token -/

private theorem toUInt64_toNat (tok : Int64) : (tok.toUInt64.toNat : Int) = tok.toInt % 2 ^ 64 := by
  have h : tok.toUInt64.toNat = tok.toBitVec.toNat := rfl
  have h2 : tok.toInt = tok.toBitVec.toInt := rfl
  rw [h, h2, BitVec.toInt_eq_toNat_cond]
  have := tok.toBitVec.isLt
  split <;> omega

private theorem toInt_range (tok : Int64) : -2 ^ 63 ≤ tok.toInt ∧ tok.toInt < 2 ^ 63 := by
  have h2 : tok.toInt = tok.toBitVec.toInt := rfl
  rw [h2, BitVec.toInt_eq_toNat_cond]
  have := tok.toBitVec.isLt
  split <;> omega

/-- The machine-arithmetic implementation (`u64` wrapping add / shift) computes exactly the algorithm
stated in the property, for every shard count, every `msb_ignore < 64` and every `i64` token. -/
theorem shardOfImpl_eq_spec (n : Nat) (msb : UInt8) (tok : Int64) (hm : msb.toNat < 64) :
    shardOfImpl n msb tok = shardOfSpec n msb.toNat tok.toInt := by
  unfold shardOfImpl shardOfSpec
  have h1 : ((1 : UInt64) <<< (63 : UInt64)).toNat = 2 ^ 63 := by decide
  have hb : (tok.toUInt64 + ((1 : UInt64) <<< (63 : UInt64))).toNat = (tok.toInt + 2 ^ 63).toNat := by
    rw [UInt64.toNat_add, h1]
    have hu := toUInt64_toNat tok
    have hr := toInt_range tok
    omega
  simp only [hm, if_true]
  rw [UInt64.toNat_shiftLeft, hb]
  have hms : msb.toUInt64.toNat % 64 = msb.toNat := by
    simp [UInt8.toNat_toUInt64]; omega
  rw [hms, Nat.shiftLeft_eq]

/-- The shard is below the shard count (spec form). -/
theorem shardOfSpec_lt (n msb : Nat) (tok : Int) (hn : 0 < n) : shardOfSpec n msb tok < n := by
  unfold shardOfSpec
  have hx : ((tok + 2 ^ 63).toNat * 2 ^ msb) % 2 ^ 64 < 2 ^ 64 := Nat.mod_lt _ (by decide)
  rw [Nat.div_lt_iff_lt_mul (by decide)]
  calc _ < 2 ^ 64 * n := Nat.mul_lt_mul_of_pos_right hx hn
    _ = n * 2 ^ 64 := Nat.mul_comm _ _

/-- The shard is below the shard count (implementation form, any `msb_ignore`). -/
theorem shardOfImpl_lt (n : Nat) (msb : UInt8) (tok : Int64) (hn : 0 < n) : shardOfImpl n msb tok < n := by
  unfold shardOfImpl
  simp only []
  generalize (if msb.toNat < 64 then (tok.toUInt64 + ((1 : UInt64) <<< (63 : UInt64))) <<< msb.toUInt64 else 0) = x
  have hx : x.toNat < 2 ^ 64 := x.toNat_lt
  rw [Nat.div_lt_iff_lt_mul (by decide)]
  calc _ < 2 ^ 64 * n := Nat.mul_lt_mul_of_pos_right hx hn
    _ = n * 2 ^ 64 := Nat.mul_comm _ _

/-- `msb_ignore >= 64` (a value `ShardInfo::new` accepts: the server's `SCYLLA_SHARDING_IGNORE_MSB` is parsed as a
`u8` with no range test): every bit of the token is ignored, `checked_shl` answers `None`, and every token belongs to
shard 0 - for every shard count and every token; nothing overflows. -/
theorem shardOf_msb_ge_64 (n : Nat) (msb : UInt8) (tok : Int64) (hm : 64 ≤ msb.toNat) :
    shardOfImpl n msb tok = 0 := by
  unfold shardOfImpl
  have : ¬ msb.toNat < 64 := by omega
  simp [this]

/-- The same in the words of the property's algorithm: shifting left by 64 or more bits inside a 64-bit word leaves
nothing, so the algorithm on naturals gives 0 as well - implementation and specification agree on ALL of `u8`. -/
theorem shardOfImpl_eq_spec_all (n : Nat) (msb : UInt8) (tok : Int64) :
    shardOfImpl n msb tok = shardOfSpec n msb.toNat tok.toInt := by
  by_cases hm : msb.toNat < 64
  · exact shardOfImpl_eq_spec n msb tok hm
  · rw [shardOf_msb_ge_64 n msb tok (by omega)]
    unfold shardOfSpec
    have hd : (2 : Nat) ^ 64 ∣ 2 ^ msb.toNat := Nat.pow_dvd_pow 2 (by omega)
    have : ((tok.toInt + 2 ^ 63).toNat * 2 ^ msb.toNat) % 2 ^ 64 = 0 :=
      Nat.mod_eq_zero_of_dvd (Nat.dvd_trans hd (Nat.dvd_mul_left _ _))
    rw [this]; simp

example : shardOfImpl 4 64 (Int64.ofInt 1) = 0 ∧ shardOfImpl 4 200 (Int64.ofInt (-5)) = 0 ∧
    shardOfImpl 4 63 (Int64.ofInt (-5)) = 2 := by decide

/-- The 128-bit product in `shard_of` never overflows `u128`. -/
theorem product_fits_u128 (x : UInt64) (n : Nat) (hn : n < 2 ^ 16) : x.toNat * n < 2 ^ 128 := by
  have hx : x.toNat < 2 ^ 64 := x.toNat_lt
  calc x.toNat * n < 2 ^ 64 * 2 ^ 16 := Nat.mul_lt_mul'' hx hn
    _ ≤ 2 ^ 128 := by decide

example : shardOfSpec 4 12 (-9223372036854775808) = 0 ∧ shardOfSpec 4 12 9223372036854775807 = 3 ∧
    shardOfImpl 4 12 (Int64.ofInt 9223372036854775807) = 3 := by decide

/-- `shard_of_source_port` is below the shard count. -/
theorem shardOfPort_lt (n p : Nat) (hn : 0 < n) : shardOfPort n p < n := Nat.mod_lt _ hn

/-! ### source ports -/

private theorem offset_spec (n s lo : Nat) (hn : 0 < n) (hs : s < n) :
    (lo + (n - lo % n + s) % n) % n = s ∧ (n - lo % n + s) % n < n := by
  have hlt : lo % n < n := Nat.mod_lt _ hn
  refine ⟨?_, Nat.mod_lt _ hn⟩
  rw [Nat.add_mod_mod]
  have hdm := Nat.div_add_mod lo n
  have : lo + (n - lo % n + s) = s + n * (lo / n + 1) := by
    rw [Nat.mul_succ]; omega
  rw [this, Nat.add_mul_mod_self_left, Nat.mod_eq_of_lt hs]

/-- Characterisation of `calculate_lowest_port_for_shard_in_range`: when it answers `some p`, `p` is the
least port `≥ lo` congruent to the shard, and it lies in the range. -/
theorem lowestPort_some (n s lo hi p : Nat) (hn : 0 < n) (hs : s < n)
    (h : lowestPort n s lo hi = some p) :
    lo ≤ p ∧ p ≤ hi ∧ p ≤ 65535 ∧ p % n = s ∧ ∀ q, lo ≤ q → q % n = s → p ≤ q := by
  unfold lowestPort at h
  simp only [] at h
  obtain ⟨hmod, hoff⟩ := offset_spec n s lo hn hs
  split at h
  · cases h
  · split at h
    · cases h
      refine ⟨by omega, by assumption, by omega, hmod, ?_⟩
      intro q hq hqs
      -- q ≥ lo and q ≡ s: q - lo ≡ offset (mod n) and offset < n
      by_cases hlt : q < lo + (n - lo % n + s) % n
      · exfalso
        -- d = q - lo < offset < n, and (lo + d) % n = s = (lo + offset) % n
        have hd : (lo + (n - lo % n + s) % n - q) % n = 0 := by
          have e1 : (lo + (n - lo % n + s) % n) % n = q % n := by rw [hmod, hqs]
          have hle : q ≤ lo + (n - lo % n + s) % n := Nat.le_of_lt hlt
          exact Nat.sub_mod_eq_zero_of_mod_eq e1
        have hpos : 0 < lo + (n - lo % n + s) % n - q := by omega
        have hsmall : lo + (n - lo % n + s) % n - q < n := by omega
        rw [Nat.mod_eq_of_lt hsmall] at hd
        omega
      · omega
    · cases h

/-- `None` is answered exactly when no port of the range is congruent to the shard (this includes the
`u16` overflow of `lo + offset`, given `hi ≤ 65535`). -/
theorem lowestPort_none_iff (n s lo hi : Nat) (hn : 0 < n) (hs : s < n) (hhi : hi ≤ 65535) :
    lowestPort n s lo hi = none ↔ ¬ ∃ p, lo ≤ p ∧ p ≤ hi ∧ p % n = s := by
  obtain ⟨hmod, hoff⟩ := offset_spec n s lo hn hs
  constructor
  · intro h ⟨p, hlo, hphi, hps⟩
    -- the least candidate is ≤ p ≤ hi ≤ 65535, so lowestPort would be `some`
    have hleast : lo + (n - lo % n + s) % n ≤ p := by
      by_cases hlt : p < lo + (n - lo % n + s) % n
      · exfalso
        have hd : (lo + (n - lo % n + s) % n - p) % n = 0 := by
          have e1 : (lo + (n - lo % n + s) % n) % n = p % n := by rw [hmod, hps]
          exact Nat.sub_mod_eq_zero_of_mod_eq e1
        have hsmall : lo + (n - lo % n + s) % n - p < n := by omega
        rw [Nat.mod_eq_of_lt hsmall] at hd
        omega
      · omega
    unfold lowestPort at h
    simp only [] at h
    split at h
    · omega
    · split at h
      · cases h
      · omega
  · intro h
    cases hl : lowestPort n s lo hi with
    | none => rfl
    | some p =>
      exfalso
      obtain ⟨h1, h2, _, h4, _⟩ := lowestPort_some n s lo hi p hn hs hl
      exact h ⟨p, h1, h2, h4⟩

private theorem mem_validPorts (first hi n p : Nat) (hn : 0 < n) (hf : first ≤ hi) :
    p ∈ validPorts first hi n ↔ first ≤ p ∧ p ≤ hi ∧ (p - first) % n = 0 := by
  unfold validPorts
  simp only [List.mem_map, List.mem_range]
  constructor
  · rintro ⟨i, hi', rfl⟩
    refine ⟨by omega, ?_, ?_⟩
    · have : i ≤ (hi - first) / n := by omega
      have : i * n ≤ hi - first := (Nat.le_div_iff_mul_le hn).mp this
      omega
    · simp
  · rintro ⟨h1, h2, h3⟩
    refine ⟨(p - first) / n, ?_, ?_⟩
    · have : (p - first) / n ≤ (hi - first) / n := Nat.div_le_div_right (by omega)
      omega
    · have := Nat.div_add_mod (p - first) n
      rw [h3] at this
      rw [Nat.mul_comm]
      omega

/-- **Port set characterisation.** The ports the driver may draw / iterate for shard `s` in `[lo, hi]` are
exactly the ports of the range congruent to `s` modulo the shard count. -/
theorem ports_char (n s lo hi p : Nat) (hn : 0 < n) (hs : s < n) (hhi : hi ≤ 65535) :
    p ∈ ports n s lo hi ↔ lo ≤ p ∧ p ≤ hi ∧ p % n = s := by
  unfold ports
  cases hl : lowestPort n s lo hi with
  | none =>
    have := (lowestPort_none_iff n s lo hi hn hs hhi).mp hl
    simp only [List.not_mem_nil, false_iff]
    intro hp
    exact this ⟨p, hp⟩
  | some first =>
    obtain ⟨h1, h2, _, h4, h5⟩ := lowestPort_some n s lo hi first hn hs hl
    simp only []
    rw [mem_validPorts first hi n p hn h2]
    constructor
    · rintro ⟨a, b, c⟩
      refine ⟨by omega, b, ?_⟩
      have : p = first + (p - first) := by omega
      rw [this, Nat.add_mod, c, Nat.add_zero, Nat.mod_mod, h4]
    · rintro ⟨a, b, c⟩
      have hfp := h5 p a c
      refine ⟨hfp, b, ?_⟩
      exact Nat.sub_mod_eq_zero_of_mod_eq (by rw [c, h4])

/-- `None`/empty iterator is produced only when no port of the range belongs to the shard. -/
theorem ports_nil_iff (n s lo hi : Nat) (hn : 0 < n) (hs : s < n) (hhi : hi ≤ 65535) :
    ports n s lo hi = [] ↔ ¬ ∃ p, lo ≤ p ∧ p ≤ hi ∧ p % n = s := by
  constructor
  · intro h ⟨p, hp⟩
    have := (ports_char n s lo hi p hn hs hhi).mpr hp
    rw [h] at this
    cases this
  · intro h
    cases hps : ports n s lo hi with
    | nil => rfl
    | cons a as =>
      exfalso
      have : a ∈ ports n s lo hi := by rw [hps]; exact List.mem_cons_self
      exact h ⟨a, (ports_char n s lo hi a hn hs hhi).mp this⟩

private theorem validPorts_pairwise (first hi n : Nat) (hn : 0 < n) :
    (validPorts first hi n).Pairwise (· < ·) := by
  unfold validPorts
  rw [List.pairwise_map]
  have : (List.range ((hi - first) / n + 1)).Pairwise (· < ·) := List.pairwise_lt_range
  refine this.imp ?_
  intro a b hab
  have : a * n < b * n := Nat.mul_lt_mul_of_pos_right hab hn
  omega

/-- The port list is strictly ascending — in particular duplicate-free. -/
theorem ports_sorted (n s lo hi : Nat) (hn : 0 < n) : (ports n s lo hi).Pairwise (· < ·) := by
  unfold ports
  cases lowestPort n s lo hi with
  | none => exact List.Pairwise.nil
  | some first => exact validPorts_pairwise first hi n hn

theorem ports_nodup (n s lo hi : Nat) (hn : 0 < n) : (ports n s lo hi).Nodup := by
  have := ports_sorted n s lo hi hn
  exact this.imp (fun h => Nat.ne_of_lt h)

/-- A drawn port (any random index) is one of the valid ports, hence in range and congruent to the shard. -/
theorem drawPort_mem (n s lo hi idx p : Nat) (h : drawPort n s lo hi idx = some p) :
    p ∈ ports n s lo hi := by
  unfold drawPort at h
  unfold ports
  cases hl : lowestPort n s lo hi with
  | none => rw [hl] at h; cases h
  | some first =>
    rw [hl] at h
    simp only [] at h ⊢
    exact List.mem_of_getElem? h

theorem drawPort_spec (n s lo hi idx p : Nat) (hn : 0 < n) (hs : s < n) (hhi : hi ≤ 65535)
    (h : drawPort n s lo hi idx = some p) : lo ≤ p ∧ p ≤ hi ∧ p % n = s :=
  (ports_char n s lo hi p hn hs hhi).mp (drawPort_mem n s lo hi idx p h)

/-- Drawing fails only when there is no valid port (for an index the RNG can produce). -/
theorem drawPort_isSome (n s lo hi idx : Nat) (hidx : idx < (ports n s lo hi).length) :
    (drawPort n s lo hi idx).isSome := by
  unfold drawPort
  unfold ports at hidx
  cases hl : lowestPort n s lo hi with
  | none => rw [hl] at hidx; simp at hidx
  | some first =>
    rw [hl] at hidx
    simp only [] at hidx ⊢
    simp [hidx]

/-- The draw returns nothing only when no port of the range maps to the shard: for every index the RNG can
produce (an index into the candidate list; with an empty candidate list no index is drawn at all) a failed
draw means the range holds no valid port. -/
theorem drawPort_none_no_port (n s lo hi idx : Nat) (hn : 0 < n) (hs : s < n) (hhi : hi ≤ 65535)
    (hidx : idx < (ports n s lo hi).length ∨ ports n s lo hi = [])
    (h : drawPort n s lo hi idx = none) : ¬ ∃ p, lo ≤ p ∧ p ≤ hi ∧ p % n = s := by
  rcases hidx with hidx | hnil
  · have := drawPort_isSome n s lo hi idx hidx
    rw [h] at this
    cases this
  · exact (ports_nil_iff n s lo hi hn hs hhi).mp hnil

example : drawPort 4 3 10 14 0 = some 11 ∧ drawPort 4 3 12 14 0 = none := by decide

/-- The iterator visits every valid port exactly once, whatever the random pivot. -/
theorem iterPorts_perm (n s lo hi pivot : Nat) : (iterPorts n s lo hi pivot).Perm (ports n s lo hi) := by
  unfold iterPorts
  simp only []
  exact (List.perm_append_comm).trans (by rw [List.take_append_drop])

theorem iterPorts_nodup (n s lo hi pivot : Nat) (hn : 0 < n) : (iterPorts n s lo hi pivot).Nodup :=
  (iterPorts_perm n s lo hi pivot).nodup_iff.mpr (ports_nodup n s lo hi hn)

theorem iterPorts_mem (n s lo hi pivot p : Nat) (hn : 0 < n) (hs : s < n) (hhi : hi ≤ 65535) :
    p ∈ iterPorts n s lo hi pivot ↔ lo ≤ p ∧ p ≤ hi ∧ p % n = s := by
  rw [(iterPorts_perm n s lo hi pivot).mem_iff]
  exact ports_char n s lo hi p hn hs hhi

-- non-vacuity: a range shorter than the shard count, a range ending at 65535, an overflowing offset
example : ports 7 3 65530 65535 = [65530] ∧ ports 7 2 65530 65535 = [] ∧
    ports 4 1 49152 49165 = [49153, 49157, 49161, 49165] ∧ lowestPort 100 99 65500 65535 = none ∧
    iterPorts 4 1 49152 49165 2 = [49161, 49165, 49153, 49157] := by decide

/-! ### sharding info from SUPPORTED -/

theorem shardinfo_valid (shard n msb : Nat) (si : ShardInfo) (h : parseShardInfo shard n msb = .ok si) :
    si.shard < si.nrShards ∧ si.nrShards ≠ 0 ∧ si = ⟨shard, n, msb⟩ := by
  unfold parseShardInfo at h
  repeat' split at h
  all_goals first | (cases h; done) | skip
  cases h
  exact ⟨by simp only []; omega, by simp only []; omega, rfl⟩

/-- The whole `try_from`: when all three first values are decimal numbers it is `parseShardInfo`. -/
theorem shardopts_numbers (s n m : Nat) :
    parseShardOptions (.val (some s)) (.val (some n)) (.val (some m)) =
      (match parseShardInfo s n m with
       | .ok si => .ok si
       | .error e => .error (.info e)) := by
  unfold parseShardOptions parseShardInfo
  by_cases h1 : s > 65535
  · simp [h1]
  · by_cases h2 : n > 65535
    · simp [h1, h2]
    · by_cases h3 : n = 0
      · simp [h1, h3]
      · by_cases h4 : m > 255
        · simp [h1, h2, h3, h4]
        · by_cases h5 : s ≥ n
          · simp [h1, h2, h3, h4, h5]
          · simp [h1, h2, h3, h4, h5]

/-- Sharding information is accepted only when all three entries are present with a numeric first value, and then
it is exactly those numbers, with `shard < nr_shards ≤ 65535`, `nr_shards ≠ 0`, `msb_ignore ≤ 255`. -/
theorem shardopts_ok (a b c : Entry) (si : ShardInfo) (h : parseShardOptions a b c = .ok si) :
    a = .val (some si.shard) ∧ b = .val (some si.nrShards) ∧ c = .val (some si.msbIgnore) ∧
    si.shard < si.nrShards ∧ si.nrShards ≠ 0 ∧ si.nrShards ≤ 65535 ∧ si.msbIgnore ≤ 255 := by
  unfold parseShardOptions at h
  repeat' split at h
  all_goals first | (cases h; done) | skip
  cases h
  refine ⟨rfl, rfl, rfl, ?_, ?_, ?_, ?_⟩ <;> simp only [] <;> omega

/-- A node that sends none of the three entries (Cassandra) is told apart from a broken ScyllaDB answer. -/
theorem shardopts_no_info_iff (a b c : Entry) :
    parseShardOptions a b c = .error .noShardInfo ↔ a = .absent ∧ b = .absent ∧ c = .absent := by
  constructor
  · intro h
    unfold parseShardOptions at h
    repeat' split at h
    all_goals first | (cases h; done) | skip
    all_goals first | exact ⟨rfl, rfl, rfl⟩ | (simp_all; done)
  · rintro ⟨rfl, rfl, rfl⟩; rfl

example : parseShardOptions (.val (some 3)) (.val (some 8)) (.val (some 12)) = .ok ⟨3, 8, 12⟩ ∧
    parseShardOptions .absent (.val (some 8)) (.val (some 12)) = .error .missingSome ∧
    parseShardOptions (.val (some 3)) .empty (.val (some 12)) = .error .missingValues ∧
    parseShardOptions (.val (some 3)) (.val none) .empty = .error .missingValues ∧
    parseShardOptions (.val (some 9)) (.val (some 8)) (.val none) = .error (.info .parse) :=
  ⟨rfl, rfl, rfl, rfl, rfl⟩

end ScyllaVerif.Props.C11

import ScyllaVerif.Props.C14
import ScyllaVerif.Props.C14Session

/-!
# C14 — CachingSession × `USE <keyspace>`

`CachingSession` keys its cache by the statement TEXT alone (caching_session.rs:205 `cache.get(&query.contents)`,
insert at :240) and nothing invalidates it when `get_session().use_keyspace(ks2)` changes the keyspace in force on the
connections. SERVER ASSUMPTION, explicit parameter `idOf : keyspace → text → id`: the id a node hands out at PREPARE is
a function of the keyspace in force on the connection and the exact text (an unqualified `SELECT .. FROM t` is a
different statement, with a different id, in another keyspace): `KsInjective`.

Bridging definitions (this file only): `prepIn` = `Session::prepare` while keyspace `ks` is in force, as the `prep`
argument of `PreparedSession.addPrepared`; `Known` = the prepared-statement cache of a node (id ↦ the (keyspace, text)
it was prepared under) with `kPrepare` / `kEvict` / `kExecute`; `sid` = a cached handle's id as the `SId` of the
connection-level model `Model/Prepared.lean`.
-/

namespace ScyllaVerif.Props.C14Use

open ScyllaVerif.PreparedSession

/-- `Session::prepare` while keyspace `ks` is in force on the connections -/
def prepIn (idOf : String → String → String) (ks : String) : String → Except Nat String := fun t => .ok (idOf ks t)

/-- the server assumption: the same text prepared under two keyspaces gets two ids -/
def KsInjective (idOf : String → String → String) : Prop := ∀ t ks1 ks2, idOf ks1 t = idOf ks2 t → ks1 = ks2

/-- a node's prepared-statement cache: id ↦ (keyspace, text) the statement was prepared under -/
abbrev Known := List (String × (String × String))

def kLookup (id : String) : Known → Option (String × String)
  | [] => none
  | (k, v) :: rest => if k == id then some v else kLookup id rest

/-- PREPARE of `t` on a connection on which keyspace `ks` is in force -/
def kPrepare (idOf : String → String → String) (ks t : String) (n : Known) : Known × String :=
  ((idOf ks t, (ks, t)) :: n, idOf ks t)

def kEvict (id : String) (n : Known) : Known := n.filter (fun e => e.1 != id)

inductive KAnswer
  | executed (ks text : String)
  | unprepared (id : String)
deriving DecidableEq, Repr

/-- EXECUTE by id: the node runs the statement it holds under that id - whatever keyspace the connection is in NOW -/
def kExecute (id : String) (n : Known) : KAnswer :=
  match kLookup id n with
  | some (ks, t) => .executed ks t
  | none => .unprepared id

/-- a handle's id in the connection-level model -/
def sid (id : String) : ScyllaVerif.Prepared.SId := ⟨id, 0⟩

private theorem cacheGet_cacheAdd (cap : Nat) (pick : Cache → String) (c : Cache) (s : PStmt) :
    cacheGet s.text (cacheAdd cap pick c s) = some s := by
  simp [cacheAdd, cacheInsert, cacheGet]

private theorem kLookup_kEvict (id : String) (n : Known) : kLookup id (kEvict id n) = none := by
  induction n with
  | nil => rfl
  | cons e rest ih =>
    by_cases h : e.1 = id
    · simp [kEvict, List.filter, h]; exact ih
    · have : (e.1 != id) = true := by simp [h]
      simp only [kEvict, List.filter, this, kLookup]
      have h2 : (e.1 == id) = false := by simp [h]
      simp only [h2]; exact ih

/-- `cache_hit_ignores_use`: text `q.text` is missed and prepared while `ks1` is in force; then, whatever keyspace `ks2`
is in force later (`use_keyspace` does not touch the cache), a call for the same text is a HIT: the cluster is not
asked, the cache is unchanged, and the handle returned carries the id issued under `ks1` - which is the id every
EXECUTE through it presents (`execFrame`: the frame carries the statement object's id). -/
theorem cache_hit_ignores_use (idOf : String → String → String) (cap : Nat) (u : Bool) (pick : Cache → String)
    (c : Cache) (q q' : Query) (ks1 ks2 : String) (hmiss : cacheGet q.text c = none) (ht : q'.text = q.text) :
    ∃ h1 c1, addPrepared cap u (prepIn idOf ks1) pick c q = .ok (h1, c1, true) ∧ h1.id = idOf ks1 q.text ∧
      ∃ h2, addPrepared cap u (prepIn idOf ks2) pick c1 q' = .ok (h2, c1, false) ∧
        h2.id = idOf ks1 q.text ∧ h2.text = q.text ∧ h2.cfg = q'.cfg ∧
        ∀ (obj : ScyllaVerif.Prepared.Stmt) (op : ScyllaVerif.Prepared.ExecOp) (cp : ScyllaVerif.Prepared.CParams),
          obj.id = sid h2.id → (ScyllaVerif.Prepared.execFrame obj op cp).id = sid (idOf ks1 q.text) := by
  refine ⟨⟨idOf ks1 q.text, q.text, q.cfg, q.page, u⟩, _, by simp [addPrepared, hmiss, prepIn]; rfl, rfl, ?_⟩
  have hget := cacheGet_cacheAdd cap pick c ⟨idOf ks1 q.text, q.text, q.cfg, q.page, u⟩
  simp only at hget
  refine ⟨⟨idOf ks1 q.text, q.text, q'.cfg, q'.page, u⟩, by simp [addPrepared, ht, hget], rfl, rfl, rfl, ?_⟩
  intro obj op cp h
  simp [ScyllaVerif.Prepared.execFrame, h]

/-- `hit_after_use_executes_old_statement_while_known` - the caller-visible consequence, stated plainly: after
`USE ks2`, an execution through the hit handle of an unqualified text is, while the node still holds the id, an
execution of the statement prepared under `ks1` (i.e. against `ks1.t`), NOT of the same text under `ks2`. No eviction
is involved: a documented limitation of keying the cache by text (declared in `partial`), not a C14 violation. -/
theorem hit_after_use_executes_old_statement_while_known (idOf : String → String → String) (cap : Nat) (u : Bool)
    (pick : Cache → String) (c : Cache) (q q' : Query) (ks1 ks2 : String) (n : Known)
    (hmiss : cacheGet q.text c = none) (ht : q'.text = q.text) (hks : ks1 ≠ ks2)
    (hknown : kLookup (idOf ks1 q.text) n = some (ks1, q.text)) :
    ∃ h1 c1 h2, addPrepared cap u (prepIn idOf ks1) pick c q = .ok (h1, c1, true) ∧
      addPrepared cap u (prepIn idOf ks2) pick c1 q' = .ok (h2, c1, false) ∧
      kExecute h2.id n = .executed ks1 q.text ∧ kExecute h2.id n ≠ .executed ks2 q'.text := by
  obtain ⟨h1, c1, e1, _, h2, e2, hid, _⟩ := cache_hit_ignores_use idOf cap u pick c q q' ks1 ks2 hmiss ht
  have hx : kExecute h2.id n = .executed ks1 q.text := by simp [kExecute, hid, hknown]
  refine ⟨h1, c1, h2, e1, e2, hx, ?_⟩
  rw [hx]; intro h; injection h with a _; exact hks a

/-- `evicted_after_use_is_error_not_misbind` - the property's clause proper. The node evicted the id issued under
`ks1`: the EXECUTE through the hit handle is answered UNPREPARED; the re-PREPARE of the handle's text goes out on a
connection now in `ks2`, so the node answers `idOf ks2 t`, which differs from the handle's id (`KsInjective`); the
caller - waiting for that PREPARED in ANY state of the connection-level model - gets RepreparedIdChanged, nothing is
sent (no EXECUTE bound to the `ks2` statement's id or metadata), and no statement object changes. -/
theorem evicted_after_use_is_error_not_misbind (idOf : String → String → String) (hinj : KsInjective idOf)
    (ks1 ks2 t : String) (hks : ks1 ≠ ks2) (n : Known)
    (st : ScyllaVerif.Prepared.State) (k : Nat) (op : ScyllaVerif.Prepared.ExecOp) (p : ScyllaVerif.Prepared.PrepResp)
    (hobj : (st.objs op.obj).id = sid (idOf ks1 t))
    (hc : st.caller k = ⟨.execPrep op, .resp (.prepared p)⟩)
    (hp : p.id = sid (kPrepare idOf ks2 t (kEvict (idOf ks1 t) n)).2) :
    kExecute (idOf ks1 t) (kEvict (idOf ks1 t) n) = .unprepared (idOf ks1 t) ∧
    ScyllaVerif.Prepared.recv st k =
      (ScyllaVerif.Prepared.setCaller st k ⟨.idle, .none⟩, .done .repreparedIdChanged) ∧
    (ScyllaVerif.Prepared.recv st k).1.objs = st.objs := by
  have hne : p.id ≠ (st.objs op.obj).id := by
    rw [hp, hobj]; intro h
    have : idOf ks2 t = idOf ks1 t := by simpa [sid, kPrepare] using h
    exact hks (hinj t ks1 ks2 this.symm)
  have hr := ScyllaVerif.Props.C14.reprepare_id_mismatch_is_error st k op p hc hne
  refine ⟨by simp [kExecute, kLookup_kEvict], hr, ?_⟩
  rw [hr]; rfl

/-! ## non-vacuity -/

/-- a concrete id function satisfying the server assumption -/
def exIdOf (ks t : String) : String := ks ++ ("/" ++ t)

theorem exIdOf_injective : KsInjective exIdOf := by
  intro t a b h
  have h2 := congrArg String.toList h
  simp only [exIdOf, String.toList_append] at h2
  exact String.toList_injective (List.append_cancel_right h2)

/-- miss under ks1, hit under ks2 with the ks1 id; the node executes the ks1 statement; after eviction: UNPREPARED and a
re-PREPARE under ks2 that yields another id -/
example :
    let q : Query := ⟨"SELECT a FROM t", Cfg.default, 5000⟩
    (addPrepared 2 false (prepIn exIdOf "ks1") (fun _ => "") [] q).toOption.map (fun r => r.1.id) = some "ks1/SELECT a FROM t" ∧
    (addPrepared 2 false (prepIn exIdOf "ks2") (fun _ => "") [("SELECT a FROM t", ⟨"ks1/SELECT a FROM t", "SELECT a FROM t", Cfg.default, 5000, false⟩)] q).toOption.map
        (fun r => (r.1.id, r.2.2)) = some ("ks1/SELECT a FROM t", false) ∧
    kExecute "ks1/SELECT a FROM t" (kPrepare exIdOf "ks1" "SELECT a FROM t" []).1 = .executed "ks1" "SELECT a FROM t" ∧
    kExecute "ks1/SELECT a FROM t" (kEvict "ks1/SELECT a FROM t" (kPrepare exIdOf "ks1" "SELECT a FROM t" []).1) =
      .unprepared "ks1/SELECT a FROM t" ∧
    (kPrepare exIdOf "ks2" "SELECT a FROM t" []).2 = "ks2/SELECT a FROM t" := by
  decide +kernel

end ScyllaVerif.Props.C14Use

/-
C18 — client-side timestamps from the monotonic generator strictly increase.
Property theorems only.  Model: `ScyllaVerif/Model/Timestamp.lean`.
-/
import ScyllaVerif.Model.Timestamp

namespace ScyllaVerif.Props.C18
open ScyllaVerif.Timestamp

/-- `compute_next` always exceeds the value it was given, whatever the clock says
(stalled, repeated, backwards, pre-epoch). Hypothesis-free on `Int`; on `i64` it needs `last < i64::MAX`. -/
theorem computeNext_gt (last : Int) (clock : Option Int) : last < computeNext last clock := by
  cases clock with
  | none => simp only [computeNext]; omega
  | some u => simp only [computeNext]; split <;> omega

/-- With a clock ahead of `last` the clock reading itself is returned (no artificial increment). -/
theorem computeNext_clock (last u : Int) (h : last < u) : computeNext last (some u) = u := by
  simp [computeNext, h]

/-- The inductive invariant of the CAS loop. -/
def Inv (s : St) : Prop :=
  (s.log.map (·.2)).Pairwise (· < ·) ∧
  (∀ v ∈ s.log.map (·.2), v ≤ s.last) ∧
  (∀ t l c, s.pcs t = .computed l c → l < c)

private theorem inv_init : Inv St.init := by
  refine ⟨by simp [St.init], by simp [St.init], ?_⟩
  intro t l c h
  simp [St.init] at h

private theorem setPc_computed {pcs : Nat → Pc} {t t' : Nat} {pc : Pc} {l c : Int}
    (h : setPc pcs t pc t' = .computed l c) : (t' = t ∧ pc = .computed l c) ∨ (t' ≠ t ∧ pcs t' = .computed l c) := by
  unfold setPc at h
  split at h
  · exact Or.inl ⟨by assumption, h⟩
  · exact Or.inr ⟨by assumption, h⟩

private theorem inv_setPc_noncomputed (s : St) (t : Nat) (pc : Pc) (h : Inv s)
    (hpc : ∀ l c, pc = .computed l c → l < c) : Inv { s with pcs := setPc s.pcs t pc } := by
  obtain ⟨hsorted, hle, hp⟩ := h
  refine ⟨hsorted, hle, ?_⟩
  intro t' l c hc
  rcases setPc_computed hc with ⟨_, h2⟩ | ⟨_, h2⟩
  · exact hpc l c h2
  · exact hp t' l c h2

private theorem inv_step (s : St) (e : Ev) (h : Inv s) : Inv (step s e) := by
  cases e with
  | load t =>
    simp only [step]
    cases hp : s.pcs t with
    | idle => exact inv_setPc_noncomputed s t _ h (by intro l c hc; cases hc)
    | loaded l => exact h
    | computed l c => exact h
  | compute t clock =>
    simp only [step]
    cases hp : s.pcs t with
    | idle => exact h
    | loaded l =>
      exact inv_setPc_noncomputed s t _ h (by intro l' c' hc; cases hc; exact computeNext_gt _ _)
    | computed l c => exact h
  | cas t =>
    simp only [step]
    cases hp : s.pcs t with
    | idle => exact h
    | loaded l => exact h
    | computed l c =>
      obtain ⟨hsorted, hle, hpc⟩ := h
      have hlc := hpc t l c hp
      simp only []
      split
      · rename_i hlast
        refine ⟨?_, ?_, ?_⟩
        · simp only [List.map_append, List.map_cons, List.map_nil]
          rw [List.pairwise_append]
          refine ⟨hsorted, by simp, ?_⟩
          intro a ha b hb
          simp at hb
          have := hle a ha
          omega
        · intro v hv
          simp only [List.map_append, List.map_cons, List.map_nil, List.mem_append, List.mem_singleton] at hv
          rcases hv with hv | hv
          · have := hle v hv
            simp only []
            omega
          · simp only []
            omega
        · intro t' l' c' hc
          rcases setPc_computed hc with ⟨_, h2⟩ | ⟨_, h2⟩
          · cases h2
          · exact hpc t' l' c' h2
      · exact inv_setPc_noncomputed s t _ ⟨hsorted, hle, hpc⟩ (by intro l' c' hc; cases hc)

private theorem inv_run (s : St) (evs : List Ev) (h : Inv s) : Inv (run s evs) := by
  induction evs generalizing s with
  | nil => exact h
  | cons e es ih => exact ih (step s e) (inv_step s e h)

/-- **Every interleaving, every clock:** the sequence of values installed by successful CASes — i.e. all
timestamps handed out by one generator, in the order they were installed — is strictly increasing. -/
theorem cas_log_strict (evs : List Ev) : ((run St.init evs).log.map (·.2)).Pairwise (· < ·) :=
  (inv_run St.init evs inv_init).1

/-- All timestamps handed out are pairwise distinct. -/
theorem returns_distinct (evs : List Ev) : ((run St.init evs).log.map (·.2)).Nodup :=
  (cas_log_strict evs).imp (fun h => Int.ne_of_lt h)

/-- Along every thread's own sequence of calls the timestamps strictly increase (a thread's k-th return
precedes its (k+1)-th in the log, and the log as a whole is strictly increasing). -/
theorem per_thread_increasing (evs : List Ev) (t : Nat) :
    ((((run St.init evs).log).filter (fun p => p.1 == t)).map (·.2)).Pairwise (· < ·) := by
  have h := cas_log_strict evs
  have hs : (((run St.init evs).log.filter (fun p => p.1 == t)).map (·.2)).Sublist
      ((run St.init evs).log.map (·.2)) := List.Sublist.map _ List.filter_sublist
  exact h.sublist hs

/-- The shared counter is the maximum of everything handed out so far. -/
theorem last_is_upper_bound (evs : List Ev) :
    ∀ v ∈ (run St.init evs).log.map (·.2), v ≤ (run St.init evs).last :=
  (inv_run St.init evs inv_init).2.1

/-- A timestamp set explicitly on a statement is sent unchanged, and the generator is not consulted. -/
theorem explicit_timestamp_wins (t : Int) (gen : Option (Unit → Int)) : pickTimestamp (some t) gen = some t := rfl

theorem generated_when_absent (g : Unit → Int) : pickTimestamp none (some g) = some (g ()) := rfl

theorem no_timestamp_without_generator : pickTimestamp none none = none := rfl

/-- Sequential runs under any scripted clock (what the correspondence check observes on one thread):
strictly increasing from the starting value. -/
theorem seqRun_increasing (n : Nat) (last : Int) (script : List (Option Nat)) (le : Option Nat) :
    (seqRun n last script le).Pairwise (· < ·) ∧ ∀ v ∈ seqRun n last script le, last < v := by
  induction n generalizing last script le with
  | zero => simp [seqRun]
  | succ n ih =>
    unfold seqRun
    simp only []
    have hgt := computeNext_gt last ((readClock script le).1.map microsAsI64)
    obtain ⟨h1, h2⟩ := ih (computeNext last ((readClock script le).1.map microsAsI64)) (readClock script le).2 (readClock script le).1
    refine ⟨?_, ?_⟩
    · rw [List.pairwise_cons]
      exact ⟨h2, h1⟩
    · intro v hv
      rw [List.mem_cons] at hv
      rcases hv with hv | hv
      · omega
      · have := h2 v hv
        omega

-- non-vacuity: two threads, a stalled clock (both read 5), thread 1's first CAS fails and it retries;
-- then a clock jumping backwards.
example :
    (run St.init [.load 0, .load 1, .compute 0 (some 5), .compute 1 (some 5), .cas 0, .cas 1,
                  .load 1, .compute 1 (some 5), .cas 1, .load 0, .compute 0 (some 3), .cas 0, .load 0,
                  .compute 0 none, .cas 0]).log = [(0, 5), (1, 6), (0, 7), (0, 8)] := by decide

example : seqRun 5 0 [some 10, some 10, some 7, none] none = [10, 11, 12, 13, 14] := by decide

end ScyllaVerif.Props.C18

/-
C18 — client-side timestamps from the monotonic generator strictly increase.
Property theorems only.  Model: `ScyllaVerif/Model/Timestamp.lean`.
-/
import ScyllaVerif.Model.Timestamp

namespace ScyllaVerif.Props.C18
open ScyllaVerif.Timestamp

/-- `compute_next` always exceeds the value it was given, whatever the clock says
(stalled, repeated, backwards, pre-epoch). Hypothesis-free on `Int`; on `i64` it needs `last < i64::MAX`. -/
theorem computeNext_gt (last : Int) (clock : Option Int) : last < computeNext last clock := by
  cases clock with
  | none => simp only [computeNext]; omega
  | some u => simp only [computeNext]; split <;> omega

/-- With a clock ahead of `last` the clock reading itself is returned (no artificial increment). -/
theorem computeNext_clock (last u : Int) (h : last < u) : computeNext last (some u) = u := by
  simp [computeNext, h]

/-- The inductive invariant of the CAS loop. -/
def Inv (s : St) : Prop :=
  (s.log.map (·.2)).Pairwise (· < ·) ∧
  (∀ v ∈ s.log.map (·.2), v ≤ s.last) ∧
  (∀ t l c, s.pcs t = .computed l c → l < c)

private theorem inv_init : Inv St.init := by
  refine ⟨by simp [St.init], by simp [St.init], ?_⟩
  intro t l c h
  simp [St.init] at h

private theorem setPc_computed {pcs : Nat → Pc} {t t' : Nat} {pc : Pc} {l c : Int}
    (h : setPc pcs t pc t' = .computed l c) : (t' = t ∧ pc = .computed l c) ∨ (t' ≠ t ∧ pcs t' = .computed l c) := by
  unfold setPc at h
  split at h
  · exact Or.inl ⟨by assumption, h⟩
  · exact Or.inr ⟨by assumption, h⟩

private theorem inv_setPc_noncomputed (s : St) (t : Nat) (pc : Pc) (h : Inv s)
    (hpc : ∀ l c, pc = .computed l c → l < c) : Inv { s with pcs := setPc s.pcs t pc } := by
  obtain ⟨hsorted, hle, hp⟩ := h
  refine ⟨hsorted, hle, ?_⟩
  intro t' l c hc
  rcases setPc_computed hc with ⟨_, h2⟩ | ⟨_, h2⟩
  · exact hpc l c h2
  · exact hp t' l c h2

private theorem inv_step (s : St) (e : Ev) (h : Inv s) : Inv (step s e) := by
  cases e with
  | load t =>
    simp only [step]
    cases hp : s.pcs t with
    | idle => exact inv_setPc_noncomputed s t _ h (by intro l c hc; cases hc)
    | loaded l => exact h
    | computed l c => exact h
  | compute t clock =>
    simp only [step]
    cases hp : s.pcs t with
    | idle => exact h
    | loaded l =>
      exact inv_setPc_noncomputed s t _ h (by intro l' c' hc; cases hc; exact computeNext_gt _ _)
    | computed l c => exact h
  | cas t =>
    simp only [step]
    cases hp : s.pcs t with
    | idle => exact h
    | loaded l => exact h
    | computed l c =>
      obtain ⟨hsorted, hle, hpc⟩ := h
      have hlc := hpc t l c hp
      simp only []
      split
      · rename_i hlast
        refine ⟨?_, ?_, ?_⟩
        · simp only [List.map_append, List.map_cons, List.map_nil]
          rw [List.pairwise_append]
          refine ⟨hsorted, by simp, ?_⟩
          intro a ha b hb
          simp at hb
          have := hle a ha
          omega
        · intro v hv
          simp only [List.map_append, List.map_cons, List.map_nil, List.mem_append, List.mem_singleton] at hv
          rcases hv with hv | hv
          · have := hle v hv
            simp only []
            omega
          · simp only []
            omega
        · intro t' l' c' hc
          rcases setPc_computed hc with ⟨_, h2⟩ | ⟨_, h2⟩
          · cases h2
          · exact hpc t' l' c' h2
      · exact inv_setPc_noncomputed s t _ ⟨hsorted, hle, hpc⟩ (by intro l' c' hc; cases hc)

private theorem inv_run (s : St) (evs : List Ev) (h : Inv s) : Inv (run s evs) := by
  induction evs generalizing s with
  | nil => exact h
  | cons e es ih => exact ih (step s e) (inv_step s e h)

/-- **Every interleaving, every clock:** the sequence of values installed by successful CASes — i.e. all
timestamps handed out by one generator, in the order they were installed — is strictly increasing. -/
theorem cas_log_strict (evs : List Ev) : ((run St.init evs).log.map (·.2)).Pairwise (· < ·) :=
  (inv_run St.init evs inv_init).1

/-- All timestamps handed out are pairwise distinct. -/
theorem returns_distinct (evs : List Ev) : ((run St.init evs).log.map (·.2)).Nodup :=
  (cas_log_strict evs).imp (fun h => Int.ne_of_lt h)

/-- Along every thread's own sequence of calls the timestamps strictly increase (a thread's k-th return
precedes its (k+1)-th in the log, and the log as a whole is strictly increasing). -/
theorem per_thread_increasing (evs : List Ev) (t : Nat) :
    ((((run St.init evs).log).filter (fun p => p.1 == t)).map (·.2)).Pairwise (· < ·) := by
  have h := cas_log_strict evs
  have hs : (((run St.init evs).log.filter (fun p => p.1 == t)).map (·.2)).Sublist
      ((run St.init evs).log.map (·.2)) := List.Sublist.map _ List.filter_sublist
  exact h.sublist hs

/-- The shared counter is the maximum of everything handed out so far. -/
theorem last_is_upper_bound (evs : List Ev) :
    ∀ v ∈ (run St.init evs).log.map (·.2), v ≤ (run St.init evs).last :=
  (inv_run St.init evs inv_init).2.1

/-- A timestamp set explicitly on a statement is sent unchanged, and the generator is not consulted. -/
theorem explicit_timestamp_wins (t : Int) (gen : Option (Unit → Int)) : pickTimestamp (some t) gen = some t := rfl

theorem generated_when_absent (g : Unit → Int) : pickTimestamp none (some g) = some (g ()) := rfl

theorem no_timestamp_without_generator : pickTimestamp none none = none := rfl

/-- **Every frame** of an execution whose statement has an explicit timestamp carries exactly it - the first send and
the frame re-sent after UNPREPARED + re-preparation alike, whatever generator the connection has. (End-to-end: the
`evict=` histories of `e2e timestamp` and `e2e tsconn`, harness/src/e2e/timestamp.rs, tsconn.rs.) -/
theorem explicit_timestamp_on_every_frame (t : Int) (gen : Option (Unit → Int)) (unprepared : Bool) :
    ∀ f ∈ executeFrames (some t) gen unprepared, f = some t := by
  intro f hf
  unfold executeFrames at hf
  cases unprepared <;> simp [pickTimestamp] at hf <;> exact hf

/-- The re-sent frame carries the timestamp of the refused one (no second pick). -/
theorem resend_keeps_timestamp (s : Option Int) (gen : Option (Unit → Int)) :
    executeFrames s gen true = [pickTimestamp s gen, pickTimestamp s gen] := rfl

example : executeFrames (some (-5)) (some fun _ => 1700000000000000) true = [some (-5), some (-5)] := by decide

/-- The same for BATCH, for ANY number of rounds of the re-prepare loop: every frame of a batch with an explicit
timestamp carries it; without one, every frame carries the one value drawn before the loop (the generator is asked
exactly once per call, so a re-sent batch never gets a fresh — larger — timestamp). -/
theorem batch_timestamp_on_every_frame (b : Option Int) (gen : Option (Unit → Int)) (resends : Nat) :
    (batchFrames b gen resends).length = resends + 1 ∧
    (∀ f ∈ batchFrames b gen resends, f = pickTimestamp b gen) ∧
    (∀ t, b = some t → ∀ f ∈ batchFrames b gen resends, f = some t) := by
  refine ⟨by simp [batchFrames], ?_, ?_⟩
  · intro f hf
    exact (List.mem_replicate.mp hf).2
  · intro t ht f hf
    rw [(List.mem_replicate.mp hf).2, ht]
    rfl

/-- … and for QUERY (one frame). -/
theorem query_timestamp (s : Option Int) (gen : Option (Unit → Int)) :
    queryFrames s gen = [pickTimestamp s gen] ∧ (∀ t, s = some t → queryFrames s gen = [some t]) :=
  ⟨rfl, by intro t ht; rw [ht]; rfl⟩

example : batchFrames none (some fun _ => 17) 3 = [some 17, some 17, some 17, some 17] := by decide

/-- Sequential runs under any scripted clock (what the correspondence check observes on one thread):
strictly increasing from the starting value. -/
theorem seqRun_increasing (n : Nat) (last : Int) (script : List (Option Nat)) (le : Option Nat) :
    (seqRun n last script le).Pairwise (· < ·) ∧ ∀ v ∈ seqRun n last script le, last < v := by
  induction n generalizing last script le with
  | zero => simp [seqRun]
  | succ n ih =>
    unfold seqRun
    simp only []
    have hgt := computeNext_gt last ((readClock script le).1.map microsAsI64)
    obtain ⟨h1, h2⟩ := ih (computeNext last ((readClock script le).1.map microsAsI64)) (readClock script le).2 (readClock script le).1
    refine ⟨?_, ?_⟩
    · rw [List.pairwise_cons]
      exact ⟨h2, h1⟩
    · intro v hv
      rw [List.mem_cons] at hv
      rcases hv with hv | hv
      · omega
      · have := h2 v hv
        omega


/-! ### the `i64` hypothesis, quantified

`compute_next` is modelled on unbounded integers; on `i64` it needs `last + 1` not to overflow. The bound below
shows how far that is from reality: if every clock reading is at most `U`, then after any number of steps with
`k` successful CASes the shared counter is at most `max 0 U + k` - with microsecond readings below 2^62 and fewer
than 2^62 calls, `last` stays below `i64::MAX`. -/

private theorem computeNext_le (l U : Int) (clock : Option Int) (h : ∀ u, clock = some u → u ≤ U) :
    computeNext l clock ≤ max (l + 1) U := by
  cases clock with
  | none => simp only [computeNext]; omega
  | some u =>
    have := h u rfl
    simp only [computeNext]
    split <;> omega

/-- Bound invariant: the counter and every computed candidate stay below `max 0 U + (number of logged values) + 1`. -/
private def Bnd (U : Int) (s : St) : Prop :=
  s.last ≤ max 0 U + s.log.length ∧
  (∀ t l, s.pcs t = .loaded l → l ≤ max 0 U + s.log.length) ∧
  (∀ t l c, s.pcs t = .computed l c → c ≤ max 0 U + s.log.length + 1)

private def clockOk (U : Int) : Ev → Prop
  | .compute _ (some u) => u ≤ U
  | _ => True

private theorem setPc_loaded {pcs : Nat → Pc} {t t' : Nat} {pc : Pc} {l : Int}
    (h : setPc pcs t pc t' = .loaded l) : (t' = t ∧ pc = .loaded l) ∨ (t' ≠ t ∧ pcs t' = .loaded l) := by
  unfold setPc at h
  split at h
  · exact Or.inl ⟨by assumption, h⟩
  · exact Or.inr ⟨by assumption, h⟩

private theorem bnd_step (U : Int) (s : St) (e : Ev) (hb : Bnd U s) (he : clockOk U e) : Bnd U (step s e) := by
  obtain ⟨h1, h2, h3⟩ := hb
  cases e with
  | load t =>
    simp only [step]
    cases hp : s.pcs t with
    | idle =>
      dsimp only
      refine ⟨h1, ?_, ?_⟩
      · intro t' l hl
        rcases setPc_loaded hl with ⟨_, h⟩ | ⟨_, h⟩
        · cases h; exact h1
        · exact h2 t' l h
      · intro t' l c hc
        rcases setPc_computed hc with ⟨_, h⟩ | ⟨_, h⟩
        · cases h
        · exact h3 t' l c h
    | loaded l => exact ⟨h1, h2, h3⟩
    | computed l c => exact ⟨h1, h2, h3⟩
  | compute t clock =>
    simp only [step]
    cases hp : s.pcs t with
    | idle => exact ⟨h1, h2, h3⟩
    | computed l c => exact ⟨h1, h2, h3⟩
    | loaded l =>
      have hl := h2 t l hp
      have hcl : ∀ u, clock = some u → u ≤ U := by
        intro u hu; subst hu; exact he
      have hcn := computeNext_le l U clock hcl
      dsimp only
      refine ⟨h1, ?_, ?_⟩
      · intro t' l' hl'
        rcases setPc_loaded hl' with ⟨_, h⟩ | ⟨_, h⟩
        · cases h
        · exact h2 t' l' h
      · intro t' l' c' hc
        rcases setPc_computed hc with ⟨_, h⟩ | ⟨_, h⟩
        · cases h
          show computeNext l clock ≤ max 0 U + (s.log.length : Int) + 1
          omega
        · exact h3 t' l' c' h
  | cas t =>
    simp only [step]
    cases hp : s.pcs t with
    | idle => exact ⟨h1, h2, h3⟩
    | loaded l => exact ⟨h1, h2, h3⟩
    | computed l c =>
      have hc := h3 t l c hp
      dsimp only
      split
      · refine ⟨?_, ?_, ?_⟩
        · simp only [List.length_append, List.length_cons, List.length_nil]; omega
        · intro t' l' hl'
          rcases setPc_loaded hl' with ⟨_, h⟩ | ⟨_, h⟩
          · cases h
          · have := h2 t' l' h
            simp only [List.length_append, List.length_cons, List.length_nil]; omega
        · intro t' l' c' hc'
          rcases setPc_computed hc' with ⟨_, h⟩ | ⟨_, h⟩
          · cases h
          · have := h3 t' l' c' h
            simp only [List.length_append, List.length_cons, List.length_nil]; omega
      · refine ⟨h1, ?_, ?_⟩
        · intro t' l' hl'
          rcases setPc_loaded hl' with ⟨_, h⟩ | ⟨_, h⟩
          · cases h
          · exact h2 t' l' h
        · intro t' l' c' hc'
          rcases setPc_computed hc' with ⟨_, h⟩ | ⟨_, h⟩
          · cases h
          · exact h3 t' l' c' h

/-- **No overflow in practice.** If every clock reading is at most `U`, then after any interleaving the shared
counter (and hence every timestamp handed out) is at most `max 0 U` plus the number of timestamps handed out. -/
theorem counter_bounded (U : Int) (evs : List Ev) (hclock : ∀ e ∈ evs, clockOk U e) :
    (run St.init evs).last ≤ max 0 U + (run St.init evs).log.length := by
  have hinit : Bnd U St.init := by
    refine ⟨by simp [St.init]; omega, ?_, ?_⟩
    · intro t l h; simp [St.init] at h
    · intro t l c h; simp [St.init] at h
  suffices h : ∀ (s : St), Bnd U s → (∀ e ∈ evs, clockOk U e) → Bnd U (run s evs) from (h St.init hinit hclock).1
  intro s hs hc
  induction evs generalizing s with
  | nil => exact hs
  | cons e es ih =>
    have he := hc e List.mem_cons_self
    exact ih (fun e' he' => hclock e' (List.mem_cons_of_mem _ he')) (step s e) (bnd_step U s e hs he)
      (fun e' he' => hc e' (List.mem_cons_of_mem _ he'))

theorem returns_bounded (U : Int) (evs : List Ev) (hclock : ∀ e ∈ evs, clockOk U e) :
    ∀ v ∈ (run St.init evs).log.map (·.2), v ≤ max 0 U + (run St.init evs).log.length := by
  intro v hv
  have := last_is_upper_bound evs v hv
  have := counter_bounded U evs hclock
  omega

/-- One thread's `calls` consecutive calls are the interleaving `[load, compute, cas]*` of the model: the values
the correspondence check compares are exactly the log of that run. -/
def seqEvents : Nat → List (Option Nat) → Option Nat → List Ev
  | 0, _, _ => []
  | n + 1, script, lastEntry =>
    let (r, rest) := readClock script lastEntry
    [.load 0, .compute 0 (r.map microsAsI64), .cas 0] ++ seqEvents n rest r

private theorem run_append (s : St) (a b : List Ev) : run s (a ++ b) = run (run s a) b := by
  simp [run, List.foldl_append]

private theorem one_call (s : St) (clock : Option Int) (h : s.pcs 0 = .idle) :
    run s [.load 0, .compute 0 clock, .cas 0] =
      { last := computeNext s.last clock, pcs := setPc (setPc (setPc s.pcs 0 (.loaded s.last)) 0
          (.computed s.last (computeNext s.last clock))) 0 .idle,
        log := s.log ++ [(0, computeNext s.last clock)] } := by
  simp [run, step, h, setPc]

theorem seqRun_is_run (n : Nat) (s : St) (script : List (Option Nat)) (le : Option Nat) (h : s.pcs 0 = .idle) :
    (run s (seqEvents n script le)).log = s.log ++ (seqRun n s.last script le).map (fun v => (0, v)) := by
  induction n generalizing s script le with
  | zero => simp [seqEvents, seqRun, run]
  | succ n ih =>
    unfold seqEvents seqRun
    simp only []
    rw [run_append, one_call s _ h]
    rw [ih]
    · simp
    · simp [setPc]

-- non-vacuity: two threads, a stalled clock (both read 5), thread 1's first CAS fails and it retries;
-- then a clock jumping backwards.
example :
    (run St.init [.load 0, .load 1, .compute 0 (some 5), .compute 1 (some 5), .cas 0, .cas 1,
                  .load 1, .compute 1 (some 5), .cas 1, .load 0, .compute 0 (some 3), .cas 0, .load 0,
                  .compute 0 none, .cas 0]).log = [(0, 5), (1, 6), (0, 7), (0, 8)] := by decide

example : seqRun 5 0 [some 10, some 10, some 7, none] none = [10, 11, 12, 13, 14] := by decide

end ScyllaVerif.Props.C18

/-
C18 — client-side timestamps from the monotonic generator strictly increase.
Property theorems only.  Model: `ScyllaVerif/Model/Timestamp.lean`.
-/
import ScyllaVerif.Model.Timestamp

namespace ScyllaVerif.Props.C18
open ScyllaVerif.Timestamp

/-- `compute_next` always exceeds the value it was given, whatever the clock says
(stalled, repeated, backwards, pre-epoch). Hypothesis-free on `Int`; on `i64` it needs `last < i64::MAX`. -/
theorem computeNext_gt (last : Int) (clock : Option Int) : last < computeNext last clock := by
  cases clock with
  | none => simp only [computeNext]; omega
  | some u => simp only [computeNext]; split <;> omega

/-- With a clock ahead of `last` the clock reading itself is returned (no artificial increment). -/
theorem computeNext_clock (last u : Int) (h : last < u) : computeNext last (some u) = u := by
  simp [computeNext, h]

/-- The inductive invariant of the CAS loop. -/
def Inv (s : St) : Prop :=
  (s.log.map (·.2)).Pairwise (· < ·) ∧
  (∀ v ∈ s.log.map (·.2), v ≤ s.last) ∧
  (∀ t l c, s.pcs t = .computed l c → l < c)

private theorem inv_init : Inv St.init := by
  refine ⟨by simp [St.init], by simp [St.init], ?_⟩
  intro t l c h
  simp [St.init] at h

private theorem setPc_computed {pcs : Nat → Pc} {t t' : Nat} {pc : Pc} {l c : Int}
    (h : setPc pcs t pc t' = .computed l c) : (t' = t ∧ pc = .computed l c) ∨ (t' ≠ t ∧ pcs t' = .computed l c) := by
  unfold setPc at h
  split at h
  · exact Or.inl ⟨by assumption, h⟩
  · exact Or.inr ⟨by assumption, h⟩

private theorem inv_setPc_noncomputed (s : St) (t : Nat) (pc : Pc) (h : Inv s)
    (hpc : ∀ l c, pc = .computed l c → l < c) : Inv { s with pcs := setPc s.pcs t pc } := by
  obtain ⟨hsorted, hle, hp⟩ := h
  refine ⟨hsorted, hle, ?_⟩
  intro t' l c hc
  rcases setPc_computed hc with ⟨_, h2⟩ | ⟨_, h2⟩
  · exact hpc l c h2
  · exact hp t' l c h2

private theorem inv_step (s : St) (e : Ev) (h : Inv s) : Inv (step s e) := by
  cases e with
  | load t =>
    simp only [step]
    cases hp : s.pcs t with
    | idle => exact inv_setPc_noncomputed s t _ h (by intro l c hc; cases hc)
    | loaded l => exact h
    | computed l c => exact h
  | compute t clock =>
    simp only [step]
    cases hp : s.pcs t with
    | idle => exact h
    | loaded l =>
      exact inv_setPc_noncomputed s t _ h (by intro l' c' hc; cases hc; exact computeNext_gt _ _)
    | computed l c => exact h
  | cas t =>
    simp only [step]
    cases hp : s.pcs t with
    | idle => exact h
    | loaded l => exact h
    | computed l c =>
      obtain ⟨hsorted, hle, hpc⟩ := h
      have hlc := hpc t l c hp
      simp only []
      split
      · rename_i hlast
        refine ⟨?_, ?_, ?_⟩
        · simp only [List.map_append, List.map_cons, List.map_nil]
          rw [List.pairwise_append]
          refine ⟨hsorted, by simp, ?_⟩
          intro a ha b hb
          simp at hb
          have := hle a ha
          omega
        · intro v hv
          simp only [List.map_append, List.map_cons, List.map_nil, List.mem_append, List.mem_singleton] at hv
          rcases hv with hv | hv
          · have := hle v hv
            simp only []
            omega
          · simp only []
            omega
        · intro t' l' c' hc
          rcases setPc_computed hc with ⟨_, h2⟩ | ⟨_, h2⟩
          · cases h2
          · exact hpc t' l' c' h2
      · exact inv_setPc_noncomputed s t _ ⟨hsorted, hle, hpc⟩ (by intro l' c' hc; cases hc)

private theorem inv_run (s : St) (evs : List Ev) (h : Inv s) : Inv (run s evs) := by
  induction evs generalizing s with
  | nil => exact h
  | cons e es ih => exact ih (step s e) (inv_step s e h)

/-- **Every interleaving, every clock:** the sequence of values installed by successful CASes — i.e. all
timestamps handed out by one generator, in the order they were installed — is strictly increasing. -/
theorem cas_log_strict (evs : List Ev) : ((run St.init evs).log.map (·.2)).Pairwise (· < ·) :=
  (inv_run St.init evs inv_init).1

/-- All timestamps handed out are pairwise distinct. -/
theorem returns_distinct (evs : List Ev) : ((run St.init evs).log.map (·.2)).Nodup :=
  (cas_log_strict evs).imp (fun h => Int.ne_of_lt h)

/-- Along every thread's own sequence of calls the timestamps strictly increase (a thread's k-th return
precedes its (k+1)-th in the log, and the log as a whole is strictly increasing). -/
theorem per_thread_increasing (evs : List Ev) (t : Nat) :
    ((((run St.init evs).log).filter (fun p => p.1 == t)).map (·.2)).Pairwise (· < ·) := by
  have h := cas_log_strict evs
  have hs : (((run St.init evs).log.filter (fun p => p.1 == t)).map (·.2)).Sublist
      ((run St.init evs).log.map (·.2)) := List.Sublist.map _ List.filter_sublist
  exact h.sublist hs

/-- The shared counter is the maximum of everything handed out so far. -/
theorem last_is_upper_bound (evs : List Ev) :
    ∀ v ∈ (run St.init evs).log.map (·.2), v ≤ (run St.init evs).last :=
  (inv_run St.init evs inv_init).2.1

/-- A timestamp set explicitly on a statement is the one chosen. (That the generator is not even ASKED cannot be
said with a pure `gen`; it is `explicit_leaves_generator_untouched` below, on the stateful `pickTimestampSt`.) -/
theorem explicit_timestamp_wins (t : Int) (gen : Option (Unit → Int)) : pickTimestamp (some t) gen = some t := rfl

theorem generated_when_absent (g : Unit → Int) : pickTimestamp none (some g) = some (g ()) := rfl

theorem no_timestamp_without_generator : pickTimestamp none none = none := rfl

/-- **Every frame** of an execution whose statement has an explicit timestamp carries exactly it - the first send and
the frame re-sent after UNPREPARED + re-preparation alike, whatever generator the connection has. (End-to-end: the
`evict=` histories of `e2e timestamp` and `e2e tsconn`, harness/src/e2e/timestamp.rs, tsconn.rs.) -/
theorem explicit_timestamp_on_every_frame (t : Int) (gen : Option (Unit → Int)) (unprepared : Bool) :
    ∀ f ∈ executeFrames (some t) gen unprepared, f = some t := by
  intro f hf
  unfold executeFrames at hf
  cases unprepared <;> simp [pickTimestamp] at hf <;> exact hf

/-- The re-sent frame carries the timestamp of the refused one (no second pick). -/
theorem resend_keeps_timestamp (s : Option Int) (gen : Option (Unit → Int)) :
    executeFrames s gen true = [pickTimestamp s gen, pickTimestamp s gen] := rfl

example : executeFrames (some (-5)) (some fun _ => 1700000000000000) true = [some (-5), some (-5)] := by decide

/-- The same for BATCH, for ANY number of rounds of the re-prepare loop: every frame of a batch with an explicit
timestamp carries it; without one, every frame carries the one value drawn before the loop (the generator is asked
exactly once per call, so a re-sent batch never gets a fresh — larger — timestamp). -/
theorem batch_timestamp_on_every_frame (b : Option Int) (gen : Option (Unit → Int)) (resends : Nat) :
    (batchFrames b gen resends).length = resends + 1 ∧
    (∀ f ∈ batchFrames b gen resends, f = pickTimestamp b gen) ∧
    (∀ t, b = some t → ∀ f ∈ batchFrames b gen resends, f = some t) := by
  refine ⟨by simp [batchFrames], ?_, ?_⟩
  · intro f hf
    exact (List.mem_replicate.mp hf).2
  · intro t ht f hf
    rw [(List.mem_replicate.mp hf).2, ht]
    rfl

/-- … and for QUERY (one frame). -/
theorem query_timestamp (s : Option Int) (gen : Option (Unit → Int)) :
    queryFrames s gen = [pickTimestamp s gen] ∧ (∀ t, s = some t → queryFrames s gen = [some t]) :=
  ⟨rfl, by intro t ht; rw [ht]; rfl⟩

example : batchFrames none (some fun _ => 17) 3 = [some 17, some 17, some 17, some 17] := by decide

/-- Sequential runs under any scripted clock (what the correspondence check observes on one thread):
strictly increasing from the starting value. -/
theorem seqRun_increasing (n : Nat) (last : Int) (script : List (Option Nat)) (le : Option Nat) :
    (seqRun n last script le).Pairwise (· < ·) ∧ ∀ v ∈ seqRun n last script le, last < v := by
  induction n generalizing last script le with
  | zero => simp [seqRun]
  | succ n ih =>
    unfold seqRun
    simp only []
    have hgt := computeNext_gt last ((readClock script le).1.map microsAsI64)
    obtain ⟨h1, h2⟩ := ih (computeNext last ((readClock script le).1.map microsAsI64)) (readClock script le).2 (readClock script le).1
    refine ⟨?_, ?_⟩
    · rw [List.pairwise_cons]
      exact ⟨h2, h1⟩
    · intro v hv
      rw [List.mem_cons] at hv
      rcases hv with hv | hv
      · omega
      · have := h2 v hv
        omega


/-! ### the `i64` hypothesis, quantified

`compute_next` is modelled on unbounded integers; on `i64` it needs `last + 1` not to overflow. The bound below
shows how far that is from reality: if every clock reading is at most `U`, then after any number of steps with
`k` successful CASes the shared counter is at most `max 0 U + k` - with microsecond readings below 2^62 and fewer
than 2^62 calls, `last` stays below `i64::MAX`. -/

private theorem computeNext_le (l U : Int) (clock : Option Int) (h : ∀ u, clock = some u → u ≤ U) :
    computeNext l clock ≤ max (l + 1) U := by
  cases clock with
  | none => simp only [computeNext]; omega
  | some u =>
    have := h u rfl
    simp only [computeNext]
    split <;> omega

/-- Bound invariant: the counter and every computed candidate stay below `max 0 U + (number of logged values) + 1`. -/
private def Bnd (U : Int) (s : St) : Prop :=
  s.last ≤ max 0 U + s.log.length ∧
  (∀ t l, s.pcs t = .loaded l → l ≤ max 0 U + s.log.length) ∧
  (∀ t l c, s.pcs t = .computed l c → c ≤ max 0 U + s.log.length + 1)

private def clockOk (U : Int) : Ev → Prop
  | .compute _ (some u) => u ≤ U
  | _ => True

private theorem setPc_loaded {pcs : Nat → Pc} {t t' : Nat} {pc : Pc} {l : Int}
    (h : setPc pcs t pc t' = .loaded l) : (t' = t ∧ pc = .loaded l) ∨ (t' ≠ t ∧ pcs t' = .loaded l) := by
  unfold setPc at h
  split at h
  · exact Or.inl ⟨by assumption, h⟩
  · exact Or.inr ⟨by assumption, h⟩

private theorem bnd_step (U : Int) (s : St) (e : Ev) (hb : Bnd U s) (he : clockOk U e) : Bnd U (step s e) := by
  obtain ⟨h1, h2, h3⟩ := hb
  cases e with
  | load t =>
    simp only [step]
    cases hp : s.pcs t with
    | idle =>
      dsimp only
      refine ⟨h1, ?_, ?_⟩
      · intro t' l hl
        rcases setPc_loaded hl with ⟨_, h⟩ | ⟨_, h⟩
        · cases h; exact h1
        · exact h2 t' l h
      · intro t' l c hc
        rcases setPc_computed hc with ⟨_, h⟩ | ⟨_, h⟩
        · cases h
        · exact h3 t' l c h
    | loaded l => exact ⟨h1, h2, h3⟩
    | computed l c => exact ⟨h1, h2, h3⟩
  | compute t clock =>
    simp only [step]
    cases hp : s.pcs t with
    | idle => exact ⟨h1, h2, h3⟩
    | computed l c => exact ⟨h1, h2, h3⟩
    | loaded l =>
      have hl := h2 t l hp
      have hcl : ∀ u, clock = some u → u ≤ U := by
        intro u hu; subst hu; exact he
      have hcn := computeNext_le l U clock hcl
      dsimp only
      refine ⟨h1, ?_, ?_⟩
      · intro t' l' hl'
        rcases setPc_loaded hl' with ⟨_, h⟩ | ⟨_, h⟩
        · cases h
        · exact h2 t' l' h
      · intro t' l' c' hc
        rcases setPc_computed hc with ⟨_, h⟩ | ⟨_, h⟩
        · cases h
          show computeNext l clock ≤ max 0 U + (s.log.length : Int) + 1
          omega
        · exact h3 t' l' c' h
  | cas t =>
    simp only [step]
    cases hp : s.pcs t with
    | idle => exact ⟨h1, h2, h3⟩
    | loaded l => exact ⟨h1, h2, h3⟩
    | computed l c =>
      have hc := h3 t l c hp
      dsimp only
      split
      · refine ⟨?_, ?_, ?_⟩
        · simp only [List.length_append, List.length_cons, List.length_nil]; omega
        · intro t' l' hl'
          rcases setPc_loaded hl' with ⟨_, h⟩ | ⟨_, h⟩
          · cases h
          · have := h2 t' l' h
            simp only [List.length_append, List.length_cons, List.length_nil]; omega
        · intro t' l' c' hc'
          rcases setPc_computed hc' with ⟨_, h⟩ | ⟨_, h⟩
          · cases h
          · have := h3 t' l' c' h
            simp only [List.length_append, List.length_cons, List.length_nil]; omega
      · refine ⟨h1, ?_, ?_⟩
        · intro t' l' hl'
          rcases setPc_loaded hl' with ⟨_, h⟩ | ⟨_, h⟩
          · cases h
          · exact h2 t' l' h
        · intro t' l' c' hc'
          rcases setPc_computed hc' with ⟨_, h⟩ | ⟨_, h⟩
          · cases h
          · exact h3 t' l' c' h

/-- **No overflow in practice.** If every clock reading is at most `U`, then after any interleaving the shared
counter (and hence every timestamp handed out) is at most `max 0 U` plus the number of timestamps handed out. -/
theorem counter_bounded (U : Int) (evs : List Ev) (hclock : ∀ e ∈ evs, clockOk U e) :
    (run St.init evs).last ≤ max 0 U + (run St.init evs).log.length := by
  have hinit : Bnd U St.init := by
    refine ⟨by simp [St.init]; omega, ?_, ?_⟩
    · intro t l h; simp [St.init] at h
    · intro t l c h; simp [St.init] at h
  suffices h : ∀ (s : St), Bnd U s → (∀ e ∈ evs, clockOk U e) → Bnd U (run s evs) from (h St.init hinit hclock).1
  intro s hs hc
  induction evs generalizing s with
  | nil => exact hs
  | cons e es ih =>
    have he := hc e List.mem_cons_self
    exact ih (fun e' he' => hclock e' (List.mem_cons_of_mem _ he')) (step s e) (bnd_step U s e hs he)
      (fun e' he' => hc e' (List.mem_cons_of_mem _ he'))

theorem returns_bounded (U : Int) (evs : List Ev) (hclock : ∀ e ∈ evs, clockOk U e) :
    ∀ v ∈ (run St.init evs).log.map (·.2), v ≤ max 0 U + (run St.init evs).log.length := by
  intro v hv
  have := last_is_upper_bound evs v hv
  have := counter_bounded U evs hclock
  omega

/-- One thread's `calls` consecutive calls are the interleaving `[load, compute, cas]*` of the model: the values
the correspondence check compares are exactly the log of that run. -/
def seqEvents : Nat → List (Option Nat) → Option Nat → List Ev
  | 0, _, _ => []
  | n + 1, script, lastEntry =>
    let (r, rest) := readClock script lastEntry
    [.load 0, .compute 0 (r.map microsAsI64), .cas 0] ++ seqEvents n rest r

private theorem run_append (s : St) (a b : List Ev) : run s (a ++ b) = run (run s a) b := by
  simp [run, List.foldl_append]

private theorem one_call (s : St) (clock : Option Int) (h : s.pcs 0 = .idle) :
    run s [.load 0, .compute 0 clock, .cas 0] =
      { last := computeNext s.last clock, pcs := setPc (setPc (setPc s.pcs 0 (.loaded s.last)) 0
          (.computed s.last (computeNext s.last clock))) 0 .idle,
        log := s.log ++ [(0, computeNext s.last clock)] } := by
  simp [run, step, h, setPc]

theorem seqRun_is_run (n : Nat) (s : St) (script : List (Option Nat)) (le : Option Nat) (h : s.pcs 0 = .idle) :
    (run s (seqEvents n script le)).log = s.log ++ (seqRun n s.last script le).map (fun v => (0, v)) := by
  induction n generalizing s script le with
  | zero => simp [seqEvents, seqRun, run]
  | succ n ih =>
    unfold seqEvents seqRun
    simp only []
    rw [run_append, one_call s _ h]
    rw [ih]
    · simp
    · simp [setPc]

/-! ### the warning arm of `compute_next` (timestamp_generator.rs:109-130)

What the arm can and cannot do to the returned timestamps. -/

/-- **The returned timestamp does not depend on the warning state**: whenever `compute_next` returns at all, it
returns `computeNext last clock` - whatever the warnings configuration (none, any threshold, any interval), the
stored instant, the poison flag and the monotonic-clock reading are. -/
theorem warning_state_does_not_change_value (cfg : Option WarnCfg) (last : Int) (clock : Option Int) (w : WarnSt)
    (now : Nat) (v : Int) (wd : Warned) (w' : WarnSt)
    (h : computeNextW cfg last clock w now = (some (v, wd), w')) : v = computeNext last clock := by
  unfold computeNextW at h
  unfold computeNext
  cases clock with
  | none =>
    simp only [Prod.mk.injEq, Option.some.injEq] at h
    exact h.1.1.symm
  | some u =>
    simp only at h ⊢
    repeat' split at h
    all_goals first
      | (simp only [Prod.mk.injEq, Option.some.injEq, reduceCtorEq, false_and] at h; done)
      | (simp only [Prod.mk.injEq, Option.some.injEq] at h
         obtain ⟨⟨hv, _⟩, _⟩ := h
         subst hv
         split <;> omega)

/-- The domain in which `compute_next` cannot panic: the mutex is not poisoned and `last_warning + interval` is
representable (`Instant::checked_add` succeeds). -/
def WarnDomain (cfg : Option WarnCfg) (w : WarnSt) : Prop :=
  w.poisoned = false ∧ ∀ c, cfg = some c → (w.lastWarnNs + c.intervalNs) / 1000000000 < 2 ^ 63

/-- **No panic in the domain**, and the stored instant afterwards is the old one or the reading just taken. -/
theorem no_panic_in_domain (cfg : Option WarnCfg) (last : Int) (clock : Option Int) (w : WarnSt) (now : Nat)
    (h : WarnDomain cfg w) :
    ∃ v wd w', computeNextW cfg last clock w now = (some (v, wd), w') ∧ w'.poisoned = false ∧
      (w'.lastWarnNs = w.lastWarnNs ∨ w'.lastWarnNs = now) := by
  obtain ⟨hp, hd⟩ := h
  unfold computeNextW
  cases clock with
  | none => exact ⟨_, _, _, rfl, hp, Or.inl rfl⟩
  | some u =>
    simp only
    split
    · exact ⟨_, _, _, rfl, hp, Or.inl rfl⟩
    · cases cfg with
      | none => exact ⟨_, _, _, rfl, hp, Or.inl rfl⟩
      | some c =>
        simp only
        split
        · have hc := hd c rfl
          simp only [hp, Bool.false_eq_true, if_false, instantCheckedAdd, hc, if_true]
          by_cases hn : now ≥ w.lastWarnNs + c.intervalNs
          · simp only [hn, if_true]
            exact ⟨_, _, _, rfl, rfl, Or.inr rfl⟩
          · simp only [hn, if_false]
            exact ⟨_, _, _, rfl, hp, Or.inl rfl⟩
        · exact ⟨_, _, _, rfl, hp, Or.inl rfl⟩

/-- **Exactly when it panics** (the hazard outside the domain): the clock reading does not exceed `last`, warnings
are configured, the skew exceeds the threshold, and the mutex is already poisoned or `last_warning + interval`
overflows. Afterwards the mutex is poisoned, so every later call on this path panics too (`poisoned_stays`). -/
theorem panics_iff (cfg : Option WarnCfg) (last : Int) (clock : Option Int) (w : WarnSt) (now : Nat) :
    (computeNextW cfg last clock w now).1 = none ↔
      ∃ u c, clock = some u ∧ u ≤ last ∧ cfg = some c ∧ last - u > c.thresholdUs ∧
        (w.poisoned = true ∨ instantCheckedAdd w.lastWarnNs c.intervalNs = none) := by
  unfold computeNextW
  cases clock with
  | none => simp
  | some u =>
    simp only
    by_cases hu : u > last
    · simp only [hu, if_true]
      constructor
      · intro h; simp at h
      · rintro ⟨u', c, h1, h2, _⟩
        cases h1; omega
    · simp only [hu, if_false]
      cases cfg with
      | none => simp
      | some c =>
        simp only
        by_cases ht : last - u > c.thresholdUs
        · simp only [ht, if_true]
          cases hpz : w.poisoned with
          | true =>
            simp only [if_true]
            exact ⟨fun _ => ⟨u, c, rfl, by omega, rfl, ht, Or.inl trivial⟩, fun _ => trivial⟩
          | false =>
            simp only [Bool.false_eq_true, if_false]
            cases hadd : instantCheckedAdd w.lastWarnNs c.intervalNs with
            | none =>
              simp only
              exact ⟨fun _ => ⟨u, c, rfl, by omega, rfl, ht, Or.inr hadd⟩, fun _ => trivial⟩
            | some due =>
              simp only
              constructor
              · intro h; split at h <;> simp at h
              · rintro ⟨u', c', h1, _, h3, _, h5⟩
                cases h1; cases h3
                rcases h5 with h5 | h5
                · simp at h5
                · rw [hadd] at h5; cases h5
        · simp only [ht, if_false]
          constructor
          · intro h; simp at h
          · rintro ⟨u', c', h1, _, h3, h4, _⟩
            cases h1; cases h3; exact absurd h4 ht

theorem panic_poisons (cfg : Option WarnCfg) (last : Int) (clock : Option Int) (w : WarnSt) (now : Nat)
    (h : (computeNextW cfg last clock w now).1 = none) : (computeNextW cfg last clock w now).2.poisoned = true := by
  unfold computeNextW at h ⊢
  cases clock with
  | none => simp at h
  | some u =>
    simp only at h ⊢
    split
    · rename_i hu; simp [hu] at h
    · rename_i hu
      simp only [hu, if_false] at h
      cases cfg with
      | none => simp at h
      | some c =>
        simp only at h ⊢
        split
        · rename_i ht
          simp only [ht, if_true] at h
          cases hpz : w.poisoned with
          | true => simp [hpz]
          | false =>
            simp only [hpz, Bool.false_eq_true, if_false] at h ⊢
            cases hadd : instantCheckedAdd w.lastWarnNs c.intervalNs with
            | none => rfl
            | some due =>
              rw [hadd] at h
              simp only at h
              split at h <;> simp at h
        · rename_i ht; simp [ht] at h

/-- A poisoned mutex stays poisoned (nothing in the code clears it). -/
theorem poisoned_stays (cfg : Option WarnCfg) (last : Int) (clock : Option Int) (w : WarnSt) (now : Nat)
    (h : w.poisoned = true) : (computeNextW cfg last clock w now).2.poisoned = true := by
  unfold computeNextW
  cases clock with
  | none => exact h
  | some u =>
    simp only
    split
    · exact h
    · cases cfg with
      | none => exact h
      | some c =>
        simp only
        split
        · simp [h]
        · exact h

/-- With `warning_interval = 0` the arm warns on EVERY call whose skew exceeds the threshold (the monotonic clock
never reads below the stored instant): what makes the `seqw`/`mtw`/`mtp` cases with interval 0 execute lines
113-128 on every such call, and what the harness's count of `warn!` events is compared with. -/
theorem interval_zero_always_warns (c : WarnCfg) (last u : Int) (w : WarnSt) (now : Nat)
    (hi : c.intervalNs = 0) (hp : w.poisoned = false) (hrep : w.lastWarnNs / 1000000000 < 2 ^ 63)
    (hnow : w.lastWarnNs ≤ now) (hu : u ≤ last) (ht : last - u > c.thresholdUs) :
    computeNextW (some c) last (some u) w now = (some (last + 1, .skew), { w with lastWarnNs := now }) := by
  unfold computeNextW
  have hu' : ¬ u > last := by omega
  simp only [hu', if_false, ht, if_true, hp, instantCheckedAdd, hi, Nat.add_zero, hrep]
  simp [hnow]

example : computeNextW (some ⟨1, 0⟩) 100 (some 98) ⟨5, false⟩ 7 = (some (101, .skew), ⟨7, false⟩) := by decide
example : computeNextW (some ⟨1, 0⟩) 100 (some 99) ⟨5, false⟩ 7 = (some (101, .no), ⟨5, false⟩) := by decide
-- `Duration::MAX` as the interval: the first skewed call panics and poisons, the next one panics on `lock().unwrap()`
example : computeNextW (some ⟨0, 18446744073709551615999999999⟩) 100 (some 50) ⟨5, false⟩ 7 = (none, ⟨5, true⟩) := by
  decide
example : (computeNextW (some ⟨0, 0⟩) 100 (some 50) ⟨5, true⟩ 7).1 = none := by decide

/-! The whole CAS loop with the warning state alongside. -/

private theorem inv_stepW (cfg : Option WarnCfg) (s : StW) (e : EvW) (h : Inv s.core) : Inv (stepW cfg s e).core := by
  cases e with
  | load t => exact inv_step s.core (.load t) h
  | cas t => exact inv_step s.core (.cas t) h
  | compute t clock now =>
    simp only [stepW]
    cases hp : s.core.pcs t with
    | idle => exact h
    | computed l c => exact h
    | loaded l =>
      simp only
      cases hc : computeNextW cfg l clock s.warn now with
      | mk r w' =>
        cases r with
        | none => exact inv_setPc_noncomputed s.core t _ h (by intro l' c' hc'; cases hc')
        | some vw =>
          obtain ⟨v, wd⟩ := vw
          have hv := warning_state_does_not_change_value cfg l clock s.warn now v wd w' hc
          refine inv_setPc_noncomputed s.core t _ h ?_
          intro l' c' hc'
          cases hc'
          rw [hv]
          exact computeNext_gt _ _

/-- **Every interleaving, every clock, every warnings configuration - panicking calls included**: the timestamps
handed out are strictly increasing in the order of their installation (hence distinct, and increasing per thread):
a call that panics inside the warning arm returns nothing and leaves `last` alone. -/
theorem warn_log_strict (cfg : Option WarnCfg) (w : WarnSt) (evs : List EvW) :
    ((runW cfg ⟨St.init, w, 0⟩ evs).core.log.map (·.2)).Pairwise (· < ·) := by
  suffices h : ∀ (s : StW), Inv s.core → Inv (runW cfg s evs).core from (h ⟨St.init, w, 0⟩ inv_init).1
  intro s hs
  induction evs generalizing s with
  | nil => exact hs
  | cons e es ih => exact ih (stepW cfg s e) (inv_stepW cfg s e hs)

private def nowOk (cfg : Option WarnCfg) : EvW → Prop
  | .compute _ _ now => ∀ c, cfg = some c → (now + c.intervalNs) / 1000000000 < 2 ^ 63
  | _ => True

/-- **In the domain the warning arm is invisible**: if the mutex starts unpoisoned and `instant + interval` is
representable for the initial instant and for every monotonic-clock reading of the run, then no call panics and
the machine's core (the shared counter, every thread's program counter, the log of returned timestamps) is exactly
that of the warning-free model on the same events - so every theorem about `run` is a theorem about the generator
with warnings configured. -/
theorem warn_transparent (cfg : Option WarnCfg) (s : StW) (evs : List EvW) (hd : WarnDomain cfg s.warn)
    (hnow : ∀ e ∈ evs, nowOk cfg e) :
    (runW cfg s evs).core = run s.core (evs.map EvW.erase) ∧ (runW cfg s evs).panics = s.panics ∧
      WarnDomain cfg (runW cfg s evs).warn := by
  induction evs generalizing s with
  | nil => exact ⟨rfl, rfl, hd⟩
  | cons e es ih =>
    have he := hnow e List.mem_cons_self
    have hes : ∀ e' ∈ es, nowOk cfg e' := fun e' h' => hnow e' (List.mem_cons_of_mem _ h')
    have key : (stepW cfg s e).core = step s.core e.erase ∧ (stepW cfg s e).panics = s.panics ∧
        WarnDomain cfg (stepW cfg s e).warn := by
      cases e with
      | load t => exact ⟨rfl, rfl, hd⟩
      | cas t => exact ⟨rfl, rfl, hd⟩
      | compute t clock now =>
        simp only [stepW, EvW.erase, step]
        cases hp : s.core.pcs t with
        | idle => exact ⟨rfl, rfl, hd⟩
        | computed l c => exact ⟨rfl, rfl, hd⟩
        | loaded l =>
          simp only
          obtain ⟨v, wd, w', hc, hpz, hlw⟩ := no_panic_in_domain cfg l clock s.warn now hd
          have hv := warning_state_does_not_change_value cfg l clock s.warn now v wd w' hc
          rw [hc]
          simp only
          refine ⟨by rw [hv], trivial, hpz, ?_⟩
          intro c hcfg
          rcases hlw with h1 | h1
          · rw [h1]; exact hd.2 c hcfg
          · rw [h1]; exact he c hcfg
    obtain ⟨k1, k2, k3⟩ := key
    obtain ⟨i1, i2, i3⟩ := ih (stepW cfg s e) k3 hes
    refine ⟨?_, ?_, i3⟩
    · show (runW cfg (stepW cfg s e) es).core = run (step s.core e.erase) (es.map EvW.erase)
      rw [i1, k1]
    · show (runW cfg (stepW cfg s e) es).panics = s.panics
      rw [i2, k2]

/-- Sequential runs (what `seqw` cases compare): in the domain the values are those of the warning-free `seqRun`
and no call panics, for ANY behaviour `nowOf` of the monotonic clock that stays representable. -/
theorem seqRunW_values (cfg : Option WarnCfg) (nowOf : Nat → Nat) (n : Nat) (last : Int)
    (script : List (Option Nat)) (le : Option Nat) (w : WarnSt) (hd : WarnDomain cfg w)
    (hnow : ∀ c, cfg = some c → ∀ lw, (lw + c.intervalNs) / 1000000000 < 2 ^ 63 →
      (nowOf lw + c.intervalNs) / 1000000000 < 2 ^ 63) :
    (seqRunW cfg nowOf n last script le w).map (Option.map Prod.fst) = (seqRun n last script le).map some := by
  induction n generalizing last script le w with
  | zero => simp [seqRunW, seqRun]
  | succ n ih =>
    unfold seqRunW seqRun
    simp only
    obtain ⟨v, wd, w', hc, hpz, hlw⟩ :=
      no_panic_in_domain cfg last ((readClock script le).1.map microsAsI64) w (nowOf w.lastWarnNs) hd
    have hv := warning_state_does_not_change_value cfg last _ w _ v wd w' hc
    rw [hc]
    simp only [List.map_cons, Option.map_some]
    have hd' : WarnDomain cfg w' := by
      refine ⟨hpz, ?_⟩
      intro c hcfg
      rcases hlw with h1 | h1
      · rw [h1]; exact hd.2 c hcfg
      · rw [h1]; exact hnow c hcfg _ (hd.2 c hcfg)
    rw [ih v _ _ w' hd', hv]

example : seqRunW (some ⟨1, 0⟩) id 4 0 [some 10, some 10, some 7, none] none ⟨0, false⟩ =
    [some (10, .no), some (11, .no), some (12, .skew), some (13, .epoch)] := by decide
example : seqRunW (some ⟨0, 18446744073709551615999999999⟩) id 4 0 [some 10, some 5, some 20, some 5] none ⟨0, false⟩ =
    [some (10, .no), none, some (20, .no), none] := by decide

/-! ### the timestamp choice with a STATEFUL generator: "not consulted", said -/

/-- A timestamp set explicitly on a statement is sent unchanged **and the generator is not consulted**: its state
afterwards is its state before (end-to-end: the counting generator of `e2e tsconn` is not advanced by a statement
with an explicit timestamp). -/
theorem explicit_leaves_generator_untouched {σ : Type} (t : Int) (gen : Option (σ → Int × σ)) (s : σ) :
    pickTimestampSt (some t) gen s = (some t, s) := rfl

/-- Without an explicit timestamp the generator is asked exactly once: value and next state are those of ONE step. -/
theorem generated_asks_once {σ : Type} (g : σ → Int × σ) (s : σ) :
    pickTimestampSt none (some g) s = (some (g s).1, (g s).2) := rfl

/-- The value chosen is the one `pickTimestamp` chooses. -/
theorem pickTimestampSt_value {σ : Type} (stmtTs : Option Int) (gen : Option (σ → Int × σ)) (s : σ) :
    (pickTimestampSt stmtTs gen s).1 = pickTimestamp stmtTs (gen.map fun g _ => (g s).1) := by
  cases stmtTs <;> cases gen <;> rfl

/-- One call, any number of re-sent frames: every frame carries the one value picked, the generator advanced by at
most one step - none at all when the statement has its own timestamp. -/
theorem frames_ask_at_most_once {σ : Type} (stmtTs : Option Int) (g : σ → Int × σ) (s : σ) (resends : Nat) :
    (∀ f ∈ (framesSt stmtTs (some g) s resends).1, f = (pickTimestampSt stmtTs (some g) s).1) ∧
    ((framesSt stmtTs (some g) s resends).2 = s ∨ (framesSt stmtTs (some g) s resends).2 = (g s).2) ∧
    (∀ t, stmtTs = some t → (framesSt stmtTs (some g) s resends).2 = s) := by
  refine ⟨?_, ?_, ?_⟩
  · intro f hf
    exact (List.mem_replicate.mp hf).2
  · cases stmtTs with
    | some t => exact Or.inl rfl
    | none => exact Or.inr rfl
  · intro t ht; rw [ht]; rfl

-- a counting generator: the state is the number of calls
example : framesSt (some 7) (some fun (n : Nat) => ((1000 + n : Int), n + 1)) 3 2 = ([some 7, some 7, some 7], 3) := by
  decide
example : framesSt none (some fun (n : Nat) => ((1000 + n : Int), n + 1)) 3 2 = ([some 1003, some 1003, some 1003], 4) := by
  decide

-- non-vacuity: two threads, a stalled clock (both read 5), thread 1's first CAS fails and it retries;
-- then a clock jumping backwards.
example :
    (run St.init [.load 0, .load 1, .compute 0 (some 5), .compute 1 (some 5), .cas 0, .cas 1,
                  .load 1, .compute 1 (some 5), .cas 1, .load 0, .compute 0 (some 3), .cas 0, .load 0,
                  .compute 0 none, .cas 0]).log = [(0, 5), (1, 6), (0, 7), (0, 8)] := by decide

example : seqRun 5 0 [some 10, some 10, some 7, none] none = [10, 11, 12, 13, 14] := by decide

/-- The timed branch, exactly: in the domain, a call whose skew exceeds the threshold warns iff the interval has
elapsed since the stored instant, and then stores `now`. -/
theorem warns_iff_interval_elapsed (c : WarnCfg) (last u : Int) (w : WarnSt) (now : Nat)
    (hd : WarnDomain (some c) w) (hu : u ≤ last) (ht : last - u > c.thresholdUs) :
    computeNextW (some c) last (some u) w now =
      if now ≥ w.lastWarnNs + c.intervalNs then (some (last + 1, .skew), { w with lastWarnNs := now })
      else (some (last + 1, .no), w) := by
  obtain ⟨hp, hrep⟩ := hd
  have hr := hrep c rfl
  unfold computeNextW
  have hu' : ¬ u > last := by omega
  simp only [hu', if_false, ht, if_true, hp, Bool.false_eq_true, instantCheckedAdd, hr]

/-- `seqt` runs (paused tokio clock, explicit advances): in the domain the values are those of `seqRun`. -/
theorem seqRunT_values (cfg : Option WarnCfg) (advs : List Nat) (last : Int)
    (script : List (Option Nat)) (le : Option Nat) (w : WarnSt) (now : Nat) (hp : w.poisoned = false)
    (hlw : w.lastWarnNs ≤ now)
    (hB : ∀ c, cfg = some c → (now + advs.sum + c.intervalNs) / 1000000000 < 2 ^ 63) :
    (seqRunT cfg advs last script le w now).map (Option.map Prod.fst) = (seqRun advs.length last script le).map some := by
  induction advs generalizing last script le w now with
  | nil => simp [seqRunT, seqRun]
  | cons a advs ih =>
    unfold seqRunT seqRun
    simp only
    have hd : WarnDomain cfg w := by
      refine ⟨hp, ?_⟩
      intro c hc
      have := hB c hc
      refine Nat.lt_of_le_of_lt (Nat.div_le_div_right ?_) this
      simp only [List.sum_cons]; omega
    obtain ⟨v, wd, w', hc, hpz, hl⟩ :=
      no_panic_in_domain cfg last ((readClock script le).1.map microsAsI64) w (now + a) hd
    have hv := warning_state_does_not_change_value cfg last _ w _ v wd w' hc
    rw [hc]
    simp only [List.map_cons, Option.map_some, List.length_cons]
    have hlw' : w'.lastWarnNs ≤ now + a := by rcases hl with h | h <;> omega
    have hB' : ∀ c, cfg = some c → (now + a + advs.sum + c.intervalNs) / 1000000000 < 2 ^ 63 := by
      intro c hc'
      have := hB c hc'
      simp only [List.sum_cons] at this
      have e : now + a + advs.sum + c.intervalNs = now + (a + advs.sum) + c.intervalNs := by omega
      rw [e]; exact this
    rw [ih v _ _ w' (now + a) hpz hlw' hB', hv]

example : seqRunT (some ⟨0, 5⟩) [0, 4, 1, 0] 10 [some 9, some 9, some 9, some 9] none ⟨0, false⟩ 0 =
    [some (11, .no), some (12, .no), some (13, .skew), some (14, .no)] := by decide

/-! ### the statement-API layer -/

/-- **set then get is the identity** for every statement kind and EVERY batch type, whatever was set before
(`Some` after `None`, `None` after `Some`, `Some` after `Some`). -/
theorem set_get_timestamp (t : Option Int) :
    (∀ s : StatementM, (s.setTimestamp t).getTimestamp = t) ∧
    (∀ p : PreparedM, (p.setTimestamp t).getTimestamp = t) ∧
    (∀ b : BatchM, (b.setTimestamp t).getTimestamp = t ∧ (b.setTimestamp t).ty = b.ty ∧ (b.setTimestamp t).stmts = b.stmts) :=
  ⟨fun _ => rfl, fun _ => rfl, fun _ => ⟨rfl, rfl, rfl⟩⟩

/-- Fresh values carry no timestamp (so the generator is asked), for every batch type and either constructor. -/
theorem constructors_carry_no_timestamp (ty : BatchType) (stmts : List BatchStmtM) :
    StatementM.new.getTimestamp = none ∧ (BatchM.new ty).getTimestamp = none ∧
    (BatchM.newWithStatements ty stmts).getTimestamp = none := ⟨rfl, rfl, rfl⟩

/-- Everything that copies or rebuilds a statement keeps its timestamp: `Batch::new_from`, `append_statement`,
`Connection::prepare` / `Session::prepare` (Statement → PreparedStatement), `Session::prepare_batch` /
`CachingSession::prepare_batch` (clone + replace). -/
theorem copies_keep_timestamp (b : BatchM) (st : BatchStmtM) (s : StatementM) :
    b.newFrom.getTimestamp = b.getTimestamp ∧ b.newFrom.ty = b.ty ∧ (b.append st).getTimestamp = b.getTimestamp ∧
    s.prepare.getTimestamp = s.getTimestamp ∧ (sessionPrepareBatch b).getTimestamp = b.getTimestamp ∧
    (sessionPrepareBatch b).ty = b.ty := ⟨rfl, rfl, rfl, rfl, rfl, rfl⟩

/-- A CachingSession handle carries the CURRENT call's timestamp, never the one of the call that filled the cache. -/
theorem cached_handle_takes_current_timestamp (cachedFrom current : StatementM) :
    (cachedHandle cachedFrom current).getTimestamp = current.getTimestamp := rfl

private theorem foldl_append_ts (sts : List BatchStmtM) (f : BatchStmtM → BatchStmtM) (acc : BatchM) :
    (sts.foldl (fun a st => a.append (f st)) acc).getTimestamp = acc.getTimestamp ∧
    (sts.foldl (fun a st => a.append (f st)) acc).ty = acc.ty := by
  induction sts generalizing acc with
  | nil => exact ⟨rfl, rfl⟩
  | cons st sts ih =>
    simp only [List.foldl_cons]
    obtain ⟨h1, h2⟩ := ih (acc.append (f st))
    exact ⟨h1, h2⟩

/-- `Connection::prepare_batch` keeps the batch's timestamp and type, rebuilt or not. -/
theorem connPrepareBatch_keeps_timestamp (b : BatchM) (needs : BatchStmtM → Bool) :
    (connPrepareBatch b needs).getTimestamp = b.getTimestamp ∧ (connPrepareBatch b needs).ty = b.ty := by
  unfold connPrepareBatch
  split
  · exact foldl_append_ts b.stmts _ b.newFrom
  · exact ⟨rfl, rfl⟩

/-- **From the setter to the wire, every batch type**: a batch of ANY type (Logged, Unlogged, Counter), built by
either constructor, with `set_timestamp(Some t)` called last, whatever statements it holds and whether or not
`prepare_batch` rebuilds it: every BATCH frame of the call carries exactly `t`, whatever generator the connection
has and however often the frame is re-sent. -/
theorem explicit_batch_timestamp_reaches_every_frame (b : BatchM) (t : Int) (needs : BatchStmtM → Bool)
    (gen : Option (Unit → Int)) (resends : Nat) :
    ∀ f ∈ batchCallFrames (b.setTimestamp (some t)) needs gen resends, f = some t := by
  intro f hf
  unfold batchCallFrames at hf
  rw [(connPrepareBatch_keeps_timestamp _ needs).1] at hf
  exact (batch_timestamp_on_every_frame _ gen resends).2.2 t rfl f hf

/-- … and a batch whose timestamp was cleared last (`set_timestamp(None)` after `Some`) gets the generator's. -/
theorem cleared_batch_timestamp_is_generated (b : BatchM) (needs : BatchStmtM → Bool) (g : Unit → Int) (resends : Nat) :
    ∀ f ∈ batchCallFrames (b.setTimestamp none) needs (some g) resends, f = some (g ()) := by
  intro f hf
  unfold batchCallFrames at hf
  rw [(connPrepareBatch_keeps_timestamp _ needs).1] at hf
  exact (batch_timestamp_on_every_frame _ _ resends).2.1 f hf

/-- `Session::query_*` WITH VALUES: the statement's explicit timestamp survives `Connection::prepare` and is on
every EXECUTE frame. -/
theorem explicit_statement_timestamp_survives_prepare (s : StatementM) (t : Int) (gen : Option (Unit → Int))
    (unprepared : Bool) : ∀ f ∈ queryWithValuesFrames (s.setTimestamp (some t)) gen unprepared, f = some t :=
  explicit_timestamp_on_every_frame t gen unprepared

example : batchCallFrames ((BatchM.newWithStatements .counter [.query {}, .prepared {}]).setTimestamp (some 7))
    (fun st => st == .query {}) (some fun _ => 99) 1 = [some 7, some 7] := by decide
example : apiRunBatch (BatchM.new .counter) [.get, .set (some 5), .get, .clone, .append, .get, .set none, .get] =
    [none, some 5, some 5, none] := by decide

/-! ### inner statements of a batch -/

/-- **What the code does, said outright** (connection.rs:1201 reads `batch.get_timestamp()` only): the BATCH frames
depend on the batch's OWN timestamp alone. Whatever statements the batch holds - in particular statements carrying
their own `set_timestamp(Some _)` - and whichever of them `prepare_batch` re-prepares, the frames are those of the
batch-level timestamp: a timestamp set on a statement INSIDE a batch is not sent (the BATCH frame has a single
timestamp field). C18's last clause therefore holds for a batch only through `Batch::set_timestamp`. -/
theorem inner_statement_timestamps_are_ignored (b : BatchM) (stmts' : List BatchStmtM)
    (needs needs' : BatchStmtM → Bool) (gen : Option (Unit → Int)) (resends : Nat) :
    batchCallFrames { b with stmts := stmts' } needs' gen resends = batchCallFrames b needs gen resends ∧
    batchCallFrames b needs gen resends = batchFrames b.getTimestamp gen resends := by
  unfold batchCallFrames
  rw [(connPrepareBatch_keeps_timestamp _ needs').1, (connPrepareBatch_keeps_timestamp _ needs).1]
  exact ⟨rfl, rfl⟩

-- a batch without a timestamp whose only statement has one: the generator's value is sent, not the statement's
example : batchCallFrames (BatchM.newWithStatements .logged [(BatchStmtM.query {}).setTimestamp (some 7)])
    (fun _ => false) (some fun _ => 99) 0 = [some 99] := by decide

/-! ### paged executions: every page is a call of its own -/

/-- One page call: every frame carries the value `pickTimestampSt` chooses and the paging state of the call;
`resends + 1` frames. -/
theorem pageCall_frames {σ : Type} (stmtTs : Option Int) (gen : Option (σ → Int × σ)) (s : σ) (pg : Option Nat)
    (resends : Nat) :
    (pageCallSt stmtTs gen s pg resends).1 =
      List.replicate (resends + 1) { timestamp := (pickTimestampSt stmtTs gen s).1, paging := pg } ∧
    (pageCallSt stmtTs gen s pg resends).2 = (pickTimestampSt stmtTs gen s).2 := by
  simp [pageCallSt, framesSt]

/-- **The clause for paged executions, every page**: a statement with `set_timestamp(Some t)` executed over ANY
sequence of pages - starting from `PagingState::start()` or RESUMED from a saved state, any paging state on any
page, any number of re-sent frames per page, any generator on the connection (or none): EVERY frame of EVERY page
carries exactly `t`, and the generator's state at the end is its state at the beginning (never consulted). -/
theorem explicit_timestamp_on_every_page {σ : Type} (t : Int) (gen : Option (σ → Int × σ)) (s : σ)
    (pages : List (Option Nat × Nat)) :
    (∀ f ∈ (pagedFramesSt (some t) gen s pages).1, f.timestamp = some t) ∧
    (pagedFramesSt (some t) gen s pages).2 = s := by
  induction pages generalizing s with
  | nil => exact ⟨by simp [pagedFramesSt], rfl⟩
  | cons p rest ih =>
    obtain ⟨pg, rs⟩ := p
    have h1 := pageCall_frames (some t) gen s pg rs
    have hs : (pageCallSt (some t) gen s pg rs).2 = s := h1.2
    simp only [pagedFramesSt, hs]
    refine ⟨?_, (ih s).2⟩
    intro f hf
    rcases List.mem_append.mp hf with hf | hf
    · rw [h1.1] at hf
      rw [(List.mem_replicate.mp hf).2]; rfl
    · exact (ih s).1 f hf

/-- **The paging state has no say in the timestamp**: replacing the paging states of the calls by any others
(start by saved, saved by start, ...) leaves the timestamps of all frames and the generator's final state as they
are. In particular a page requested with a saved state is treated exactly like a first page. -/
theorem paging_state_does_not_affect_timestamp {σ : Type} (stmtTs : Option Int) (gen : Option (σ → Int × σ)) (s : σ)
    (pages : List (Option Nat × Nat)) (f : Option Nat → Option Nat) :
    ((pagedFramesSt stmtTs gen s (pages.map fun p => (f p.1, p.2))).1.map (·.timestamp) =
      (pagedFramesSt stmtTs gen s pages).1.map (·.timestamp)) ∧
    (pagedFramesSt stmtTs gen s (pages.map fun p => (f p.1, p.2))).2 = (pagedFramesSt stmtTs gen s pages).2 := by
  induction pages generalizing s with
  | nil => exact ⟨rfl, rfl⟩
  | cons p rest ih =>
    obtain ⟨pg, rs⟩ := p
    have h1 := pageCall_frames stmtTs gen s pg rs
    have h2 := pageCall_frames stmtTs gen s (f pg) rs
    simp only [List.map_cons, pagedFramesSt, List.map_append, h1.1, h2.1, h1.2, h2.2, List.map_replicate]
    exact ⟨by rw [(ih _).1], (ih _).2⟩

/-- Every frame carries the paging state of its call, in call order (the frame re-sent after UNPREPARED too). -/
theorem frames_carry_their_paging_state {σ : Type} (stmtTs : Option Int) (gen : Option (σ → Int × σ)) (s : σ)
    (pages : List (Option Nat × Nat)) :
    (pagedFramesSt stmtTs gen s pages).1.map (·.paging) = (pages.map fun p => List.replicate (p.2 + 1) p.1).flatten := by
  induction pages generalizing s with
  | nil => rfl
  | cons p rest ih =>
    obtain ⟨pg, rs⟩ := p
    have h1 := pageCall_frames stmtTs gen s pg rs
    simp only [pagedFramesSt, List.map_append, h1.1, List.map_replicate, List.map_cons, List.flatten_cons, ih]

/-- Without an explicit timestamp and with the counting generator (`next`, then `next += step`): the frames of page
number `k` of the execution carry `next + k * step` - one fresh value per page call, continuation pages included -
and the generator has been asked exactly once per page. -/
theorem generated_timestamp_per_page (step : Int) (s : Int × Nat) (pages : List (Option Nat × Nat)) :
    (pagedFramesSt none (some (ctrGen step)) s pages).1 =
      ((pages.zipIdx.map fun (p, k) =>
        List.replicate (p.2 + 1) ({ timestamp := some (s.1 + (k : Int) * step), paging := p.1 } : PageFrame)).flatten) ∧
    (pagedFramesSt none (some (ctrGen step)) s pages).2 = (s.1 + (pages.length : Int) * step, s.2 + pages.length) := by
  suffices h : ∀ (pages : List (Option Nat × Nat)) (s : Int × Nat) (i : Nat) (b : Int), s.1 = b + (i : Int) * step →
      (pagedFramesSt none (some (ctrGen step)) s pages).1 =
        (((pages.zipIdx i).map fun (p, k) =>
          List.replicate (p.2 + 1) ({ timestamp := some (b + (k : Int) * step), paging := p.1 } : PageFrame)).flatten) ∧
      (pagedFramesSt none (some (ctrGen step)) s pages).2 = (s.1 + (pages.length : Int) * step, s.2 + pages.length) by
    exact h pages s 0 s.1 (by simp)
  intro pages
  induction pages with
  | nil => intro s i b _; simp [pagedFramesSt]
  | cons p rest ih =>
    intro s i b hb
    obtain ⟨pg, rs⟩ := p
    have h1 := pageCall_frames none (some (ctrGen step)) s pg rs
    have hp : pickTimestampSt none (some (ctrGen step)) s = (some s.1, (s.1 + step, s.2 + 1)) := rfl
    rw [hp] at h1
    have ih' := ih (s.1 + step, s.2 + 1) (i + 1) b (by simp only [hb]; push_cast; rw [Int.add_mul]; omega)
    simp only [pagedFramesSt, h1.1, h1.2, List.zipIdx_cons, List.map_cons, List.flatten_cons, ih'.1, ih'.2]
    refine ⟨by rw [hb], ?_⟩
    simp only [List.length_cons]; push_cast
    refine Prod.ext ?_ ?_
    · simp only [Int.add_mul]; omega
    · simp only []; omega

/-- With a positive step the generated timestamps of LATER pages exceed those of earlier ones (they never repeat
across pages): the timestamps along the frames are non-decreasing, and constant only within one call. -/
theorem generated_page_timestamps_monotone (step : Int) (hstep : 0 < step) (s : Int × Nat)
    (pages : List (Option Nat × Nat)) :
    ∀ f ∈ (pagedFramesSt none (some (ctrGen step)) s pages).1, ∃ v, f.timestamp = some v ∧ s.1 ≤ v ∧
      v < (pagedFramesSt none (some (ctrGen step)) s pages).2.1 := by
  intro f hf
  induction pages generalizing s with
  | nil => simp [pagedFramesSt] at hf
  | cons p rest ih =>
    obtain ⟨pg, rs⟩ := p
    have h1 := pageCall_frames none (some (ctrGen step)) s pg rs
    have hp : pickTimestampSt none (some (ctrGen step)) s = (some s.1, (s.1 + step, s.2 + 1)) := rfl
    rw [hp] at h1
    have hfin := (generated_timestamp_per_page step (s.1 + step, s.2 + 1) rest).2
    have hall := (generated_timestamp_per_page step s ((pg, rs) :: rest)).2
    simp only [pagedFramesSt, h1.1, h1.2] at hf
    have hnn : (0 : Int) ≤ (rest.length : Int) * step := Int.mul_nonneg (by omega) (by omega)
    rcases List.mem_append.mp hf with hf | hf
    · refine ⟨s.1, ?_, Int.le_refl _, ?_⟩
      · rw [(List.mem_replicate.mp hf).2]
      · rw [hall]; simp only [List.length_cons]; push_cast; simp only [Int.add_mul]; omega
    · obtain ⟨v, hv, hlo, hhi⟩ := ih (s.1 + step, s.2 + 1) hf
      refine ⟨v, hv, by simp only [] at hlo; omega, ?_⟩
      rw [hall]; rw [hfin] at hhi
      simp only [List.length_cons]; push_cast; simp only [Int.add_mul] at hhi ⊢; omega

/-- No explicit timestamp and no generator: no frame of any page carries a timestamp. -/
theorem no_timestamp_on_any_page {σ : Type} (s : σ) (pages : List (Option Nat × Nat)) :
    ∀ f ∈ (pagedFramesSt none (none : Option (σ → Int × σ)) s pages).1, f.timestamp = none := by
  induction pages with
  | nil => simp [pagedFramesSt]
  | cons p rest ih =>
    obtain ⟨pg, rs⟩ := p
    have h1 := pageCall_frames none (none : Option (σ → Int × σ)) s pg rs
    have hs : (pageCallSt none (none : Option (σ → Int × σ)) s pg rs).2 = s := h1.2
    simp only [pagedFramesSt, hs]
    intro f hf
    rcases List.mem_append.mp hf with hf | hf
    · rw [h1.1] at hf; rw [(List.mem_replicate.mp hf).2]; rfl
    · exact ih f hf

-- an execution resumed from saved state 3 with an explicit timestamp, page 2 re-sent once; then a generated one
example : pagedExecs (some (ctrGen 10)) (100, 0)
    [(some (-5), [(some 3, 0), (some 4, 1)]), (none, [(none, 0), (some 1, 0)])] =
    [([⟨some (-5), some 3⟩, ⟨some (-5), some 4⟩, ⟨some (-5), some 4⟩], 0),
     ([⟨some 100, none⟩, ⟨some 110, some 1⟩], 2)] := by decide

end ScyllaVerif.Props.C18

/-
C08 — decoding any bytes from the network returns a value or an error, never a crash.
Property theorems.  Models: `Model/ReadPrim.lean`, `Model/TypeParser.lean`, `Model/Response.lean`, `Model/FrameHdr.lean`;
helper lemmas: `Proofs/Decode.lean`.

Totality ("terminates and yields a value or an error"): every decoder of the model is a total Lean function whose
result type `Outcome α` has exactly the constructors `ok` and `err`; Lean accepted each definition by structural
recursion (on the nesting fuel / the element count / the parameter-loop fuel), which is the termination proof.
`outcome_total` states the "value or error" half explicitly.
-/
import ScyllaVerif.Proofs.Decode

namespace ScyllaVerif.Props.C08
open ScyllaVerif.C08

/-- The pipeline yields a decoded value or an error kind — there is no third outcome (no panic / no divergence in
the model; the harness checks that the implementation never shows one either). -/
theorem outcome_total (f : Features) (cached : Option ResultMeta) (decomp : Option (Bytes → Option Bytes))
    (bs : Bytes) :
    (∃ d, (decode f cached decomp bs).1 = .ok d) ∨ (∃ k, (decode f cached decomp bs).1 = .err k) := by
  cases h : (decode f cached decomp bs).1 with
  | ok d => exact .inl ⟨d, rfl⟩
  | err k => exact .inr ⟨k, rfl⟩

end ScyllaVerif.Props.C08

/-
C08 — decoding any bytes from the network returns a value or an error, never a crash.
Property theorems.  Models: `Model/ReadPrim.lean`, `Model/TypeParser.lean`, `Model/Response.lean`, `Model/FrameHdr.lean`;
helper lemmas: `Proofs/Decode.lean`.

Totality ("terminates"): every decoder of the model is a total Lean function; Lean accepted each definition by
structural recursion (on the nesting fuel / the element count / the parameter-loop fuel), which is the termination
proof.  "Never a panic": the result type `Outcome α` has the constructors `ok`, `err` and `panic site`; the model
produces `panic` exactly where the Rust code performs a partial operation whose precondition does not hold, and
`no_panic` proves that this never happens.
-/
import ScyllaVerif.Proofs.DecodeRT
import ScyllaVerif.Proofs.CustomFuel
import ScyllaVerif.Proofs.C08Nest
import ScyllaVerif.Proofs.C08HeaderNP
import ScyllaVerif.Proofs.C08Lending
import ScyllaVerif.Proofs.C08BodyRead
import ScyllaVerif.Generated.Tables

namespace ScyllaVerif.Props.C08
open ScyllaVerif.C08

/-! ### the model's termination fuel is not a behaviour

The custom type string parser of the model has two loops with a fuel argument (`paramsLoop`, `udtFields`: fuel =
remaining scalars + 1) and a few arms the code cannot reach; they produce the model-only error `CtErr.fuel`.
It is never produced: every successful `do_parse` on a non-empty input consumes at least one scalar
(`doParse_shr`), so the fuel always suffices.  (The nesting fuel of `doParse` / `deserType` is different: it IS the
code's own depth limit, `depth >= 128` / `depth > 128`.) -/

theorem fuel_never_exhausted (uni : List (Bytes × UCls)) (s : Bytes) (w : String) :
    customParse uni s ≠ .error (.fuel w) :=
  customParse_nf uni s w

/-- The custom type string parser never reaches its `unwrap`, for every string and class table. -/
theorem custom_parser_no_panic (uni : List (Bytes × UCls)) (s : Bytes) (site : String) :
    customParse uni s ≠ .error (.panic site) :=
  customParse_np uni s site

/-! ### allocation proportional to the input, recursion depth bounded

`St.alloc` counts every element slot requested through `Vec::with_capacity` / `HashMap::with_capacity` where the
(fixed) Rust code requests them; `St.depth` the deepest recursion level of the two type parsers.  Both bounds hold
whether decoding succeeds or fails. -/

/-! ### raw cells: the only error kinds, never the panic string -/

private theorem takeN_err (n : Nat) (kd k : String) (s s' : St) (h : takeN n kd s = (.err k, s')) : k = kd := by
  unfold takeN at h
  split at h
  · injection h with h1 _; injection h1 with h1; exact h1.symm
  · simp at h

/-- `read_cql_bytes` can only fail with `eof` (length field) or `few` (cell body). -/
theorem readBytesOpt_err_kinds (s s' : St) (k : String) (h : readBytesOpt s = (.err k, s')) :
    k = "eof" ∨ k = "few" := by
  unfold readBytesOpt readInt at h
  simp only [bind_def, readRaw_eq_takeN] at h
  cases ht : takeN 4 "eof" s with
  | mk o s1 =>
    rw [ht] at h
    cases o with
    | err k' => simp only at h; injection h with h1 _; injection h1 with h1; subst h1; exact .inl (takeN_err _ _ _ _ _ ht)
    | panic k' => simp at h
    | ok raw =>
      simp only [pure_def] at h
      split at h
      · simp at h
      · simp only [bind_def] at h
        cases ht2 : takeN (toSigned 32 (beNat raw)).toNat "few" s1 with
        | mk o2 s2 =>
          rw [ht2] at h
          cases o2 with
          | err k' => simp only at h; injection h with h1 _; injection h1 with h1; subst h1; exact .inr (takeN_err _ _ _ _ _ ht2)
          | panic k' => simp at h
          | ok b => simp at h

theorem readCells_err_kinds : ∀ (n idx : Nat) (buf : Bytes) (c : Nat) (k : String),
    readCells n idx buf = .error (c, k) → k = "eof" ∨ k = "few"
  | 0, _, _, _, _, h => by simp [readCells] at h
  | n + 1, idx, buf, c, k, h => by
    unfold readCells at h
    cases hr : readBytesOpt { buf := buf } with
    | mk o s1 =>
      rw [hr] at h
      cases o with
      | panic site =>
        exfalso
        have := aw_readBytesOpt (A := 1) (B := 0) (Nat.le_refl _) { buf := buf }
        rw [hr] at this; exact this
      | err k' =>
        simp only at h
        injection h with h; injection h with _ h2; subst h2
        exact readBytesOpt_err_kinds _ _ _ hr
      | ok cell =>
        simp only at h
        cases hrc : readCells n (idx + 1) s1.buf with
        | error e =>
          rw [hrc] at h; simp only at h
          injection h with h; subst h
          exact readCells_err_kinds n (idx + 1) s1.buf c k hrc
        | ok pr => rw [hrc] at h; simp at h

theorem readRows_err_kinds (ncols : Nat) : ∀ (n ridx : Nat) (buf : Bytes) (ri c : Nat) (k : String),
    (readRows ncols n ridx buf).2 = some (ri, c, k) → k = "eof" ∨ k = "few"
  | 0, _, _, _, _, _, h => by simp [readRows] at h
  | n + 1, ridx, buf, ri, c, k, h => by
    unfold readRows at h
    cases hc : readCells ncols 0 buf with
    | error e =>
      obtain ⟨c', k'⟩ := e
      rw [hc] at h
      simp only [Option.some.injEq, Prod.mk.injEq] at h
      obtain ⟨_, _, rfl⟩ := h
      exact readCells_err_kinds ncols 0 buf c' k' hc
    | ok pr =>
      obtain ⟨cells, b⟩ := pr
      rw [hc] at h
      simp only at h
      exact readRows_err_kinds ncols n (ridx + 1) b ri c k h

/-- A rows stage is clean: its metadata step did not panic and a row error, if any, is a genuine short read. -/
def StageClean (rs : RowsStage) : Prop :=
  (∀ site, rs.dm ≠ .panic site) ∧ ∀ ri c k, rs.rowErr = some (ri, c, k) → k = "eof" ∨ k = "few"

private theorem body_bounds (f : Features) (cached : Option ResultMeta) (h : Header) (body : Bytes)
    (uni : List (Bytes × UCls)) :
    (decodeBody f cached h body uni).2.alloc ≤ 2 * body.length + 131070 ∧
    (decodeBody f cached h body uni).2.depth ≤ 257 ∧
    (∀ site, (decodeBody f cached h body uni).1 ≠ .panic site) ∧
    (∀ d rs, (decodeBody f cached h body uni).1 = .ok d → d.rowsStage = some rs → StageClean rs) := by
  unfold decodeBody
  have h1 := aw2_parseExt h.flags { buf := body, uni := uni }
  cases he : parseExt h.flags { buf := body, uni := uni } with
  | mk o s1 =>
    rw [he] at h1
    cases o with
    | panic k => exact h1.elim
    | err k =>
      simp only [U16, DEPTH_BOUND] at h1 ⊢
      exact And.intro (by omega) (And.intro (by omega) (And.intro (fun site hh => by cases hh) (fun d rs hh => by cases hh)))
    | ok ext =>
      simp only [U16, DEPTH_BOUND] at h1 ⊢
      have h2 := aw2_deserResponse f h.opcode s1
      cases hr : deserResponse f h.opcode s1 with
      | mk o2 s2 =>
        rw [hr] at h2
        cases o2 with
        | panic k => exact h2.elim
        | err k =>
          simp only [U16, DEPTH_BOUND] at h2 ⊢
          exact And.intro (by omega) (And.intro (by omega) (And.intro (fun site hh => by cases hh) (fun d rs hh => by cases hh)))
        | ok resp =>
          simp only [U16, DEPTH_BOUND] at h2 ⊢
          split
          · rename_i r
            unfold rowsStage
            have h3 := aw2_deserMetadata r cached s2
            cases hm : deserMetadata r cached s2 with
            | mk o3 s3 =>
              rw [hm] at h3
              cases o3 with
              | panic k => exact h3.elim
              | err k =>
                simp only [U16, DEPTH_BOUND] at h3 ⊢
                refine And.intro (by omega) (And.intro (by omega) (And.intro (fun site hh => by cases hh) ?_))
                intro d rs hd hrs
                injection hd with hd; subst hd
                simp only [Option.some.injEq] at hrs; subst hrs
                exact And.intro (fun site hh => by cases hh) (fun ri c k hh => by cases hh)
              | ok d =>
                simp only [U16, DEPTH_BOUND] at h3 ⊢
                refine And.intro (by omega) (And.intro (by omega) (And.intro (fun site hh => by cases hh) ?_))
                intro d' rs hd hrs
                injection hd with hd; subst hd
                simp only [Option.some.injEq] at hrs; subst hrs
                exact And.intro (fun site hh => by cases hh) (fun ri c k hh => readRows_err_kinds _ _ _ _ ri c k hh)
          · simp only []
            refine And.intro (by omega) (And.intro (by omega) (And.intro (fun site hh => by cases hh) ?_))
            intro d rs hd hrs
            injection hd with hd; subst hd
            simp at hrs

/-! ### never a panic

`Outcome` has a third constructor `panic site`, produced by the model exactly at the partial operations of the Rust
code: `Bytes::advance(n)` with `n > remaining` and the `body_len - buf_len` subtraction
(`parse_response_body_extensions`, frame/mod.rs:231-262), `raw.try_into().unwrap()` (`read_uuid`, types.rs:360),
`Bytes::slice_ref` outside its parent (result.rs:353, 1064, and `FrameSlice::to_bytes` at 847, 955),
`split_at` in `read_raw_bytes` (separate from its length guard), `from_utf8(chunk).unwrap()` in `from_hex`
(custom_type_parser.rs; reported through `deserType`).  `as usize` / `as u16` casts wrap and are modelled as the wrap.
The theorems say that none of these sites is reachable, whatever the bytes: every guard precedes its partial
operation.  (They follow from the invariant `AllocW`, whose `panic` branch is `False`, proved for every decoder in
Proofs/DecodeAlloc.lean.) -/

/-- Decoding a body — extensions, response, and the rows stage (metadata step + raw rows) — never panics. -/
theorem no_panic_body (f : Features) (cached : Option ResultMeta) (h : Header) (body : Bytes)
    (uni : List (Bytes × UCls)) :
    (∀ site, (decodeBody f cached h body uni).1 ≠ .panic site) ∧
    ∀ d rs, (decodeBody f cached h body uni).1 = .ok d → d.rowsStage = some rs → StageClean rs :=
  ⟨(body_bounds f cached h body uni).2.2.1, (body_bounds f cached h body uni).2.2.2⟩

/-- THE WHOLE PIPELINE NEVER PANICS, for ALL byte strings, features, cached metadata, decompressors and class
tables: neither the frame/extension/response decoding, nor — for a Rows result — `deserialize_metadata`, nor the
raw row reads (whose only failures are short reads). -/
theorem no_panic (f : Features) (cached : Option ResultMeta) (decomp : Option (Bytes → Option Bytes))
    (bs : Bytes) (uni : List (Bytes × UCls)) :
    (∀ site, (decode f cached decomp bs uni).1 ≠ .panic site) ∧
    ∀ d rs, (decode f cached decomp bs uni).1 = .ok d → d.rowsStage = some rs → StageClean rs := by
  unfold decode
  cases hp : parseFrame bs with
  | error k => exact ⟨by simp, by intro d rs hh; cases hh⟩
  | ok h =>
    simp only []
    split
    · cases decomp with
      | none => exact ⟨by simp, by intro d rs hh; cases hh⟩
      | some d =>
        simp only []
        cases hdb : d h.body with
        | none => exact ⟨by simp, by intro d rs hh; cases hh⟩
        | some body => exact no_panic_body f cached h body uni
    · exact no_panic_body f cached h h.body uni

/-- The fixed 9-byte header: `parseFrameP` takes the five fields with `Buf::get_u8 / get_u8 / get_i16 / get_u8 /
get_u32` (each panics when the slice runs short) from the array filled by `read_exact`; it never panics and is
exactly `parseFrame`, the header parser the pipeline theorems are about. -/
theorem no_panic_header (bs : Bytes) (site : String) : parseFrameP bs ≠ .panic site :=
  parseFrameP_np bs site

theorem header_reads_are_parseFrame (bs : Bytes) : parseFrameP bs = liftHdr (parseFrame bs) :=
  parseFrameP_eq bs

/-- Each primitive reader on its own never panics either (here: the one with an `unwrap`). -/
theorem no_panic_readUuid (s : St) (site : String) : (readUuid s).1 ≠ .panic site := by
  have := aw_readUuid (A := 1) (B := 0) (Nat.le_refl _) s
  intro h
  cases hr : readUuid s with
  | mk o s1 => rw [hr] at this h; simp only at h; subst h; exact this

/-- Requested allocation is proportional to the size of the (decompressed) body: at most two element slots per
input byte plus two `u16`-counted lists (the only counts taken as sent), whatever the bytes are. -/
theorem alloc_proportional_body (f : Features) (cached : Option ResultMeta) (h : Header) (body : Bytes)
    (uni : List (Bytes × UCls)) :
    (decodeBody f cached h body uni).2.alloc ≤ 2 * body.length + 131070 :=
  (body_bounds f cached h body uni).1

private theorem parseFrame_body_le (bs : Bytes) (h : Header) (hp : parseFrame bs = .ok h) :
    h.body.length ≤ bs.length := by
  unfold parseFrame at hp
  simp only [] at hp
  split at hp
  · simp at hp
  · split at hp
    · simp at hp
    · split at hp
      · simp at hp
      · split at hp
        · simp at hp
        · split at hp
          · simp at hp
          · injection hp with hp
            subst hp
            simp only [List.length_take, List.length_drop, HEADER_SIZE]
            omega

/-! ### `read_response_frame` itself: the body buffer

After fix b5f5b38 the body is read with `Vec::with_capacity(length.min(MAX_BODY_PREALLOCATION)).limit(length)`:
at most 1 MiB is reserved on the word of the header, the rest grows (amortised doubling, `growCap`) with the bytes
that really arrive.  `readBody length avail` is that loop for a header announcing `length` bytes when `avail` bytes
arrive before EOF; it returns (bytes read, complete?, largest capacity the buffer ever had). -/

/-- The model's preallocation constant is the one extracted from `scylla-cql/src/frame/mod.rs` on this run. -/
theorem body_prealloc_is_source : MAX_BODY_PREALLOCATION = ScyllaVerif.Generated.maxBodyPreallocation := by
  decide +kernel

/-- Allocation of `read_response_frame` is proportional to the bytes RECEIVED, never to the length announced:
the capacity of the body buffer never exceeds `1 MiB + 2 · received + 64`, for every header and every EOF point. -/
theorem alloc_proportional_frame_read (length avail : Nat) :
    (readBody length avail).2.2 ≤ MAX_BODY_PREALLOCATION + 2 * (readBody length avail).1 + 64 ∧
    (readBody length avail).1 ≤ avail :=
  readBody_alloc length avail

/-- … in particular in terms of what the peer sent. -/
theorem alloc_proportional_frame_read_sent (length avail : Nat) :
    (readBody length avail).2.2 ≤ 2 * avail + (2 ^ 20 + 64) := by
  have h := readBody_alloc length avail
  simp only [MAX_BODY_PREALLOCATION] at h
  omega

/-- non-vacuity: the header of the reproducer (`84 00 0000 02 ffffffff`, then EOF) reserves exactly 1 MiB (before the
fix: 4 GiB); a 3 MiB announcement of which 2.5 MiB arrive reaches 4 MiB by doubling twice. -/
example : (readBody 0xFFFFFFFF 0).2.2 = 2 ^ 20 := readBody_huge_header_eof
example : readBody (3 * 2 ^ 20) (5 * 2 ^ 19) = (5 * 2 ^ 19, false, 4 * 2 ^ 20) := by decide +kernel
example : readBody 70000 70000 = (70000, true, 70000) := by decide +kernel

/-- The whole pipeline on an uncompressed connection: `allocReq ≤ K · bs.length + K₀` with `K = 2`, `K₀ = 131070`. -/
theorem alloc_proportional (f : Features) (cached : Option ResultMeta) (bs : Bytes) (uni : List (Bytes × UCls)) :
    (decode f cached none bs uni).2.alloc ≤ 2 * bs.length + 131070 := by
  unfold decode
  cases hp : parseFrame bs with
  | error k => simp
  | ok h =>
    have hl := parseFrame_body_le bs h hp
    simp only []
    split
    · simp
    · have := alloc_proportional_body f cached h h.body uni
      omega

/-- With a negotiated decompressor whose expansion is bounded (`R · len + R₀`; the LZ4 / Snappy guards of
`decompress` enforce 255·len + 64 resp. 64·len + 64 on the declared size) the bound is relative to that. -/
theorem alloc_proportional_compressed (f : Features) (cached : Option ResultMeta) (d : Bytes → Option Bytes)
    (R R0 : Nat) (hd : ∀ b b', d b = some b' → b'.length ≤ R * b.length + R0) (bs : Bytes)
    (uni : List (Bytes × UCls)) :
    (decode f cached (some d) bs uni).2.alloc ≤ 2 * ((R + 1) * bs.length + R0) + 131070 := by
  unfold decode
  cases hp : parseFrame bs with
  | error k => simp
  | ok h =>
    have hl := parseFrame_body_le bs h hp
    simp only []
    split
    · cases hdb : d h.body with
      | none => simp
      | some body =>
        simp only []
        have h1 := alloc_proportional_body f cached h body uni
        have h2 := hd _ _ hdb
        have : R * h.body.length ≤ R * bs.length := Nat.mul_le_mul_left _ hl
        rw [Nat.add_mul]; omega
    · have := alloc_proportional_body f cached h h.body uni
      rw [Nat.add_mul]; omega

/-- The LZ4 path of `decompress` (`lz4Decomp`: the size guard of fix bd65dae in front of the external block
decoder, which never returns more than the declared size) satisfies the expansion hypothesis with `255·len + 64`. -/
theorem lz4Decomp_bounded (ext : Bytes → Option Bytes) (b b' : Bytes) (h : lz4Decomp ext b = some b') :
    b'.length ≤ 255 * b.length + 64 := by
  unfold lz4Decomp at h
  split at h
  · rename_i hg
    simp only [lz4Guard, decide_eq_true_eq, Bool.decide_and, Bool.and_eq_true] at hg
    cases he : ext (b.drop 4) with
    | none => simp [he] at h
    | some out =>
      simp only [he, Option.filter] at h
      split at h
      · rename_i hl
        injection h with h; subst h
        simp only [decide_eq_true_eq] at hl
        omega
      · cases h
  · cases h

/-- Allocation on an LZ4 connection, for ANY block decoder: `≤ 2·(256·len + 64) + 131070` slots. -/
theorem alloc_proportional_lz4 (f : Features) (cached : Option ResultMeta) (ext : Bytes → Option Bytes) (bs : Bytes)
    (uni : List (Bytes × UCls)) :
    (decode f cached (some (lz4Decomp ext)) bs uni).2.alloc ≤ 2 * (256 * bs.length + 64) + 131070 :=
  alloc_proportional_compressed f cached (lz4Decomp ext) 255 64 (lz4Decomp_bounded ext) bs uni

/-- The Snappy path of `decompress` (`snappyDecomp`: the size guard of fix bd65dae in front of the external decoder,
which allocates the declared size and never returns more) satisfies the expansion hypothesis with `64·len + 64`. -/
theorem snappyDecomp_bounded (ext : Bytes → Option Bytes) (b b' : Bytes) (h : snappyDecomp ext b = some b') :
    b'.length ≤ 64 * b.length + 64 := by
  unfold snappyDecomp at h
  split at h
  · rename_i hg
    unfold snappyGuard at hg
    cases hl : snappyLen b with
    | none => simp [hl] at hg
    | some n =>
      simp only [hl, decide_eq_true_eq] at hg
      cases he : ext b with
      | none => simp [he] at h
      | some out =>
        simp only [he, hl, Option.filter, Option.getD_some] at h
        split at h
        · rename_i hle
          injection h with h; subst h
          simp only [decide_eq_true_eq] at hle
          omega
        · cases h
  · cases h

/-- Allocation on a Snappy connection, for ANY block decoder: `≤ 2·(65·len + 64) + 131070` slots; what the guard
lets `decompress_vec` reserve up front is itself at most `64·len + 64` bytes. -/
theorem alloc_proportional_snappy (f : Features) (cached : Option ResultMeta) (ext : Bytes → Option Bytes) (bs : Bytes)
    (uni : List (Bytes × UCls)) :
    (decode f cached (some (snappyDecomp ext)) bs uni).2.alloc ≤ 2 * (65 * bs.length + 64) + 131070 :=
  alloc_proportional_compressed f cached (snappyDecomp ext) 64 64 (snappyDecomp_bounded ext) bs uni

theorem snappy_reservation_bounded (body : Bytes) (n : Nat) (hg : snappyGuard body = true)
    (hl : snappyLen body = some n) : n ≤ 64 * body.length + 64 := by
  unfold snappyGuard at hg
  simp only [hl, decide_eq_true_eq] at hg
  exact hg

/-- non-vacuity: the reproducer shape of bd65dae for Snappy (a preamble declaring 256 MiB in front of 2 bytes) is
refused by the guard; an honest preamble passes. -/
example : snappyGuard [0x80, 0x80, 0x80, 0x80, 0x01, 0x00, 0x61] = false := by decide
example : snappyLen [0x80, 0x80, 0x80, 0x80, 0x01, 0x00, 0x61] = some (1 <<< 28) := by decide
example : snappyGuard [0x01, 0x00, 0x61] = true := by decide
example : snappyLen [0x80, 0x80, 0x80, 0x80, 0x80, 0x01] = none := by decide

/-! ### depth, measured on what the parsers return

`depth_bounded` below bounds the ghost counter, which mirrors the code's own limit checks.  Independently of any
counter, the NESTING of every type a parser returns is bounded (`nestTy`): a type nested `n` deep was built by `n`
nested calls (plus `FrozenType(` wrappers, which the limit counts too), and everything downstream — `type_check`,
typed value decoding (`Model/C08Value.lean` recurses structurally on the type) — recurses on the type. -/

/-- A custom type string yields a type nested at most 128 deep, whatever the string and the class table. -/
theorem custom_type_nesting_bounded (uni : List (Bytes × UCls)) (s : Bytes) (t : Ty)
    (h : customParse uni s = .ok t) : nestTy t ≤ 128 :=
  customParse_nest uni s t h

/-- A column type read from a frame (`deser_type_*` at depth 0) is nested at most 129 + 128 deep, for ALL bytes. -/
theorem column_type_nesting_bounded (s : St) (t : Ty) (s' : St) (h : deserTypeTop s = (.ok t, s')) :
    nestTy t ≤ 257 :=
  deserTypeTop_nest s t s' h

/-- Non-vacuity: `list<map<int, set<text>>>` has nesting 4. -/
example : nestTy (.list false (.map false (.native .int) (.set false (.native .text)))) = 4 := by decide

/-- Recursion depth is bounded by a constant, whatever the bytes are: at most 129 nested binary type
descriptions (depth 0..128) plus 128 nested `do_parse` calls of the custom type string parser. -/
theorem depth_bounded (f : Features) (cached : Option ResultMeta) (decomp : Option (Bytes → Option Bytes))
    (bs : Bytes) (uni : List (Bytes × UCls)) : (decode f cached decomp bs uni).2.depth ≤ 128 + 129 := by
  unfold decode
  cases hp : parseFrame bs with
  | error k => simp
  | ok h =>
    simp only []
    split
    · cases decomp with
      | none => simp
      | some d =>
        simp only []
        cases hdb : d h.body with
        | none => simp
        | some body => exact (body_bounds f cached h body uni).2.1
    · exact (body_bounds f cached h h.body uni).2.1

/-! ### primitives: round trip and truncation
(wire encoders `encShort`, `encInt`, `encString`, … are defined from the protocol specification in Proofs/DecodeRT.lean) -/

theorem takeN_append (xs rest : Bytes) (k : String) (s : St) (hs : s.buf = xs ++ rest) :
    takeN xs.length k s = (.ok xs, { s with buf := rest }) := by
  unfold takeN
  simp [hs]

theorem takeN_short (n : Nat) (k : String) (s : St) (h : s.buf.length < n) : takeN n k s = (.err k, s) := by
  unfold takeN; simp [h]

theorem readShort_roundtrip (n : Nat) (h : n < 65536) (rest : Bytes) (s : St) (hs : s.buf = encShort n ++ rest) :
    readShort s = (.ok n, { s with buf := rest }) := by
  unfold readShort
  have := takeN_append (encShort n) rest "eof" s hs
  simp only [encShort, List.length_cons, List.length_nil] at this
  simp only [bind_def, this, pure_def]
  rw [show [UInt8.ofNat (n / 256), UInt8.ofNat (n % 256)] = encShort n from rfl, beNat_encShort n h]

theorem readInt_roundtrip (v : Int) (h : -2 ^ 31 ≤ v ∧ v < 2 ^ 31) (rest : Bytes) (s : St)
    (hs : s.buf = encInt v ++ rest) : readInt s = (.ok v, { s with buf := rest }) := by
  unfold readInt
  have := takeN_append (encInt v) rest "eof" s hs
  have hl : (encInt v).length = 4 := rfl
  rw [hl] at this
  simp only [bind_def, this, pure_def, beNat_encInt, toSigned]
  congr 2
  split <;> omega

theorem readString_roundtrip (str : Bytes) (hl : str.length < 65536) (hu : utf8ok str = true) (rest : Bytes) (s : St)
    (hs : s.buf = encString str ++ rest) : readString s = (.ok str, { s with buf := rest }) := by
  unfold readString
  have h1 := readShort_roundtrip str.length hl (str ++ rest) s (by simp [hs, encString])
  have h2 := takeN_append str rest "few" { s with buf := str ++ rest } rfl
  simp only [bind_def, h1, readRaw_eq_takeN, h2, checkUtf8, hu, if_true, pure_def]

/-- A `[string]` cut anywhere is an error, never a different string. -/
theorem readString_truncation (str : Bytes) (hl : str.length < 65536) (p t : Bytes) (ht : t ≠ [])
    (hp : p ++ t = encString str) (s : St) (hs : s.buf = p) : ∃ k, (readString s).1 = .err k := by
  unfold readString
  by_cases h2 : p.length < 2
  · refine ⟨"eof", ?_⟩
    simp only [bind_def, readShort, takeN_short 2 "eof" s (by rw [hs]; exact h2)]
  · -- the two length bytes are intact, the payload is short
    have hlen : p.length + t.length = 2 + str.length := by
      have := congrArg List.length hp
      simp [encString, encShort] at this
      omega
    have htl : 0 < t.length := List.length_pos_iff.mpr ht
    obtain ⟨q, hq⟩ : ∃ q, p = encShort str.length ++ q := by
      refine ⟨p.drop 2, ?_⟩
      have h3 : p.take 2 = (encString str).take 2 := by
        rw [← hp, List.take_append_of_le_length (by omega)]
      have h4 : (encString str).take 2 = encShort str.length := by simp [encString, encShort]
      rw [← h4, ← h3, List.take_append_drop]
    have h1 := readShort_roundtrip str.length hl q s (by rw [hs, hq])
    have hql : q.length < str.length := by
      have := congrArg List.length hq
      simp [encShort] at this
      omega
    refine ⟨"few", ?_⟩
    simp only [bind_def, h1, readRaw_eq_takeN, takeN_short str.length "few" { s with buf := q } hql]

theorem readBytesOpt_roundtrip (o : Option Bytes) (ho : ∀ b, o = some b → b.length < 2 ^ 31) (rest : Bytes) (s : St)
    (hs : s.buf = encBytesOpt o ++ rest) : readBytesOpt s = (.ok o, { s with buf := rest }) := by
  unfold readBytesOpt
  cases o with
  | none =>
    have h1 := readInt_roundtrip (-1) (by omega) rest s (by simpa [encBytesOpt] using hs)
    simp [bind_def, h1]
  | some b =>
    have hb := ho b rfl
    have h1 := readInt_roundtrip (b.length : Int) (by omega) (b ++ rest) s (by simp [hs, encBytesOpt])
    have h2 := takeN_append b rest "few" { s with buf := b ++ rest } rfl
    have hn : ¬ ((b.length : Int) < 0) := by omega
    simp only [bind_def, h1, hn, if_false, readRaw_eq_takeN, Int.toNat_natCast, h2, pure_def]

/-- A primitive that is cut short is an error: `takeN` never invents bytes. -/
theorem readInt_truncation (s : St) (h : s.buf.length < 4) : ∃ k, (readInt s).1 = .err k :=
  ⟨"eof", by simp only [readInt, bind_def, takeN_short 4 "eof" s h]⟩

theorem readShort_truncation (s : St) (h : s.buf.length < 2) : ∃ k, (readShort s).1 = .err k :=
  ⟨"eof", by simp only [readShort, bind_def, takeN_short 2 "eof" s h]⟩

/-- Negative counts / lengths are rejected (`read_int_length`): the `as usize` on a negative `i32` cannot happen. -/
theorem readIntLength_negative (v : Int) (h : -2 ^ 31 ≤ v ∧ v < 0) (rest : Bytes) (s : St)
    (hs : s.buf = encInt v ++ rest) : (readIntLength s).1 = .err "negint" := by
  unfold readIntLength
  have h1 := readInt_roundtrip v (by omega) rest s hs
  simp [bind_def, h1, h.2]

/-! ### well-formed responses decode to exactly what was encoded

`RT m enc a` (Proofs/DecodeRT.lean): the reader `m` run on `enc ++ rest` returns `a` and leaves exactly `rest`.
The encoders are written from the protocol specification; `Choices` are the presentation choices a server has that
the decoded value does not record (global table spec / "no metadata" flag of the result metadata inside PREPARED). -/

structure Choices where
  global : Bool
  noMeta : Bool
  /-- a new metadata id announced with flag 0x8 inside the PREPARED result metadata (read, then superseded) -/
  newId : Option Bytes := none

def opcodeOf : Response → Nat
  | .error _ => 0x00 | .ready => 0x02 | .authenticate _ => 0x03 | .supported _ => 0x06 | .result _ => 0x08
  | .event _ => 0x0C | .authChallenge _ => 0x0E | .authSuccess _ => 0x10

/-- Body of a response per native_protocol_v4.spec §4.2 (+ ScyllaDB's metadata-id extension). -/
def encBody (f : Features) (ch : Choices) : Response → Bytes
  | .error e => encError e
  | .ready => []
  | .authenticate n => encString n
  | .supported o => encMultimap o
  | .result .void => encInt 1
  | .result (.rows r) => encInt 2 ++ encRawRows r
  | .result (.setKeyspace ks) => encInt 3 ++ encString ks
  | .result (.prepared p) => encInt 4 ++ encPrepared f ch.global ch.noMeta ch.newId p
  | .result (.schemaChange sc) => encInt 5 ++ encSchemaChange sc
  | .event e => encEvent e
  | .authChallenge m => encBytesOpt m
  | .authSuccess m => encBytesOpt m

/-- Well-formedness of a response value: strings are UTF-8 and fit their length fields, counts fit theirs, error
fields are those of the error code, column types are expressible in the binary format (no custom type strings)
and nested at most 129 deep, client-routes events excluded. -/
def WfResponse (f : Features) (ch : Choices) : Response → Prop
  | .error e => WfError f.rateLimitError e
  | .ready => True
  | .authenticate n => WfStr n
  | .supported o => WfMultimap o
  | .result .void => True
  | .result (.rows r) => WfRawRows f r
  | .result (.setKeyspace ks) => WfStr ks
  | .result (.prepared p) => WfPrepared f ch.global ch.noMeta ch.newId p
  | .result (.schemaChange sc) => WfSchemaChange sc
  | .event e => WfEvent e
  | .authChallenge m => ∀ b, m = some b → b.length < 2 ^ 31
  | .authSuccess m => ∀ b, m = some b → b.length < 2 ^ 31

/-- Every well-formed response of every kind decodes to exactly the value that was encoded, for every
negotiated-feature combination, and consumes exactly its encoding.
(Scope, stated in `WfResponse`: EVENT/CLIENT_ROUTES_CHANGE and column types given as custom type strings are
checked by the differential run only.) -/
theorem wellformed_roundtrip (f : Features) (ch : Choices) (r : Response) (h : WfResponse f ch r) :
    RT (deserResponse f (opcodeOf r)) (encBody f ch r) r := by
  cases r with
  | error e => simpa [deserResponse, opcodeOf, encBody] using rt_map Response.error (rt_deserError f e h)
  | ready => simpa [deserResponse, opcodeOf, encBody] using rt_pure Response.ready
  | authenticate n =>
    simpa [deserResponse, opcodeOf, encBody] using rt_map Response.authenticate (rt_tag "authenticate" (rt_readString n h))
  | supported o =>
    simpa [deserResponse, opcodeOf, encBody] using
      rt_map Response.supported (rt_tag "supported" (rt_readStringMultimap o h))
  | event e => simpa [deserResponse, opcodeOf, encBody] using rt_map Response.event (rt_deserEvent e h)
  | authChallenge m =>
    simpa [deserResponse, opcodeOf, encBody] using
      rt_map Response.authChallenge (rt_tag "authchallenge" (rt_readBytesOpt m h))
  | authSuccess m =>
    simpa [deserResponse, opcodeOf, encBody] using
      rt_map Response.authSuccess (rt_tag "authsuccess" (rt_readBytesOpt m h))
  | result rr =>
    have key : RT (deserResult f) (encBody f ch (.result rr)) rr := by
      unfold deserResult
      cases rr with
      | void =>
        simp only [encBody]
        rw [← List.append_nil (encInt 1)]
        exact rt_bind (rt_tracked (rt_tag _ (rt_readInt 1 (by omega)))) (by simpa using rt_pure ResultResp.void)
      | rows r =>
        simp only [encBody]
        exact rt_bind (rt_tracked (rt_tag _ (rt_readInt 2 (by omega)))) (by
          simpa using rt_bind0 rt_sliceRef_true (rt_map ResultResp.rows (rt_deserRawRows f r h)))
      | setKeyspace ks =>
        simp only [encBody]
        exact rt_bind (rt_tracked (rt_tag _ (rt_readInt 3 (by omega)))) (by
          simpa using rt_map ResultResp.setKeyspace (rt_tag "setks" (rt_readString ks h)))
      | prepared p =>
        simp only [encBody]
        exact rt_bind (rt_tracked (rt_tag _ (rt_readInt 4 (by omega)))) (by
          simpa using rt_map ResultResp.prepared (rt_deserPrepared f ch.global ch.noMeta ch.newId p h))
      | schemaChange sc =>
        simp only [encBody]
        exact rt_bind (rt_tracked (rt_tag _ (rt_readInt 5 (by omega)))) (by
          simpa using rt_map ResultResp.schemaChange (rt_deserSchemaChange sc h))
    simpa [deserResponse, opcodeOf] using rt_map Response.result key

/-- Second stage of a Rows result (`deserialize_metadata`, then the raw rows): metadata sent by the server, rows
count and rows decode to exactly what was encoded. -/
theorem wellformed_roundtrip_rows (r : RawRows) (cached : Option ResultMeta) (m : ResultMeta)
    (rows : List (List (Option Bytes))) (s : St) (hm : WfRowsMeta r m) (hn : rows.length < 2 ^ 31)
    (hr : ∀ row ∈ rows, row.length = m.cols.length ∧ ∀ c ∈ row, WfCell c)
    (hs : s.buf = encRowsMeta r m ++ (encInt rows.length ++ rows.flatMap encRow)) :
    (deserMetadata r cached s).1 = .ok ⟨.parsed, m, rows.length, rows.flatMap encRow⟩ ∧
    readRows m.cols.length rows.length 0 (rows.flatMap encRow) = (rows, none) := by
  refine ⟨?_, readRows_roundtrip m.cols.length rows 0 hr⟩
  unfold deserMetadata
  obtain ⟨s1, h1, hb1⟩ := rt_metaFor r cached m hm _ s hs
  obtain ⟨s2, h2, hb2⟩ := rt_tracked (rt_tag "rowscount" (rt_readIntLength rows.length hn)) (rows.flatMap encRow) s1 hb1
  simp only [bind_def, h1, h2, sliceRef, if_true, takeRest, hb2, pure_def]

/-- The same for a result sent WITHOUT metadata (flag 0x4: the normal path of a prepared EXECUTE with
skip-metadata): the metadata is the cached one the caller passed — or empty when there is none — and the rows count
and rows decode to exactly what was encoded. -/
theorem wellformed_roundtrip_rows_nometa (r : RawRows) (cached : Option ResultMeta)
    (rows : List (List (Option Bytes))) (s : St) (hp : r.presence = .noMetadata) (hn : rows.length < 2 ^ 31)
    (hs : s.buf = encInt rows.length ++ rows.flatMap encRow) :
    let sm : MetaSource × ResultMeta := match cached with
      | some c => (.cached, c)
      | none => (.mockEmpty, ⟨none, 0, []⟩)
    (∀ row ∈ rows, row.length = sm.2.cols.length ∧ ∀ c ∈ row, WfCell c) →
    (deserMetadata r cached s).1 = .ok ⟨sm.1, sm.2, rows.length, rows.flatMap encRow⟩ ∧
    readRows sm.2.cols.length rows.length 0 (rows.flatMap encRow) = (rows, none) := by
  intro sm hr
  refine ⟨?_, readRows_roundtrip sm.2.cols.length rows 0 hr⟩
  obtain ⟨s2, h2, hb2⟩ := rt_tracked (rt_tag "rowscount" (rt_readIntLength rows.length hn)) (rows.flatMap encRow) s hs
  unfold deserMetadata metaFor
  cases cached with
  | some c => simp only [hp, bind_def, pure_def, h2, sliceRef, if_true, takeRest, hb2, sm]
  | none => simp only [hp, bind_def, pure_def, h2, sliceRef, if_true, takeRest, hb2, sm]

/-! ### iterating the rows past an error

`RawRowIterator` is an `ExactSizeIterator` of `rows_count` items: a failing row does not end the iteration and does
end the iteration: the first failing row reports its column, the iterator then stands at the failing cell and every
remaining announced row fails there at column 0 (`iterRows_after_error`).  The CPU work of a consumer
that keeps iterating past errors is therefore proportional to the announced row count, not to the bytes received
(by design; recorded as an assumption).  What C08 needs is that the iteration terminates and that nothing
accumulates: each item is built from the current slice only (`readCells` on `buf`), so a consumer that drops or stops
at errors holds one item at a time. -/

/-- The iteration ends after exactly `rows_count` items, whatever the bytes. -/
theorem iterRows_length (ncols : Nat) : ∀ (n : Nat) (buf : Bytes), (iterRows ncols n buf).length = n
  | 0, _ => rfl
  | n + 1, buf => by
    unfold iterRows
    split <;> simp [iterRows_length ncols n]

/-- A cell read never panics (so the `"PANIC …"` strings of `readCells` / `skipRow` are never produced). -/
theorem readBytesOpt_no_panic (s : St) (site : String) : (readBytesOpt s).1 ≠ .panic site := by
  have := aw_readBytesOpt (A := 1) (B := 0) (Nat.le_refl _) s
  intro h
  cases hr : readBytesOpt s with
  | mk o s1 => rw [hr] at this h; simp only at h; subst h; exact this

/-- A row that fails at column `c` leaves the iterator AT THE FAILING CELL: from there the same read fails again. -/
theorem skipRow_of_error : ∀ (n idx : Nat) (buf : Bytes) (c : Nat) (k : String),
    readCells n idx buf = .error (c, k) →
    ∃ p, skipRow n idx buf = (some (c, k), p) ∧ ∃ s', readBytesOpt { buf := p } = (.err k, s')
  | 0, _, _, _, _, h => by simp [readCells] at h
  | n + 1, idx, buf, c, k, h => by
    unfold readCells at h
    unfold skipRow
    cases hr : readBytesOpt { buf := buf } with
    | mk o s1 =>
      rw [hr] at h
      cases o with
      | panic site => exact absurd (by rw [hr]) (readBytesOpt_no_panic { buf := buf } site)
      | err k' =>
        simp only at h ⊢
        injection h with h; injection h with h1 h2; subst h1; subst h2
        exact ⟨buf, rfl, s1, hr⟩
      | ok cell =>
        simp only at h ⊢
        cases hrc : readCells n (idx + 1) s1.buf with
        | error e =>
          rw [hrc] at h
          simp only at h
          injection h with h; subst h
          exact skipRow_of_error n (idx + 1) s1.buf c k hrc
        | ok pr => rw [hrc] at h; simp at h

/-- At a cell that cannot be read, every row fails at column 0 with that error and the iterator does not move. -/
theorem stuck_at_failing_cell (m : Nat) (p : Bytes) (k : String) (s' : St)
    (h : readBytesOpt { buf := p } = (.err k, s')) :
    readCells (m + 1) 0 p = .error (0, k) ∧ skipRow (m + 1) 0 p = (some (0, k), p) := by
  unfold readCells skipRow
  simp only [h, and_self]

/-- THE ERROR TAIL, as the code produces it: the first failing row reports the column `c` where it failed; every
further announced row fails at column 0 with the same error kind (the iterator stands at the failing cell). -/
theorem iterRows_after_error (ncols : Nat) (c : Nat) (k : String) (n : Nat) (buf : Bytes)
    (h : readCells ncols 0 buf = .error (c, k)) :
    iterRows ncols (n + 1) buf = .error (c, k) :: List.replicate n (.error (0, k)) := by
  obtain ⟨p, hp, s', hs'⟩ := skipRow_of_error ncols 0 buf c k h
  cases ncols with
  | zero => simp [readCells] at h
  | succ m =>
    have hstuck := stuck_at_failing_cell m p k s' hs'
    have rep : ∀ j, iterRows (m + 1) j p = List.replicate j (.error (0, k)) := by
      intro j
      induction j with
      | zero => rfl
      | succ j ih =>
        unfold iterRows
        simp only [hstuck.1, hstuck.2, List.replicate_succ, ih]
    unfold iterRows
    simp only [h, hp, rep n]

/-- Up to the first error the items are exactly the rows `readRows` returns (the part the harness prints). -/
theorem iterRows_prefix (ncols : Nat) : ∀ (n ridx : Nat) (buf : Bytes),
    ((iterRows ncols n buf).takeWhile (fun i => match i with
      | .ok _ => true
      | .error _ => false)).map (fun i => match i with
      | .ok r => r
      | .error _ => []) = (readRows ncols n ridx buf).1
  | 0, _, _ => rfl
  | n + 1, ridx, buf => by
    unfold iterRows readRows
    cases h : readCells ncols 0 buf with
    | error e => obtain ⟨c, k⟩ := e; simp
    | ok p =>
      obtain ⟨cells, b⟩ := p
      simp only [List.takeWhile_cons, if_true, List.map_cons]
      rw [iterRows_prefix ncols n (ridx + 1) b]

/-! ### the lending row iterator of the paged path

`RawRowLendingIterator` (behind `QueryPager` / `TypedRowStream`) keeps a persistent byte offset `self.at` into the
page and re-slices `&raw_rows[self.at..]` on every `next()` — a partial operation — and advances the offset by
`len_before - len_after` of each cell read.  `Model/Response.lean` `lendRows` models it with those panic sites. -/

/-- The lending iterator never panics and yields, for ALL page bytes, column counts and announced row counts,
exactly the item sequence of `RawRowIterator` (`iterRows`): same cells for Ok rows, same error tail.
(`raw.length ≤ usize::MAX`: the page is in memory.) -/
theorem lending_iterator_is_plain_iterator (ncols : Nat) (raw : Bytes) (hraw : raw.length ≤ USIZE_MAX) (n : Nat) :
    lendRows ncols n 0 raw = .ok (iterRows ncols n raw) := by
  have := lendRows_eq ncols raw hraw n 0 (Nat.zero_le _)
  simpa using this

theorem no_panic_lending (ncols : Nat) (raw : Bytes) (hraw : raw.length ≤ USIZE_MAX) (n : Nat) (site : String) :
    lendRows ncols n 0 raw ≠ .panic site := by
  rw [lending_iterator_is_plain_iterator ncols raw hraw n]; intro h; cases h

/-- Non-vacuity of the re-slicing panic site: an offset past the page would panic. -/
example : lendRows 1 1 5 [0, 0, 0, 0] = .panic "range start index out of range for slice" := by
  rfl

/-! ### truncation of whole responses

FULL STATEMENT (kept): `truncation_is_error : WfResponse f ch r → TR (deserResponse f (opcodeOf r)) (encBody f ch r)`
— every proper prefix of an encoded response body is an error, never `ok` of something else.  PROVED below for
READY (no proper prefix exists), AUTHENTICATE, AUTH_CHALLENGE, AUTH_SUCCESS, RESULT/Void, RESULT/SetKeyspace
(`truncation_is_error_partial`), from the compositional lemmas `tr_bind` / `tr_takeN` (Proofs/DecodeRT.lean).
MISSING: the kinds with loops (ERROR field lists, SUPPORTED, EVENT, SchemaChange, Prepared, Rows metadata) need the
`loopN` instance of `tr_bind`; they are covered by the exhaustive truncation cases of the differential run.
Where a prefix legitimately decodes: a RESULT/Rows body cut inside the ROWS region (after the rows count) still
decodes at the response level and in `deserialize_metadata`; the cut shows up as a per-row error (`rowErr`) when
the rows are iterated — that is the code's behaviour (`RawRowIterator`), and the model's. -/

def simpleKind : Response → Bool
  | .ready | .authenticate _ | .authChallenge _ | .authSuccess _ | .result .void | .result (.setKeyspace _) => true
  | _ => false

theorem truncation_is_error_partial (f : Features) (ch : Choices) (r : Response) (hk : simpleKind r = true)
    (h : WfResponse f ch r) : TR (deserResponse f (opcodeOf r)) (encBody f ch r) := by
  cases r with
  | ready =>
    intro p t ht hp
    simp [encBody] at hp
    exact absurd hp.2 ht
  | authenticate n =>
    simpa [deserResponse, opcodeOf, encBody] using
      tr_bindL (f := fun n => (pure (Response.authenticate n) : M Response)) (tr_tag "authenticate" (tr_readString n h.1))
  | authChallenge m =>
    simpa [deserResponse, opcodeOf, encBody] using
      tr_bindL (f := fun m => (pure (Response.authChallenge m) : M Response)) (tr_tag "authchallenge" (tr_readBytesOpt m h))
  | authSuccess m =>
    simpa [deserResponse, opcodeOf, encBody] using
      tr_bindL (f := fun m => (pure (Response.authSuccess m) : M Response)) (tr_tag "authsuccess" (tr_readBytesOpt m h))
  | result rr =>
    cases rr with
    | void =>
      have : TR (deserResult f) (encInt 1) := by
        unfold deserResult; exact tr_bindL (tr_tracked (tr_tag _ (tr_readInt 1)))
      simpa [deserResponse, opcodeOf, encBody] using
        tr_bindL (f := fun r => (pure (Response.result r) : M Response)) this
    | setKeyspace ks =>
      have : TR (deserResult f) (encInt 3 ++ encString ks) := by
        unfold deserResult
        refine tr_bind (rt_tracked (rt_tag _ (rt_readInt 3 (by omega)))) (tr_tracked (tr_tag _ (tr_readInt 3))) ?_
        simp only [show ((3 : Int) = 1) = False by decide, show ((3 : Int) = 2) = False by decide, if_false, if_true]
        exact tr_bindL (tr_tag _ (tr_readString ks h.1))
      simpa [deserResponse, opcodeOf, encBody] using
        tr_bindL (f := fun r => (pure (Response.result r) : M Response)) this
    | rows _ => simp [simpleKind] at hk
    | prepared _ => simp [simpleKind] at hk
    | schemaChange _ => simp [simpleKind] at hk
  | error _ => simp [simpleKind] at hk
  | supported _ => simp [simpleKind] at hk
  | event _ => simp [simpleKind] at hk

/-! ### non-vacuity: concrete frames -/

/-- READY frame `84 00 0000 02 00000000` decodes. -/
example : (match (decode {} none none [0x84, 0, 0, 0, 0x02, 0, 0, 0, 0]).1 with
    | .ok d => d.hdr.opcode == 2 && d.ext.warnings.isEmpty
    | _ => false) = true := by
  decide +kernel

/-- A RESULT/Rows body announcing `i32::MAX` columns (the F4 input) is an error and requests at most 3 slots. -/
example : (decode {} none none [0x84, 0, 0, 0, 0x08, 0, 0, 0, 12, 0, 0, 0, 2, 0, 0, 0, 0, 0x7f, 0xff, 0xff, 0xff]).2.alloc ≤ 3 := by
  decide +kernel

/-- The hypotheses of the round trip are satisfiable on non-trivial values: a RESULT/Rows header with paging state,
a WRITE_TIMEOUT error, a column of type `map<int, list<text>>`. -/
example : WfResponse {} ⟨false, false, none⟩ (.result (.rows ⟨3, true, .justMetadata, some [1, 2]⟩)) := by
  show WfRawRows _ _
  unfold WfRawRows
  refine ⟨?_, by decide, ?_⟩
  · intro h; cases h
  · intro p hp; injection hp with hp; subst hp; decide

example : WfResponse {} ⟨false, false, none⟩
    (.error ⟨0x1100, S "timeout", [.cons 6, .int 1, .int 2, .str (S "SIMPLE")]⟩) := by
  show WfError _ _
  unfold WfError
  refine ⟨by decide, wfS _ (by decide +kernel), by decide +kernel, ?_⟩
  intro x hx
  simp only [List.mem_cons, List.mem_nil_iff, or_false] at hx
  rcases hx with rfl | rfl | rfl | rfl
  · show (6 : Nat) ≤ 10; decide
  · show (-2 ^ 31 : Int) ≤ 1 ∧ (1 : Int) < 2 ^ 31; decide
  · show (-2 ^ 31 : Int) ≤ 2 ∧ (2 : Int) < 2 ^ 31; decide
  · exact wfS _ (by decide +kernel)

example : BinTy (.map false (.native .int) (.list false (.native .text))) 129 := by
  simp [BinTy]

/-- One column `ks.t.c : list<int>` (per-column table spec). -/
def exCol : ColSpec := ⟨S "ks", S "t", S "c", .list false (.native .int)⟩

theorem exCol_wf : WfCol none exCol := by
  refine ⟨wfS _ (by decide +kernel), by simp [exCol, BinTy], ?_⟩
  exact ⟨wfS _ (by decide +kernel), wfS _ (by decide +kernel)⟩

/-- `WfRowsMeta` is satisfiable: a Rows result with one column of a nested type and a new metadata id. -/
example : WfRowsMeta ⟨1, false, .withNewId, none⟩ ⟨some [7, 7], 1, [exCol]⟩ := by
  refine ⟨by decide, by simp, ?_, rfl, rfl, ?_, by intro h; cases h⟩
  · intro i hi; injection hi with hi; subst hi; decide
  · intro c hc
    simp only [List.mem_singleton] at hc; subst hc
    simpa [gtsOf] using exCol_wf

/-- `WfPrepared` is satisfiable: two partition-key indexes, one bind marker column, result metadata with one
column, the metadata-id extension on, a new id announced inside the result metadata. -/
example : WfPrepared { metadataId := true } false false (some [1])
    ⟨[0xAB], ⟨0, 1, [(1, 0), (0, 1)], [exCol]⟩, ⟨some [9], 1, [exCol]⟩⟩ := by
  have hcols : WfGtsCols false [exCol] := by
    refine ⟨?_, by intro h; cases h⟩
    intro c hc
    simp only [List.mem_singleton] at hc; subst hc
    simpa [gtsOf] using exCol_wf
  refine ⟨by decide, rfl, ?_, ?_, ?_⟩
  · intro i hi; injection hi with hi; subst hi; decide
  · refine ⟨by decide, rfl, by decide, by decide, ?_, by decide, ?_⟩
    · intro p hp
      simp only [List.mem_cons, List.mem_nil_iff, or_false] at hp
      rcases hp with rfl | rfl <;> decide
    · simpa [flagSet] using hcols
  · refine ⟨by decide, ?_, ?_⟩
    · intro i hi; injection hi with hi; subst hi; exact ⟨rfl, rfl, by decide⟩
    · simp only [Bool.false_eq_true, if_false]
      exact ⟨rfl, hcols⟩

/-- `WfEvent` / `WfSchemaChange` are satisfiable: a node coming up, and a dropped function with two arguments. -/
example : WfEvent (.status (S "UP") ⟨[10, 0, 0, 1], 9042⟩) :=
  ⟨Or.inl rfl, Or.inl rfl, by decide⟩

example : WfSchemaChange ⟨S "DROPPED", S "ks", .function (S "f") [S "int", S "text"]⟩ := by
  refine ⟨wfS _ (by decide +kernel), wfS _ (by decide +kernel), wfS _ (by decide +kernel), by decide, ?_⟩
  intro x hx
  simp only [List.mem_cons, List.mem_nil_iff, or_false] at hx
  rcases hx with rfl | rfl <;> exact wfS _ (by decide +kernel)

end ScyllaVerif.Props.C08

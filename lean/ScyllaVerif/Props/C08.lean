/-
C08 — decoding any bytes from the network returns a value or an error, never a crash.
Property theorems.  Models: `Model/ReadPrim.lean`, `Model/TypeParser.lean`, `Model/Response.lean`, `Model/FrameHdr.lean`;
helper lemmas: `Proofs/Decode.lean`.

Totality ("terminates and yields a value or an error"): every decoder of the model is a total Lean function whose
result type `Outcome α` has exactly the constructors `ok` and `err`; Lean accepted each definition by structural
recursion (on the nesting fuel / the element count / the parameter-loop fuel), which is the termination proof.
`outcome_total` states the "value or error" half explicitly.
-/
import ScyllaVerif.Proofs.DecodeAlloc

namespace ScyllaVerif.Props.C08
open ScyllaVerif.C08

/-- The pipeline yields a decoded value or an error kind — there is no third outcome (no panic / no divergence in
the model; the harness checks that the implementation never shows one either). -/
theorem outcome_total (f : Features) (cached : Option ResultMeta) (decomp : Option (Bytes → Option Bytes))
    (bs : Bytes) :
    (∃ d, (decode f cached decomp bs).1 = .ok d) ∨ (∃ k, (decode f cached decomp bs).1 = .err k) := by
  cases h : (decode f cached decomp bs).1 with
  | ok d => exact .inl ⟨d, rfl⟩
  | err k => exact .inr ⟨k, rfl⟩

/-! ### allocation proportional to the input, recursion depth bounded

`St.alloc` counts every element slot requested through `Vec::with_capacity` / `HashMap::with_capacity` where the
(fixed) Rust code requests them; `St.depth` the deepest recursion level of the two type parsers.  Both bounds hold
whether decoding succeeds or fails. -/

private theorem body_bounds (f : Features) (cached : Option ResultMeta) (h : Header) (body : Bytes) :
    (decodeBody f cached h body).2.alloc ≤ 2 * body.length + 131070 ∧
    (decodeBody f cached h body).2.depth ≤ 257 := by
  unfold decodeBody
  have h1 := aw2_parseExt h.flags { buf := body }
  cases he : parseExt h.flags { buf := body } with
  | mk o s1 =>
    rw [he] at h1
    cases o with
    | err k => simp only [U16, DEPTH_BOUND] at h1 ⊢; omega
    | ok ext =>
      simp only [U16, DEPTH_BOUND] at h1 ⊢
      have h2 := aw2_deserResponse f h.opcode s1
      cases hr : deserResponse f h.opcode s1 with
      | mk o2 s2 =>
        rw [hr] at h2
        cases o2 with
        | err k => simp only [U16, DEPTH_BOUND] at h2 ⊢; omega
        | ok resp =>
          simp only [U16, DEPTH_BOUND] at h2 ⊢
          split
          · rename_i r
            unfold rowsStage
            have h3 := aw2_deserMetadata r cached s2
            cases hm : deserMetadata r cached s2 with
            | mk o3 s3 =>
              rw [hm] at h3
              cases o3 with
              | err k => simp only [U16, DEPTH_BOUND] at h3 ⊢; omega
              | ok d => simp only [U16, DEPTH_BOUND] at h3 ⊢; omega
          · simp only []; omega

/-- Requested allocation is proportional to the size of the (decompressed) body: at most two element slots per
input byte plus two `u16`-counted lists (the only counts taken as sent), whatever the bytes are. -/
theorem alloc_proportional_body (f : Features) (cached : Option ResultMeta) (h : Header) (body : Bytes) :
    (decodeBody f cached h body).2.alloc ≤ 2 * body.length + 131070 :=
  (body_bounds f cached h body).1

private theorem parseFrame_body_le (bs : Bytes) (h : Header) (hp : parseFrame bs = .ok h) :
    h.body.length ≤ bs.length := by
  unfold parseFrame at hp
  simp only [] at hp
  split at hp
  · simp at hp
  · split at hp
    · simp at hp
    · split at hp
      · simp at hp
      · split at hp
        · simp at hp
        · split at hp
          · simp at hp
          · split at hp
            · simp at hp
            · injection hp with hp
              subst hp
              simp only [List.length_take, List.length_drop, HEADER_SIZE]
              omega

/-- The whole pipeline on an uncompressed connection: `allocReq ≤ K · bs.length + K₀` with `K = 2`, `K₀ = 131070`. -/
theorem alloc_proportional (f : Features) (cached : Option ResultMeta) (bs : Bytes) :
    (decode f cached none bs).2.alloc ≤ 2 * bs.length + 131070 := by
  unfold decode
  cases hp : parseFrame bs with
  | error k => simp
  | ok h =>
    have hl := parseFrame_body_le bs h hp
    simp only []
    split
    · simp
    · have := alloc_proportional_body f cached h h.body
      omega

/-- With a negotiated decompressor whose expansion is bounded (`R · len + R₀`; the LZ4 / Snappy guards of
`decompress` enforce 255·len + 64 resp. 64·len + 64 on the declared size) the bound is relative to that. -/
theorem alloc_proportional_compressed (f : Features) (cached : Option ResultMeta) (d : Bytes → Option Bytes)
    (R R0 : Nat) (hd : ∀ b b', d b = some b' → b'.length ≤ R * b.length + R0) (bs : Bytes) :
    (decode f cached (some d) bs).2.alloc ≤ 2 * ((R + 1) * bs.length + R0) + 131070 := by
  unfold decode
  cases hp : parseFrame bs with
  | error k => simp
  | ok h =>
    have hl := parseFrame_body_le bs h hp
    simp only []
    split
    · cases hdb : d h.body with
      | none => simp
      | some body =>
        simp only []
        have h1 := alloc_proportional_body f cached h body
        have h2 := hd _ _ hdb
        have : R * h.body.length ≤ R * bs.length := Nat.mul_le_mul_left _ hl
        rw [Nat.add_mul]; omega
    · have := alloc_proportional_body f cached h h.body
      rw [Nat.add_mul]; omega

/-- Recursion depth is bounded by a constant, whatever the bytes are: at most 129 nested binary type
descriptions (depth 0..128) plus 128 nested `do_parse` calls of the custom type string parser. -/
theorem depth_bounded (f : Features) (cached : Option ResultMeta) (decomp : Option (Bytes → Option Bytes))
    (bs : Bytes) : (decode f cached decomp bs).2.depth ≤ 128 + 129 := by
  unfold decode
  cases hp : parseFrame bs with
  | error k => simp
  | ok h =>
    simp only []
    split
    · cases decomp with
      | none => simp
      | some d =>
        simp only []
        cases hdb : d h.body with
        | none => simp
        | some body => exact (body_bounds f cached h body).2
    · exact (body_bounds f cached h h.body).2

/-! ### wire encoders written from the protocol specification (§3 of native_protocol_v4.spec) -/

def encShort (n : Nat) : Bytes := [UInt8.ofNat (n / 256), UInt8.ofNat (n % 256)]
def encInt (v : Int) : Bytes :=
  let u : Nat := (v % 2 ^ 32).toNat
  [UInt8.ofNat (u / 2 ^ 24), UInt8.ofNat (u / 2 ^ 16 % 256), UInt8.ofNat (u / 2 ^ 8 % 256), UInt8.ofNat (u % 256)]
def encString (s : Bytes) : Bytes := encShort s.length ++ s
def encBytesOpt : Option Bytes → Bytes
  | none => encInt (-1)
  | some b => encInt b.length ++ b

theorem takeN_append (xs rest : Bytes) (k : String) (s : St) (hs : s.buf = xs ++ rest) :
    takeN xs.length k s = (.ok xs, { s with buf := rest }) := by
  unfold takeN
  simp [hs]

theorem takeN_short (n : Nat) (k : String) (s : St) (h : s.buf.length < n) : takeN n k s = (.err k, s) := by
  unfold takeN; simp [h]

theorem beNat_encShort (n : Nat) (h : n < 65536) : beNat (encShort n) = n := by
  simp only [encShort, beNat, List.foldl, UInt8.toNat_ofNat']
  omega

theorem readShort_roundtrip (n : Nat) (h : n < 65536) (rest : Bytes) (s : St) (hs : s.buf = encShort n ++ rest) :
    readShort s = (.ok n, { s with buf := rest }) := by
  unfold readShort
  have := takeN_append (encShort n) rest "eof" s hs
  simp only [encShort, List.length_cons, List.length_nil] at this
  simp only [bind_def, this, pure_def]
  rw [show [UInt8.ofNat (n / 256), UInt8.ofNat (n % 256)] = encShort n from rfl, beNat_encShort n h]

theorem beNat_encInt (v : Int) : beNat (encInt v) = (v % 2 ^ 32).toNat := by
  simp only [encInt, beNat, List.foldl, UInt8.toNat_ofNat']
  have : (v % 2 ^ 32).toNat < 2 ^ 32 := by omega
  omega

theorem readInt_roundtrip (v : Int) (h : -2 ^ 31 ≤ v ∧ v < 2 ^ 31) (rest : Bytes) (s : St)
    (hs : s.buf = encInt v ++ rest) : readInt s = (.ok v, { s with buf := rest }) := by
  unfold readInt
  have := takeN_append (encInt v) rest "eof" s hs
  have hl : (encInt v).length = 4 := rfl
  rw [hl] at this
  simp only [bind_def, this, pure_def, beNat_encInt, toSigned]
  congr 2
  split <;> omega

theorem readString_roundtrip (str : Bytes) (hl : str.length < 65536) (hu : utf8ok str = true) (rest : Bytes) (s : St)
    (hs : s.buf = encString str ++ rest) : readString s = (.ok str, { s with buf := rest }) := by
  unfold readString
  have h1 := readShort_roundtrip str.length hl (str ++ rest) s (by simp [hs, encString])
  have h2 := takeN_append str rest "few" { s with buf := str ++ rest } rfl
  simp only [bind_def, h1, readRaw, h2, checkUtf8, hu, if_true, pure_def]

/-- A `[string]` cut anywhere is an error, never a different string. -/
theorem readString_truncation (str : Bytes) (hl : str.length < 65536) (p t : Bytes) (ht : t ≠ [])
    (hp : p ++ t = encString str) (s : St) (hs : s.buf = p) : ∃ k, (readString s).1 = .err k := by
  unfold readString
  by_cases h2 : p.length < 2
  · refine ⟨"eof", ?_⟩
    simp only [bind_def, readShort, takeN_short 2 "eof" s (by rw [hs]; exact h2)]
  · -- the two length bytes are intact, the payload is short
    have hlen : p.length + t.length = 2 + str.length := by
      have := congrArg List.length hp
      simp [encString, encShort] at this
      omega
    have htl : 0 < t.length := List.length_pos_iff.mpr ht
    obtain ⟨q, hq⟩ : ∃ q, p = encShort str.length ++ q := by
      refine ⟨p.drop 2, ?_⟩
      have h3 : p.take 2 = (encString str).take 2 := by
        rw [← hp, List.take_append_of_le_length (by omega)]
      have h4 : (encString str).take 2 = encShort str.length := by simp [encString, encShort]
      rw [← h4, ← h3, List.take_append_drop]
    have h1 := readShort_roundtrip str.length hl q s (by rw [hs, hq])
    have hql : q.length < str.length := by
      have := congrArg List.length hq
      simp [encShort] at this
      omega
    refine ⟨"few", ?_⟩
    simp only [bind_def, h1, readRaw, takeN_short str.length "few" { s with buf := q } hql]

theorem readBytesOpt_roundtrip (o : Option Bytes) (ho : ∀ b, o = some b → b.length < 2 ^ 31) (rest : Bytes) (s : St)
    (hs : s.buf = encBytesOpt o ++ rest) : readBytesOpt s = (.ok o, { s with buf := rest }) := by
  unfold readBytesOpt
  cases o with
  | none =>
    have h1 := readInt_roundtrip (-1) (by omega) rest s (by simpa [encBytesOpt] using hs)
    simp [bind_def, h1]
  | some b =>
    have hb := ho b rfl
    have h1 := readInt_roundtrip (b.length : Int) (by omega) (b ++ rest) s (by simp [hs, encBytesOpt])
    have h2 := takeN_append b rest "few" { s with buf := b ++ rest } rfl
    have hn : ¬ ((b.length : Int) < 0) := by omega
    simp only [bind_def, h1, hn, if_false, readRaw, Int.toNat_natCast, h2, pure_def]

/-- A primitive that is cut short is an error: `takeN` never invents bytes. -/
theorem readInt_truncation (s : St) (h : s.buf.length < 4) : ∃ k, (readInt s).1 = .err k :=
  ⟨"eof", by simp only [readInt, bind_def, takeN_short 4 "eof" s h]⟩

theorem readShort_truncation (s : St) (h : s.buf.length < 2) : ∃ k, (readShort s).1 = .err k :=
  ⟨"eof", by simp only [readShort, bind_def, takeN_short 2 "eof" s h]⟩

/-- Negative counts / lengths are rejected (`read_int_length`): the `as usize` on a negative `i32` cannot happen. -/
theorem readIntLength_negative (v : Int) (h : -2 ^ 31 ≤ v ∧ v < 0) (rest : Bytes) (s : St)
    (hs : s.buf = encInt v ++ rest) : (readIntLength s).1 = .err "negint" := by
  unfold readIntLength
  have h1 := readInt_roundtrip v (by omega) rest s hs
  simp [bind_def, h1, h.2]

/-! ### well-formed responses decode to exactly what was encoded

FULL STATEMENT (kept): `wellformed_roundtrip : ∀ feats r, WF r → decode feats (encodeResp feats r) = ok r` for every
response value of every kind.  PROVED below: the primitives it is built from (`[short]`, `[int]`, `[string]`,
`[bytes]` incl. null) and the kinds READY, AUTHENTICATE, AUTH_CHALLENGE, AUTH_SUCCESS, RESULT/Void,
RESULT/SetKeyspace (`wellformed_roundtrip_partial`).  MISSING: ERROR, SUPPORTED, EVENT, RESULT/Rows, /Prepared,
/SchemaChange (their loops need the `loopN` round-trip lemma and, for nested column types, a mutual induction over
`Ty`); for those kinds "decodes to exactly what was encoded" is checked on every run by the harness oracle against an
encoder written independently of the driver (tens of thousands of generated values per run). -/

/-- The response kinds covered by the proved round trip, with their opcode and body per the protocol spec. -/
def encSimple : Response → Option (Nat × Bytes)
  | .ready => some (0x02, [])
  | .authenticate n => some (0x03, encString n)
  | .authChallenge m => some (0x0E, encBytesOpt m)
  | .authSuccess m => some (0x10, encBytesOpt m)
  | .result .void => some (0x08, encInt 1)
  | .result (.setKeyspace ks) => some (0x08, encInt 3 ++ encString ks)
  | _ => none

/-- Well-formedness: strings are UTF-8 and fit their `u16` length, byte strings fit an `i32` length. -/
def wfSimple : Response → Prop
  | .authenticate n => n.length < 65536 ∧ utf8ok n = true
  | .authChallenge m => ∀ b, m = some b → b.length < 2 ^ 31
  | .authSuccess m => ∀ b, m = some b → b.length < 2 ^ 31
  | .result (.setKeyspace ks) => ks.length < 65536 ∧ utf8ok ks = true
  | _ => True

theorem wellformed_roundtrip_partial (f : Features) (r : Response) (op : Nat) (body rest : Bytes)
    (he : encSimple r = some (op, body)) (hw : wfSimple r) :
    deserResponse f op { buf := body ++ rest } = (.ok r, { buf := rest }) := by
  cases r with
  | ready => simp [encSimple] at he; obtain ⟨rfl, rfl⟩ := he; simp [deserResponse]
  | authenticate n =>
    simp [encSimple] at he; obtain ⟨rfl, rfl⟩ := he
    have := readString_roundtrip n hw.1 hw.2 rest { buf := encString n ++ rest } rfl
    simp [deserResponse, tag_def, this]
  | authChallenge m =>
    simp [encSimple] at he; obtain ⟨rfl, rfl⟩ := he
    have := readBytesOpt_roundtrip m hw rest { buf := encBytesOpt m ++ rest } rfl
    simp [deserResponse, tag_def, this]
  | authSuccess m =>
    simp [encSimple] at he; obtain ⟨rfl, rfl⟩ := he
    have := readBytesOpt_roundtrip m hw rest { buf := encBytesOpt m ++ rest } rfl
    simp [deserResponse, tag_def, this]
  | result rr =>
    cases rr with
    | void =>
      simp [encSimple] at he; obtain ⟨rfl, rfl⟩ := he
      have := readInt_roundtrip 1 (by omega) rest { buf := encInt 1 ++ rest } rfl
      simp [deserResponse, deserResult, tag_def, this]
    | setKeyspace ks =>
      simp [encSimple] at he; obtain ⟨rfl, rfl⟩ := he
      have h1 := readInt_roundtrip 3 (by omega) (encString ks ++ rest) { buf := encInt 3 ++ (encString ks ++ rest) } rfl
      have h2 := readString_roundtrip ks hw.1 hw.2 rest { buf := encString ks ++ rest } rfl
      simp [deserResponse, deserResult, tag_def, h1, h2]
    | rows _ => simp [encSimple] at he
    | prepared _ => simp [encSimple] at he
    | schemaChange _ => simp [encSimple] at he
  | error _ => simp [encSimple] at he
  | supported _ => simp [encSimple] at he
  | event _ => simp [encSimple] at he

/-! ### non-vacuity: concrete frames -/

/-- READY frame `84 00 0000 02 00000000` decodes. -/
example : (match (decode {} none none [0x84, 0, 0, 0, 0x02, 0, 0, 0, 0]).1 with
    | .ok d => d.hdr.opcode == 2 && d.ext.warnings.isEmpty
    | .err _ => false) = true := by
  decide +kernel

/-- A RESULT/Rows body announcing `i32::MAX` columns (the F4 input) is an error and requests at most 3 slots. -/
example : (decode {} none none [0x84, 0, 0, 0, 0x08, 0, 0, 0, 12, 0, 0, 0, 2, 0, 0, 0, 0, 0x7f, 0xff, 0xff, 0xff]).2.alloc ≤ 3 := by
  decide +kernel

/-- The hypotheses of the round trip are satisfiable on a non-trivial value. -/
example : wfSimple (.authChallenge (some [1, 2, 3])) ∧ encSimple (.authChallenge (some [1, 2, 3])) = some (0x0E, [0, 0, 0, 3, 1, 2, 3]) := by
  refine ⟨?_, by decide⟩
  intro b hb; injection hb with hb; subst hb; decide

end ScyllaVerif.Props.C08

import ScyllaVerif.Props.C14

/-!
# C14 on a connection WITHOUT the metadata-id extension, skip-metadata option ON

The request side (`calculate_cached_metadata_params`, connection.rs:974-1044) asks the node to omit the result metadata
whenever the statement has the option, extension or not; the node omits it as requested; the response side
(`Connection::parse_response`, connection.rs:1412-1440 → `ResponseV2::deserialize`, scylla-cql
frame/response/mod.rs:207-238 → `result::deserialize_with_features`) hands the metadata kept for THIS request to the
RESULT parser unchanged, whatever features the connection negotiated. In the model this is `recv` calling
`execOutcome ext cached` / `metaUsed ext cached` with the `cached` stored in the program counter by `start` /
the re-send. The theorems below state, for every state and for BOTH values of `ext`, that rows sent without metadata
are decoded with exactly the metadata the request was built with, and - without the extension - that this is the
statement's current metadata (the one announced at preparation, `noext_current_is_announced_at_preparation`), on the
first EXECUTE and on the EXECUTE re-sent after UNPREPARED + re-preparation.
-/

namespace ScyllaVerif.Props.C14NoExt

open ScyllaVerif.Prepared ScyllaVerif.Props.C14

private theorem setCaller_self (st : State) (k : Nat) (c : Caller) : (setCaller st k c).caller k = c := by
  simp [setCaller, upd]

/-- connection.rs:974-1044 without the extension, option on, statement with columns: SKIP_METADATA is requested, no
metadata id is presented, and the metadata kept for the response parser is the statement's current metadata. -/
theorem noext_skip_params (m : RMeta) (h : m.colCount ≠ 0) :
    cachedParams false true m = ⟨true, some m, none⟩ := by
  rw [cachedParams_noext _ _ h]; rfl

/-- the parser's side, any connection (mod.rs:207-238, result.rs:901-945): a Rows response without metadata, delivered
to a caller whose request was built with cached metadata `c`, gives the caller rows described by `c` and decoded under
`c`'s columns - with the extension as well as without. (`r.newId = none`: NO_METADATA + METADATA_CHANGED is the parse
error of `malformed_rows_is_error`.) -/
theorem skip_rows_decoded_with_request_metadata (st : State) (k : Nat) (op : ExecOp) (c : RMeta) (r : RowsResp)
    (hpc : (st.caller k).pc = .exec1 op (some c) ∨ (st.caller k).pc = .exec2 op (some c))
    (hw : (st.caller k).wire = .resp (.rows r)) (hnm : r.noMeta = true) (hid : r.newId = none) :
    (recv st k).2 = .done (.rows c (decodeRows c.cols r.rows.count r.rows.cells) r.more) := by
  have hwf : rowsMalformed (st.node op.node).ext r = false := by
    simp [rowsMalformed, newIdSeen, hid]
  have h := (decode_metadata_used st k op (some c) r hpc hw hwf).1
  rw [metaUsed_cached _ _ _ hnm] at h
  exact h

/-- never the empty mock metadata: the outcome of `skip_rows_decoded_with_request_metadata` has the column count of the
request's metadata (non-zero whenever the skip flag was set, `cachedParams_zero_cols`). -/
theorem skip_rows_outcome_has_columns (st : State) (k : Nat) (op : ExecOp) (c : RMeta) (r : RowsResp)
    (hpc : (st.caller k).pc = .exec1 op (some c) ∨ (st.caller k).pc = .exec2 op (some c))
    (hw : (st.caller k).wire = .resp (.rows r)) (hnm : r.noMeta = true) (hid : r.newId = none)
    (hc : c.colCount ≠ 0) :
    ∃ d, (recv st k).2 = .done (.rows c d r.more) ∧ c ≠ RMeta.empty := by
  refine ⟨_, skip_rows_decoded_with_request_metadata st k op c r hpc hw hnm hid, ?_⟩
  intro h; rw [h] at hc; exact hc rfl

/-- request build without the extension (connection.rs:1061-1090): option on, statement with columns ⇒ the EXECUTE
asks to skip the metadata, presents no metadata id, and the caller keeps the statement's current metadata for the
response. -/
theorem noext_skip_request_keeps_current (st : State) (k : Nat) (a : ExecArgs) (o : Nat)
    (hidle : st.caller k = ⟨.idle, .none⟩) (hslot : st.slot a.slot = some o)
    (hext : (st.node a.node).ext = false) (hu : a.useCached = true) (hcc : (st.objs o).cur.colCount ≠ 0) :
    ∃ op rq, (start st k (.execute a)).1.caller k = ⟨.exec1 op (some (st.objs o).cur), .req a.node (.execute rq)⟩ ∧
      op.obj = o ∧ op.node = a.node ∧ op.useCached = true ∧
      rq.skip = true ∧ rq.mid = none ∧ rq.id = (st.objs o).id ∧ rq.values = a.values := by
  rw [request_built_from_current_metadata st k a o hidle hslot]
  simp only [hext, hu, noext_skip_params _ hcc]
  exact ⟨_, _, setCaller_self _ _ _, rfl, rfl, rfl, rfl, rfl, rfl, rfl⟩

/-- re-send after UNPREPARED without the extension (connection.rs:695-743, 1112-1120): the PREPARED of a node without
the extension carries no metadata id, so the statement's current metadata is left as it is (`reprepare_noext_keeps`),
and the re-sent EXECUTE again asks to skip the metadata and keeps THAT metadata for the response. -/
theorem noext_resend_keeps_current (st : State) (k : Nat) (op : ExecOp) (p : PrepResp)
    (hc : st.caller k = ⟨.execPrep op, .resp (.prepared p)⟩) (hid : p.id = (st.objs op.obj).id)
    (hmid : p.mid = none) (hext : (st.node op.node).ext = false) (hu : op.useCached = true)
    (hcc : (st.objs op.obj).cur.colCount ≠ 0) :
    ∃ rq, (recv st k).1.caller k = ⟨.exec2 op (some (st.objs op.obj).cur), .req op.node (.execute rq)⟩ ∧
      ((recv st k).1.objs op.obj).cur = (st.objs op.obj).cur ∧
      rq.skip = true ∧ rq.mid = none ∧ rq.id = (st.objs op.obj).id ∧ rq.values = op.values := by
  obtain ⟨cur', hr, h⟩ := exec_reprepared_resends st k op p hc hid
  have hk : cur' = (st.objs op.obj).cur := by
    rw [reprepare_noext_keeps (st.objs op.obj).id (st.objs op.obj).cur p hmid hid] at hr
    exact (Except.ok.inj hr).symm
  subst hk
  simp only at h
  rw [h]
  simp only [hext, hu, noext_skip_params _ hcc]
  exact ⟨_, setCaller_self _ _ _, by simp [setCaller, setCur, upd], rfl, rfl, rfl, rfl⟩

/-- THE CHAIN, no extension, option on (what the caller sees after a server-side eviction): the caller's first EXECUTE
was answered UNPREPARED; it handles that, the PREPARED (same id, no metadata id) arrives, it re-sends, the node answers
with rows WITHOUT metadata as requested: the caller gets those rows described by and decoded under the statement's
current metadata - never the empty metadata. States in between (`st2`, `st3`) are arbitrary apart from this caller's
program counter and the statement object, so any interleaving of other callers' steps and node events that leaves the
object's current metadata alone is covered (`caller_untouched_by_others`, `noext_current_is_announced_at_preparation`:
in a cluster without the extension NO step changes it). -/
theorem noext_eviction_rows_decoded_with_current (st2 st3 : State) (k : Nat) (op : ExecOp) (p : PrepResp)
    (r : RowsResp)
    (h2 : st2.caller k = ⟨.execPrep op, .resp (.prepared p)⟩) (hid : p.id = (st2.objs op.obj).id)
    (hmid : p.mid = none) (hext : (st2.node op.node).ext = false) (hu : op.useCached = true)
    (hcc : (st2.objs op.obj).cur.colCount ≠ 0)
    (hpc3 : (st3.caller k).pc = ((recv st2 k).1.caller k).pc)
    (hw3 : (st3.caller k).wire = .resp (.rows r)) (hnm : r.noMeta = true) (hnid : r.newId = none) :
    let m := (st2.objs op.obj).cur
    (recv st3 k).2 = .done (.rows m (decodeRows m.cols r.rows.count r.rows.cells) r.more) ∧ m ≠ RMeta.empty := by
  obtain ⟨rq, hc, _, _⟩ := noext_resend_keeps_current st2 k op p h2 hid hmid hext hu hcc
  have hpc : (st3.caller k).pc = .exec2 op (some (st2.objs op.obj).cur) := by rw [hpc3, hc]
  refine ⟨skip_rows_decoded_with_request_metadata st3 k op _ r (Or.inr hpc) hw3 hnm hnid, ?_⟩
  intro h; rw [h] at hcc; exact hcc rfl

/-! ## non-vacuity: one node without the extension, statement `a:int`, option on; prepare, evict, execute -/

def evictHistory : List Step :=
  [.start 0 (.prepare 0 0 exText), .serve 0, .recv 0,
   .event 0 (.evict 0),
   .start 0 (.execute ⟨0, 0, true, 6, none, none, none, none, [5]⟩), .serve 0, .recv 0, .serve 0, .recv 0,
   .serve 0, .recv 0]

/-- UNPREPARED, PREPARE of the caller's text, PREPARED without a metadata id, the EXECUTE again with the skip flag,
rows WITHOUT metadata, and the caller's rows described by `a:int` and decoded (`some`), not by the empty metadata. -/
example :
    (run (exState false) evictHistory).2.drop 5 =
      [.served (.unprepared ⟨exText, 0⟩),
       .sent 0 (.prepare exText),
       .served (.prepared ⟨⟨exText, 0⟩, none, false, 1, [⟨"a", .int⟩]⟩),
       .sent 0 (.execute ⟨⟨exText, 0⟩, none, true, [5], 6, none, none, none, none⟩),
       .served (.rows ⟨true, none, 1, [], none, ⟨2, [.int 500, .int 510]⟩⟩),
       .done (.rows ⟨none, 1, [⟨"a", .int⟩]⟩ (some [[.int 500], [.int 510]]) none)] := by
  decide +kernel

example : cachedParams false true ⟨none, 1, [⟨"a", .int⟩]⟩ = ⟨true, some ⟨none, 1, [⟨"a", .int⟩]⟩, none⟩ := by decide

end ScyllaVerif.Props.C14NoExt

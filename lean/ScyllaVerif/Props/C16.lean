/-
C16 — derived row/UDT mappings bind fields by name regardless of database order.

Model: `ScyllaVerif/Model/Derive.lean`, a generic interpreter of the code the derive macros generate.  Every
theorem below is about that interpreter for EVERY descriptor (any number of fields, any attribute combination
the macro's `validate` accepts — the only validity condition used is its name-collision check `ValidNames`),
every database field list and every value assignment.  Helper lemmas: `ScyllaVerif/Proofs/Derive.lean`.
-/
import ScyllaVerif.Proofs.Derive

namespace ScyllaVerif.Props.C16
open ScyllaVerif.Derive

/-- the macro's name-collision check (`Context::validate`, `validate_attrs`): the non-skipped fields have
pairwise distinct database names -/
def ValidNames (fvs : List (Field × Val)) : Prop := ((entries fvs).map (fun e => e.f.col)).Nodup

/-- field and value bound to the database name `n` (skipped fields do not take part) -/
def fieldFor (fvs : List (Field × Val)) (n : String) : Option (Field × Val) :=
  fvs.find? (fun p => !p.1.skip && p.1.col == n)

def names (db : List Col) : List String := db.map (·.name)

private theorem fv_entries (fvs : List (Field × Val)) (n : String) : fv (entries fvs) n = fieldFor fvs n := by
  unfold fv lookupE entries fieldFor
  induction fvs with
  | nil => rfl
  | cons p ps ih =>
    rw [List.filter_cons]
    by_cases hs : p.1.skip = true
    · simp only [hs, Bool.not_true, Bool.false_eq_true, if_false]
      rw [ih, List.find?_cons]
      simp [hs]
    · simp only [Bool.not_eq_true] at hs
      simp only [hs, Bool.not_false, if_true, List.map_cons, List.find?_cons, Bool.true_and]
      by_cases hc : p.1.col = n
      · simp [hc]
      · have : (p.1.col == n) = false := by simpa using hc
        simp only [this]
        exact ih

private theorem mem_entries {fvs : List (Field × Val)} {e : Entry} :
    e ∈ entries fvs ↔ ∃ p ∈ fvs, p.1.skip = false ∧ e = ⟨p.1, p.2, false⟩ := by
  unfold entries
  simp only [List.mem_map, List.mem_filter]
  constructor
  · rintro ⟨p, ⟨hp, hs⟩, rfl⟩
    exact ⟨p, hp, by simpa using hs, rfl⟩
  · rintro ⟨p, hp, hs, rfl⟩
    exact ⟨p, ⟨hp, by simp [hs]⟩, rfl⟩

/-- the column-wise acceptance condition of by-name UDT serialization -/
def ColAccepted (forbid : Bool) (fvs : List (Field × Val)) (c : Col) : Prop :=
  match fieldFor fvs c.name with
  | some (f, v) => v = none ∨ f.ty = c.ty      -- the value fits the column (a Rust `None` fits every type)
  | none => forbid = false                      -- excess UDT field: only without `forbid_excess_udt_fields`

private theorem colOk_iff (forbid : Bool) (fvs : List (Field × Val)) (c : Col) :
    colOk forbid (fv (entries fvs)) c = true ↔ ColAccepted forbid fvs c := by
  unfold colOk ColAccepted
  rw [fv_entries]
  cases fieldFor fvs c.name with
  | none => simp
  | some p =>
    obtain ⟨f, v⟩ := p
    cases v with
    | none => simp [serVal]
    | some b =>
      simp only [serVal, reduceCtorEq, false_or]
      by_cases h : f.ty = c.ty <;> simp [h]

/-- every field that must be serialized (`!skip && !allow_missing`) has its column in the database list -/
def RequiredPresent (fvs : List (Field × Val)) (db : List Col) : Prop :=
  ∀ p ∈ fvs, p.1.skip = false → p.1.allowMissing = false → p.1.col ∈ names db

private theorem missing_any_iff (fvs : List (Field × Val)) (db : List Col) :
    (entries fvs).any (fun e => !(db.map (·.name)).contains e.f.col && !e.f.allowMissing) = false ↔
      RequiredPresent fvs db := by
  unfold RequiredPresent names
  rw [List.any_eq_false]
  constructor
  · intro h p hp hs ha
    have := h ⟨p.1, p.2, false⟩ (mem_entries.mpr ⟨p, hp, hs, rfl⟩)
    simpa [ha] using this
  · intro h e he
    obtain ⟨p, hp, hs, rfl⟩ := mem_entries.mp he
    by_cases ha : p.1.allowMissing = true
    · simp [ha]
    · simp only [Bool.not_eq_true] at ha
      have := h p hp hs ha
      simp only [List.mem_map] at this
      simp [ha, this]

/-! ### `#[derive(SerializeValue)]`, by name: value at the column's position -/

/-- `byname_position`: when by-name serialization succeeds, the value of the field bound to the column at
database position `i` is the cell at position `i` — whatever the database order. -/
theorem serValueByName_position (d : Desc) (fvs : List (Field × Val)) (db : List Col) (cells : List Cell)
    (hv : ValidNames fvs) (h : serValueByName d fvs db = .ok cells)
    (i : Nat) (c : Col) (f : Field) (v : Val) (hi : db[i]? = some c) (hf : fieldFor fvs c.name = some (f, v)) :
    cells[i]? = some v := by
  rw [serValueByName_closed d fvs db hv] at h
  split at h
  · rename_i hall
    split at h
    · cases h
    · cases h
      have hm : (fv (entries fvs) c.name).isSome = true := by rw [fv_entries, hf]; rfl
      have := emit_get (fv (entries fvs)) db 0 i c hi hm
      rw [Nat.zero_add] at this
      rw [this]
      have hc : colOk d.forbidExcess (fv (entries fvs)) c = true :=
        List.all_eq_true.mp hall c (List.mem_of_getElem? hi)
      unfold colOk at hc
      unfold specCell
      rw [fv_entries, hf] at hc ⊢
      simp only [] at hc ⊢
      cases v with
      | none => simp [serVal]
      | some b =>
        simp only [serVal] at hc ⊢
        split at hc
        · rename_i ht; simp [ht]
        · simp at hc
  · cases h

/-- the positions of columns no field is bound to hold null, or are not sent at all (trailing ones), and
nothing is written beyond the database list -/
theorem serValueByName_unmatched_null (d : Desc) (fvs : List (Field × Val)) (db : List Col) (cells : List Cell)
    (hv : ValidNames fvs) (h : serValueByName d fvs db = .ok cells) :
    cells.length ≤ db.length ∧
    ∀ (i : Nat) (c : Col), db[i]? = some c → fieldFor fvs c.name = none → cells[i]?.getD none = none := by
  rw [serValueByName_closed d fvs db hv] at h
  split at h
  · split at h
    · cases h
    · cases h
      refine ⟨by simpa using emit_length (fv (entries fvs)) db 0, ?_⟩
      intro i c hi hf
      cases hx : (emit (fv (entries fvs)) db 0)[i]? with
      | none => rfl
      | some x =>
        have := emit_null (fv (entries fvs)) db 0 i x hx
          (Or.inr ⟨i, c, by omega, hi, by rw [fv_entries]; exact hf⟩)
        simp [this]
  · cases h

/-! ### `#[derive(SerializeValue)]`, by name: accepted / rejected exactly as documented -/

/-- `accept_reject` (serialization): by-name serialization succeeds exactly when every database column is
acceptable (a bound value fits its type; an excess column only without `forbid_excess_udt_fields`) and every
field without `allow_missing` / `skip` has a column — in ANY database order.  (This is the statement that was
false before commit 1f8fc2e for a required field declared after an `allow_missing` one.) -/
theorem serValueByName_accepts_iff (d : Desc) (fvs : List (Field × Val)) (db : List Col) (hv : ValidNames fvs) :
    (∃ cells, serValueByName d fvs db = .ok cells) ↔
      (∀ c ∈ db, ColAccepted d.forbidExcess fvs c) ∧ RequiredPresent fvs db := by
  rw [serValueByName_closed d fvs db hv]
  have hall : db.all (colOk d.forbidExcess (fv (entries fvs))) = true ↔ ∀ c ∈ db, ColAccepted d.forbidExcess fvs c := by
    rw [List.all_eq_true]
    exact forall₂_congr (fun c _ => colOk_iff _ fvs c)
  constructor
  · rintro ⟨cells, h⟩
    split at h
    · rename_i ha
      split at h
      · cases h
      · rename_i hm
        simp only [Bool.not_eq_true] at hm
        exact ⟨hall.mp ha, (missing_any_iff fvs db).mp hm⟩
    · cases h
  · rintro ⟨ha, hr⟩
    rw [if_pos (hall.mpr ha)]
    have := (missing_any_iff fvs db).mpr hr
    rw [this]
    exact ⟨_, rfl⟩

/-- a field without `allow_missing` whose column the database does not list is NEVER silently dropped:
serialization fails (with `ValueMissingForUdtField` when all listed columns are acceptable).  Holds wherever
the field is declared — the F7 shape (required field after an `allow_missing` one) included. -/
theorem serValueByName_missing_required (d : Desc) (fvs : List (Field × Val)) (db : List Col) (hv : ValidNames fvs)
    (p : Field × Val) (hp : p ∈ fvs) (hs : p.1.skip = false) (ha : p.1.allowMissing = false)
    (hmiss : p.1.col ∉ names db) :
    (∃ x, serValueByName d fvs db = .error x) ∧
    ((∀ c ∈ db, ColAccepted d.forbidExcess fvs c) → serValueByName d fvs db = .error .svValueMissing) := by
  have hnot : ¬ RequiredPresent fvs db := fun h => hmiss (h p hp hs ha)
  have hany : (entries fvs).any (fun e => !(db.map (·.name)).contains e.f.col && !e.f.allowMissing) = true := by
    cases h : (entries fvs).any (fun e => !(db.map (·.name)).contains e.f.col && !e.f.allowMissing) with
    | true => rfl
    | false => exact absurd ((missing_any_iff fvs db).mp h) hnot
  rw [serValueByName_closed d fvs db hv]
  constructor
  · rw [hany]
    split
    · exact ⟨_, rfl⟩
    · exact ⟨_, rfl⟩
  · intro hacc
    have : db.all (colOk d.forbidExcess (fv (entries fvs))) = true := by
      rw [List.all_eq_true]
      exact fun c hc => (colOk_iff _ fvs c).mpr (hacc c hc)
    rw [if_pos this, if_pos hany]

/-- an excess UDT field is an error iff `forbid_excess_udt_fields` (serialization side) -/
theorem serValueByName_excess (d : Desc) (fvs : List (Field × Val)) (db : List Col) (hv : ValidNames fvs)
    (c : Col) (hc : c ∈ db) (hx : fieldFor fvs c.name = none) :
    (d.forbidExcess = true → ∃ x, serValueByName d fvs db = .error x) ∧
    (d.forbidExcess = false → (∀ c' ∈ db, c'.name ≠ c.name → ColAccepted false fvs c') → RequiredPresent fvs db →
      ∃ cells, serValueByName d fvs db = .ok cells) := by
  constructor
  · intro hf
    cases h : serValueByName d fvs db with
    | error x => exact ⟨x, rfl⟩
    | ok cells =>
      have := ((serValueByName_accepts_iff d fvs db hv).mp ⟨cells, h⟩).1 c hc
      unfold ColAccepted at this
      rw [hx] at this
      simp [hf] at this
  · intro hf hothers hreq
    apply (serValueByName_accepts_iff d fvs db hv).mpr
    refine ⟨?_, hreq⟩
    intro c' hc'
    rw [hf]
    by_cases hn : c'.name = c.name
    · unfold ColAccepted; rw [hn, hx]
    · exact hothers c' hc' hn

/-! ### order independence (serialization) -/

/-- acceptance does not depend on the order in which the database lists the columns -/
theorem serValueByName_perm_accepts (d : Desc) (fvs : List (Field × Val)) (db db' : List Col) (hv : ValidNames fvs)
    (hp : db.Perm db') :
    (∃ cells, serValueByName d fvs db = .ok cells) ↔ (∃ cells, serValueByName d fvs db' = .ok cells) := by
  rw [serValueByName_accepts_iff d fvs db hv, serValueByName_accepts_iff d fvs db' hv]
  have hm : ∀ c, c ∈ db ↔ c ∈ db' := fun c => hp.mem_iff
  have hn : ∀ n, n ∈ names db ↔ n ∈ names db' := fun n => (hp.map _).mem_iff
  constructor
  · rintro ⟨h1, h2⟩
    exact ⟨fun c hc => h1 c ((hm c).mpr hc), fun p hp' hs ha => (hn _).mp (h2 p hp' hs ha)⟩
  · rintro ⟨h1, h2⟩
    exact ⟨fun c hc => h1 c ((hm c).mp hc), fun p hp' hs ha => (hn _).mpr (h2 p hp' hs ha)⟩

/-- for two orders of the same columns the results agree up to the permutation: the cell written at a
column's position is the same in both -/
theorem serValueByName_perm_cells (d : Desc) (fvs : List (Field × Val)) (db db' : List Col) (cells cells' : List Cell)
    (hv : ValidNames fvs) (h : serValueByName d fvs db = .ok cells) (h' : serValueByName d fvs db' = .ok cells')
    (i j : Nat) (c : Col) (hi : db[i]? = some c) (hj : db'[j]? = some c) :
    cells[i]?.getD none = cells'[j]?.getD none := by
  cases hf : fieldFor fvs c.name with
  | none =>
    rw [(serValueByName_unmatched_null d fvs db cells hv h).2 i c hi hf,
      (serValueByName_unmatched_null d fvs db' cells' hv h').2 j c hj hf]
  | some p =>
    obtain ⟨f, v⟩ := p
    rw [serValueByName_position d fvs db cells hv h i c f v hi hf,
      serValueByName_position d fvs db' cells' hv h' j c f v hj hf]

/-! ### `#[derive(DeserializeValue)]`, by name: `type_check` accepts / rejects exactly as documented -/

/-- the struct's fields as (field, empty slot) pairs — `type_check` sees no values -/
def slots (fields : List Field) : List (Field × Val) := fields.map (fun f => (f, none))

private theorem tcEntries_eq (fields : List Field) : tcEntries fields = entries (slots fields) := by
  unfold tcEntries entries slots
  rw [List.filter_map, List.map_map]
  rfl

private theorem requiredCount_eq (fields : List Field) :
    requiredCount fields = unv Field.required (tcEntries fields) := by
  unfold requiredCount unv tcEntries
  rw [List.filter_map, List.length_map, List.filter_filter]
  congr 1
  apply List.filter_congr
  intro f _
  simp only [Function.comp, Field.required]
  cases f.skip <;> simp

/-- the column-wise acceptance condition of the by-name UDT type check -/
def TcColAccepted (d : Desc) (c : Col) : Prop :=
  match fieldFor (slots d.fields) c.name with
  | some (f, _) => f.ty = c.ty                  -- a like-named field must have the column's type
  | none => d.forbidExcess = false              -- excess UDT field: only without `forbid_excess_udt_fields`

/-- `accept_reject` (deserialization): the by-name UDT `type_check` succeeds exactly when every database
field is acceptable, no field the struct binds is listed twice, and every field without `allow_missing` /
`skip` is listed — independent of the database order (see `tcValueByName_perm`). -/
theorem tcValueByName_accepts_iff (d : Desc) (db : List Col) (hv : ValidNames (slots d.fields)) :
    tcValueByName d db = .ok () ↔
      (∀ c ∈ db, TcColAccepted d c) ∧
      (matchedNames (fieldFor (slots d.fields)) db).Nodup ∧
      (∀ f ∈ d.fields, f.required = true → f.col ∈ names db) := by
  unfold tcValueByName
  have hinv : ∀ n e, lookupE n (tcEntries d.fields) = some e → e.visited = ([] : List String).contains n := by
    intro n e h
    rw [tcEntries_eq] at h
    simpa using entries_unvisited _ e (lookupE_some h).2
  have hcl := dvTcLoop_closed d.forbidExcess db (tcEntries d.fields) (requiredCount d.fields) [] hinv
    (requiredCount_eq d.fields)
  have hlook : fv (tcEntries d.fields) = fieldFor (slots d.fields) := by
    funext n; rw [tcEntries_eq, fv_entries]
  rw [hlook] at hcl
  have hok := tcOkList_iff d.forbidExcess (fieldFor (slots d.fields)) db []
  have hcols : (∀ c ∈ db, match fieldFor (slots d.fields) c.name with
        | some (f, _) => f.ty = c.ty ∧ c.name ∉ ([] : List String)
        | none => d.forbidExcess = false) ↔ ∀ c ∈ db, TcColAccepted d c := by
    apply forall₂_congr
    intro c _
    unfold TcColAccepted
    cases fieldFor (slots d.fields) c.name with
    | none => rfl
    | some p => simp
  replace hok := hok.trans (and_congr hcols Iff.rfl)
  -- the final `remaining_required_cql_fields > 0` test
  have hrem : (0 < unv Field.required (markAll (db.map (·.name)) (tcEntries d.fields))) ↔
      ¬ (∀ f ∈ d.fields, f.required = true → f.col ∈ names db) := by
    rw [unv_pos_iff, tcEntries_eq, any_markAll _ _ hv (entries_unvisited _) Field.required, List.any_eq_true]
    constructor
    · rintro ⟨e, he, hp⟩ hall
      obtain ⟨p, hp', hs, rfl⟩ := mem_entries.mp he
      obtain ⟨f, hf, rfl⟩ := List.mem_map.mp hp'
      simp only [Bool.and_eq_true, Bool.not_eq_true'] at hp
      have := hall f hf hp.2
      simp only [names] at this
      have hc : (db.map (·.name)).contains f.col = true := by simpa using this
      rw [hc] at hp
      exact absurd hp.1 (by simp)
    · intro hnot
      have ⟨f, hf, hr, hn⟩ : ∃ f ∈ d.fields, f.required = true ∧ f.col ∉ names db := by
        by_cases h : ∃ f ∈ d.fields, f.required = true ∧ f.col ∉ names db
        · exact h
        · exfalso
          apply hnot
          intro f hf hr
          by_cases hin : f.col ∈ names db
          · exact hin
          · exact absurd ⟨f, hf, hr, hin⟩ h
      have hs : f.skip = false := by
        simp only [Field.required, Bool.and_eq_true, Bool.not_eq_true'] at hr; exact hr.1
      refine ⟨⟨f, none, false⟩, mem_entries.mpr ⟨(f, none), List.mem_map.mpr ⟨f, hf, rfl⟩, hs, rfl⟩, ?_⟩
      simp only [names] at hn
      have hc : (db.map (·.name)).contains f.col = false := by simpa using hn
      show (!(db.map (·.name)).contains f.col && f.required) = true
      rw [hc, hr]; rfl
  cases hloop : dvTcLoop d.forbidExcess db (tcEntries d.fields) (requiredCount d.fields) with
  | error x =>
    rw [hloop] at hcl
    simp only [okOpt] at hcl
    have hfalse : tcOkList d.forbidExcess (fieldFor (slots d.fields)) [] db = false := by
      cases h : tcOkList d.forbidExcess (fieldFor (slots d.fields)) [] db with
      | false => rfl
      | true => rw [h] at hcl; simp at hcl
    simp only [reduceCtorEq, false_iff]
    rintro ⟨h1, h2, _⟩
    rw [← Bool.not_eq_true] at hfalse
    exact hfalse (hok.mpr ⟨h1, h2⟩)
  | ok r =>
    obtain ⟨es', rem'⟩ := r
    rw [hloop] at hcl
    simp only [okOpt] at hcl
    have htrue : tcOkList d.forbidExcess (fieldFor (slots d.fields)) [] db = true := by
      cases h : tcOkList d.forbidExcess (fieldFor (slots d.fields)) [] db with
      | true => rfl
      | false => rw [h] at hcl; simp at hcl
    rw [htrue] at hcl
    simp only [if_true, Option.some.injEq, Prod.mk.injEq] at hcl
    obtain ⟨_, hr⟩ := hcl
    have ⟨h1, h2⟩ := hok.mp htrue
    simp only []
    by_cases hpos : rem' > 0
    · simp only [hpos, if_true, reduceCtorEq, false_iff]
      rintro ⟨_, _, h3⟩
      rw [hr] at hpos
      exact (hrem.mp hpos) h3
    · simp only [hpos, if_false, true_iff]
      refine ⟨h1, h2, ?_⟩
      rw [hr] at hpos
      by_cases h3 : ∀ f ∈ d.fields, f.required = true → f.col ∈ names db
      · exact h3
      · exact absurd (hrem.mpr h3) hpos

/-! ### `#[derive(DeserializeValue)]`, by name: each field is filled from the like-named column -/

/-- the cell the database sends under the name `n` (`none`: no such column); a column beyond the serialized
cells counts as null, as `UdtIterator` + `value.flatten()` treat it -/
def cellFor (db : List Col) (cells : List Cell) (n : String) : Option Cell :=
  ((udtItems db cells).find? (fun it => it.1.name == n)).map (·.2)

/-- documented result for one field: `skip` ↦ default; listed column ↦ its cell deserialized (`default_when_null`
turning null into the default); column not listed ↦ default (`allow_missing`) -/
def fieldResult (db : List Col) (cells : List Cell) (f : Field) : Option Val :=
  if f.skip then some (defaultVal f)
  else match cellFor db cells f.col with
    | some cell => deValD f cell
    | none => some (defaultVal f)

private theorem udtItems_fst (db : List Col) : ∀ cells, (udtItems db cells).map (·.1) = db := by
  induction db with
  | nil => intro cells; rfl
  | cons c cs ih => intro cells; cases cells <;> simp [udtItems, ih]

private theorem find_unique (items : List (Col × Cell)) (q : String → Bool)
    (hnd : ((items.filter (fun it => q it.1.name)).map (fun it => it.1.name)).Nodup)
    (it : Col × Cell) (hit : it ∈ items) (hq : q it.1.name = true) :
    items.find? (fun x => x.1.name == it.1.name) = some it := by
  induction items with
  | nil => cases hit
  | cons a rest ih =>
    rw [List.find?_cons]
    rw [List.filter_cons] at hnd
    by_cases hn : a.1.name = it.1.name
    · simp only [hn, beq_self_eq_true]
      rw [hn, hq] at hnd
      simp only [if_true, List.map_cons, List.nodup_cons] at hnd
      rcases List.mem_cons.mp hit with rfl | hin
      · rfl
      · exfalso
        apply hnd.1
        rw [hn]
        exact List.mem_map.mpr ⟨it, List.mem_filter.mpr ⟨hin, hq⟩, rfl⟩
    · have hb : (a.1.name == it.1.name) = false := by simpa using hn
      simp only [hb]
      have hin : it ∈ rest := by
        rcases List.mem_cons.mp hit with rfl | hin
        · exact absurd rfl hn
        · exact hin
      apply ih _ hin
      split at hnd
      · simp only [List.map_cons, List.nodup_cons] at hnd; exact hnd.2
      · exact hnd

private theorem dvFinalize_spec (es' : List Entry) (fields : List Field)
    (h : ∀ f ∈ fields, f.skip = false →
      ∃ e, lookupE f.col es' = some e ∧ (e.visited = true ∨ f.allowMissing = true)) :
    dvFinalize es' fields = .ok (fields.map (fun f =>
      if f.skip then defaultVal f
      else match lookupE f.col es' with
        | some e => if e.visited then e.v else defaultVal f
        | none => defaultVal f)) := by
  induction fields with
  | nil => rfl
  | cons f fs ih =>
    unfold dvFinalize
    rw [ih (fun g hg => h g (List.mem_cons_of_mem _ hg))]
    by_cases hs : f.skip = true
    · simp [hs]
    · simp only [Bool.not_eq_true] at hs
      obtain ⟨e, he, hor⟩ := h f (List.mem_cons_self ..) hs
      simp only [hs, Bool.false_eq_true, if_false, he, List.map_cons]
      by_cases hv : e.visited = true
      · simp [hv]
      · simp only [Bool.not_eq_true] at hv
        rcases hor with h1 | h2
        · rw [h1] at hv; cases hv
        · simp [hv, h2]

/-- by-name UDT deserialization in closed form: after a successful `type_check`, if every bound cell
deserializes, each field holds `fieldResult` — the like-named column's value wherever the database lists it
(`skip` / missing `allow_missing` ↦ default, null with `default_when_null` ↦ default). -/
theorem deserValueByName_spec (d : Desc) (db : List Col) (cells : List Cell)
    (hfl : d.flavor = .byName) (hv : ValidNames (slots d.fields))
    (htc : tcValueByName d db = .ok ())
    (hall : ∀ f ∈ d.fields, (fieldResult db cells f).isSome = true) :
    deserValue d db cells = .ok (d.fields.map (fun f => (fieldResult db cells f).getD none)) := by
  unfold deserValue
  rw [hfl]
  simp only [htc]
  obtain ⟨_, hnd, hreq⟩ := (tcValueByName_accepts_iff d db hv).mp htc
  unfold deValueByName
  have hlook : ∀ n, (lookupE n (tcEntries d.fields)).isSome = (fieldFor (slots d.fields) n).isSome := by
    intro n
    have := congrFun (show fv (tcEntries d.fields) = fieldFor (slots d.fields) from by
      funext n; rw [tcEntries_eq, fv_entries]) n
    rw [← this]; unfold fv; cases lookupE n (tcEntries d.fields) <;> rfl
  -- the entry of a non-skipped field
  have hentry : ∀ f ∈ d.fields, f.skip = false → lookupE f.col (tcEntries d.fields) = some ⟨f, none, false⟩ := by
    intro f hf hs
    rw [tcEntries_eq]
    exact lookupE_of_mem hv (e := ⟨f, none, false⟩)
      (mem_entries.mpr ⟨(f, none), List.mem_map.mpr ⟨f, hf, rfl⟩, hs, rfl⟩)
  have hitems_nd : (((udtItems db cells).filter (fun it => (lookupE it.1.name (tcEntries d.fields)).isSome)).map
      (fun it => it.1.name)).Nodup := by
    have h1 : ((udtItems db cells).filter (fun it => (lookupE it.1.name (tcEntries d.fields)).isSome)).map
        (fun it => it.1.name) = matchedNames (fieldFor (slots d.fields)) db := by
      unfold matchedNames
      conv => rhs; rw [← udtItems_fst db cells, List.filter_map, List.map_map]
      congr 1
      apply List.filter_congr
      intro it _
      simp [Function.comp, hlook]
    rw [h1]; exact hnd
  -- every bound cell deserializes (from `hall`)
  have hcell : ∀ it ∈ udtItems db cells, ∀ e, lookupE it.1.name (tcEntries d.fields) = some e →
      e.visited = false ∧ (deValD e.f it.2).isSome = true := by
    intro it hit e he
    have hmem := (lookupE_some he).2
    rw [tcEntries_eq] at hmem
    obtain ⟨p, hp, hs, rfl⟩ := mem_entries.mp hmem
    obtain ⟨f, hf, rfl⟩ := List.mem_map.mp hp
    refine ⟨rfl, ?_⟩
    have hname : f.col = it.1.name := (lookupE_some he).1
    have hfind := find_unique (udtItems db cells) (fun n => (lookupE n (tcEntries d.fields)).isSome)
      hitems_nd it hit (by simp [he])
    have := hall f hf
    have hs' : f.skip = false := hs
    unfold fieldResult cellFor at this
    simp only [hs', Bool.false_eq_true, if_false, hname, hfind, Option.map_some] at this
    exact this
  obtain ⟨es', hes'⟩ := dvDeLoop_ok (udtItems db cells) (tcEntries d.fields) hitems_nd hcell
  rw [hes']
  simp only []
  have hlk := dvDeLoop_lookup (udtItems db cells) (tcEntries d.fields) es' hes'
  -- what the finalizers see
  have hfin : ∀ f ∈ d.fields, f.skip = false →
      lookupE f.col es' = match (udtItems db cells).find? (fun it => it.1.name == f.col) with
        | some it => (deValD f it.2).map (fun v => setV v ⟨f, none, false⟩)
        | none => some ⟨f, none, false⟩ := by
    intro f hf hs
    rw [hlk f.col, hentry f hf hs]
    cases (udtItems db cells).find? (fun it => it.1.name == f.col) <;> rfl
  rw [dvFinalize_spec es' d.fields]
  · congr 1
    apply List.map_congr_left
    intro f hf
    by_cases hs : f.skip = true
    · simp [hs, fieldResult]
    · simp only [Bool.not_eq_true] at hs
      have h1 := hfin f hf hs
      have h2 := hall f hf
      unfold fieldResult cellFor at h2 ⊢
      simp only [hs, Bool.false_eq_true, if_false] at h2 ⊢
      rw [h1]
      cases hfd : (udtItems db cells).find? (fun it => it.1.name == f.col) with
      | none => simp
      | some it =>
        rw [hfd] at h2
        simp only [Option.map_some] at h2 ⊢
        cases hdv : deValD f it.2 with
        | none => rw [hdv] at h2; cases h2
        | some v => simp [setV]
  · intro f hf hs
    have h1 := hfin f hf hs
    have h2 := hall f hf
    unfold fieldResult cellFor at h2
    simp only [hs, Bool.false_eq_true, if_false] at h2
    cases hfd : (udtItems db cells).find? (fun it => it.1.name == f.col) with
    | some it =>
      rw [hfd] at h1 h2
      simp only [Option.map_some] at h2
      cases hdv : deValD f it.2 with
      | none => rw [hdv] at h2; cases h2
      | some v => exact ⟨setV v ⟨f, none, false⟩, by rw [h1]; simp only [hdv, Option.map_some], Or.inl rfl⟩
    | none =>
      rw [hfd] at h1
      refine ⟨_, h1, Or.inr ?_⟩
      -- a field whose column is not listed passed the type check only with `allow_missing`
      by_cases ha : f.allowMissing = true
      · exact ha
      · exfalso
        have hr : f.required = true := by simp [Field.required, hs, ha]
        have hin := hreq f hf hr
        simp only [names, List.mem_map] at hin
        obtain ⟨c, hc, hcn⟩ := hin
        have : c ∈ (udtItems db cells).map (·.1) := by rw [udtItems_fst]; exact hc
        obtain ⟨it, hit, rfl⟩ := List.mem_map.mp this
        have := List.find?_eq_none.mp hfd it hit
        simp [hcn] at this

/-! ### round trip: value → cells → value is the identity, in any database order -/

/-- a value the Rust type can hold: `None` only for `Option<T>`, a payload of the type's width otherwise -/
def WellTyped (f : Field) (v : Val) : Prop :=
  match v with
  | none => f.opt = true
  | some b => decodeOk f.ty b = true

private theorem fieldFor_slots (fvs : List (Field × Val)) (n : String) :
    fieldFor (slots (fvs.map (·.1))) n = (fieldFor fvs n).map (fun p => (p.1, none)) := by
  unfold fieldFor slots
  induction fvs with
  | nil => rfl
  | cons p ps ih =>
    simp only [List.map_cons, List.find?_cons]
    split
    · rfl
    · exact ih

private theorem entries_slots_cols (fvs : List (Field × Val)) :
    (entries (slots (fvs.map (·.1)))).map (fun e => e.f.col) = (entries fvs).map (fun e => e.f.col) := by
  unfold entries slots
  induction fvs with
  | nil => rfl
  | cons p ps ih =>
    simp only [List.map_cons, List.filter_cons]
    split
    · simp only [List.map_cons]; congr 1
    · exact ih

private theorem fieldFor_of_mem {fvs : List (Field × Val)} (hv : ValidNames fvs) {p : Field × Val}
    (hp : p ∈ fvs) (hs : p.1.skip = false) : fieldFor fvs p.1.col = some p := by
  rw [← fv_entries]
  unfold fv
  rw [lookupE_of_mem hv (e := ⟨p.1, p.2, false⟩) (mem_entries.mpr ⟨p, hp, hs, rfl⟩)]
  rfl

private theorem udtItems_find (db : List Col) : ∀ (cells : List Cell) (n : String) (it : Col × Cell),
    (udtItems db cells).find? (fun x => x.1.name == n) = some it →
      ∃ i : Nat, db[i]? = some it.1 ∧ it.2 = (cells[i]?).getD none := by
  induction db with
  | nil => intro cells n it h; simp [udtItems] at h
  | cons c cs ih =>
    intro cells n it h
    cases cells with
    | nil =>
      simp only [udtItems, List.find?_cons] at h
      split at h
      · cases h; exact ⟨0, rfl, rfl⟩
      · obtain ⟨i, h1, h2⟩ := ih [] n it h
        exact ⟨i + 1, by simpa using h1, by simpa using h2⟩
    | cons x xs =>
      simp only [udtItems, List.find?_cons] at h
      split at h
      · cases h; exact ⟨0, rfl, rfl⟩
      · obtain ⟨i, h1, h2⟩ := ih xs n it h
        exact ⟨i + 1, by simpa using h1, by simpa using h2⟩

private theorem deValD_wellTyped (f : Field) (v : Val) (h : WellTyped f v) : deValD f v = some v := by
  unfold deValD
  cases v with
  | none =>
    have ho : f.opt = true := h
    by_cases hd : f.defaultWhenNull = true
    · simp [hd, defaultVal, ho]
    · simp [hd, deVal, ho]
  | some b =>
    have hb : decodeOk f.ty b = true := h
    simp [deVal, hb]

/-- `byname_roundtrip`: for a by-name struct, whatever the order in which the database lists the columns
(no name twice, column types those of the like-named fields): if serialization succeeds, type check +
deserialization of the written cells succeed and give back every field's value — `skip` fields and
`allow_missing` fields whose column is not listed come back as `Default::default()`. -/
theorem byname_roundtrip (d : Desc) (fvs : List (Field × Val)) (db : List Col) (cells : List Cell)
    (hfl : d.flavor = .byName) (hfields : d.fields = fvs.map (·.1)) (hv : ValidNames fvs)
    (hdb : (names db).Nodup)
    (htypes : ∀ c ∈ db, ∀ f v, fieldFor fvs c.name = some (f, v) → f.ty = c.ty)
    (hwt : ∀ p ∈ fvs, WellTyped p.1 p.2)
    (hser : serValue d fvs db = .ok cells) :
    deserValue d db cells =
      .ok (fvs.map (fun p => if p.1.skip || !(names db).contains p.1.col then defaultVal p.1 else p.2)) := by
  have hser' : serValueByName d fvs db = .ok cells := by unfold serValue at hser; rw [hfl] at hser; exact hser
  obtain ⟨hacc, hreq⟩ := (serValueByName_accepts_iff d fvs db hv).mp ⟨cells, hser'⟩
  have hv' : ValidNames (slots d.fields) := by
    unfold ValidNames; rw [hfields, entries_slots_cols]; exact hv
  -- the type check passes
  have htc : tcValueByName d db = .ok () := by
    apply (tcValueByName_accepts_iff d db hv').mpr
    refine ⟨?_, ?_, ?_⟩
    · intro c hc
      unfold TcColAccepted
      rw [hfields, fieldFor_slots]
      have := hacc c hc
      unfold ColAccepted at this
      cases hf : fieldFor fvs c.name with
      | none => rw [hf] at this; simpa using this
      | some p => obtain ⟨f, v⟩ := p; simpa using htypes c hc f v hf
    · unfold matchedNames
      exact List.Nodup.sublist ((List.filter_sublist).map _) hdb
    · intro f hf hr
      rw [hfields] at hf
      obtain ⟨p, hp, rfl⟩ := List.mem_map.mp hf
      simp only [Field.required, Bool.and_eq_true, Bool.not_eq_true'] at hr
      exact hreq p hp hr.1 hr.2
  -- every field's documented result is its own value
  have hres : ∀ p ∈ fvs, fieldResult db cells p.1 =
      some (if p.1.skip || !(names db).contains p.1.col then defaultVal p.1 else p.2) := by
    intro p hp
    unfold fieldResult
    by_cases hs : p.1.skip = true
    · simp [hs]
    · simp only [Bool.not_eq_true] at hs
      simp only [hs, Bool.false_eq_true, if_false, Bool.false_or]
      unfold cellFor
      cases hfd : (udtItems db cells).find? (fun it => it.1.name == p.1.col) with
      | none =>
        have : (names db).contains p.1.col = false := by
          rw [← Bool.not_eq_true]
          intro hc
          have hin : p.1.col ∈ names db := by simpa using hc
          simp only [names, List.mem_map] at hin
          obtain ⟨c, hc', hcn⟩ := hin
          have : c ∈ (udtItems db cells).map (·.1) := by rw [udtItems_fst]; exact hc'
          obtain ⟨it, hit, rfl⟩ := List.mem_map.mp this
          have := List.find?_eq_none.mp hfd it hit
          simp [hcn] at this
        rw [this]; rfl
      | some it =>
        have hname : it.1.name = p.1.col := by simpa using List.find?_some hfd
        obtain ⟨i, hi, hcell⟩ := udtItems_find db cells _ it hfd
        have hin : (names db).contains p.1.col = true := by
          simp only [List.contains_iff_mem, names, List.mem_map]
          exact ⟨it.1, List.mem_of_getElem? hi, hname⟩
        have hpos := serValueByName_position d fvs db cells hv hser' i it.1 p.1 p.2 hi
          (by rw [hname]; exact fieldFor_of_mem hv hp hs)
        simp only [Option.map_some, hin, Bool.not_true, Bool.false_eq_true, if_false]
        rw [hcell, hpos]
        exact deValD_wellTyped p.1 p.2 (hwt p hp)
  rw [deserValueByName_spec d db cells hfl hv' htc]
  · rw [hfields, List.map_map]
    congr 1
    apply List.map_congr_left
    intro p hp
    simp only [Function.comp, hres p hp, Option.getD_some]
  · intro f hf
    rw [hfields] at hf
    obtain ⟨p, hp, rfl⟩ := List.mem_map.mp hf
    rw [hres p hp]; rfl

/-! ### order independence (type check) -/

/-- the by-name type check does not depend on the order in which the database lists the fields -/
theorem tcValueByName_perm (d : Desc) (db db' : List Col) (hv : ValidNames (slots d.fields)) (hp : db.Perm db') :
    tcValueByName d db = .ok () ↔ tcValueByName d db' = .ok () := by
  rw [tcValueByName_accepts_iff d db hv, tcValueByName_accepts_iff d db' hv]
  have hm : ∀ c, c ∈ db ↔ c ∈ db' := fun c => hp.mem_iff
  have hn : ∀ n, n ∈ names db ↔ n ∈ names db' := fun n => (hp.map _).mem_iff
  have hnd : (matchedNames (fieldFor (slots d.fields)) db).Nodup ↔
      (matchedNames (fieldFor (slots d.fields)) db').Nodup := ((hp.filter _).map _).nodup_iff
  constructor
  · rintro ⟨h1, h2, h3⟩
    exact ⟨fun c hc => h1 c ((hm c).mpr hc), hnd.mp h2, fun f hf hr => (hn _).mp (h3 f hf hr)⟩
  · rintro ⟨h1, h2, h3⟩
    exact ⟨fun c hc => h1 c ((hm c).mp hc), hnd.mpr h2, fun f hf hr => (hn _).mpr (h3 f hf hr)⟩

/-! ### the ordered flavor accepts only the declared order -/

/-- `ordered_accepts_exactly`, soundness (names checked): whenever ordered UDT serialization succeeds, the
database names split into `m ++ rest` where `m` is a subsequence of the declared names IN DECLARED ORDER
containing every field without `allow_missing`, one cell is written per element of `m`, and `rest` (excess
fields at the end) is empty under `forbid_excess_udt_fields`. -/
theorem svOrdered_sound (forbid : Bool) (fs : List (Field × Val)) : ∀ (db : List Col) (cells : List Cell),
    svOrdered false forbid fs db = .ok cells →
    ∃ m rest, names db = m ++ rest ∧ m.Sublist (fs.map (·.1.col)) ∧
      (∀ p ∈ fs, p.1.allowMissing = false → p.1.col ∈ m) ∧ (forbid = true → rest = []) ∧
      cells.length = m.length := by
  induction fs with
  | nil =>
    intro db cells h
    unfold svOrdered at h
    refine ⟨[], names db, rfl, List.Sublist.slnil, by simp, ?_, ?_⟩
    · intro hf
      rw [hf] at h
      cases db with
      | nil => rfl
      | cons c cs => simp at h
    · cases forbid <;> cases db <;> simp at h <;> simp [← h]
  | cons p fs ih =>
    intro db cells h
    obtain ⟨f, v⟩ := p
    cases db with
    | nil =>
      unfold svOrdered at h
      by_cases ha : f.allowMissing = true
      · simp only [ha, if_true] at h
        obtain ⟨m, rest, h1, h2, h3, h4, h5⟩ := ih [] cells h
        refine ⟨m, rest, h1, h2.cons _, ?_, h4, h5⟩
        intro q hq hqa
        rcases List.mem_cons.mp hq with rfl | hin
        · rw [ha] at hqa; cases hqa
        · exact h3 q hin hqa
      · simp [ha] at h
    | cons c cs =>
      unfold svOrdered at h
      simp only [Bool.false_or] at h
      by_cases hn : c.name = f.col
      · simp only [hn, beq_self_eq_true, if_true] at h
        cases hs : serVal f v c.ty with
        | none => rw [hs] at h; cases h
        | some cell =>
          rw [hs] at h
          simp only [] at h
          cases hr : svOrdered false forbid fs cs with
          | error x => rw [hr] at h; cases h
          | ok cells' =>
            rw [hr] at h
            cases h
            obtain ⟨m, rest, h1, h2, h3, h4, h5⟩ := ih cs cells' hr
            refine ⟨f.col :: m, rest, by simp [names, hn] at h1 ⊢; exact h1, h2.cons_cons _, ?_, h4, by simp [h5]⟩
            intro q hq hqa
            rcases List.mem_cons.mp hq with rfl | hin
            · exact List.mem_cons_self ..
            · exact List.mem_cons_of_mem _ (h3 q hin hqa)
      · have hb : (c.name == f.col) = false := by simpa using hn
        simp only [hb, Bool.false_eq_true, if_false] at h
        by_cases ha : f.allowMissing = true
        · simp only [ha, if_true] at h
          obtain ⟨m, rest, h1, h2, h3, h4, h5⟩ := ih (c :: cs) cells h
          refine ⟨m, rest, h1, h2.cons _, ?_, h4, h5⟩
          intro q hq hqa
          rcases List.mem_cons.mp hq with rfl | hin
          · rw [ha] at hqa; cases hqa
          · exact h3 q hin hqa
        · simp [ha] at h

/-- the same for the ordered UDT type check (`saved_cql_field` walk) -/
theorem dvTcOrd_sound (forbid : Bool) (fs : List Field) : ∀ (db : List Col),
    dvTcOrd false forbid fs db = .ok () →
    ∃ m rest, names db = m ++ rest ∧ m.Sublist (fs.map Field.col) ∧
      (∀ f ∈ fs, f.allowMissing = false → f.col ∈ m) ∧ (forbid = true → rest = []) := by
  induction fs with
  | nil =>
    intro db h
    unfold dvTcOrd at h
    refine ⟨[], names db, rfl, List.Sublist.slnil, by simp, ?_⟩
    intro hf
    rw [hf] at h
    cases db with
    | nil => rfl
    | cons c cs => simp at h
  | cons f fs ih =>
    intro db h
    cases db with
    | nil =>
      unfold dvTcOrd at h
      by_cases ha : f.allowMissing = true
      · simp only [ha, if_true] at h
        obtain ⟨m, rest, h1, h2, h3, h4⟩ := ih [] h
        refine ⟨m, rest, h1, h2.cons _, ?_, h4⟩
        intro q hq hqa
        rcases List.mem_cons.mp hq with rfl | hin
        · rw [ha] at hqa; cases hqa
        · exact h3 q hin hqa
      · simp [ha] at h
    | cons c cs =>
      unfold dvTcOrd at h
      simp only [Bool.not_false, Bool.true_and] at h
      by_cases hn : f.col = c.name
      · have hb : (f.col != c.name) = false := by simp [hn]
        simp only [hb, Bool.false_eq_true, if_false] at h
        split at h
        · cases h
        · obtain ⟨m, rest, h1, h2, h3, h4⟩ := ih cs h
          refine ⟨f.col :: m, rest, by simp [names, hn] at h1 ⊢; exact h1, h2.cons_cons _, ?_, h4⟩
          intro q hq hqa
          rcases List.mem_cons.mp hq with rfl | hin
          · exact List.mem_cons_self ..
          · exact List.mem_cons_of_mem _ (h3 q hin hqa)
      · have hb : (f.col != c.name) = true := by simp [hn]
        simp only [hb, if_true] at h
        by_cases ha : f.allowMissing = true
        · simp only [ha, if_true] at h
          obtain ⟨m, rest, h1, h2, h3, h4⟩ := ih (c :: cs) h
          refine ⟨m, rest, h1, h2.cons _, ?_, h4⟩
          intro q hq hqa
          rcases List.mem_cons.mp hq with rfl | hin
          · rw [ha] at hqa; cases hqa
          · exact h3 q hin hqa
        · simp [ha] at h

/-- completeness for the declared order itself: the database listing exactly the declared fields, in
declared order and with the fields' types, is accepted -/
theorem dvTcOrd_declared (skipNames forbid : Bool) (fs : List Field) :
    dvTcOrd skipNames forbid fs (fs.map (fun f => ⟨f.col, f.ty⟩)) = .ok () := by
  induction fs with
  | nil => cases forbid <;> rfl
  | cons f fs ih =>
    simp only [List.map_cons]
    unfold dvTcOrd
    simp [ih]

/-! ### `#[derive(SerializeRow)]`, by name (no `flatten`): value at the column's position, exact acceptance -/

private def rowErr : Err → Err
  | .svFieldSerFailed => .srColumnSerFailed
  | .svNoSuchField => .srValueMissingForColumn
  | e => e

/-- the row loop is the UDT loop with every excess column forbidden (and its own error names) -/
private theorem srLoop_eq (db : List Col) : ∀ (es : List Entry) (rem : Nat),
    srLoop db es rem = (match svLoop true db es rem 0 with
      | .ok r => .ok r
      | .error x => .error (rowErr x)) := by
  induction db with
  | nil => intro es rem; rfl
  | cons c cs ih =>
    intro es rem
    unfold srLoop svLoop
    cases lookupE c.name es with
    | none => rfl
    | some e =>
      simp only []
      cases serVal e.f e.v c.ty with
      | none => rfl
      | some cell =>
        simp only [ih]
        cases svLoop true cs (markE c.name es) (decr e.visited rem) 0 with
        | error x => rfl
        | ok r => obtain ⟨a, b, c'⟩ := r; simp

private theorem emit_forbid (look : String → Option (Field × Val)) (db : List Col)
    (h : ∀ c ∈ db, (look c.name).isSome = true) : emit look db 0 = db.map (specCell look) := by
  induction db with
  | nil => rfl
  | cons c cs ih =>
    unfold emit
    rw [if_pos (h c (List.mem_cons_self ..)), ih (fun c' hc' => h c' (List.mem_cons_of_mem _ hc'))]
    rfl

/-- by-name row serialization succeeds exactly when every column is bound to a field whose value fits it and
every non-skipped field has its column — in any column order; the cells are then, position by position, the
values of the like-named fields. -/
theorem serRowByName_iff (fvs : List (Field × Val)) (db : List Col) (hv : ValidNames fvs) (cells : List Cell) :
    serRowByName fvs db = .ok cells ↔
      (∀ c ∈ db, ∃ f v, fieldFor fvs c.name = some (f, v) ∧ (v = none ∨ f.ty = c.ty)) ∧
      (∀ p ∈ fvs, p.1.skip = false → p.1.col ∈ names db) ∧
      cells = db.map (fun c => ((fieldFor fvs c.name).map (·.2)).getD none) := by
  unfold serRowByName
  simp only []
  have hlen : (entries fvs).length = unv allTrue (entries fvs) := by
    unfold unv
    rw [List.filter_eq_self.mpr]
    intro e he
    simp [entries_unvisited fvs e he, allTrue]
  rw [srLoop_eq, svLoop_closed true db (entries fvs) _ 0 hlen]
  have hall : db.all (colOk true (fv (entries fvs))) = true ↔
      ∀ c ∈ db, ∃ f v, fieldFor fvs c.name = some (f, v) ∧ (v = none ∨ f.ty = c.ty) := by
    rw [List.all_eq_true]
    apply forall₂_congr
    intro c _
    rw [colOk_iff]
    unfold ColAccepted
    cases fieldFor fvs c.name with
    | none => simp
    | some p =>
      obtain ⟨f, v⟩ := p
      constructor
      · intro h; exact ⟨f, v, rfl, h⟩
      · rintro ⟨f', v', h1, h2⟩; cases h1; exact h2
  have hmiss : unv allTrue (markAll (db.map (·.name)) (entries fvs)) = 0 ↔
      ∀ p ∈ fvs, p.1.skip = false → p.1.col ∈ names db := by
    have h0 : unv allTrue (markAll (db.map (·.name)) (entries fvs)) = 0 ↔
        ¬ (0 < unv allTrue (markAll (db.map (·.name)) (entries fvs))) := by omega
    rw [h0, unv_pos_iff, any_markAll _ _ hv (entries_unvisited fvs) allTrue, Bool.not_eq_true, List.any_eq_false]
    constructor
    · intro h p hp hs
      have := h ⟨p.1, p.2, false⟩ (mem_entries.mpr ⟨p, hp, hs, rfl⟩)
      simpa [allTrue, names] using this
    · intro h e he
      obtain ⟨p, hp, hs, rfl⟩ := mem_entries.mp he
      have := h p hp hs
      simp only [names, List.mem_map] at this
      simp [allTrue, this]
  by_cases ha : db.all (colOk true (fv (entries fvs))) = true
  · rw [if_pos ha]
    simp only []
    have hcells : emit (fv (entries fvs)) db 0 = db.map (fun c => ((fieldFor fvs c.name).map (·.2)).getD none) := by
      rw [emit_forbid]
      · apply List.map_congr_left
        intro c hc
        obtain ⟨f, v, hf, hor⟩ := hall.mp ha c hc
        unfold specCell
        rw [fv_entries, hf]
        simp only [Option.map_some, Option.getD_some]
        cases v with
        | none => simp [serVal]
        | some b =>
          rcases hor with h | h
          · cases h
          · simp [serVal, h]
      · intro c hc
        obtain ⟨f, v, hf, _⟩ := hall.mp ha c hc
        rw [fv_entries, hf]; rfl
    unfold srCheckMissing
    by_cases hz : unv allTrue (markAll (db.map (·.name)) (entries fvs)) = 0
    · simp only [hz, beq_self_eq_true, if_true]
      constructor
      · intro h; cases h; exact ⟨hall.mp ha, hmiss.mp hz, hcells⟩
      · rintro ⟨_, _, h3⟩; rw [h3, hcells]
    · have hb : (unv allTrue (markAll (db.map (·.name)) (entries fvs)) == 0) = false := by simpa using hz
      simp only [hb, Bool.false_eq_true, if_false]
      constructor
      · intro h
        exfalso
        by_cases hany : ((markAll (db.map (·.name)) (entries fvs)).any fun e => !e.visited) = true
        · simp [hany] at h
        · simp [hany] at h
      · rintro ⟨_, h2, _⟩; exact absurd (hmiss.mpr h2) hz
  · rw [if_neg ha]
    simp only [reduceCtorEq, false_iff]
    rintro ⟨h1, _, _⟩
    exact ha (hall.mpr h1)

/-! ### non-vacuity: concrete structs, orders and values -/

section Examples
private def fA : Field := ⟨"a", none, .int, false, false, true, false⟩            -- `#[scylla(allow_missing)] a: i32`
private def fB : Field := ⟨"b", none, .int, false, false, false, false⟩           -- `b: i32`
private def fC : Field := ⟨"c", some "cc", .text, true, false, false, true⟩       -- `Option<String>`, rename, default_when_null
private def fS : Field := ⟨"s", none, .int, false, true, false, false⟩            -- `#[scylla(skip)]`
private def v1 : Val := some [0, 0, 0, 1]
private def v2 : Val := some [0, 0, 0, 2]
private def dAB : Desc := ⟨.byName, false, false, [fA, fB]⟩
private def dAll : Desc := ⟨.byName, false, false, [fA, fS, fB, fC]⟩
private def fvAll : List (Field × Val) := [(fA, v1), (fS, v2), (fB, v2), (fC, some [104])]

private def errOf {α : Type} : Except Err α → Option Err
  | .ok _ => none
  | .error e => some e

/-- the F7 shape (`allow_missing` field declared before a required one, UDT lacks the required one): an error
now, where the pre-fix generated code returned `Ok` and dropped `b` -/
example : errOf (serValueByName dAB [(fA, v1), (fB, v2)] [⟨"a", .int⟩]) = some .svValueMissing := by decide +kernel
/-- hypotheses of the theorems are satisfiable: names valid, a permuted database order with an excess column
in the middle, values at their columns' positions, trailing excess column not sent -/
example : ValidNames fvAll := by unfold ValidNames; decide +kernel
example : okOpt (serValueByName dAll fvAll
    [⟨"cc", .text⟩, ⟨"zz", .int⟩, ⟨"b", .int⟩, ⟨"a", .int⟩, ⟨"yy", .int⟩]) = some [some [104], none, v2, v1] := by
  decide +kernel
/-- round trip through a permuted order lacking the `allow_missing` column -/
example : okOpt (deserValue dAll [⟨"cc", .text⟩, ⟨"b", .int⟩] [some [104], v2])
    = some [some [0, 0, 0, 0], some [0, 0, 0, 0], v2, some [104]] := by decide +kernel
example : errOf (tcValueByName dAll [⟨"b", .int⟩, ⟨"b", .int⟩]) = some .dvDuplicatedField := by decide +kernel
/-- ordered flavor: declared order accepted, swapped order rejected -/
example : okOpt (svOrdered false false [(fB, v2), (fC, none)] [⟨"b", .int⟩, ⟨"cc", .text⟩]) = some [v2, none] := by
  decide +kernel
example : errOf (svOrdered false false [(fB, v2), (fC, none)] [⟨"cc", .text⟩, ⟨"b", .int⟩])
    = some .svFieldNameMismatch := by decide +kernel
end Examples

end ScyllaVerif.Props.C16

/-
C16 — derived row/UDT mappings bind fields by name regardless of database order.

Model: `ScyllaVerif/Model/Derive.lean`, a generic interpreter of the code the derive macros generate.  Every
statement below is about that interpreter for EVERY descriptor (any number of fields, any attribute combination
the macro's `validate` accepts — the only validity condition used is its name-collision check `ValidNames`),
every database field list and every value assignment.  Helper lemmas: `ScyllaVerif/Proofs/Derive.lean`.
-/
import ScyllaVerif.Proofs.Derive
import ScyllaVerif.Proofs.DeriveFlatten
import ScyllaVerif.Proofs.DeriveErrs
import ScyllaVerif.Generated.DeriveC16

namespace ScyllaVerif.Props.C16
open ScyllaVerif.Derive

/-- the macro's name-collision check (`Context::validate`, `validate_attrs`): the non-skipped fields have
pairwise distinct database names -/
def ValidNames (fvs : List (Field × Val)) : Prop := ((entries fvs).map (fun e => e.f.col)).Nodup

/-- field and value bound to the database name `n` (skipped fields do not take part) -/
def fieldFor (fvs : List (Field × Val)) (n : String) : Option (Field × Val) :=
  fvs.find? (fun p => !p.1.skip && p.1.col == n)

def names (db : List Col) : List String := db.map (·.name)

private theorem fv_entries (fvs : List (Field × Val)) (n : String) : fv (entries fvs) n = fieldFor fvs n := by
  unfold fv lookupE entries fieldFor
  induction fvs with
  | nil => rfl
  | cons p ps ih =>
    rw [List.filter_cons]
    by_cases hs : p.1.skip = true
    · simp only [hs, Bool.not_true, Bool.false_eq_true, if_false]
      rw [ih, List.find?_cons]
      simp [hs]
    · simp only [Bool.not_eq_true] at hs
      simp only [hs, Bool.not_false, if_true, List.map_cons, List.find?_cons, Bool.true_and]
      by_cases hc : p.1.col = n
      · simp [hc]
      · have : (p.1.col == n) = false := by simpa using hc
        simp only [this]
        exact ih

private theorem mem_entries {fvs : List (Field × Val)} {e : Entry} :
    e ∈ entries fvs ↔ ∃ p ∈ fvs, p.1.skip = false ∧ e = ⟨p.1, p.2, false⟩ := by
  unfold entries
  simp only [List.mem_map, List.mem_filter]
  constructor
  · rintro ⟨p, ⟨hp, hs⟩, rfl⟩
    exact ⟨p, hp, by simpa using hs, rfl⟩
  · rintro ⟨p, hp, hs, rfl⟩
    exact ⟨p, ⟨hp, by simp [hs]⟩, rfl⟩

/-- the column-wise acceptance condition of by-name UDT serialization -/
def ColAccepted (forbid : Bool) (fvs : List (Field × Val)) (c : Col) : Prop :=
  match fieldFor fvs c.name with
  | some (f, v) => v = none ∨ f.ty = c.ty      -- the value fits the column (a Rust `None` fits every type)
  | none => forbid = false                      -- excess UDT field: only without `forbid_excess_udt_fields`

private theorem colOk_iff (forbid : Bool) (fvs : List (Field × Val)) (c : Col) :
    colOk forbid (fv (entries fvs)) c = true ↔ ColAccepted forbid fvs c := by
  unfold colOk ColAccepted
  rw [fv_entries]
  cases fieldFor fvs c.name with
  | none => simp
  | some p =>
    obtain ⟨f, v⟩ := p
    cases v with
    | none => simp [serVal]
    | some b =>
      simp only [serVal, reduceCtorEq, false_or]
      by_cases h : f.ty = c.ty <;> simp [h]

/-- every field that must be serialized (`!skip && !allow_missing`) has its column in the database list -/
def RequiredPresent (fvs : List (Field × Val)) (db : List Col) : Prop :=
  ∀ p ∈ fvs, p.1.skip = false → p.1.allowMissing = false → p.1.col ∈ names db

private theorem missing_any_iff (fvs : List (Field × Val)) (db : List Col) :
    (entries fvs).any (fun e => !(db.map (·.name)).contains e.f.col && !e.f.allowMissing) = false ↔
      RequiredPresent fvs db := by
  unfold RequiredPresent names
  rw [List.any_eq_false]
  constructor
  · intro h p hp hs ha
    have := h ⟨p.1, p.2, false⟩ (mem_entries.mpr ⟨p, hp, hs, rfl⟩)
    simpa [ha] using this
  · intro h e he
    obtain ⟨p, hp, hs, rfl⟩ := mem_entries.mp he
    by_cases ha : p.1.allowMissing = true
    · simp [ha]
    · simp only [Bool.not_eq_true] at ha
      have := h p hp hs ha
      simp only [List.mem_map] at this
      simp [ha, this]

/-! ### `#[derive(SerializeValue)]`, by name: value at the column's position -/

/-- `byname_position`: when by-name serialization succeeds, the value of the field bound to the column at
database position `i` is the cell at position `i` — whatever the database order. -/
theorem serValueByName_position (d : Desc) (fvs : List (Field × Val)) (db : List Col) (cells : List Cell)
    (hv : ValidNames fvs) (h : serValueByName d fvs db = .ok cells)
    (i : Nat) (c : Col) (f : Field) (v : Val) (hi : db[i]? = some c) (hf : fieldFor fvs c.name = some (f, v)) :
    cells[i]? = some v := by
  rw [serValueByName_closed d fvs db hv] at h
  split at h
  · rename_i hall
    split at h
    · cases h
    · cases h
      have hm : (fv (entries fvs) c.name).isSome = true := by rw [fv_entries, hf]; rfl
      have := emit_get (fv (entries fvs)) db 0 i c hi hm
      rw [Nat.zero_add] at this
      rw [this]
      have hc : colOk d.forbidExcess (fv (entries fvs)) c = true :=
        List.all_eq_true.mp hall c (List.mem_of_getElem? hi)
      unfold colOk at hc
      unfold specCell
      rw [fv_entries, hf] at hc ⊢
      simp only [] at hc ⊢
      cases v with
      | none => simp [serVal]
      | some b =>
        simp only [serVal] at hc ⊢
        split at hc
        · rename_i ht; simp [ht]
        · simp at hc
  · cases h

/-- the positions of columns no field is bound to hold null, or are not sent at all (trailing ones), and
nothing is written beyond the database list (`serValueByName_exact` below says exactly which of the two) -/
theorem serValueByName_unmatched_null (d : Desc) (fvs : List (Field × Val)) (db : List Col) (cells : List Cell)
    (hv : ValidNames fvs) (h : serValueByName d fvs db = .ok cells) :
    cells.length ≤ db.length ∧
    ∀ (i : Nat) (c : Col), db[i]? = some c → fieldFor fvs c.name = none → cells[i]?.getD none = none := by
  rw [serValueByName_closed d fvs db hv] at h
  split at h
  · split at h
    · cases h
    · cases h
      refine ⟨by simpa using emit_length (fv (entries fvs)) db 0, ?_⟩
      intro i c hi hf
      cases hx : (emit (fv (entries fvs)) db 0)[i]? with
      | none => rfl
      | some x =>
        have := emit_null (fv (entries fvs)) db 0 i x hx
          (Or.inr ⟨i, c, by omega, hi, by rw [fv_entries]; exact hf⟩)
        simp [this]
  · cases h

private theorem serVal_some {f : Field} {v : Val} {ty : Ty} {cell : Cell} (h : serVal f v ty = some cell) :
    cell = v := by
  unfold serVal at h
  cases v with
  | none => simpa using h.symm
  | some b =>
    simp only [] at h
    split at h
    · simpa using h.symm
    · cases h

/-- the cell that belongs at the position of column `c`: the bound field's value, null for an unbound column -/
def boundCell (fvs : List (Field × Val)) (c : Col) : Cell := ((fieldFor fvs c.name).map (·.2)).getD none

/-- `serValueByName_exact` — the exact output, length included ("nulls in the middle, nothing for trailing
unmatched fields"): on success there is a cut `k` such that exactly the first `k` columns get a cell — the
bound field's value, or an explicit null for an unbound column in between —, `k` is 0 or the position just
after the LAST bound column, and every column from `k` on is unbound and gets nothing at all. -/
theorem serValueByName_exact (d : Desc) (fvs : List (Field × Val)) (db : List Col) (cells : List Cell)
    (hv : ValidNames fvs) (h : serValueByName d fvs db = .ok cells) :
    ∃ k, k ≤ db.length ∧ cells = (db.take k).map (boundCell fvs) ∧
      (∀ (i : Nat) (c : Col), k ≤ i → db[i]? = some c → fieldFor fvs c.name = none) ∧
      (k = 0 ∨ ∃ c, db[k - 1]? = some c ∧ (fieldFor fvs c.name).isSome = true) := by
  rw [serValueByName_closed d fvs db hv] at h
  split at h
  · rename_i hall
    split at h
    · cases h
    · cases h
      obtain ⟨k, hk, he, htail, hlast⟩ := emit_exact (fv (entries fvs)) db 0
      refine ⟨k, hk, ?_, ?_, ?_⟩
      · rw [he]
        by_cases hk0 : k = 0
        · simp [hk0]
        · simp only [hk0, if_false, List.replicate_zero, List.nil_append]
          apply List.map_congr_left
          intro c hc
          have hcdb : c ∈ db := List.mem_of_mem_take hc
          have hok : colOk d.forbidExcess (fv (entries fvs)) c = true := List.all_eq_true.mp hall c hcdb
          unfold specCell boundCell
          unfold colOk at hok
          rw [fv_entries] at hok ⊢
          cases hf : fieldFor fvs c.name with
          | none => rfl
          | some p =>
            obtain ⟨f, v⟩ := p
            rw [hf] at hok
            simp only [] at hok ⊢
            cases hs : serVal f v c.ty with
            | none => rw [hs] at hok; cases hok
            | some cell => simp [serVal_some hs]
      · intro i c hi hc
        have := htail i c hi hc
        rw [fv_entries] at this
        cases hf : fieldFor fvs c.name with
        | none => rfl
        | some p => rw [hf] at this; cases this
      · rcases hlast with h0 | ⟨c, hc, hs⟩
        · exact Or.inl h0
        · exact Or.inr ⟨c, hc, by rw [← fv_entries]; exact hs⟩
  · cases h

/-! ### `#[derive(SerializeValue)]`, by name: accepted / rejected exactly as documented -/

/-- `accept_reject` (serialization): by-name serialization succeeds exactly when every database column is
acceptable (a bound value fits its type; an excess column only without `forbid_excess_udt_fields`) and every
field without `allow_missing` / `skip` has a column — in ANY database order.  (This is the statement that was
false before commit 1f8fc2e for a required field declared after an `allow_missing` one.) -/
theorem serValueByName_accepts_iff (d : Desc) (fvs : List (Field × Val)) (db : List Col) (hv : ValidNames fvs) :
    (∃ cells, serValueByName d fvs db = .ok cells) ↔
      (∀ c ∈ db, ColAccepted d.forbidExcess fvs c) ∧ RequiredPresent fvs db := by
  rw [serValueByName_closed d fvs db hv]
  have hall : db.all (colOk d.forbidExcess (fv (entries fvs))) = true ↔ ∀ c ∈ db, ColAccepted d.forbidExcess fvs c := by
    rw [List.all_eq_true]
    exact forall₂_congr (fun c _ => colOk_iff _ fvs c)
  constructor
  · rintro ⟨cells, h⟩
    split at h
    · rename_i ha
      split at h
      · cases h
      · rename_i hm
        simp only [Bool.not_eq_true] at hm
        exact ⟨hall.mp ha, (missing_any_iff fvs db).mp hm⟩
    · cases h
  · rintro ⟨ha, hr⟩
    rw [if_pos (hall.mpr ha)]
    have := (missing_any_iff fvs db).mpr hr
    rw [this]
    exact ⟨_, rfl⟩

/-- a field without `allow_missing` whose column the database does not list is NEVER silently dropped:
serialization fails (with `ValueMissingForUdtField` when all listed columns are acceptable).  Holds wherever
the field is declared — the F7 shape (required field after an `allow_missing` one) included. -/
theorem serValueByName_missing_required (d : Desc) (fvs : List (Field × Val)) (db : List Col) (hv : ValidNames fvs)
    (p : Field × Val) (hp : p ∈ fvs) (hs : p.1.skip = false) (ha : p.1.allowMissing = false)
    (hmiss : p.1.col ∉ names db) :
    (∃ x, serValueByName d fvs db = .error x) ∧
    ((∀ c ∈ db, ColAccepted d.forbidExcess fvs c) → serValueByName d fvs db = .error .svValueMissing) := by
  have hnot : ¬ RequiredPresent fvs db := fun h => hmiss (h p hp hs ha)
  have hany : (entries fvs).any (fun e => !(db.map (·.name)).contains e.f.col && !e.f.allowMissing) = true := by
    cases h : (entries fvs).any (fun e => !(db.map (·.name)).contains e.f.col && !e.f.allowMissing) with
    | true => rfl
    | false => exact absurd ((missing_any_iff fvs db).mp h) hnot
  rw [serValueByName_closed d fvs db hv]
  constructor
  · rw [hany]
    split
    · exact ⟨_, rfl⟩
    · exact ⟨_, rfl⟩
  · intro hacc
    have : db.all (colOk d.forbidExcess (fv (entries fvs))) = true := by
      rw [List.all_eq_true]
      exact fun c hc => (colOk_iff _ fvs c).mpr (hacc c hc)
    rw [if_pos this, if_pos hany]

/-- an excess UDT field is an error iff `forbid_excess_udt_fields` (serialization side) -/
theorem serValueByName_excess (d : Desc) (fvs : List (Field × Val)) (db : List Col) (hv : ValidNames fvs)
    (c : Col) (hc : c ∈ db) (hx : fieldFor fvs c.name = none) :
    (d.forbidExcess = true → ∃ x, serValueByName d fvs db = .error x) ∧
    (d.forbidExcess = false → (∀ c' ∈ db, c'.name ≠ c.name → ColAccepted false fvs c') → RequiredPresent fvs db →
      ∃ cells, serValueByName d fvs db = .ok cells) := by
  constructor
  · intro hf
    cases h : serValueByName d fvs db with
    | error x => exact ⟨x, rfl⟩
    | ok cells =>
      have := ((serValueByName_accepts_iff d fvs db hv).mp ⟨cells, h⟩).1 c hc
      unfold ColAccepted at this
      rw [hx] at this
      simp [hf] at this
  · intro hf hothers hreq
    apply (serValueByName_accepts_iff d fvs db hv).mpr
    refine ⟨?_, hreq⟩
    intro c' hc'
    rw [hf]
    by_cases hn : c'.name = c.name
    · unfold ColAccepted; rw [hn, hx]
    · exact hothers c' hc' hn

/-! ### order independence (serialization) -/

/-- acceptance does not depend on the order in which the database lists the columns -/
theorem serValueByName_perm_accepts (d : Desc) (fvs : List (Field × Val)) (db db' : List Col) (hv : ValidNames fvs)
    (hp : db.Perm db') :
    (∃ cells, serValueByName d fvs db = .ok cells) ↔ (∃ cells, serValueByName d fvs db' = .ok cells) := by
  rw [serValueByName_accepts_iff d fvs db hv, serValueByName_accepts_iff d fvs db' hv]
  have hm : ∀ c, c ∈ db ↔ c ∈ db' := fun c => hp.mem_iff
  have hn : ∀ n, n ∈ names db ↔ n ∈ names db' := fun n => (hp.map _).mem_iff
  constructor
  · rintro ⟨h1, h2⟩
    exact ⟨fun c hc => h1 c ((hm c).mpr hc), fun p hp' hs ha => (hn _).mp (h2 p hp' hs ha)⟩
  · rintro ⟨h1, h2⟩
    exact ⟨fun c hc => h1 c ((hm c).mp hc), fun p hp' hs ha => (hn _).mpr (h2 p hp' hs ha)⟩

/-- for two orders of the same columns the results agree up to the permutation: the cell written at a
column's position is the same in both -/
theorem serValueByName_perm_cells (d : Desc) (fvs : List (Field × Val)) (db db' : List Col) (cells cells' : List Cell)
    (hv : ValidNames fvs) (h : serValueByName d fvs db = .ok cells) (h' : serValueByName d fvs db' = .ok cells')
    (i j : Nat) (c : Col) (hi : db[i]? = some c) (hj : db'[j]? = some c) :
    cells[i]?.getD none = cells'[j]?.getD none := by
  cases hf : fieldFor fvs c.name with
  | none =>
    rw [(serValueByName_unmatched_null d fvs db cells hv h).2 i c hi hf,
      (serValueByName_unmatched_null d fvs db' cells' hv h').2 j c hj hf]
  | some p =>
    obtain ⟨f, v⟩ := p
    rw [serValueByName_position d fvs db cells hv h i c f v hi hf,
      serValueByName_position d fvs db' cells' hv h' j c f v hj hf]

/-! ### `#[derive(DeserializeValue)]`, by name: `type_check` accepts / rejects exactly as documented -/

/-- the struct's fields as (field, empty slot) pairs — `type_check` sees no values -/
def slots (fields : List Field) : List (Field × Val) := fields.map (fun f => (f, none))

private theorem tcEntries_eq (fields : List Field) : tcEntries fields = entries (slots fields) := by
  unfold tcEntries entries slots
  rw [List.filter_map, List.map_map]
  rfl

private theorem requiredCount_eq (fields : List Field) :
    requiredCount fields = unv Field.required (tcEntries fields) := by
  unfold requiredCount unv tcEntries
  rw [List.filter_map, List.length_map, List.filter_filter]
  congr 1
  apply List.filter_congr
  intro f _
  simp only [Function.comp, Field.required]
  cases f.skip <;> simp

/-- the column-wise acceptance condition of the by-name UDT type check -/
def TcColAccepted (d : Desc) (c : Col) : Prop :=
  match fieldFor (slots d.fields) c.name with
  | some (f, _) => f.ty = c.ty                  -- a like-named field must have the column's type
  | none => d.forbidExcess = false              -- excess UDT field: only without `forbid_excess_udt_fields`

/-- `accept_reject` (deserialization): the by-name UDT `type_check` succeeds exactly when every database
field is acceptable, no field the struct binds is listed twice, and every field without `allow_missing` /
`skip` is listed — independent of the database order (see `tcValueByName_perm`). -/
theorem tcValueByName_accepts_iff (d : Desc) (db : List Col) (hv : ValidNames (slots d.fields)) :
    tcValueByName d db = .ok () ↔
      (∀ c ∈ db, TcColAccepted d c) ∧
      (matchedNames (fieldFor (slots d.fields)) db).Nodup ∧
      (∀ f ∈ d.fields, f.required = true → f.col ∈ names db) := by
  unfold tcValueByName
  have hinv : ∀ n e, lookupE n (tcEntries d.fields) = some e → e.visited = ([] : List String).contains n := by
    intro n e h
    rw [tcEntries_eq] at h
    simpa using entries_unvisited _ e (lookupE_some h).2
  have hcl := dvTcLoop_closed d.forbidExcess db (tcEntries d.fields) (requiredCount d.fields) [] hinv
    (requiredCount_eq d.fields)
  have hlook : fv (tcEntries d.fields) = fieldFor (slots d.fields) := by
    funext n; rw [tcEntries_eq, fv_entries]
  rw [hlook] at hcl
  have hok := tcOkList_iff d.forbidExcess (fieldFor (slots d.fields)) db []
  have hcols : (∀ c ∈ db, match fieldFor (slots d.fields) c.name with
        | some (f, _) => f.ty = c.ty ∧ c.name ∉ ([] : List String)
        | none => d.forbidExcess = false) ↔ ∀ c ∈ db, TcColAccepted d c := by
    apply forall₂_congr
    intro c _
    unfold TcColAccepted
    cases fieldFor (slots d.fields) c.name with
    | none => rfl
    | some p => simp
  replace hok := hok.trans (and_congr hcols Iff.rfl)
  -- the final `remaining_required_cql_fields > 0` test
  have hrem : (0 < unv Field.required (markAll (db.map (·.name)) (tcEntries d.fields))) ↔
      ¬ (∀ f ∈ d.fields, f.required = true → f.col ∈ names db) := by
    rw [unv_pos_iff, tcEntries_eq, any_markAll _ _ hv (entries_unvisited _) Field.required, List.any_eq_true]
    constructor
    · rintro ⟨e, he, hp⟩ hall
      obtain ⟨p, hp', hs, rfl⟩ := mem_entries.mp he
      obtain ⟨f, hf, rfl⟩ := List.mem_map.mp hp'
      simp only [Bool.and_eq_true, Bool.not_eq_true'] at hp
      have := hall f hf hp.2
      simp only [names] at this
      have hc : (db.map (·.name)).contains f.col = true := by simpa using this
      rw [hc] at hp
      exact absurd hp.1 (by simp)
    · intro hnot
      have ⟨f, hf, hr, hn⟩ : ∃ f ∈ d.fields, f.required = true ∧ f.col ∉ names db := by
        by_cases h : ∃ f ∈ d.fields, f.required = true ∧ f.col ∉ names db
        · exact h
        · exfalso
          apply hnot
          intro f hf hr
          by_cases hin : f.col ∈ names db
          · exact hin
          · exact absurd ⟨f, hf, hr, hin⟩ h
      have hs : f.skip = false := by
        simp only [Field.required, Bool.and_eq_true, Bool.not_eq_true'] at hr; exact hr.1
      refine ⟨⟨f, none, false⟩, mem_entries.mpr ⟨(f, none), List.mem_map.mpr ⟨f, hf, rfl⟩, hs, rfl⟩, ?_⟩
      simp only [names] at hn
      have hc : (db.map (·.name)).contains f.col = false := by simpa using hn
      show (!(db.map (·.name)).contains f.col && f.required) = true
      rw [hc, hr]; rfl
  cases hloop : dvTcLoop d.forbidExcess db (tcEntries d.fields) (requiredCount d.fields) with
  | error x =>
    rw [hloop] at hcl
    simp only [okOpt] at hcl
    have hfalse : tcOkList d.forbidExcess (fieldFor (slots d.fields)) [] db = false := by
      cases h : tcOkList d.forbidExcess (fieldFor (slots d.fields)) [] db with
      | false => rfl
      | true => rw [h] at hcl; simp at hcl
    simp only [reduceCtorEq, false_iff]
    rintro ⟨h1, h2, _⟩
    rw [← Bool.not_eq_true] at hfalse
    exact hfalse (hok.mpr ⟨h1, h2⟩)
  | ok r =>
    obtain ⟨es', rem'⟩ := r
    rw [hloop] at hcl
    simp only [okOpt] at hcl
    have htrue : tcOkList d.forbidExcess (fieldFor (slots d.fields)) [] db = true := by
      cases h : tcOkList d.forbidExcess (fieldFor (slots d.fields)) [] db with
      | true => rfl
      | false => rw [h] at hcl; simp at hcl
    rw [htrue] at hcl
    simp only [if_true, Option.some.injEq, Prod.mk.injEq] at hcl
    obtain ⟨_, hr⟩ := hcl
    have ⟨h1, h2⟩ := hok.mp htrue
    simp only []
    by_cases hpos : rem' > 0
    · simp only [hpos, if_true, reduceCtorEq, false_iff]
      rintro ⟨_, _, h3⟩
      rw [hr] at hpos
      exact (hrem.mp hpos) h3
    · simp only [hpos, if_false, true_iff]
      refine ⟨h1, h2, ?_⟩
      rw [hr] at hpos
      by_cases h3 : ∀ f ∈ d.fields, f.required = true → f.col ∈ names db
      · exact h3
      · exact absurd (hrem.mpr h3) hpos

/-! ### `#[derive(DeserializeValue)]`, by name: each field is filled from the like-named column -/

/-- the cell the database sends under the name `n` (`none`: no such column); a column beyond the serialized
cells counts as null, as `UdtIterator` + `value.flatten()` treat it -/
def cellFor (db : List Col) (cells : List Cell) (n : String) : Option Cell :=
  ((udtItems db cells).find? (fun it => it.1.name == n)).map (·.2)

/-- documented result for one field: `skip` ↦ default; listed column ↦ its cell deserialized (`default_when_null`
turning null into the default); column not listed ↦ default (`allow_missing`) -/
def fieldResult (db : List Col) (cells : List Cell) (f : Field) : Option Val :=
  if f.skip then some (defaultVal f)
  else match cellFor db cells f.col with
    | some cell => deValD f cell
    | none => some (defaultVal f)

private theorem udtItems_fst (db : List Col) : ∀ cells, (udtItems db cells).map (·.1) = db := by
  induction db with
  | nil => intro cells; rfl
  | cons c cs ih => intro cells; cases cells <;> simp [udtItems, ih]

private theorem find_unique (items : List (Col × Cell)) (q : String → Bool)
    (hnd : ((items.filter (fun it => q it.1.name)).map (fun it => it.1.name)).Nodup)
    (it : Col × Cell) (hit : it ∈ items) (hq : q it.1.name = true) :
    items.find? (fun x => x.1.name == it.1.name) = some it := by
  induction items with
  | nil => cases hit
  | cons a rest ih =>
    rw [List.find?_cons]
    rw [List.filter_cons] at hnd
    by_cases hn : a.1.name = it.1.name
    · simp only [hn, beq_self_eq_true]
      rw [hn, hq] at hnd
      simp only [if_true, List.map_cons, List.nodup_cons] at hnd
      rcases List.mem_cons.mp hit with rfl | hin
      · rfl
      · exfalso
        apply hnd.1
        rw [hn]
        exact List.mem_map.mpr ⟨it, List.mem_filter.mpr ⟨hin, hq⟩, rfl⟩
    · have hb : (a.1.name == it.1.name) = false := by simpa using hn
      simp only [hb]
      have hin : it ∈ rest := by
        rcases List.mem_cons.mp hit with rfl | hin
        · exact absurd rfl hn
        · exact hin
      apply ih _ hin
      split at hnd
      · simp only [List.map_cons, List.nodup_cons] at hnd; exact hnd.2
      · exact hnd

private theorem dvFinalize_spec (es' : List Entry) (fields : List Field)
    (h : ∀ f ∈ fields, f.skip = false →
      ∃ e, lookupE f.col es' = some e ∧ (e.visited = true ∨ f.allowMissing = true)) :
    dvFinalize es' fields = .ok (fields.map (fun f =>
      if f.skip then defaultVal f
      else match lookupE f.col es' with
        | some e => if e.visited then e.v else defaultVal f
        | none => defaultVal f)) := by
  induction fields with
  | nil => rfl
  | cons f fs ih =>
    unfold dvFinalize
    rw [ih (fun g hg => h g (List.mem_cons_of_mem _ hg))]
    by_cases hs : f.skip = true
    · simp [hs]
    · simp only [Bool.not_eq_true] at hs
      obtain ⟨e, he, hor⟩ := h f (List.mem_cons_self ..) hs
      simp only [hs, Bool.false_eq_true, if_false, he, List.map_cons]
      by_cases hv : e.visited = true
      · simp [hv]
      · simp only [Bool.not_eq_true] at hv
        rcases hor with h1 | h2
        · rw [h1] at hv; cases hv
        · simp [hv, h2]

/-- by-name UDT deserialization in closed form: after a successful `type_check`, if every bound cell
deserializes, each field holds `fieldResult` — the like-named column's value wherever the database lists it
(`skip` / missing `allow_missing` ↦ default, null with `default_when_null` ↦ default). -/
theorem deserValueByName_spec (d : Desc) (db : List Col) (cells : List Cell)
    (hfl : d.flavor = .byName) (hv : ValidNames (slots d.fields))
    (htc : tcValueByName d db = .ok ())
    (hall : ∀ f ∈ d.fields, (fieldResult db cells f).isSome = true) :
    deserValue d db cells = .ok (d.fields.map (fun f => (fieldResult db cells f).getD none)) := by
  unfold deserValue
  rw [hfl]
  simp only [htc]
  obtain ⟨_, hnd, hreq⟩ := (tcValueByName_accepts_iff d db hv).mp htc
  unfold deValueByName
  have hlook : ∀ n, (lookupE n (tcEntries d.fields)).isSome = (fieldFor (slots d.fields) n).isSome := by
    intro n
    have := congrFun (show fv (tcEntries d.fields) = fieldFor (slots d.fields) from by
      funext n; rw [tcEntries_eq, fv_entries]) n
    rw [← this]; unfold fv; cases lookupE n (tcEntries d.fields) <;> rfl
  -- the entry of a non-skipped field
  have hentry : ∀ f ∈ d.fields, f.skip = false → lookupE f.col (tcEntries d.fields) = some ⟨f, none, false⟩ := by
    intro f hf hs
    rw [tcEntries_eq]
    exact lookupE_of_mem hv (e := ⟨f, none, false⟩)
      (mem_entries.mpr ⟨(f, none), List.mem_map.mpr ⟨f, hf, rfl⟩, hs, rfl⟩)
  have hitems_nd : (((udtItems db cells).filter (fun it => (lookupE it.1.name (tcEntries d.fields)).isSome)).map
      (fun it => it.1.name)).Nodup := by
    have h1 : ((udtItems db cells).filter (fun it => (lookupE it.1.name (tcEntries d.fields)).isSome)).map
        (fun it => it.1.name) = matchedNames (fieldFor (slots d.fields)) db := by
      unfold matchedNames
      conv => rhs; rw [← udtItems_fst db cells, List.filter_map, List.map_map]
      congr 1
      apply List.filter_congr
      intro it _
      simp [Function.comp, hlook]
    rw [h1]; exact hnd
  -- every bound cell deserializes (from `hall`)
  have hcell : ∀ it ∈ udtItems db cells, ∀ e, lookupE it.1.name (tcEntries d.fields) = some e →
      e.visited = false ∧ (deValD e.f it.2).isSome = true := by
    intro it hit e he
    have hmem := (lookupE_some he).2
    rw [tcEntries_eq] at hmem
    obtain ⟨p, hp, hs, rfl⟩ := mem_entries.mp hmem
    obtain ⟨f, hf, rfl⟩ := List.mem_map.mp hp
    refine ⟨rfl, ?_⟩
    have hname : f.col = it.1.name := (lookupE_some he).1
    have hfind := find_unique (udtItems db cells) (fun n => (lookupE n (tcEntries d.fields)).isSome)
      hitems_nd it hit (by simp [he])
    have := hall f hf
    have hs' : f.skip = false := hs
    unfold fieldResult cellFor at this
    simp only [hs', Bool.false_eq_true, if_false, hname, hfind, Option.map_some] at this
    exact this
  obtain ⟨es', hes'⟩ := dvDeLoop_ok (udtItems db cells) (tcEntries d.fields) hitems_nd hcell
  rw [hes']
  simp only []
  have hlk := dvDeLoop_lookup (udtItems db cells) (tcEntries d.fields) es' hes'
  -- what the finalizers see
  have hfin : ∀ f ∈ d.fields, f.skip = false →
      lookupE f.col es' = match (udtItems db cells).find? (fun it => it.1.name == f.col) with
        | some it => (deValD f it.2).map (fun v => setV v ⟨f, none, false⟩)
        | none => some ⟨f, none, false⟩ := by
    intro f hf hs
    rw [hlk f.col, hentry f hf hs]
    cases (udtItems db cells).find? (fun it => it.1.name == f.col) <;> rfl
  rw [dvFinalize_spec es' d.fields]
  · congr 1
    apply List.map_congr_left
    intro f hf
    by_cases hs : f.skip = true
    · simp [hs, fieldResult]
    · simp only [Bool.not_eq_true] at hs
      have h1 := hfin f hf hs
      have h2 := hall f hf
      unfold fieldResult cellFor at h2 ⊢
      simp only [hs, Bool.false_eq_true, if_false] at h2 ⊢
      rw [h1]
      cases hfd : (udtItems db cells).find? (fun it => it.1.name == f.col) with
      | none => simp
      | some it =>
        rw [hfd] at h2
        simp only [Option.map_some] at h2 ⊢
        cases hdv : deValD f it.2 with
        | none => rw [hdv] at h2; cases h2
        | some v => simp [setV]
  · intro f hf hs
    have h1 := hfin f hf hs
    have h2 := hall f hf
    unfold fieldResult cellFor at h2
    simp only [hs, Bool.false_eq_true, if_false] at h2
    cases hfd : (udtItems db cells).find? (fun it => it.1.name == f.col) with
    | some it =>
      rw [hfd] at h1 h2
      simp only [Option.map_some] at h2
      cases hdv : deValD f it.2 with
      | none => rw [hdv] at h2; cases h2
      | some v => exact ⟨setV v ⟨f, none, false⟩, by rw [h1]; simp only [hdv, Option.map_some], Or.inl rfl⟩
    | none =>
      rw [hfd] at h1
      refine ⟨_, h1, Or.inr ?_⟩
      -- a field whose column is not listed passed the type check only with `allow_missing`
      by_cases ha : f.allowMissing = true
      · exact ha
      · exfalso
        have hr : f.required = true := by simp [Field.required, hs, ha]
        have hin := hreq f hf hr
        simp only [names, List.mem_map] at hin
        obtain ⟨c, hc, hcn⟩ := hin
        have : c ∈ (udtItems db cells).map (·.1) := by rw [udtItems_fst]; exact hc
        obtain ⟨it, hit, rfl⟩ := List.mem_map.mp this
        have := List.find?_eq_none.mp hfd it hit
        simp [hcn] at this

/-! ### round trip: value → cells → value is the identity, in any database order -/

/-- a value the Rust type can hold: `None` only for `Option<T>`, a payload of the type's width otherwise -/
def WellTyped (f : Field) (v : Val) : Prop :=
  match v with
  | none => f.opt = true
  | some b => decodeOk f.ty b = true

private theorem fieldFor_slots (fvs : List (Field × Val)) (n : String) :
    fieldFor (slots (fvs.map (·.1))) n = (fieldFor fvs n).map (fun p => (p.1, none)) := by
  unfold fieldFor slots
  induction fvs with
  | nil => rfl
  | cons p ps ih =>
    simp only [List.map_cons, List.find?_cons]
    split
    · rfl
    · exact ih

private theorem entries_slots_cols (fvs : List (Field × Val)) :
    (entries (slots (fvs.map (·.1)))).map (fun e => e.f.col) = (entries fvs).map (fun e => e.f.col) := by
  unfold entries slots
  induction fvs with
  | nil => rfl
  | cons p ps ih =>
    simp only [List.map_cons, List.filter_cons]
    split
    · simp only [List.map_cons]; congr 1
    · exact ih

private theorem fieldFor_of_mem {fvs : List (Field × Val)} (hv : ValidNames fvs) {p : Field × Val}
    (hp : p ∈ fvs) (hs : p.1.skip = false) : fieldFor fvs p.1.col = some p := by
  rw [← fv_entries]
  unfold fv
  rw [lookupE_of_mem hv (e := ⟨p.1, p.2, false⟩) (mem_entries.mpr ⟨p, hp, hs, rfl⟩)]
  rfl

private theorem udtItems_find (db : List Col) : ∀ (cells : List Cell) (n : String) (it : Col × Cell),
    (udtItems db cells).find? (fun x => x.1.name == n) = some it →
      ∃ i : Nat, db[i]? = some it.1 ∧ it.2 = (cells[i]?).getD none := by
  induction db with
  | nil => intro cells n it h; simp [udtItems] at h
  | cons c cs ih =>
    intro cells n it h
    cases cells with
    | nil =>
      simp only [udtItems, List.find?_cons] at h
      split at h
      · cases h; exact ⟨0, rfl, rfl⟩
      · obtain ⟨i, h1, h2⟩ := ih [] n it h
        exact ⟨i + 1, by simpa using h1, by simpa using h2⟩
    | cons x xs =>
      simp only [udtItems, List.find?_cons] at h
      split at h
      · cases h; exact ⟨0, rfl, rfl⟩
      · obtain ⟨i, h1, h2⟩ := ih xs n it h
        exact ⟨i + 1, by simpa using h1, by simpa using h2⟩

private theorem deValD_wellTyped (f : Field) (v : Val) (h : WellTyped f v) : deValD f v = some v := by
  unfold deValD
  cases v with
  | none =>
    have ho : f.opt = true := h
    by_cases hd : f.defaultWhenNull = true
    · simp [hd, defaultVal, ho]
    · simp [hd, deVal, ho]
  | some b =>
    have hb : decodeOk f.ty b = true := h
    simp [deVal, hb]

/-- `byname_roundtrip`: for a by-name struct, whatever the order in which the database lists the columns
(no name twice, column types those of the like-named fields): if serialization succeeds, type check +
deserialization of the written cells succeed and give back every field's value — `skip` fields and
`allow_missing` fields whose column is not listed come back as `Default::default()`. -/
theorem byname_roundtrip (d : Desc) (fvs : List (Field × Val)) (db : List Col) (cells : List Cell)
    (hfl : d.flavor = .byName) (hfields : d.fields = fvs.map (·.1)) (hv : ValidNames fvs)
    (hdb : (names db).Nodup)
    (htypes : ∀ c ∈ db, ∀ f v, fieldFor fvs c.name = some (f, v) → f.ty = c.ty)
    (hwt : ∀ p ∈ fvs, WellTyped p.1 p.2)
    (hser : serValue d fvs db = .ok cells) :
    deserValue d db cells =
      .ok (fvs.map (fun p => if p.1.skip || !(names db).contains p.1.col then defaultVal p.1 else p.2)) := by
  have hser' : serValueByName d fvs db = .ok cells := by unfold serValue at hser; rw [hfl] at hser; exact hser
  obtain ⟨hacc, hreq⟩ := (serValueByName_accepts_iff d fvs db hv).mp ⟨cells, hser'⟩
  have hv' : ValidNames (slots d.fields) := by
    unfold ValidNames; rw [hfields, entries_slots_cols]; exact hv
  -- the type check passes
  have htc : tcValueByName d db = .ok () := by
    apply (tcValueByName_accepts_iff d db hv').mpr
    refine ⟨?_, ?_, ?_⟩
    · intro c hc
      unfold TcColAccepted
      rw [hfields, fieldFor_slots]
      have := hacc c hc
      unfold ColAccepted at this
      cases hf : fieldFor fvs c.name with
      | none => rw [hf] at this; simpa using this
      | some p => obtain ⟨f, v⟩ := p; simpa using htypes c hc f v hf
    · unfold matchedNames
      exact List.Nodup.sublist ((List.filter_sublist).map _) hdb
    · intro f hf hr
      rw [hfields] at hf
      obtain ⟨p, hp, rfl⟩ := List.mem_map.mp hf
      simp only [Field.required, Bool.and_eq_true, Bool.not_eq_true'] at hr
      exact hreq p hp hr.1 hr.2
  -- every field's documented result is its own value
  have hres : ∀ p ∈ fvs, fieldResult db cells p.1 =
      some (if p.1.skip || !(names db).contains p.1.col then defaultVal p.1 else p.2) := by
    intro p hp
    unfold fieldResult
    by_cases hs : p.1.skip = true
    · simp [hs]
    · simp only [Bool.not_eq_true] at hs
      simp only [hs, Bool.false_eq_true, if_false, Bool.false_or]
      unfold cellFor
      cases hfd : (udtItems db cells).find? (fun it => it.1.name == p.1.col) with
      | none =>
        have : (names db).contains p.1.col = false := by
          rw [← Bool.not_eq_true]
          intro hc
          have hin : p.1.col ∈ names db := by simpa using hc
          simp only [names, List.mem_map] at hin
          obtain ⟨c, hc', hcn⟩ := hin
          have : c ∈ (udtItems db cells).map (·.1) := by rw [udtItems_fst]; exact hc'
          obtain ⟨it, hit, rfl⟩ := List.mem_map.mp this
          have := List.find?_eq_none.mp hfd it hit
          simp [hcn] at this
        rw [this]; rfl
      | some it =>
        have hname : it.1.name = p.1.col := by simpa using List.find?_some hfd
        obtain ⟨i, hi, hcell⟩ := udtItems_find db cells _ it hfd
        have hin : (names db).contains p.1.col = true := by
          simp only [List.contains_iff_mem, names, List.mem_map]
          exact ⟨it.1, List.mem_of_getElem? hi, hname⟩
        have hpos := serValueByName_position d fvs db cells hv hser' i it.1 p.1 p.2 hi
          (by rw [hname]; exact fieldFor_of_mem hv hp hs)
        simp only [Option.map_some, hin, Bool.not_true, Bool.false_eq_true, if_false]
        rw [hcell, hpos]
        exact deValD_wellTyped p.1 p.2 (hwt p hp)
  rw [deserValueByName_spec d db cells hfl hv' htc]
  · rw [hfields, List.map_map]
    congr 1
    apply List.map_congr_left
    intro p hp
    simp only [Function.comp, hres p hp, Option.getD_some]
  · intro f hf
    rw [hfields] at hf
    obtain ⟨p, hp, rfl⟩ := List.mem_map.mp hf
    rw [hres p hp]; rfl

/-! ### order independence (type check) -/

/-- the by-name type check does not depend on the order in which the database lists the fields -/
theorem tcValueByName_perm (d : Desc) (db db' : List Col) (hv : ValidNames (slots d.fields)) (hp : db.Perm db') :
    tcValueByName d db = .ok () ↔ tcValueByName d db' = .ok () := by
  rw [tcValueByName_accepts_iff d db hv, tcValueByName_accepts_iff d db' hv]
  have hm : ∀ c, c ∈ db ↔ c ∈ db' := fun c => hp.mem_iff
  have hn : ∀ n, n ∈ names db ↔ n ∈ names db' := fun n => (hp.map _).mem_iff
  have hnd : (matchedNames (fieldFor (slots d.fields)) db).Nodup ↔
      (matchedNames (fieldFor (slots d.fields)) db').Nodup := ((hp.filter _).map _).nodup_iff
  constructor
  · rintro ⟨h1, h2, h3⟩
    exact ⟨fun c hc => h1 c ((hm c).mpr hc), hnd.mp h2, fun f hf hr => (hn _).mp (h3 f hf hr)⟩
  · rintro ⟨h1, h2, h3⟩
    exact ⟨fun c hc => h1 c ((hm c).mp hc), hnd.mpr h2, fun f hf hr => (hn _).mpr (h3 f hf hr)⟩

/-! ### the ordered flavor accepts only the declared order -/

/-- `ordered_accepts_exactly`, soundness (names checked): whenever ordered UDT serialization succeeds, the
database names split into `m ++ rest` where `m` is a subsequence of the declared names IN DECLARED ORDER
containing every field without `allow_missing`, one cell is written per element of `m`, and `rest` (excess
fields at the end) is empty under `forbid_excess_udt_fields`. -/
theorem svOrdered_sound (forbid : Bool) (fs : List (Field × Val)) : ∀ (db : List Col) (cells : List Cell),
    svOrdered false forbid fs db = .ok cells →
    ∃ m rest, names db = m ++ rest ∧ m.Sublist (fs.map (·.1.col)) ∧
      (∀ p ∈ fs, p.1.allowMissing = false → p.1.col ∈ m) ∧ (forbid = true → rest = []) ∧
      cells.length = m.length := by
  induction fs with
  | nil =>
    intro db cells h
    unfold svOrdered at h
    refine ⟨[], names db, rfl, List.Sublist.slnil, by simp, ?_, ?_⟩
    · intro hf
      rw [hf] at h
      cases db with
      | nil => rfl
      | cons c cs => simp at h
    · cases forbid <;> cases db <;> simp at h <;> simp [← h]
  | cons p fs ih =>
    intro db cells h
    obtain ⟨f, v⟩ := p
    cases db with
    | nil =>
      unfold svOrdered at h
      by_cases ha : f.allowMissing = true
      · simp only [ha, if_true] at h
        obtain ⟨m, rest, h1, h2, h3, h4, h5⟩ := ih [] cells h
        refine ⟨m, rest, h1, h2.cons _, ?_, h4, h5⟩
        intro q hq hqa
        rcases List.mem_cons.mp hq with rfl | hin
        · rw [ha] at hqa; cases hqa
        · exact h3 q hin hqa
      · simp [ha] at h
    | cons c cs =>
      unfold svOrdered at h
      simp only [Bool.false_or] at h
      by_cases hn : c.name = f.col
      · simp only [hn, beq_self_eq_true, if_true] at h
        cases hs : serVal f v c.ty with
        | none => rw [hs] at h; cases h
        | some cell =>
          rw [hs] at h
          simp only [] at h
          cases hr : svOrdered false forbid fs cs with
          | error x => rw [hr] at h; cases h
          | ok cells' =>
            rw [hr] at h
            cases h
            obtain ⟨m, rest, h1, h2, h3, h4, h5⟩ := ih cs cells' hr
            refine ⟨f.col :: m, rest, by simp [names, hn] at h1 ⊢; exact h1, h2.cons_cons _, ?_, h4, by simp [h5]⟩
            intro q hq hqa
            rcases List.mem_cons.mp hq with rfl | hin
            · exact List.mem_cons_self ..
            · exact List.mem_cons_of_mem _ (h3 q hin hqa)
      · have hb : (c.name == f.col) = false := by simpa using hn
        simp only [hb, Bool.false_eq_true, if_false] at h
        by_cases ha : f.allowMissing = true
        · simp only [ha, if_true] at h
          obtain ⟨m, rest, h1, h2, h3, h4, h5⟩ := ih (c :: cs) cells h
          refine ⟨m, rest, h1, h2.cons _, ?_, h4, h5⟩
          intro q hq hqa
          rcases List.mem_cons.mp hq with rfl | hin
          · rw [ha] at hqa; cases hqa
          · exact h3 q hin hqa
        · simp [ha] at h

/-- the same for the ordered UDT type check (`saved_cql_field` walk) -/
theorem dvTcOrd_sound (forbid : Bool) (fs : List Field) : ∀ (db : List Col),
    dvTcOrd false forbid fs db = .ok () →
    ∃ m rest, names db = m ++ rest ∧ m.Sublist (fs.map Field.col) ∧
      (∀ f ∈ fs, f.allowMissing = false → f.col ∈ m) ∧ (forbid = true → rest = []) := by
  induction fs with
  | nil =>
    intro db h
    unfold dvTcOrd at h
    refine ⟨[], names db, rfl, List.Sublist.slnil, by simp, ?_⟩
    intro hf
    rw [hf] at h
    cases db with
    | nil => rfl
    | cons c cs => simp at h
  | cons f fs ih =>
    intro db h
    cases db with
    | nil =>
      unfold dvTcOrd at h
      by_cases ha : f.allowMissing = true
      · simp only [ha, if_true] at h
        obtain ⟨m, rest, h1, h2, h3, h4⟩ := ih [] h
        refine ⟨m, rest, h1, h2.cons _, ?_, h4⟩
        intro q hq hqa
        rcases List.mem_cons.mp hq with rfl | hin
        · rw [ha] at hqa; cases hqa
        · exact h3 q hin hqa
      · simp [ha] at h
    | cons c cs =>
      unfold dvTcOrd at h
      simp only [Bool.not_false, Bool.true_and] at h
      by_cases hn : f.col = c.name
      · have hb : (f.col != c.name) = false := by simp [hn]
        simp only [hb, Bool.false_eq_true, if_false] at h
        split at h
        · cases h
        · obtain ⟨m, rest, h1, h2, h3, h4⟩ := ih cs h
          refine ⟨f.col :: m, rest, by simp [names, hn] at h1 ⊢; exact h1, h2.cons_cons _, ?_, h4⟩
          intro q hq hqa
          rcases List.mem_cons.mp hq with rfl | hin
          · exact List.mem_cons_self ..
          · exact List.mem_cons_of_mem _ (h3 q hin hqa)
      · have hb : (f.col != c.name) = true := by simp [hn]
        simp only [hb, if_true] at h
        by_cases ha : f.allowMissing = true
        · simp only [ha, if_true] at h
          obtain ⟨m, rest, h1, h2, h3, h4⟩ := ih (c :: cs) h
          refine ⟨m, rest, h1, h2.cons _, ?_, h4⟩
          intro q hq hqa
          rcases List.mem_cons.mp hq with rfl | hin
          · rw [ha] at hqa; cases hqa
          · exact h3 q hin hqa
        · simp [ha] at h

/-- completeness for the declared order itself: the database listing exactly the declared fields, in
declared order and with the fields' types, is accepted -/
theorem dvTcOrd_declared (skipNames forbid : Bool) (fs : List Field) :
    dvTcOrd skipNames forbid fs (fs.map (fun f => ⟨f.col, f.ty⟩)) = .ok () := by
  induction fs with
  | nil => cases forbid <;> rfl
  | cons f fs ih =>
    simp only [List.map_cons]
    unfold dvTcOrd
    simp [ih]

/-! ### `#[derive(SerializeRow)]`, by name (no `flatten`): value at the column's position, exact acceptance -/

private def rowErr : Err → Err
  | .svFieldSerFailed => .srColumnSerFailed
  | .svNoSuchField => .srValueMissingForColumn
  | e => e

/-- the row loop is the UDT loop with every excess column forbidden (and its own error names) -/
private theorem srLoop_eq (db : List Col) : ∀ (es : List Entry) (rem : Nat),
    srLoop db es rem = (match svLoop true db es rem 0 with
      | .ok r => .ok r
      | .error x => .error (rowErr x)) := by
  induction db with
  | nil => intro es rem; rfl
  | cons c cs ih =>
    intro es rem
    unfold srLoop svLoop
    cases lookupE c.name es with
    | none => rfl
    | some e =>
      simp only []
      cases serVal e.f e.v c.ty with
      | none => rfl
      | some cell =>
        simp only [ih]
        cases svLoop true cs (markE c.name es) (decr e.visited rem) 0 with
        | error x => rfl
        | ok r => obtain ⟨a, b, c'⟩ := r; simp

private theorem emit_forbid (look : String → Option (Field × Val)) (db : List Col)
    (h : ∀ c ∈ db, (look c.name).isSome = true) : emit look db 0 = db.map (specCell look) := by
  induction db with
  | nil => rfl
  | cons c cs ih =>
    unfold emit
    rw [if_pos (h c (List.mem_cons_self ..)), ih (fun c' hc' => h c' (List.mem_cons_of_mem _ hc'))]
    rfl

/-- by-name row serialization succeeds exactly when every column is bound to a field whose value fits it and
every non-skipped field has its column — in any column order; the cells are then, position by position, the
values of the like-named fields. -/
theorem serRowByName_iff (fvs : List (Field × Val)) (db : List Col) (hv : ValidNames fvs) (cells : List Cell) :
    serRowByName fvs db = .ok cells ↔
      (∀ c ∈ db, ∃ f v, fieldFor fvs c.name = some (f, v) ∧ (v = none ∨ f.ty = c.ty)) ∧
      (∀ p ∈ fvs, p.1.skip = false → p.1.col ∈ names db) ∧
      cells = db.map (fun c => ((fieldFor fvs c.name).map (·.2)).getD none) := by
  unfold serRowByName
  simp only []
  have hlen : (entries fvs).length = unv allTrue (entries fvs) := by
    unfold unv
    rw [List.filter_eq_self.mpr]
    intro e he
    simp [entries_unvisited fvs e he, allTrue]
  rw [srLoop_eq, svLoop_closed true db (entries fvs) _ 0 hlen]
  have hall : db.all (colOk true (fv (entries fvs))) = true ↔
      ∀ c ∈ db, ∃ f v, fieldFor fvs c.name = some (f, v) ∧ (v = none ∨ f.ty = c.ty) := by
    rw [List.all_eq_true]
    apply forall₂_congr
    intro c _
    rw [colOk_iff]
    unfold ColAccepted
    cases fieldFor fvs c.name with
    | none => simp
    | some p =>
      obtain ⟨f, v⟩ := p
      constructor
      · intro h; exact ⟨f, v, rfl, h⟩
      · rintro ⟨f', v', h1, h2⟩; cases h1; exact h2
  have hmiss : unv allTrue (markAll (db.map (·.name)) (entries fvs)) = 0 ↔
      ∀ p ∈ fvs, p.1.skip = false → p.1.col ∈ names db := by
    have h0 : unv allTrue (markAll (db.map (·.name)) (entries fvs)) = 0 ↔
        ¬ (0 < unv allTrue (markAll (db.map (·.name)) (entries fvs))) := by omega
    rw [h0, unv_pos_iff, any_markAll _ _ hv (entries_unvisited fvs) allTrue, Bool.not_eq_true, List.any_eq_false]
    constructor
    · intro h p hp hs
      have := h ⟨p.1, p.2, false⟩ (mem_entries.mpr ⟨p, hp, hs, rfl⟩)
      simpa [allTrue, names] using this
    · intro h e he
      obtain ⟨p, hp, hs, rfl⟩ := mem_entries.mp he
      have := h p hp hs
      simp only [names, List.mem_map] at this
      simp [allTrue, this]
  by_cases ha : db.all (colOk true (fv (entries fvs))) = true
  · rw [if_pos ha]
    simp only []
    have hcells : emit (fv (entries fvs)) db 0 = db.map (fun c => ((fieldFor fvs c.name).map (·.2)).getD none) := by
      rw [emit_forbid]
      · apply List.map_congr_left
        intro c hc
        obtain ⟨f, v, hf, hor⟩ := hall.mp ha c hc
        unfold specCell
        rw [fv_entries, hf]
        simp only [Option.map_some, Option.getD_some]
        cases v with
        | none => simp [serVal]
        | some b =>
          rcases hor with h | h
          · cases h
          · simp [serVal, h]
      · intro c hc
        obtain ⟨f, v, hf, _⟩ := hall.mp ha c hc
        rw [fv_entries, hf]; rfl
    unfold srCheckMissing
    by_cases hz : unv allTrue (markAll (db.map (·.name)) (entries fvs)) = 0
    · simp only [hz, beq_self_eq_true, if_true]
      constructor
      · intro h; cases h; exact ⟨hall.mp ha, hmiss.mp hz, hcells⟩
      · rintro ⟨_, _, h3⟩; rw [h3, hcells]
    · have hb : (unv allTrue (markAll (db.map (·.name)) (entries fvs)) == 0) = false := by simpa using hz
      simp only [hb, Bool.false_eq_true, if_false]
      constructor
      · intro h
        exfalso
        by_cases hany : ((markAll (db.map (·.name)) (entries fvs)).any fun e => !e.visited) = true
        · simp [hany] at h
        · apply hany
          have hpos : 0 < unv allTrue (markAll (db.map (·.name)) (entries fvs)) := by omega
          simpa [allTrue] using (unv_pos_iff allTrue _).mp hpos
      · rintro ⟨_, h2, _⟩; exact absurd (hmiss.mpr h2) hz
  · rw [if_neg ha]
    simp only [reduceCtorEq, false_iff]
    rintro ⟨h1, _, _⟩
    exact ha (hall.mpr h1)

/-! ### by-name UDT deserialization: exact success condition and order independence -/

private theorem tcEntry_lookup (fields : List Field) (hv : ValidNames (slots fields)) (f : Field) (hf : f ∈ fields)
    (hs : f.skip = false) : lookupE f.col (tcEntries fields) = some ⟨f, none, false⟩ := by
  rw [tcEntries_eq]
  exact lookupE_of_mem hv (e := ⟨f, none, false⟩)
    (mem_entries.mpr ⟨(f, none), List.mem_map.mpr ⟨f, hf, rfl⟩, hs, rfl⟩)

/-- `deserValueByName_spec` as an equivalence: type check + deserialization succeed with `vs` exactly when the
type check passes, every bound cell deserializes, and `vs` is the list of the fields' documented results. -/
theorem deserValueByName_iff (d : Desc) (db : List Col) (cells : List Cell) (vs : List Val)
    (hfl : d.flavor = .byName) (hv : ValidNames (slots d.fields)) :
    deserValue d db cells = .ok vs ↔
      tcValueByName d db = .ok () ∧ (∀ f ∈ d.fields, (fieldResult db cells f).isSome = true) ∧
      vs = d.fields.map (fun f => (fieldResult db cells f).getD none) := by
  constructor
  · intro h0
    have h := h0
    unfold deserValue at h
    rw [hfl] at h
    simp only [] at h
    cases htc : tcValueByName d db with
    | error x => rw [htc] at h; cases h
    | ok u =>
      cases u
      rw [htc] at h
      simp only [] at h
      unfold deValueByName at h
      cases hloop : dvDeLoop (udtItems db cells) (tcEntries d.fields) with
      | error x => rw [hloop] at h; cases h
      | ok es' =>
        rw [hloop] at h
        simp only [] at h
        have hlk := dvDeLoop_lookup _ _ es' hloop
        have hsome := dvFinalize_ok_lookup es' d.fields vs h
        have hall : ∀ f ∈ d.fields, (fieldResult db cells f).isSome = true := by
          intro f hf
          unfold fieldResult cellFor
          by_cases hs : f.skip = true
          · simp [hs]
          · simp only [Bool.not_eq_true] at hs
            simp only [hs, Bool.false_eq_true, if_false]
            cases hfd : (udtItems db cells).find? (fun it => it.1.name == f.col) with
            | none => rfl
            | some it =>
              simp only [Option.map_some]
              cases hd : deValD f it.2 with
              | some v => rfl
              | none =>
                exfalso
                have h1 := hlk f.col
                rw [hfd, tcEntry_lookup d.fields hv f hf hs] at h1
                simp only [Option.bind_some, hd, Option.map_none] at h1
                have := hsome f hf hs
                rw [h1] at this
                cases this
        refine ⟨rfl, hall, ?_⟩
        have := deserValueByName_spec d db cells hfl hv htc hall
        rw [h0] at this
        cases this
        rfl
  · rintro ⟨htc, hall, rfl⟩
    exact deserValueByName_spec d db cells hfl hv htc hall

/-- the by-name UDT deserializer never reaches a generated `panic!` / `assert!` ("duplicated field", "field
missing in UDT — type check should have prevented this") — on the ERROR side too: after a successful type
check the only possible failure is `FieldDeserializationFailed`, and the type check itself fails with one of
its own kinds. -/
theorem deserValueByName_no_panic (d : Desc) (db : List Col) (cells : List Cell)
    (hfl : d.flavor = .byName) (hv : ValidNames (slots d.fields)) :
    ∀ x, deserValue d db cells = .error x →
      x ≠ .panic ∧ (tcValueByName d db = .ok () → x = .dvFieldDeserFailed) := by
  intro x h
  unfold deserValue at h
  rw [hfl] at h
  simp only [] at h
  cases htc : tcValueByName d db with
  | error y =>
    rw [htc] at h
    cases h
    refine ⟨?_, fun h' => by cases h'⟩
    unfold tcValueByName at htc
    cases hl : dvTcLoop d.forbidExcess db (tcEntries d.fields) (requiredCount d.fields) with
    | error y' => rw [hl] at htc; cases htc; exact dvTcLoop_err _ _ _ _ _ hl
    | ok r =>
      obtain ⟨es', rem⟩ := r
      rw [hl] at htc
      simp only [] at htc
      split at htc
      · cases htc; simp
      · cases htc
  | ok u =>
    cases u
    rw [htc] at h
    simp only [] at h
    obtain ⟨_, hnd, hreq⟩ := (tcValueByName_accepts_iff d db hv).mp htc
    have hlook : ∀ n, (lookupE n (tcEntries d.fields)).isSome = (fieldFor (slots d.fields) n).isSome := by
      intro n
      have := congrFun (show fv (tcEntries d.fields) = fieldFor (slots d.fields) from by
        funext n; rw [tcEntries_eq, fv_entries]) n
      rw [← this]; unfold fv; cases lookupE n (tcEntries d.fields) <;> rfl
    have hitems_nd : (((udtItems db cells).filter (fun it => (lookupE it.1.name (tcEntries d.fields)).isSome)).map
        (fun it => it.1.name)).Nodup := by
      have h1 : ((udtItems db cells).filter (fun it => (lookupE it.1.name (tcEntries d.fields)).isSome)).map
          (fun it => it.1.name) = matchedNames (fieldFor (slots d.fields)) db := by
        unfold matchedNames
        conv => rhs; rw [← udtItems_fst db cells, List.filter_map, List.map_map]
        congr 1
        apply List.filter_congr
        intro it _
        simp [Function.comp, hlook]
      rw [h1]; exact hnd
    have hunv : ∀ it ∈ udtItems db cells, ∀ e, lookupE it.1.name (tcEntries d.fields) = some e → e.visited = false := by
      intro it _ e he
      have hmem := (lookupE_some he).2
      rw [tcEntries_eq] at hmem
      exact entries_unvisited _ e hmem
    unfold deValueByName at h
    cases hloop : dvDeLoop (udtItems db cells) (tcEntries d.fields) with
    | error y =>
      rw [hloop] at h
      cases h
      have := dvDeLoop_err _ _ _ hitems_nd hunv hloop
      exact ⟨by rw [this]; simp, fun _ => this⟩
    | ok es' =>
      rw [hloop] at h
      simp only [] at h
      exfalso
      have hlk := dvDeLoop_lookup _ _ es' hloop
      have hcols := dvDeLoop_cols _ _ es' hloop
      rw [dvFinalize_spec es' d.fields] at h
      · cases h
      · intro f hf hs
        have h1 := hlk f.col
        rw [tcEntry_lookup d.fields hv f hf hs] at h1
        have hsome : (lookupE f.col es').isSome = true := by
          rw [lookupE_isSome_iff]
          have : f.col ∈ (tcEntries d.fields).map (fun e => e.f.col) := by
            rw [← lookupE_isSome_iff, tcEntry_lookup d.fields hv f hf hs]; rfl
          have hc : es'.map (fun e => e.f.col) = (tcEntries d.fields).map (fun e => e.f.col) := by
            have := congrArg (List.map Field.col) hcols
            simpa [List.map_map, Function.comp_def] using this
          rw [hc]; exact this
        cases hfd : (udtItems db cells).find? (fun it => it.1.name == f.col) with
        | some it =>
          rw [hfd] at h1
          simp only [Option.bind_some] at h1
          cases hdv : deValD f it.2 with
          | none => rw [hdv] at h1; rw [h1] at hsome; cases hsome
          | some v => exact ⟨setV v ⟨f, none, false⟩, by rw [h1, hdv]; rfl, Or.inl rfl⟩
        | none =>
          rw [hfd] at h1
          refine ⟨_, h1, Or.inr ?_⟩
          by_cases ha : f.allowMissing = true
          · exact ha
          · exfalso
            have hr : f.required = true := by simp [Field.required, hs, ha]
            have hin := hreq f hf hr
            simp only [names, List.mem_map] at hin
            obtain ⟨c, hc, hcn⟩ := hin
            have : c ∈ (udtItems db cells).map (·.1) := by rw [udtItems_fst]; exact hc
            obtain ⟨it, hit, rfl⟩ := List.mem_map.mp this
            have := List.find?_eq_none.mp hfd it hit
            simp [hcn] at this

private theorem udtItems_zip (items : List (Col × Cell)) :
    udtItems (items.map (·.1)) (items.map (·.2)) = items := by
  induction items with
  | nil => rfl
  | cons a rest ih => simp [udtItems, ih]

/-- `deserValueByName_perm`: the database may send the (field, cell) pairs in any order — the deserialized
struct is the same -/
theorem deserValueByName_perm (d : Desc) (items items' : List (Col × Cell)) (vs : List Val)
    (hfl : d.flavor = .byName) (hv : ValidNames (slots d.fields)) (hp : items.Perm items') :
    deserValue d (items.map (·.1)) (items.map (·.2)) = .ok vs ↔
      deserValue d (items'.map (·.1)) (items'.map (·.2)) = .ok vs := by
  -- symmetric statement: prove one direction for an arbitrary permutation
  have key : ∀ (a b : List (Col × Cell)), a.Perm b →
      deserValue d (a.map (·.1)) (a.map (·.2)) = .ok vs → deserValue d (b.map (·.1)) (b.map (·.2)) = .ok vs := by
    intro a b hab h
    obtain ⟨htc, hall, hvs⟩ := (deserValueByName_iff d _ _ vs hfl hv).mp h
    have htc' : tcValueByName d (b.map (·.1)) = .ok () :=
      (tcValueByName_perm d _ _ hv (hab.map _)).mp htc
    obtain ⟨_, hnd, _⟩ := (tcValueByName_accepts_iff d _ hv).mp htc
    obtain ⟨_, hnd', _⟩ := (tcValueByName_accepts_iff d _ hv).mp htc'
    -- the cell found under a bound name is the same in both orders
    have hq : ∀ (l : List (Col × Cell)), (matchedNames (fieldFor (slots d.fields)) (l.map (·.1))).Nodup →
        ((l.filter (fun it => (fieldFor (slots d.fields) it.1.name).isSome)).map (fun it => it.1.name)).Nodup := by
      intro l hl
      unfold matchedNames at hl
      rw [List.filter_map, List.map_map] at hl
      exact hl
    have hcell : ∀ f ∈ d.fields, f.skip = false →
        cellFor (b.map (·.1)) (b.map (·.2)) f.col = cellFor (a.map (·.1)) (a.map (·.2)) f.col := by
      intro f hf hs
      unfold cellFor
      rw [udtItems_zip, udtItems_zip]
      have hbound : (fieldFor (slots d.fields) f.col).isSome = true := by
        have := congrFun (show fv (tcEntries d.fields) = fieldFor (slots d.fields) from by
          funext n; rw [tcEntries_eq, fv_entries]) f.col
        rw [← this]; unfold fv; rw [tcEntry_lookup d.fields hv f hf hs]; rfl
      cases hfa : a.find? (fun it => it.1.name == f.col) with
      | some it =>
        have hname : it.1.name = f.col := by simpa using List.find?_some hfa
        have hit : it ∈ b := hab.mem_iff.mp (List.mem_of_find?_eq_some hfa)
        have := find_unique b (fun n => (fieldFor (slots d.fields) n).isSome) (hq b hnd') it hit
          (by rw [hname]; exact hbound)
        rw [hname] at this
        rw [this]
      | none =>
        have : b.find? (fun it => it.1.name == f.col) = none := by
          rw [List.find?_eq_none] at hfa ⊢
          intro it hit
          exact hfa it (hab.mem_iff.mpr hit)
        rw [this]
    have hres : ∀ f ∈ d.fields, fieldResult (b.map (·.1)) (b.map (·.2)) f = fieldResult (a.map (·.1)) (a.map (·.2)) f := by
      intro f hf
      unfold fieldResult
      by_cases hs : f.skip = true
      · simp [hs]
      · simp only [Bool.not_eq_true] at hs
        simp only [hs, Bool.false_eq_true, if_false, hcell f hf hs]
    apply (deserValueByName_iff d _ _ vs hfl hv).mpr
    refine ⟨htc', fun f hf => by rw [hres f hf]; exact hall f hf, ?_⟩
    rw [hvs]
    apply List.map_congr_left
    intro f hf
    rw [hres f hf]
  exact ⟨key items items' hp, key items' items hp.symm⟩

/-! ### `#[derive(DeserializeRow)]`, by name -/

/-- what the row macros accept: there is no `allow_missing` attribute for rows -/
def RowFields (fields : List Field) : Prop := ∀ f ∈ fields, f.allowMissing = false

/-- the UDT descriptor a row descriptor behaves like: every excess column is forbidden -/
def asUdt (d : Desc) : Desc := { d with forbidExcess := true }

private theorem dvFinalize_err (es : List Entry) (fields : List Field) :
    ∀ x, dvFinalize es fields = .error x → x = .panic := by
  induction fields with
  | nil => intro x h; cases h
  | cons f fs ih =>
    intro x h
    unfold dvFinalize at h
    simp only [] at h
    split at h
    · rename_i x' hhead
      cases h
      split at hhead
      · cases hhead
      · split at hhead
        · split at hhead
          · cases hhead
          · split at hhead
            · cases hhead
            · cases hhead; rfl
        · cases hhead; rfl
    · split at h
      · rename_i x' hr
        cases h
        exact ih _ hr
      · cases h

private theorem mapErr_dvFinalize (es : List Entry) (fields : List Field) :
    mapErr rowErrOf (dvFinalize es fields) = dvFinalize es fields := by
  cases h : dvFinalize es fields with
  | ok v => rfl
  | error x => rw [dvFinalize_err es fields x h]; rfl

private theorem rowRequired_eq (fields : List Field) (hr : RowFields fields) :
    rowRequiredCount fields = requiredCount fields := by
  unfold rowRequiredCount requiredCount
  congr 1
  apply List.filter_congr
  intro f hf
  simp [Field.required, hr f hf]

/-- the by-name row type check is the by-name UDT type check with excess columns forbidden -/
theorem tcRowByName_eq (d : Desc) (db : List Col) (hr : RowFields d.fields) :
    tcRowByName d db = mapErr rowErrOf (tcValueByName (asUdt d) db) := by
  unfold tcRowByName tcValueByName
  rw [rowRequired_eq d.fields hr]
  have hreq : ∀ e ∈ tcEntries d.fields, e.f.required = true := by
    intro e he
    rw [tcEntries_eq] at he
    obtain ⟨p, hp, hs, rfl⟩ := mem_entries.mp he
    obtain ⟨f, hf, rfl⟩ := List.mem_map.mp hp
    have hs' : f.skip = false := hs
    simp [Field.required, hs', hr f hf]
  rw [drTcLoop_eq db _ _ hreq]
  show _ = mapErr rowErrOf (match dvTcLoop true db (tcEntries d.fields) (requiredCount d.fields) with
    | .error x => .error x
    | .ok (_, rem) => if rem > 0 then .error .dvValuesMissing else .ok ())
  cases dvTcLoop true db (tcEntries d.fields) (requiredCount d.fields) with
  | error x => rfl
  | ok r =>
    obtain ⟨es', rem⟩ := r
    simp only [mapErr]
    by_cases h : rem > 0 <;> simp [h, mapErr, rowErrOf]

/-- `tcRowByName_accepts_iff`: the by-name row type check succeeds exactly when every column is bound to a
field of the column's type (rows REJECT excess columns: `ColumnWithUnknownName`), no column name occurs twice,
and every non-skipped field has its column — in any column order. -/
theorem tcRowByName_accepts_iff (d : Desc) (db : List Col) (hr : RowFields d.fields)
    (hv : ValidNames (slots d.fields)) :
    tcRowByName d db = .ok () ↔
      (∀ c ∈ db, ∃ f v, fieldFor (slots d.fields) c.name = some (f, v) ∧ f.ty = c.ty) ∧
      (names db).Nodup ∧
      (∀ f ∈ d.fields, f.skip = false → f.col ∈ names db) := by
  rw [tcRowByName_eq d db hr, mapErr_ok_iff, tcValueByName_accepts_iff (asUdt d) db hv]
  have hcol : ∀ c, TcColAccepted (asUdt d) c ↔ ∃ f v, fieldFor (slots d.fields) c.name = some (f, v) ∧ f.ty = c.ty := by
    intro c
    unfold TcColAccepted asUdt
    simp only []
    cases fieldFor (slots d.fields) c.name with
    | none => simp
    | some p =>
      obtain ⟨f, v⟩ := p
      constructor
      · intro h; exact ⟨f, v, rfl, h⟩
      · rintro ⟨f', v', h1, h2⟩; cases h1; exact h2
  have hreq : (∀ f ∈ d.fields, f.required = true → f.col ∈ names db) ↔
      (∀ f ∈ d.fields, f.skip = false → f.col ∈ names db) := by
    apply forall₂_congr
    intro f hf
    simp [Field.required, hr f hf]
  constructor
  · rintro ⟨h1, h2, h3⟩
    have h1' := fun c hc => (hcol c).mp (h1 c hc)
    refine ⟨h1', ?_, hreq.mp h3⟩
    have : matchedNames (fieldFor (slots d.fields)) db = names db := by
      unfold matchedNames names
      rw [List.filter_eq_self.mpr]
      intro c hc
      obtain ⟨f, v, hf, _⟩ := h1' c hc
      simp [hf]
    rw [← this]; exact h2
  · rintro ⟨h1, h2, h3⟩
    refine ⟨fun c hc => (hcol c).mpr (h1 c hc), ?_, hreq.mpr h3⟩
    unfold matchedNames
    exact List.Nodup.sublist ((List.filter_sublist).map _) h2

/-- the by-name row type check does not depend on the column order -/
theorem tcRowByName_perm (d : Desc) (db db' : List Col) (hr : RowFields d.fields)
    (hv : ValidNames (slots d.fields)) (hp : db.Perm db') :
    tcRowByName d db = .ok () ↔ tcRowByName d db' = .ok () := by
  rw [tcRowByName_eq d db hr, tcRowByName_eq d db' hr, mapErr_ok_iff, mapErr_ok_iff]
  exact tcValueByName_perm (asUdt d) db db' hv hp

/-- type check + deserialization of a row by name = those of the UDT code with excess forbidden, when the
row carries a cell for every column (error kinds renamed) -/
theorem deserRow_eq_value (d : Desc) (db : List Col) (cells : List Cell) (hfl : d.flavor = .byName)
    (hr : RowFields d.fields) (hv : ValidNames (slots d.fields)) (hlen : db.length ≤ cells.length) :
    deserRow d db cells = mapErr rowErrOf (deserValue (asUdt d) db cells) := by
  unfold deserRow deserValue
  have hfl' : (asUdt d).flavor = .byName := hfl
  rw [hfl, hfl', tcRowByName_eq d db hr]
  simp only []
  cases htc : tcValueByName (asUdt d) db with
  | error x => rfl
  | ok u =>
    cases u
    simp only [mapErr]
    obtain ⟨hcols, _, _⟩ := (tcValueByName_accepts_iff (asUdt d) db hv).mp htc
    unfold deRowByName deValueByName
    rw [rowItems_eq db cells hlen]
    have hall : ∀ it ∈ udtItems db cells, (lookupE it.1.name (tcEntries d.fields)).isSome = true := by
      intro it hit
      have hc : it.1 ∈ db := by
        have : it.1 ∈ (udtItems db cells).map (·.1) := List.mem_map_of_mem hit
        rwa [udtItems_fst] at this
      have := hcols it.1 hc
      unfold TcColAccepted at this
      have hlook := congrFun (show fv (tcEntries d.fields) = fieldFor (slots d.fields) from by
        funext n; rw [tcEntries_eq, fv_entries]) it.1.name
      cases hf : fieldFor (slots (asUdt d).fields) it.1.name with
      | none => rw [hf] at this; simp [asUdt] at this
      | some p =>
        have hf' : fieldFor (slots d.fields) it.1.name = some p := hf
        rw [hf'] at hlook
        unfold fv at hlook
        cases hl : lookupE it.1.name (tcEntries d.fields) with
        | none => rw [hl] at hlook; cases hlook
        | some e => rfl
    rw [drDeLoop_eq _ _ hall]
    show _ = mapErr rowErrOf (match dvDeLoop (udtItems db cells) (tcEntries d.fields) with
      | .error x => .error x
      | .ok es => dvFinalize es d.fields)
    cases dvDeLoop (udtItems db cells) (tcEntries d.fields) with
    | error x => rfl
    | ok es =>
      show drFinalize es d.fields = mapErr rowErrOf (dvFinalize es d.fields)
      rw [drFinalize_eq es d.fields hr, mapErr_dvFinalize]

/-- `deserRowByName_spec` (as an equivalence): a row is accepted with result `vs` exactly when the type check
passes, every cell deserializes, and each field holds the like-named column's value (`skip` ↦ default, null
with `default_when_null` ↦ default) — wherever the database lists the column. -/
theorem deserRowByName_iff (d : Desc) (db : List Col) (cells : List Cell) (vs : List Val)
    (hfl : d.flavor = .byName) (hr : RowFields d.fields) (hv : ValidNames (slots d.fields))
    (hlen : db.length ≤ cells.length) :
    deserRow d db cells = .ok vs ↔
      tcRowByName d db = .ok () ∧ (∀ f ∈ d.fields, (fieldResult db cells f).isSome = true) ∧
      vs = d.fields.map (fun f => (fieldResult db cells f).getD none) := by
  rw [deserRow_eq_value d db cells hfl hr hv hlen, mapErr_ok_iff, tcRowByName_eq d db hr, mapErr_ok_iff]
  exact deserValueByName_iff (asUdt d) db cells vs hfl hv

/-- a row with fewer cells than columns is never accepted -/
theorem deserRow_short (d : Desc) (db : List Col) (cells : List Cell) (hfl : d.flavor = .byName)
    (hlen : cells.length < db.length) : ∃ x, deserRow d db cells = .error x := by
  unfold deserRow
  rw [hfl]
  simp only []
  cases tcRowByName d db with
  | error x => exact ⟨x, rfl⟩
  | ok u =>
    simp only []
    unfold deRowByName
    have key : ∀ (db : List Col) (cells : List Cell) (es : List Entry), cells.length < db.length →
        ∃ x, drDeLoop (rowItems db cells) es = .error x := by
      intro db
      induction db with
      | nil => intro cells es h; simp at h
      | cons c cs ih =>
        intro cells es h
        cases cells with
        | nil => exact ⟨_, rfl⟩
        | cons v vs' =>
          simp only [rowItems]
          unfold drDeLoop
          cases lookupE c.name es with
          | none => exact ⟨_, rfl⟩
          | some e =>
            simp only []
            split
            · exact ⟨_, rfl⟩
            · split
              · exact ⟨_, rfl⟩
              · exact ih vs' _ (by simpa using h)
    obtain ⟨x, hx⟩ := key db cells (tcEntries d.fields) hlen
    exact ⟨x, by rw [hx]⟩

/-- `deserRowByName_perm`: the (column, cell) pairs of a row may come in any order -/
theorem deserRowByName_perm (d : Desc) (items items' : List (Col × Cell)) (vs : List Val)
    (hfl : d.flavor = .byName) (hr : RowFields d.fields) (hv : ValidNames (slots d.fields))
    (hp : items.Perm items') :
    deserRow d (items.map (·.1)) (items.map (·.2)) = .ok vs ↔
      deserRow d (items'.map (·.1)) (items'.map (·.2)) = .ok vs := by
  rw [deserRow_eq_value d _ _ hfl hr hv (by simp), deserRow_eq_value d _ _ hfl hr hv (by simp),
    mapErr_ok_iff, mapErr_ok_iff]
  exact deserValueByName_perm (asUdt d) items items' vs hfl hv hp

/-- the by-name row deserializer never reaches a generated `panic!` / `unreachable!` either, whatever the
number of cells -/
theorem deserRowByName_no_panic (d : Desc) (db : List Col) (cells : List Cell) (hfl : d.flavor = .byName)
    (hr : RowFields d.fields) (hv : ValidNames (slots d.fields)) :
    deserRow d db cells ≠ .error .panic := by
  by_cases hlen : db.length ≤ cells.length
  · rw [deserRow_eq_value d db cells hfl hr hv hlen]
    cases h : deserValue (asUdt d) db cells with
    | ok vs => simp [mapErr]
    | error x =>
      have := (deserValueByName_no_panic (asUdt d) db cells hfl hv x h).1
      simp only [mapErr]
      intro hx
      cases x <;> simp [rowErrOf] at hx this
  · intro h
    unfold deserRow at h
    rw [hfl] at h
    simp only [] at h
    cases htc : tcRowByName d db with
    | error x =>
      rw [htc] at h
      simp only [] at h
      cases h
      rw [tcRowByName_eq d db hr] at htc
      cases hv' : tcValueByName (asUdt d) db with
      | ok u => rw [hv'] at htc; cases htc
      | error y =>
        rw [hv'] at htc
        simp only [mapErr] at htc
        have hy : y ≠ .panic := by
          unfold tcValueByName at hv'
          cases hl : dvTcLoop (asUdt d).forbidExcess db (tcEntries (asUdt d).fields) (requiredCount (asUdt d).fields) with
          | error y' => rw [hl] at hv'; cases hv'; exact dvTcLoop_err _ _ _ _ _ hl
          | ok r =>
            obtain ⟨es', rem⟩ := r
            rw [hl] at hv'
            simp only [] at hv'
            split at hv'
            · cases hv'; simp
            · cases hv'
        cases y <;> simp [rowErrOf] at htc hy
    | ok u =>
      cases u
      rw [htc] at h
      simp only [] at h
      obtain ⟨hcols, hnd, _⟩ := (tcRowByName_accepts_iff d db hr hv).mp htc
      unfold deRowByName at h
      cases hloop : drDeLoop (rowItems db cells) (tcEntries d.fields) with
      | error x =>
        rw [hloop] at h
        cases h
        have hfst : ∀ (db : List Col) (cells : List Cell), (rowItems db cells).map (·.1) = db := by
          intro db
          induction db with
          | nil => intro cells; rfl
          | cons c cs ih => intro cells; cases cells <;> simp [rowItems, ih]
        refine drDeLoop_err _ _ _ ?_ ?_ hloop rfl
        · have := congrArg (List.map Col.name) (hfst db cells)
          rw [List.map_map] at this
          rw [show (fun it : Col × Option Cell => it.1.name) = Col.name ∘ (·.1) from rfl, this]
          exact hnd
        · intro it hit
          have hc : it.1 ∈ db := by
            have : it.1 ∈ (rowItems db cells).map (·.1) := List.mem_map_of_mem hit
            rwa [hfst] at this
          obtain ⟨f, v, hf, _⟩ := hcols it.1 hc
          have hlook := congrFun (show fv (tcEntries d.fields) = fieldFor (slots d.fields) from by
            funext n; rw [tcEntries_eq, fv_entries]) it.1.name
          rw [hf] at hlook
          unfold fv at hlook
          cases hl : lookupE it.1.name (tcEntries d.fields) with
          | none => rw [hl] at hlook; cases hlook
          | some e =>
            refine ⟨e, rfl, ?_⟩
            have hmem := (lookupE_some hl).2
            rw [tcEntries_eq] at hmem
            exact entries_unvisited _ e hmem
      | ok es' =>
        -- a successful loop consumed a cell for every column: impossible with too few cells
        exfalso
        have key : ∀ (db : List Col) (cells : List Cell) (es : List Entry), cells.length < db.length →
            ∀ es', drDeLoop (rowItems db cells) es ≠ .ok es' := by
          intro db
          induction db with
          | nil => intro cells es hl; simp at hl
          | cons c cs ih =>
            intro cells es hl es' hok
            cases cells with
            | nil => simp [rowItems, drDeLoop] at hok
            | cons v vs' =>
              simp only [rowItems] at hok
              unfold drDeLoop at hok
              split at hok
              · split at hok
                · cases hok
                · split at hok
                  · cases hok
                  · exact ih vs' _ (by simpa using hl) es' hok
              · cases hok
        exact key db cells _ (by omega) es' hloop

/-- `row_byname_roundtrip`: for a by-name struct deriving SerializeRow + DeserializeRow, whatever the order of
the columns (distinct names, column types those of the like-named fields): if serialization succeeds,
deserializing the written cells gives back every field's value (`skip` fields come back as the default). -/
theorem row_byname_roundtrip (d : Desc) (fvs : List (Field × Val)) (db : List Col) (cells : List Cell)
    (hfl : d.flavor = .byName) (hfields : d.fields = fvs.map (·.1)) (hr : RowFields d.fields)
    (hv : ValidNames fvs) (hdb : (names db).Nodup)
    (htypes : ∀ c ∈ db, ∀ f v, fieldFor fvs c.name = some (f, v) → f.ty = c.ty)
    (hwt : ∀ p ∈ fvs, WellTyped p.1 p.2)
    (hser : serRow d fvs db = .ok cells) :
    deserRow d db cells = .ok (fvs.map (fun p => if p.1.skip then defaultVal p.1 else p.2)) := by
  have hser' : serRowByName fvs db = .ok cells := by unfold serRow at hser; rw [hfl] at hser; exact hser
  obtain ⟨_, hpres, hcells⟩ := (serRowByName_iff fvs db hv cells).mp hser'
  have hlen : db.length ≤ cells.length := by rw [hcells]; simp
  -- the UDT serializer with excess forbidden writes the same cells
  have hsv : serValue (asUdt d) fvs db = .ok cells := by
    unfold serValue
    have : (asUdt d).flavor = .byName := hfl
    rw [this]
    simp only []
    unfold serValueByName
    unfold serRowByName at hser'
    simp only [] at hser' ⊢
    rw [srLoop_eq] at hser'
    show (match svLoop true db (entries fvs) (entries fvs).length 0 with
      | .error x => Except.error x
      | .ok (cells, es', rem) => if svMissing es' rem then Except.error Err.svValueMissing else Except.ok cells) =
        Except.ok cells
    cases hl : svLoop true db (entries fvs) (entries fvs).length 0 with
    | error x => rw [hl] at hser'; cases hser'
    | ok r =>
      obtain ⟨cells0, es', rem⟩ := r
      rw [hl] at hser'
      simp only [] at hser' ⊢
      unfold srCheckMissing at hser'
      by_cases hz : rem = 0
      · subst hz
        simp only [beq_self_eq_true, if_true] at hser'
        cases hser'
        simp [svMissing]
      · have hb : (rem == 0) = false := by simpa using hz
        simp only [hb, Bool.false_eq_true, if_false] at hser'
        by_cases hany : (es'.any fun e => !e.visited) = true
        · simp [hany] at hser'
        · simp [hany] at hser'
          subst hser'
          have hm : svMissing es' rem = false := by
            unfold svMissing
            have : es'.any (fun e => !e.visited && !e.f.allowMissing) = false := by
              simp only [Bool.not_eq_true] at hany
              rw [List.any_eq_false] at hany ⊢
              intro e he
              have := hany e he
              simp only [Bool.not_eq_true, Bool.not_eq_false'] at this
              simp [this]
            simp [this]
          simp [hm]
  have hv' : ValidNames (slots d.fields) := by
    unfold ValidNames; rw [hfields, entries_slots_cols]; exact hv
  have hrt := byname_roundtrip (asUdt d) fvs db cells hfl hfields hv hdb htypes hwt hsv
  rw [deserRow_eq_value d db cells hfl hr hv' hlen, hrt]
  simp only [mapErr]
  congr 1
  apply List.map_congr_left
  intro p hp
  by_cases hs : p.1.skip = true
  · simp [hs]
  · simp only [Bool.not_eq_true] at hs
    have := hpres p hp hs
    have hc : (names db).contains p.1.col = true := by simpa using this
    simp only [hs, hc, Bool.not_true, Bool.or_false, Bool.false_eq_true, if_false]

/-! ### ordered flavor, rows: exactly the declared order (with `skip_name_checks`: purely by position) -/

/-- the (field, column) pair of one position is acceptable: the names agree — not looked at under
`skip_name_checks` — and the value fits the column's type -/
def PairFits (skipNames : Bool) (p : Field × Val) (c : Col) : Prop :=
  (skipNames = true ∨ c.name = p.1.col) ∧ (p.2 = none ∨ p.1.ty = c.ty)

private theorem serVal_isSome_iff (f : Field) (v : Val) (ty : Ty) :
    (∃ cell, serVal f v ty = some cell) ↔ (v = none ∨ f.ty = ty) := by
  unfold serVal
  cases v with
  | none => simp
  | some b => by_cases h : f.ty = ty <;> simp [h]

/-- `ordered_accepts_exactly` for `SerializeRow` (`fs` = the non-skipped fields): ordered row serialization
succeeds exactly when there are as many columns as fields and, position by position, the column has the
field's name (with `skip_name_checks`: any name — binding is purely positional) and the value fits; the
cells are the field values in declared order. -/
theorem srOrdered_iff (skipNames : Bool) (fs : List (Field × Val)) : ∀ (db : List Col) (cells : List Cell),
    srOrdered skipNames fs db = .ok cells ↔
      fs.length = db.length ∧ (∀ pc ∈ fs.zip db, PairFits skipNames pc.1 pc.2) ∧ cells = fs.map (·.2) := by
  induction fs with
  | nil =>
    intro db cells
    cases db with
    | nil => simp [srOrdered]
    | cons c cs => simp [srOrdered]
  | cons p fs ih =>
    intro db cells
    obtain ⟨f, v⟩ := p
    cases db with
    | nil => simp [srOrdered]
    | cons c cs =>
      unfold srOrdered
      simp only [List.length_cons, List.zip_cons_cons, List.forall_mem_cons, List.map_cons, Nat.add_right_cancel_iff]
      by_cases hn : (skipNames = true ∨ c.name = f.col)
      · have hb : (!skipNames && c.name != f.col) = false := by
          rcases hn with h | h
          · simp [h]
          · simp [h]
        simp only [hb, Bool.false_eq_true, if_false]
        cases hs : serVal f v c.ty with
        | none =>
          simp only [reduceCtorEq, false_iff]
          rintro ⟨_, ⟨hfit, _⟩, _⟩
          have := (serVal_isSome_iff f v c.ty).mpr hfit.2
          rw [hs] at this
          obtain ⟨_, h⟩ := this
          cases h
        | some cell =>
          have hcell := serVal_some hs
          subst hcell
          have hfit : PairFits skipNames (f, cell) c := ⟨hn, (serVal_isSome_iff f cell c.ty).mp ⟨_, hs⟩⟩
          simp only []
          cases hr : srOrdered skipNames fs cs with
          | error x =>
            simp only [reduceCtorEq, false_iff]
            rintro ⟨h1, ⟨_, h2⟩, h3⟩
            have := (ih cs (fs.map (·.2))).mpr ⟨h1, h2, rfl⟩
            rw [hr] at this
            cases this
          | ok cells' =>
            obtain ⟨h1, h2, h3⟩ := (ih cs cells').mp hr
            simp only [Except.ok.injEq]
            constructor
            · intro h; subst h; exact ⟨h1, ⟨hfit, h2⟩, by rw [h3]⟩
            · rintro ⟨_, _, h⟩; rw [h, h3]
      · have hb : (!skipNames && c.name != f.col) = true := by
          have h1 : skipNames = false := by
            cases skipNames with
            | true => exact absurd (Or.inl rfl) hn
            | false => rfl
          have h2 : c.name ≠ f.col := fun h => hn (Or.inr h)
          simp [h1, h2]
        simp only [hb, if_true, reduceCtorEq, false_iff]
        rintro ⟨_, ⟨hfit, _⟩, _⟩
        exact hn hfit.1

private theorem drTcOrd_iff (sn : Bool) (fs : List Field) : ∀ (db : List Col), db.length = fs.length →
    (drTcOrd sn fs db = .ok () ↔
      ∀ fc ∈ fs.zip db, (sn = true ∨ fc.2.name = fc.1.col) ∧ fc.1.ty = fc.2.ty) := by
  induction fs with
  | nil => intro db _; simp [drTcOrd]
  | cons f fs ih =>
    intro db hlen
    cases db with
    | nil => simp at hlen
    | cons c cs =>
      unfold drTcOrd
      simp only [List.zip_cons_cons, List.forall_mem_cons]
      have hlen' : cs.length = fs.length := by simpa using hlen
      by_cases hn : (sn = true ∨ c.name = f.col)
      · have hb : (!sn && c.name != f.col) = false := by
          rcases hn with h | h <;> simp [h]
        simp only [hb, Bool.false_eq_true, if_false]
        by_cases ht : f.ty = c.ty
        · have hb2 : (f.ty != c.ty) = false := by simp [ht]
          simp only [hb2, Bool.false_eq_true, if_false, ih cs hlen']
          constructor
          · intro h; exact ⟨⟨hn, ht⟩, h⟩
          · intro h; exact h.2
        · have hb2 : (f.ty != c.ty) = true := by simp [ht]
          simp only [hb2, if_true, reduceCtorEq, false_iff]
          rintro ⟨⟨_, h⟩, _⟩; exact ht h
      · have hb : (!sn && c.name != f.col) = true := by
          have h1 : sn = false := by
            cases sn with
            | true => exact absurd (Or.inl rfl) hn
            | false => rfl
          have h2 : c.name ≠ f.col := fun h => hn (Or.inr h)
          simp [h1, h2]
        simp only [hb, if_true, reduceCtorEq, false_iff]
        rintro ⟨⟨h, _⟩, _⟩; exact hn h

/-- `ordered_accepts_exactly` for the `DeserializeRow` type check: as many columns as non-skipped fields and,
position by position, the field's name (`skip_name_checks`: any name) and the field's type. -/
theorem tcRowOrdered_iff (d : Desc) (db : List Col) :
    tcRowOrdered d db = .ok () ↔
      db.length = (d.fields.filter (fun f => !f.skip)).length ∧
      ∀ fc ∈ (d.fields.filter (fun f => !f.skip)).zip db,
        (d.skipNameChecks = true ∨ fc.2.name = fc.1.col) ∧ fc.1.ty = fc.2.ty := by
  unfold tcRowOrdered rowRequiredCount
  by_cases hlen : db.length = (d.fields.filter (fun f => !f.skip)).length
  · have hb : (db.length != (d.fields.filter (fun f => !f.skip)).length) = false := by simp [hlen]
    rw [hb]
    simp only [Bool.false_eq_true, if_false]
    rw [drTcOrd_iff _ _ db hlen]
    exact ⟨fun h => ⟨hlen, h⟩, fun h => h.2⟩
  · have hb : (db.length != (d.fields.filter (fun f => !f.skip)).length) = true := by simp [hlen]
    rw [hb]
    simp only [if_true, reduceCtorEq, false_iff]
    rintro ⟨h, _⟩; exact hlen h

/-! ### exact error kinds: ordered rows, and the missing-field case of the by-name type checks -/

private theorem srOrdered_cons (sn : Bool) (f : Field) (v : Val) (fs : List (Field × Val)) (c : Col) (cs : List Col) :
    srOrdered sn ((f, v) :: fs) (c :: cs) =
      if !sn && c.name != f.col then .error .srColumnNameMismatch
      else match serVal f v c.ty with
        | none => .error .srColumnSerFailed
        | some cell =>
          match srOrdered sn fs cs with
          | .error x => .error x
          | .ok cells => .ok (cell :: cells) := by
  rw [srOrdered]
  rfl

/-- a fitting prefix is passed over: the walk continues behind it and prepends the prefix's values -/
theorem srOrdered_prefix (sn : Bool) (pre : List (Field × Val)) : ∀ (dpre : List Col) (fs : List (Field × Val))
    (db : List Col), pre.length = dpre.length → (∀ pc ∈ pre.zip dpre, PairFits sn pc.1 pc.2) →
    srOrdered sn (pre ++ fs) (dpre ++ db) =
      match srOrdered sn fs db with
      | .error x => .error x
      | .ok cells => .ok (pre.map (·.2) ++ cells) := by
  induction pre with
  | nil =>
    intro dpre fs db hlen _
    have : dpre = [] := by cases dpre <;> simp_all
    subst this
    simp only [List.nil_append, List.map_nil]
    cases srOrdered sn fs db <;> rfl
  | cons p pre ih =>
    intro dpre fs db hlen hfit
    obtain ⟨f, v⟩ := p
    cases dpre with
    | nil => simp at hlen
    | cons c cs =>
      simp only [List.zip_cons_cons, List.forall_mem_cons] at hfit
      obtain ⟨⟨hn, hv⟩, hrest⟩ := hfit
      simp only [List.cons_append]
      rw [srOrdered_cons]
      have hb : (!sn && c.name != f.col) = false := by rcases hn with h | h <;> simp [h]
      obtain ⟨cell, hcell⟩ := (serVal_isSome_iff f v c.ty).mpr hv
      have := serVal_some hcell
      subst this
      simp only [hb, Bool.false_eq_true, if_false, hcell, ih cs fs db (by simpa using hlen) hrest, List.map_cons]
      cases srOrdered sn fs db <;> rfl

/-- the exact error of ordered row serialization: behind the longest fitting prefix, the FIRST offending
position decides — no column left: `NoColumnWithName`; no field left: `ValueMissingForColumn`; another name
(names checked): `ColumnNameMismatch`; right name but the value does not fit: `ColumnSerializationFailed` -/
theorem srOrdered_error_kind (sn : Bool) (pre : List (Field × Val)) (dpre : List Col)
    (hlen : pre.length = dpre.length) (hfit : ∀ pc ∈ pre.zip dpre, PairFits sn pc.1 pc.2) :
    (∀ p fs, srOrdered sn (pre ++ p :: fs) dpre = .error .srNoColumnWithName) ∧
    (∀ c db, srOrdered sn pre (dpre ++ c :: db) = .error .srValueMissingForColumn) ∧
    (∀ p fs c db, sn = false → c.name ≠ p.1.col →
      srOrdered sn (pre ++ p :: fs) (dpre ++ c :: db) = .error .srColumnNameMismatch) ∧
    (∀ p fs c db, (sn = true ∨ c.name = p.1.col) → ¬ (p.2 = none ∨ p.1.ty = c.ty) →
      srOrdered sn (pre ++ p :: fs) (dpre ++ c :: db) = .error .srColumnSerFailed) := by
  refine ⟨?_, ?_, ?_, ?_⟩
  · intro p fs
    have := srOrdered_prefix sn pre dpre (p :: fs) [] hlen hfit
    rw [List.append_nil] at this
    rw [this]; rfl
  · intro c db
    have := srOrdered_prefix sn pre dpre [] (c :: db) hlen hfit
    rw [List.append_nil] at this
    rw [this]; rfl
  · intro p fs c db hsn hne
    rw [srOrdered_prefix sn pre dpre (p :: fs) (c :: db) hlen hfit]
    obtain ⟨f, v⟩ := p
    rw [srOrdered_cons]
    have hb : (!sn && c.name != f.col) = true := by simp [hsn, hne]
    simp [hb]
  · intro p fs c db hn hv
    rw [srOrdered_prefix sn pre dpre (p :: fs) (c :: db) hlen hfit]
    obtain ⟨f, v⟩ := p
    rw [srOrdered_cons]
    have hb : (!sn && c.name != f.col) = false := by rcases hn with h | h <;> simp [h]
    cases hs : serVal f v c.ty with
    | none => simp [hb]
    | some cell => exact absurd ((serVal_isSome_iff f v c.ty).mp ⟨_, hs⟩) hv

/-- the exact error of the ordered row type check: a wrong number of columns is `WrongColumnCount` before
anything else; otherwise, behind the longest matching prefix, a wrong name is `ColumnNameMismatch` and a right
name with a wrong type `ColumnTypeCheckFailed` -/
theorem tcRowOrdered_error_kind (d : Desc) (db : List Col) :
    (db.length ≠ (d.fields.filter (fun f => !f.skip)).length → tcRowOrdered d db = .error .drWrongColumnCount) ∧
    (∀ (pre : List Field) (dpre : List Col) f fs c cs,
      d.fields.filter (fun f => !f.skip) = pre ++ f :: fs → db = dpre ++ c :: cs →
      fs.length = cs.length → pre.length = dpre.length →
      (∀ fc ∈ pre.zip dpre, (d.skipNameChecks = true ∨ fc.2.name = fc.1.col) ∧ fc.1.ty = fc.2.ty) →
      (d.skipNameChecks = false → c.name ≠ f.col → tcRowOrdered d db = .error .drColumnNameMismatch) ∧
      ((d.skipNameChecks = true ∨ c.name = f.col) → f.ty ≠ c.ty →
        tcRowOrdered d db = .error .drColumnTypeCheckFailed)) := by
  constructor
  · intro h
    unfold tcRowOrdered rowRequiredCount
    have hb : (db.length != (d.fields.filter (fun f => !f.skip)).length) = true := by simp [h]
    rw [hb]; rfl
  · intro pre dpre f fs c cs hfs hdb hl1 hl2 hfit
    have hwalk : ∀ (pre : List Field) (dpre : List Col), pre.length = dpre.length →
        (∀ fc ∈ pre.zip dpre, (d.skipNameChecks = true ∨ fc.2.name = fc.1.col) ∧ fc.1.ty = fc.2.ty) →
        drTcOrd d.skipNameChecks (pre ++ f :: fs) (dpre ++ c :: cs) =
          drTcOrd d.skipNameChecks (f :: fs) (c :: cs) := by
      intro pre
      induction pre with
      | nil => intro dpre hl _; have : dpre = [] := by cases dpre <;> simp_all
               subst this; rfl
      | cons g pre ih =>
        intro dpre hl hf
        cases dpre with
        | nil => simp at hl
        | cons e dpre =>
          simp only [List.zip_cons_cons, List.forall_mem_cons] at hf
          obtain ⟨⟨hn, ht⟩, hrest⟩ := hf
          simp only [List.cons_append]
          unfold drTcOrd
          have hb : (!d.skipNameChecks && e.name != g.col) = false := by rcases hn with h | h <;> simp [h]
          have hb2 : (g.ty != e.ty) = false := by simp [ht]
          simp only [hb, hb2, Bool.false_eq_true, if_false]
          exact ih dpre (by simpa using hl) hrest
    have hcount : (db.length != (d.fields.filter (fun f => !f.skip)).length) = false := by
      rw [hfs, hdb]; simp [hl1, hl2]
    constructor
    · intro hsn hne
      unfold tcRowOrdered rowRequiredCount
      rw [hcount, hfs, hdb]
      simp only [Bool.false_eq_true, if_false, hwalk pre dpre hl2 hfit]
      unfold drTcOrd
      have hb : (!d.skipNameChecks && c.name != f.col) = true := by simp [hsn, hne]
      simp [hb]
    · intro hn hty
      unfold tcRowOrdered rowRequiredCount
      rw [hcount, hfs, hdb]
      simp only [Bool.false_eq_true, if_false, hwalk pre dpre hl2 hfit]
      unfold drTcOrd
      have hb : (!d.skipNameChecks && c.name != f.col) = false := by rcases hn with h | h <;> simp [h]
      have hb2 : (f.ty != c.ty) = true := by simp [hty]
      simp [hb, hb2]

/-- exact error of the by-name type checks when only a field is missing: every listed column acceptable and no
bound column twice, but a required field absent ⇒ `ValuesMissingForUdtFields` (UDT) resp.
`ValuesMissingForColumns` (row) -/
theorem tcByName_missing_kind (d : Desc) (db : List Col) (hv : ValidNames (slots d.fields))
    (hcols : ∀ c ∈ db, TcColAccepted d c) (hnd : (matchedNames (fieldFor (slots d.fields)) db).Nodup)
    (f : Field) (hf : f ∈ d.fields) (hr : f.required = true) (hmiss : f.col ∉ names db) :
    tcValueByName d db = .error .dvValuesMissing ∧
    (RowFields d.fields → d.forbidExcess = true → tcRowByName d db = .error .drValuesMissing) := by
  have hnot : tcValueByName d db ≠ .ok () := by
    intro h
    exact hmiss (((tcValueByName_accepts_iff d db hv).mp h).2.2 f hf hr)
  have hval : tcValueByName d db = .error .dvValuesMissing := by
    -- the loop succeeds (all columns acceptable), so only the final counter test can fail
    have hinv : ∀ n e, lookupE n (tcEntries d.fields) = some e → e.visited = ([] : List String).contains n := by
      intro n e h
      rw [tcEntries_eq] at h
      simpa using entries_unvisited _ e (lookupE_some h).2
    have hcl := dvTcLoop_closed d.forbidExcess db (tcEntries d.fields) (requiredCount d.fields) [] hinv
      (requiredCount_eq d.fields)
    have hlook : fv (tcEntries d.fields) = fieldFor (slots d.fields) := by
      funext n; rw [tcEntries_eq, fv_entries]
    rw [hlook] at hcl
    have hok : tcOkList d.forbidExcess (fieldFor (slots d.fields)) [] db = true := by
      apply (tcOkList_iff d.forbidExcess (fieldFor (slots d.fields)) db []).mpr
      refine ⟨?_, hnd⟩
      intro c hc
      have := hcols c hc
      unfold TcColAccepted at this
      cases hfc : fieldFor (slots d.fields) c.name with
      | none => rw [hfc] at this; exact this
      | some p => obtain ⟨g, w⟩ := p; rw [hfc] at this; exact ⟨this, by simp⟩
    rw [hok] at hcl
    simp only [if_true] at hcl
    unfold tcValueByName at hnot ⊢
    cases hloop : dvTcLoop d.forbidExcess db (tcEntries d.fields) (requiredCount d.fields) with
    | error x => rw [hloop] at hcl; simp [okOpt] at hcl
    | ok r =>
      obtain ⟨es', rem⟩ := r
      simp only [] at hnot ⊢
      by_cases hpos : rem > 0
      · simp [hpos]
      · exfalso
        apply hnot
        rw [hloop]
        simp [hpos]
  refine ⟨hval, ?_⟩
  intro hrow hforbid
  rw [tcRowByName_eq d db hrow]
  have : asUdt d = d := by unfold asUdt; cases d; simp_all
  rw [this, hval]; rfl

/-! ### ordered flavor, UDTs: the full `ordered_accepts_exactly` (greedy `allow_missing` rule) -/

/-- a database name list is in the declared order: `m ++ rest` with `m` a subsequence of the declared names
(in declared order) containing every field without `allow_missing`, `rest` = excess fields at the end, none
under `forbid_excess_udt_fields` -/
def DeclaredOrder (forbid : Bool) (decl : List (String × Bool)) (dbNames : List String) : Prop :=
  ∃ m rest, dbNames = m ++ rest ∧ m.Sublist (decl.map (·.1)) ∧
    (∀ p ∈ decl, p.2 = false → p.1 ∈ m) ∧ (forbid = true → rest = [])

/-- generic completeness of the greedy walk: `step` abstracts "the like-named column is acceptable" -/
private theorem greedy_complete (forbid : Bool) (decl : List (String × Bool)) (hnd : (decl.map (·.1)).Nodup) :
    ∀ (dbNames : List String), DeclaredOrder forbid decl dbNames →
      -- the walk: every declared field either takes the head (names equal) or is skipped (allow_missing)
      ∀ (P : List (String × Bool) → List String → Prop),
        (∀ db, (forbid = true → db = []) → P [] db) →
        (∀ n am fs, am = true → P fs [] → P ((n, am) :: fs) []) →
        (∀ n am fs c cs, c = n → P fs cs → P ((n, am) :: fs) (c :: cs)) →
        (∀ n am fs c cs, c ≠ n → am = true → P fs (c :: cs) → P ((n, am) :: fs) (c :: cs)) →
        P decl dbNames := by
  induction decl with
  | nil =>
    intro dbNames ⟨m, rest, h1, h2, _, h4⟩ P p0 _ _ _
    have hm : m = [] := by simpa using h2
    subst hm
    apply p0
    intro hf
    rw [h1, h4 hf]; rfl
  | cons a decl ih =>
    intro dbNames ⟨m, rest, h1, h2, h3, h4⟩ P p0 p1 p2 p3
    obtain ⟨n, am⟩ := a
    simp only [List.map_cons, List.nodup_cons] at hnd
    have hsub := List.sublist_cons_iff.mp h2
    cases dbNames with
    | nil =>
      have hm : m = [] := by
        cases m with
        | nil => rfl
        | cons x xs => simp at h1
      have hr : rest = [] := by subst hm; simpa using h1.symm
      subst hm; subst hr
      have ham : am = true := by
        cases ham : am with
        | true => rfl
        | false => have := h3 (n, am) (List.mem_cons_self ..) ham; simp at this
      apply p1 n am decl ham
      exact ih hnd.2 [] ⟨[], [], rfl, List.nil_sublist _, fun p hp hpa => by
        have := h3 p (List.mem_cons_of_mem _ hp) hpa; simp at this, h4⟩ P p0 p1 p2 p3
    | cons c cs =>
      by_cases hc : c = n
      · apply p2 n am decl c cs hc
        apply ih hnd.2 cs _ P p0 p1 p2 p3
        rcases List.cons_eq_append_iff.mp h1 with ⟨hm, hr⟩ | ⟨m', hm, hcs⟩
        · subst hm
          refine ⟨[], cs, rfl, List.nil_sublist _, fun p hp hpa => ?_, fun hf => ?_⟩
          · have := h3 p (List.mem_cons_of_mem _ hp) hpa; simp at this
          · rw [h4 hf] at hr; cases hr
        · subst hm
          refine ⟨m', rest, hcs, ?_, ?_, h4⟩
          · rcases hsub with h | ⟨r, hr, hrs⟩
            · exfalso
              apply hnd.1
              rw [← hc]
              exact h.subset (List.mem_cons_self ..)
            · cases hr; exact hrs
          · intro p hp hpa
            have := h3 p (List.mem_cons_of_mem _ hp) hpa
            rcases List.mem_cons.mp this with h | h
            · exfalso
              apply hnd.1
              rw [← hc, ← h]
              exact List.mem_map_of_mem hp
            · exact h
      · -- the head column is not this field's: the field must be `allow_missing` and is skipped
        have hnm : n ∉ m := by
          intro hin
          rcases List.cons_eq_append_iff.mp h1 with ⟨hm, _⟩ | ⟨m', hm, _⟩
          · subst hm; cases hin
          · subst hm
            rcases hsub with h | ⟨r, hr, hrs⟩
            · exact hnd.1 (h.subset hin)
            · cases hr; exact hc rfl
        have ham : am = true := by
          cases ham : am with
          | true => rfl
          | false => exact absurd (h3 (n, am) (List.mem_cons_self ..) ham) hnm
        apply p3 n am decl c cs hc ham
        apply ih hnd.2 (c :: cs) _ P p0 p1 p2 p3
        refine ⟨m, rest, h1, ?_, fun p hp hpa => h3 p (List.mem_cons_of_mem _ hp) hpa, h4⟩
        rcases hsub with h | ⟨r, hr, hrs⟩
        · exact h
        · exfalso; apply hnm; rw [hr]; exact List.mem_cons_self ..

/-- the declared (name, allow_missing) list of the fields the ordered walk sees -/
def declOf (fs : List (Field × Val)) : List (String × Bool) := fs.map (fun p => (p.1.col, p.1.allowMissing))

/-- side condition of the full ordered characterisation: a column carrying a declared field's name is
acceptable for that field.  It excludes exactly the name-collision corner (see the `example` below: an excess
column named like a skipped `allow_missing` field but of another type is an error, not an excess column). -/
def NameMatchFits (fs : List (Field × Val)) (db : List Col) : Prop :=
  ∀ c ∈ db, ∀ p ∈ fs, c.name = p.1.col → (p.2 = none ∨ p.1.ty = c.ty)

/-- `ordered_accepts_exactly` for `SerializeValue` (names checked; `fs` = the non-skipped fields with their
values): ordered UDT serialization succeeds exactly when the database names are in `DeclaredOrder` — the
greedy `allow_missing` rule and the excess-suffix rule included. -/
theorem svOrdered_accepts_iff (forbid : Bool) (fs : List (Field × Val)) (db : List Col)
    (hnd : (fs.map (·.1.col)).Nodup) (hfit : NameMatchFits fs db) :
    (∃ cells, svOrdered false forbid fs db = .ok cells) ↔ DeclaredOrder forbid (declOf fs) (names db) := by
  constructor
  · rintro ⟨cells, h⟩
    obtain ⟨m, rest, h1, h2, h3, h4, _⟩ := svOrdered_sound forbid fs db cells h
    refine ⟨m, rest, h1, by simpa [declOf, List.map_map, Function.comp_def] using h2, ?_, h4⟩
    intro p hp hpa
    obtain ⟨q, hq, rfl⟩ := List.mem_map.mp hp
    exact h3 q hq hpa
  · intro hdo
    have hnd' : ((declOf fs).map (·.1)).Nodup := by
      simpa [declOf, List.map_map, Function.comp_def] using hnd
    have := greedy_complete forbid (declOf fs) hnd' (names db) hdo
      (fun decl dbn => ∀ (fs : List (Field × Val)) (db : List Col), declOf fs = decl → names db = dbn →
        NameMatchFits fs db → ∃ cells, svOrdered false forbid fs db = .ok cells)
      (by
        intro dbn hdbn fs db hfs hdb _
        have : fs = [] := by simpa [declOf] using hfs
        subst this
        unfold svOrdered
        cases forbid with
        | false => exact ⟨_, rfl⟩
        | true =>
          have : db = [] := by
            have := hdbn rfl
            rw [← hdb] at this
            simpa [names] using this
          subst this
          exact ⟨_, rfl⟩)
      (by
        intro n am decl ham ih fs db hfs hdb hfit
        cases fs with
        | nil => simp [declOf] at hfs
        | cons p fs' =>
          obtain ⟨f, v⟩ := p
          simp only [declOf, List.map_cons, List.cons.injEq, Prod.mk.injEq] at hfs
          have hdb' : db = [] := by simpa [names] using hdb
          subst hdb'
          unfold svOrdered
          rw [hfs.1.2, ham]
          simp only [if_true]
          exact ih fs' [] hfs.2 rfl (fun c hc => by cases hc))
      (by
        intro n am decl c cs hc ih fs db hfs hdb hfit
        cases fs with
        | nil => simp [declOf] at hfs
        | cons p fs' =>
          obtain ⟨f, v⟩ := p
          simp only [declOf, List.map_cons, List.cons.injEq, Prod.mk.injEq] at hfs
          cases db with
          | nil => simp [names] at hdb
          | cons col cols =>
            simp only [names, List.map_cons, List.cons.injEq] at hdb
            have hname : col.name = f.col := by rw [hdb.1, hc, hfs.1.1]
            unfold svOrdered
            simp only [Bool.false_or, hname, beq_self_eq_true, if_true]
            obtain ⟨cell, hcell⟩ := (serVal_isSome_iff f v col.ty).mpr
              (hfit col (List.mem_cons_self ..) (f, v) (List.mem_cons_self ..) hname)
            rw [hcell]
            simp only []
            obtain ⟨cells, hcells⟩ := ih fs' cols hfs.2 hdb.2
              (fun c' hc' p' hp' => hfit c' (List.mem_cons_of_mem _ hc') p' (List.mem_cons_of_mem _ hp'))
            rw [hcells]
            exact ⟨_, rfl⟩)
      (by
        intro n am decl c cs hc ham ih fs db hfs hdb hfit
        cases fs with
        | nil => simp [declOf] at hfs
        | cons p fs' =>
          obtain ⟨f, v⟩ := p
          simp only [declOf, List.map_cons, List.cons.injEq, Prod.mk.injEq] at hfs
          cases db with
          | nil => simp [names] at hdb
          | cons col cols =>
            have hdb' := hdb
            simp only [names, List.map_cons, List.cons.injEq] at hdb'
            have hname : col.name ≠ f.col := by rw [hdb'.1, hfs.1.1]; exact hc
            have hb : (col.name == f.col) = false := by simpa using hname
            unfold svOrdered
            simp only [Bool.false_or, hb, Bool.false_eq_true, if_false, hfs.1.2, ham, if_true]
            exact ih fs' (col :: cols) hfs.2 hdb
              (fun c' hc' p' hp' => hfit c' hc' p' (List.mem_cons_of_mem _ hp')))
    exact this fs db rfl rfl hfit

/-- which value is written where: the i-th cell is the value of the field named like the i-th column -/
theorem svOrdered_cells (forbid : Bool) (fs : List (Field × Val)) : ∀ (db : List Col) (cells : List Cell),
    svOrdered false forbid fs db = .ok cells →
    ∀ (i : Nat) (cell : Cell), cells[i]? = some cell →
      ∃ c p, db[i]? = some c ∧ p ∈ fs ∧ c.name = p.1.col ∧ cell = p.2 ∧ (p.2 = none ∨ p.1.ty = c.ty) := by
  induction fs with
  | nil =>
    intro db cells h i cell hi
    unfold svOrdered at h
    have : cells = [] := by cases forbid <;> cases db <;> simp at h <;> simp [← h]
    subst this
    simp at hi
  | cons p fs ih =>
    intro db cells h i cell hi
    obtain ⟨f, v⟩ := p
    cases db with
    | nil =>
      unfold svOrdered at h
      split at h
      · obtain ⟨c, q, hc, _⟩ := ih [] cells h i cell hi
        simp at hc
      · cases h
    | cons c cs =>
      unfold svOrdered at h
      simp only [Bool.false_or] at h
      by_cases hn : c.name = f.col
      · simp only [hn, beq_self_eq_true, if_true] at h
        cases hs : serVal f v c.ty with
        | none => rw [hs] at h; cases h
        | some cell0 =>
          rw [hs] at h
          simp only [] at h
          cases hr : svOrdered false forbid fs cs with
          | error x => rw [hr] at h; cases h
          | ok cells' =>
            rw [hr] at h
            cases h
            cases i with
            | zero =>
              simp only [List.getElem?_cons_zero, Option.some.injEq] at hi
              subst hi
              exact ⟨c, (f, v), rfl, List.mem_cons_self .., hn, serVal_some hs, (serVal_isSome_iff f v c.ty).mp ⟨_, hs⟩⟩
            | succ i =>
              simp only [List.getElem?_cons_succ] at hi
              obtain ⟨c', q, h1, h2, h3, h4, h5⟩ := ih cs cells' hr i cell hi
              exact ⟨c', q, by simpa using h1, List.mem_cons_of_mem _ h2, h3, h4, h5⟩
      · have hb : (c.name == f.col) = false := by simpa using hn
        simp only [hb, Bool.false_eq_true, if_false] at h
        split at h
        · obtain ⟨c', q, h1, h2, h3, h4, h5⟩ := ih (c :: cs) cells h i cell hi
          exact ⟨c', q, h1, List.mem_cons_of_mem _ h2, h3, h4, h5⟩
        · cases h

/-- `ordered_accepts_exactly` for the `DeserializeValue` type check walk (names checked; `fs` = the
non-skipped fields), under the side condition that a column named like a declared field has its type -/
theorem dvTcOrd_accepts_iff (forbid : Bool) (fs : List Field) (db : List Col)
    (hnd : (fs.map Field.col).Nodup)
    (hfit : ∀ c ∈ db, ∀ f ∈ fs, c.name = f.col → f.ty = c.ty) :
    dvTcOrd false forbid fs db = .ok () ↔
      DeclaredOrder forbid (fs.map (fun f => (f.col, f.allowMissing))) (names db) := by
  constructor
  · intro h
    obtain ⟨m, rest, h1, h2, h3, h4⟩ := dvTcOrd_sound forbid fs db h
    refine ⟨m, rest, h1, by simpa [List.map_map, Function.comp_def] using h2, ?_, h4⟩
    intro p hp hpa
    obtain ⟨q, hq, rfl⟩ := List.mem_map.mp hp
    exact h3 q hq hpa
  · intro hdo
    have hnd' : ((fs.map (fun f => (f.col, f.allowMissing))).map (·.1)).Nodup := by
      simpa [List.map_map, Function.comp_def] using hnd
    have := greedy_complete forbid _ hnd' (names db) hdo
      (fun decl dbn => ∀ (fs : List Field) (db : List Col), fs.map (fun f => (f.col, f.allowMissing)) = decl →
        names db = dbn → (∀ c ∈ db, ∀ f ∈ fs, c.name = f.col → f.ty = c.ty) →
        dvTcOrd false forbid fs db = .ok ())
      (by
        intro dbn hdbn fs db hfs hdb _
        have : fs = [] := by simpa using hfs
        subst this
        unfold dvTcOrd
        cases forbid with
        | false => rfl
        | true =>
          have : db = [] := by
            have := hdbn rfl
            rw [← hdb] at this
            simpa [names] using this
          subst this
          rfl)
      (by
        intro n am decl ham ih fs db hfs hdb hfit
        cases fs with
        | nil => simp at hfs
        | cons f fs' =>
          simp only [List.map_cons, List.cons.injEq, Prod.mk.injEq] at hfs
          have hdb' : db = [] := by simpa [names] using hdb
          subst hdb'
          unfold dvTcOrd
          rw [hfs.1.2, ham]
          simp only [if_true]
          exact ih fs' [] hfs.2 rfl (fun c hc => by cases hc))
      (by
        intro n am decl c cs hc ih fs db hfs hdb hfit
        cases fs with
        | nil => simp at hfs
        | cons f fs' =>
          simp only [List.map_cons, List.cons.injEq, Prod.mk.injEq] at hfs
          cases db with
          | nil => simp [names] at hdb
          | cons col cols =>
            simp only [names, List.map_cons, List.cons.injEq] at hdb
            have hname : f.col = col.name := by rw [hdb.1, hc, hfs.1.1]
            have hty := hfit col (List.mem_cons_self ..) f (List.mem_cons_self ..) hname.symm
            unfold dvTcOrd
            have hb1 : (f.col != col.name) = false := by simp [hname]
            have hb2 : (f.ty != col.ty) = false := by simp [hty]
            simp only [Bool.not_false, Bool.true_and, hb1, hb2, Bool.false_eq_true, if_false]
            exact ih fs' cols hfs.2 hdb.2
              (fun c' hc' f' hf' => hfit c' (List.mem_cons_of_mem _ hc') f' (List.mem_cons_of_mem _ hf')))
      (by
        intro n am decl c cs hc ham ih fs db hfs hdb hfit
        cases fs with
        | nil => simp at hfs
        | cons f fs' =>
          simp only [List.map_cons, List.cons.injEq, Prod.mk.injEq] at hfs
          cases db with
          | nil => simp [names] at hdb
          | cons col cols =>
            have hdb' := hdb
            simp only [names, List.map_cons, List.cons.injEq] at hdb'
            have hname : f.col ≠ col.name := by rw [hdb'.1, hfs.1.1]; exact fun h => hc h.symm
            have hb1 : (f.col != col.name) = true := by simp [hname]
            unfold dvTcOrd
            simp only [Bool.not_false, Bool.true_and, hb1, if_true, hfs.1.2, ham]
            exact ih fs' (col :: cols) hfs.2 hdb
              (fun c' hc' f' hf' => hfit c' hc' f' (List.mem_cons_of_mem _ hf')))
    exact this fs db rfl rfl hfit

/-- typed soundness of the ordered UDT type check, WITHOUT the side condition: whenever it succeeds there is a
cut `k` such that every one of the first `k` columns carries the name AND the type of a declared field (so a
retyped column inside the bound prefix is always rejected), every field without `allow_missing` is among
them, and under `forbid_excess_udt_fields` nothing follows -/
theorem dvTcOrd_types (forbid : Bool) (fs : List Field) : ∀ (db : List Col),
    dvTcOrd false forbid fs db = .ok () →
    ∃ k, k ≤ db.length ∧
      (∀ (i : Nat) (c : Col), i < k → db[i]? = some c → ∃ f ∈ fs, c.name = f.col ∧ f.ty = c.ty) ∧
      (∀ f ∈ fs, f.allowMissing = false → f.col ∈ names (db.take k)) ∧
      (forbid = true → k = db.length) := by
  induction fs with
  | nil =>
    intro db h
    unfold dvTcOrd at h
    refine ⟨0, Nat.zero_le _, by intro i c hi; omega, by simp, ?_⟩
    intro hf
    rw [hf] at h
    cases db with
    | nil => rfl
    | cons c cs => simp at h
  | cons f fs ih =>
    intro db h
    cases db with
    | nil =>
      unfold dvTcOrd at h
      by_cases ha : f.allowMissing = true
      · simp only [ha, if_true] at h
        obtain ⟨k, hk, h1, h2, h3⟩ := ih [] h
        refine ⟨k, hk, ?_, ?_, h3⟩
        · intro i c hi hc; simp at hc
        · intro g hg hga
          rcases List.mem_cons.mp hg with rfl | hin
          · rw [ha] at hga; cases hga
          · exact h2 g hin hga
      · simp [ha] at h
    | cons c cs =>
      unfold dvTcOrd at h
      simp only [Bool.not_false, Bool.true_and] at h
      by_cases hn : f.col = c.name
      · have hb : (f.col != c.name) = false := by simp [hn]
        simp only [hb, Bool.false_eq_true, if_false] at h
        by_cases ht : f.ty = c.ty
        · have hb2 : (f.ty != c.ty) = false := by simp [ht]
          simp only [hb2, Bool.false_eq_true, if_false] at h
          obtain ⟨k, hk, h1, h2, h3⟩ := ih cs h
          refine ⟨k + 1, by simp; omega, ?_, ?_, ?_⟩
          · intro i c' hi hc
            cases i with
            | zero =>
              simp only [List.getElem?_cons_zero, Option.some.injEq] at hc
              subst hc
              exact ⟨f, List.mem_cons_self .., hn.symm, ht⟩
            | succ i =>
              simp only [List.getElem?_cons_succ] at hc
              obtain ⟨g, hg, h4, h5⟩ := h1 i c' (by omega) hc
              exact ⟨g, List.mem_cons_of_mem _ hg, h4, h5⟩
          · intro g hg hga
            simp only [List.take_succ_cons, names, List.map_cons, List.mem_cons]
            rcases List.mem_cons.mp hg with rfl | hin
            · exact Or.inl hn
            · exact Or.inr (h2 g hin hga)
          · intro hf; simp [h3 hf]
        · have hb2 : (f.ty != c.ty) = true := by simp [ht]
          simp [hb2] at h
      · have hb : (f.col != c.name) = true := by simp [hn]
        simp only [hb, if_true] at h
        by_cases ha : f.allowMissing = true
        · simp only [ha, if_true] at h
          obtain ⟨k, hk, h1, h2, h3⟩ := ih (c :: cs) h
          refine ⟨k, hk, ?_, ?_, h3⟩
          · intro i c' hi hc
            obtain ⟨g, hg, h4, h5⟩ := h1 i c' hi hc
            exact ⟨g, List.mem_cons_of_mem _ hg, h4, h5⟩
          · intro g hg hga
            rcases List.mem_cons.mp hg with rfl | hin
            · rw [ha] at hga; cases hga
            · exact h2 g hin hga
        · simp [ha] at h

/-- the `fields.len() < required_fields` pre-check of the ordered UDT type check never decides: the walk
itself rejects (with the same `TooFewFields`) whenever there are fewer columns than required fields -/
theorem dvTcOrd_length (skipNames forbid : Bool) (fs : List Field) : ∀ (db : List Col),
    dvTcOrd skipNames forbid fs db = .ok () → (fs.filter (fun f => !f.allowMissing)).length ≤ db.length := by
  induction fs with
  | nil => intro db _; simp
  | cons f fs ih =>
    intro db h
    cases db with
    | nil =>
      unfold dvTcOrd at h
      split at h
      · rename_i ha
        have := ih [] h
        simp [List.filter_cons, ha] at this ⊢
        exact this
      · cases h
    | cons c cs =>
      unfold dvTcOrd at h
      rw [List.filter_cons]
      split at h
      · split at h
        · rename_i ha
          have := ih (c :: cs) h
          simp only [ha, Bool.not_true, Bool.false_eq_true, if_false]
          exact this
        · cases h
      · split at h
        · cases h
        · have := ih cs h
          split <;> simp only [List.length_cons] <;> omega

/-- the name-collision corner the side condition excludes: `struct { a: i32, #[allow_missing] b: i32 }` against
the UDT `(a int, b text)`: the names are in `DeclaredOrder` (`m = [a]`, `b` an excess field), yet the walk
binds `b` by name and fails on its type — and the by-name flavor rejects the same input the same way. -/
example :
    let fa : Field := ⟨"a", none, .int, false, false, false, false⟩
    let fb : Field := ⟨"b", none, .int, false, false, true, false⟩
    let db : List Col := [⟨"a", .int⟩, ⟨"b", .text⟩]
    DeclaredOrder false [("a", false), ("b", true)] (names db) ∧
    dvTcOrd false false [fa, fb] db = .error .dvFieldTypeCheckFailed ∧
    svOrdered false false [(fa, some [0, 0, 0, 1]), (fb, some [0, 0, 0, 2])] db = .error .svFieldSerFailed := by
  refine ⟨⟨["a"], ["b"], rfl, ?_, ?_, by simp⟩, ?_, ?_⟩
  · exact List.Sublist.cons_cons _ (List.Sublist.cons _ List.Sublist.slnil)
  · intro p hp hpa
    simp only [List.mem_cons, List.not_mem_nil, or_false] at hp
    rcases hp with rfl | rfl
    · simp
    · simp at hpa
  · simp [dvTcOrd, Field.col, show unrawName "a" = "a" from by decide +kernel,
      show unrawName "b" = "b" from by decide +kernel]
  · simp [svOrdered, serVal, Field.col, show unrawName "a" = "a" from by decide +kernel,
      show unrawName "b" = "b" from by decide +kernel]

/-! ### `skip_name_checks`: the ordered flavor binds purely by position -/

/-- with `skip_name_checks`, ordered UDT serialization never looks at a name: it succeeds exactly when the
i-th value fits the i-th column, the fields beyond the last column are all `allow_missing`, and (under
`forbid_excess_udt_fields`) there are no more columns than fields; the cells are the first values in order. -/
theorem svOrdered_skipNames_iff (forbid : Bool) (fs : List (Field × Val)) : ∀ (db : List Col) (cells : List Cell),
    svOrdered true forbid fs db = .ok cells ↔
      (∀ pc ∈ fs.zip db, pc.1.2 = none ∨ pc.1.1.ty = pc.2.ty) ∧
      (∀ p ∈ fs.drop db.length, p.1.allowMissing = true) ∧
      (forbid = true → db.length ≤ fs.length) ∧
      cells = (fs.take db.length).map (·.2) := by
  induction fs with
  | nil =>
    intro db cells
    unfold svOrdered
    cases forbid <;> cases db <;> simp <;> exact eq_comm
  | cons p fs ih =>
    intro db cells
    obtain ⟨f, v⟩ := p
    cases db with
    | nil =>
      unfold svOrdered
      by_cases ha : f.allowMissing = true
      · simp only [ha, if_true, ih [] cells]
        simp [ha]
      · simp only [ha, Bool.false_eq_true, if_false, reduceCtorEq, false_iff]
        rintro ⟨_, h, _⟩
        exact ha (h (f, v) (by simp))
    | cons c cs =>
      unfold svOrdered
      simp only [Bool.true_or, if_true, List.zip_cons_cons, List.forall_mem_cons, List.length_cons,
        List.drop_succ_cons, List.take_succ_cons, List.map_cons, Nat.add_le_add_iff_right]
      cases hs : serVal f v c.ty with
      | none =>
        simp only [reduceCtorEq, false_iff]
        rintro ⟨⟨hfit, _⟩, _⟩
        obtain ⟨_, h⟩ := (serVal_isSome_iff f v c.ty).mpr hfit
        rw [hs] at h; cases h
      | some cell =>
        have := serVal_some hs
        subst this
        have hfit := (serVal_isSome_iff f cell c.ty).mp ⟨_, hs⟩
        simp only []
        cases hr : svOrdered true forbid fs cs with
        | error x =>
          simp only [reduceCtorEq, false_iff]
          rintro ⟨⟨_, h1⟩, h2, h3, _⟩
          have := (ih cs _).mpr ⟨h1, h2, h3, rfl⟩
          rw [hr] at this; cases this
        | ok cells' =>
          obtain ⟨h1, h2, h3, h4⟩ := (ih cs cells').mp hr
          simp only [Except.ok.injEq]
          constructor
          · intro h; subst h; exact ⟨⟨hfit, h1⟩, h2, h3, by rw [h4]⟩
          · rintro ⟨_, _, _, h⟩; rw [h, h4]

/-- the same for the ordered UDT type check with `skip_name_checks`: purely positional -/
theorem dvTcOrd_skipNames_iff (forbid : Bool) (fs : List Field) : ∀ (db : List Col),
    dvTcOrd true forbid fs db = .ok () ↔
      (∀ fc ∈ fs.zip db, fc.1.ty = fc.2.ty) ∧
      (∀ f ∈ fs.drop db.length, f.allowMissing = true) ∧
      (forbid = true → db.length ≤ fs.length) := by
  induction fs with
  | nil =>
    intro db
    unfold dvTcOrd
    cases forbid <;> cases db <;> simp
  | cons f fs ih =>
    intro db
    cases db with
    | nil =>
      unfold dvTcOrd
      by_cases ha : f.allowMissing = true
      · simp only [ha, if_true, ih []]
        simp [ha]
      · simp only [ha, Bool.false_eq_true, if_false, reduceCtorEq, false_iff]
        rintro ⟨_, h, _⟩
        exact ha (h f (by simp))
    | cons c cs =>
      unfold dvTcOrd
      simp only [Bool.not_true, Bool.false_and, Bool.false_eq_true, if_false, List.zip_cons_cons,
        List.forall_mem_cons, List.length_cons, List.drop_succ_cons, Nat.add_le_add_iff_right]
      by_cases ht : f.ty = c.ty
      · have hb : (f.ty != c.ty) = false := by simp [ht]
        simp only [hb, Bool.false_eq_true, if_false, ih cs]
        constructor
        · rintro ⟨h1, h2, h3⟩; exact ⟨⟨ht, h1⟩, h2, h3⟩
        · rintro ⟨⟨_, h1⟩, h2, h3⟩; exact ⟨h1, h2, h3⟩
      · have hb : (f.ty != c.ty) = true := by simp [ht]
        simp only [hb, if_true, reduceCtorEq, false_iff]
        rintro ⟨⟨h, _⟩, _⟩; exact ht h

/-! ### the ordered deserialize walk binds exactly the fields the ordered serializer wrote -/

/-- what comes back through the ordered flavor: walking fields and columns in lock step, a field that takes
the head column (same name, or any name under `skip_name_checks`) comes back with its value, a skipped or
passed-over (`allow_missing`) field as `Default::default()` -/
def ordExpected (skipNames : Bool) : List (Field × Val) → List Col → List Val
  | [], _ => []
  | (f, v) :: fs, db =>
    if f.skip then defaultVal f :: ordExpected skipNames fs db
    else match db with
      | [] => defaultVal f :: ordExpected skipNames fs []
      | c :: cs =>
        if skipNames || c.name == f.col then v :: ordExpected skipNames fs cs
        else defaultVal f :: ordExpected skipNames fs (c :: cs)

private theorem dvDeOrd_walk (sn forbid : Bool) (fvs : List (Field × Val)) (hwt : ∀ p ∈ fvs, WellTyped p.1 p.2) :
    ∀ (db : List Col) (cells : List Cell),
    svOrdered sn forbid (fvs.filter (fun p => !p.1.skip)) db = .ok cells →
    dvDeOrd sn (fvs.map (·.1)) (udtItems db cells) = .ok (ordExpected sn fvs db) := by
  induction fvs with
  | nil => intro db cells _; rfl
  | cons p fvs ih =>
    intro db cells h
    obtain ⟨f, v⟩ := p
    have ih' := ih (fun q hq => hwt q (List.mem_cons_of_mem _ hq))
    simp only [List.map_cons]
    unfold dvDeOrd ordExpected
    by_cases hs : f.skip = true
    · rw [List.filter_cons] at h
      simp only [hs, Bool.not_true, Bool.false_eq_true, if_false] at h
      simp only [hs, if_true]
      rw [ih' db cells h]
    · simp only [Bool.not_eq_true] at hs
      rw [List.filter_cons] at h
      simp only [hs, Bool.not_false, if_true] at h
      simp only [hs, Bool.false_eq_true, if_false]
      cases db with
      | nil =>
        unfold svOrdered at h
        split at h
        · rename_i ha
          have := ih' [] cells h
          simp only [udtItems] at this ⊢
          simp only [ha, if_true, this]
        · cases h
      | cons c cs =>
        unfold svOrdered at h
        by_cases hn : (sn || c.name == f.col) = true
        · simp only [hn, if_true] at h
          cases hsv : serVal f v c.ty with
          | none => rw [hsv] at h; cases h
          | some cell =>
            rw [hsv] at h
            simp only [] at h
            have hcell := serVal_some hsv
            subst hcell
            cases hr : svOrdered sn forbid (fvs.filter (fun p => !p.1.skip)) cs with
            | error x => rw [hr] at h; cases h
            | ok cells' =>
              rw [hr] at h
              cases h
              have hn' : (sn || f.col == c.name) = true := by
                simp only [Bool.or_eq_true, beq_iff_eq] at hn ⊢
                rcases hn with h | h
                · exact Or.inl h
                · exact Or.inr h.symm
              simp only [udtItems, hn', hn, if_true,
                deValD_wellTyped f cell (hwt (f, cell) (List.mem_cons_self ..)), ih' cs cells' hr]
        · simp only [Bool.not_eq_true] at hn
          simp only [hn, Bool.false_eq_true, if_false] at h
          split at h
          · rename_i ha
            have hn' : (sn || f.col == c.name) = false := by
              simp only [Bool.or_eq_false_iff, beq_eq_false_iff_ne] at hn ⊢
              exact ⟨hn.1, fun h => hn.2 h.symm⟩
            have := ih' (c :: cs) cells h
            cases cells with
            | nil =>
              simp only [udtItems] at this ⊢
              simp only [hn', hn, Bool.false_eq_true, if_false, ha, if_true, this]
            | cons x xs =>
              simp only [udtItems] at this ⊢
              simp only [hn', hn, Bool.false_eq_true, if_false, ha, if_true, this]
          · cases h

/-- `ordered_roundtrip`: for the ordered flavor (names checked or `skip_name_checks`), if serialization to a
UDT succeeds and the UDT passes the type check, deserializing the written cells returns, field by field, what
the lock-step walk bound: the value of every field that took a column, the default for the others. -/
theorem ordered_roundtrip (d : Desc) (fvs : List (Field × Val)) (db : List Col) (cells : List Cell)
    (hfl : d.flavor = .ordered) (hfields : d.fields = fvs.map (·.1))
    (hwt : ∀ p ∈ fvs, WellTyped p.1 p.2)
    (hser : serValue d fvs db = .ok cells) (htc : tcValueOrdered d db = .ok ()) :
    deserValue d db cells = .ok (ordExpected d.skipNameChecks fvs db) := by
  unfold serValue at hser
  rw [hfl] at hser
  unfold deserValue
  rw [hfl]
  simp only [htc]
  unfold deValueOrdered
  rw [hfields]
  exact dvDeOrd_walk d.skipNameChecks d.forbidExcess fvs hwt db cells hser

/-- the `required_fields` pre-check of the ordered UDT type check is implied by the walk: the type check
succeeds exactly when the walk over the non-skipped fields does -/
theorem tcValueOrdered_iff_walk (d : Desc) (db : List Col) :
    tcValueOrdered d db = .ok () ↔
      dvTcOrd d.skipNameChecks d.forbidExcess (d.fields.filter (fun f => !f.skip)) db = .ok () := by
  unfold tcValueOrdered
  have hcount : requiredCount d.fields = ((d.fields.filter (fun f => !f.skip)).filter (fun f => !f.allowMissing)).length := by
    unfold requiredCount
    rw [List.filter_filter]
    congr 1
    apply List.filter_congr
    intro f _
    simp [Field.required, Bool.and_comm]
  by_cases hlt : db.length < requiredCount d.fields
  · simp only [hlt, if_true, reduceCtorEq, false_iff]
    intro h
    have := dvTcOrd_length _ _ _ db h
    omega
  · simp only [hlt, if_false]

/-! ### the ordered UDT deserialize walk on ARBITRARY cells -/

/-- documented result of ordered row deserialization: the i-th non-skipped field takes the i-th cell
(`default_when_null` turning null into the default), skipped fields are `Default::default()`;
`none` = some cell does not deserialize / a cell is missing -/
def ordRowExpected : List Field → List Cell → Option (List Val)
  | [], _ => some []
  | f :: fs, cells =>
    if f.skip then (ordRowExpected fs cells).map (defaultVal f :: ·)
    else match cells with
      | [] => none
      | x :: xs =>
        match deValD f x with
        | none => none
        | some v => (ordRowExpected fs xs).map (v :: ·)


/-- documented result of the ordered UDT deserialize walk over the (field, cell) items `UdtIterator` yields (a
field beyond the serialized cells counts as null): a non-skipped field takes the head item when the names
agree (`skip_name_checks`: always) — `default_when_null` turning null into the default, a null on a
non-`Option` field failing —, otherwise it is passed over and defaulted; `none` = some taken cell does not
deserialize -/
def ordUdtExpected (skipNames : Bool) : List Field → List (Col × Cell) → Option (List Val)
  | [], _ => some []
  | f :: fs, items =>
    if f.skip then (ordUdtExpected skipNames fs items).map (defaultVal f :: ·)
    else match items with
      | [] => (ordUdtExpected skipNames fs []).map (defaultVal f :: ·)
      | (c, x) :: rest =>
        if skipNames || f.col == c.name then
          match deValD f x with
          | none => none
          | some v => (ordUdtExpected skipNames fs rest).map (v :: ·)
        else (ordUdtExpected skipNames fs ((c, x) :: rest)).map (defaultVal f :: ·)

private theorem dvDeOrd_spec_walk (sn forbid : Bool) (fields : List Field) : ∀ (items : List (Col × Cell)),
    dvTcOrd sn forbid (fields.filter (fun f => !f.skip)) (items.map (·.1)) = .ok () →
    dvDeOrd sn fields items =
      match ordUdtExpected sn fields items with
      | some vs => .ok vs
      | none => .error .dvFieldDeserFailed := by
  induction fields with
  | nil => intro items _; rfl
  | cons f fs ih =>
    intro items htc
    unfold dvDeOrd ordUdtExpected
    by_cases hs : f.skip = true
    · rw [List.filter_cons] at htc
      simp only [hs, Bool.not_true, Bool.false_eq_true, if_false] at htc
      simp only [hs, if_true, ih items htc]
      cases ordUdtExpected sn fs items <;> rfl
    · simp only [Bool.not_eq_true] at hs
      rw [List.filter_cons] at htc
      simp only [hs, Bool.not_false, if_true] at htc
      simp only [hs, Bool.false_eq_true, if_false]
      cases items with
      | nil =>
        simp only [List.map_nil] at htc
        unfold dvTcOrd at htc
        split at htc
        · rename_i ha
          simp only [ha, if_true, ih [] (by simpa using htc)]
          cases ordUdtExpected sn fs [] <;> rfl
        · cases htc
      | cons it rest =>
        obtain ⟨c, x⟩ := it
        simp only [List.map_cons] at htc
        unfold dvTcOrd at htc
        simp only []
        by_cases hn : (!sn && f.col != c.name) = true
        · simp only [hn, if_true] at htc
          have hn' : (sn || f.col == c.name) = false := by cases sn <;> simp_all
          simp only [hn', Bool.false_eq_true, if_false]
          split at htc
          · rename_i ha
            simp only [ha, if_true, ih ((c, x) :: rest) (by simpa using htc)]
            cases ordUdtExpected sn fs ((c, x) :: rest) <;> rfl
          · cases htc
        · simp only [Bool.not_eq_true] at hn
          simp only [hn, Bool.false_eq_true, if_false] at htc
          have hn' : (sn || f.col == c.name) = true := by cases sn <;> simp_all
          simp only [hn', if_true]
          split at htc
          · cases htc
          · cases hd : deValD f x with
            | none => rfl
            | some v =>
              simp only [ih rest htc]
              cases ordUdtExpected sn fs rest <;> rfl

/-- `dvDeOrd_spec`: after a successful ordered UDT type check, deserialization of ARBITRARY cells (nulls
anywhere, fewer cells than fields, more cells than fields) follows the lock-step walk `ordUdtExpected` and fails
— with `FieldDeserializationFailed` — exactly when a taken cell does not deserialize; none of the generated
`panic!`s ("field name mismatch", "too few CQL UDT fields") is reachable. -/
theorem dvDeOrd_spec (d : Desc) (db : List Col) (cells : List Cell) (htc : tcValueOrdered d db = .ok ()) :
    deValueOrdered d db cells =
      match ordUdtExpected d.skipNameChecks d.fields (udtItems db cells) with
      | some vs => .ok vs
      | none => .error .dvFieldDeserFailed := by
  unfold deValueOrdered
  apply dvDeOrd_spec_walk d.skipNameChecks d.forbidExcess
  rw [udtItems_fst]
  exact (tcValueOrdered_iff_walk d db).mp htc

/-- in the declared order the walk is purely positional: when the database lists exactly the non-skipped
fields' names in declared order, the i-th non-skipped field gets the i-th cell — a cell missing from the
serialized form counting as null (so: `default_when_null` ↦ default, `Option` ↦ `None`, otherwise an error) —
which is the ordered-ROW rule `ordRowExpected` on the cells padded with nulls. -/
theorem ordUdtExpected_declared (sn : Bool) (fields : List Field) : ∀ (items : List (Col × Cell)),
    items.map (·.1.name) = (fields.filter (fun f => !f.skip)).map Field.col →
    ordUdtExpected sn fields items = ordRowExpected fields (items.map (·.2)) := by
  induction fields with
  | nil => intro items _; rfl
  | cons f fs ih =>
    intro items h
    unfold ordUdtExpected ordRowExpected
    by_cases hs : f.skip = true
    · rw [List.filter_cons] at h
      simp only [hs, Bool.not_true, Bool.false_eq_true, if_false] at h
      simp only [hs, if_true, ih items h]
    · simp only [Bool.not_eq_true] at hs
      rw [List.filter_cons] at h
      simp only [hs, Bool.not_false, if_true, List.map_cons] at h
      simp only [hs, Bool.false_eq_true, if_false]
      cases items with
      | nil => simp at h
      | cons it rest =>
        obtain ⟨c, x⟩ := it
        simp only [List.map_cons, List.cons.injEq] at h
        have hn : (sn || f.col == c.name) = true := by simp [h.1]
        simp only [hn, if_true, List.map_cons, ih rest h.2]

/-! ### `ordered_roundtrip`, model-independent form -/

/-- when the database lists exactly the declared (non-skipped) names in declared order (plus any excess
suffix), what comes back through the ordered flavor is the identity up to skipped fields -/
theorem ordExpected_full (sn : Bool) (fvs : List (Field × Val)) : ∀ (db : List Col) (rest : List Col),
    names db = (fvs.filter (fun p => !p.1.skip)).map (·.1.col) →
    ordExpected sn fvs (db ++ rest) = fvs.map (fun p => if p.1.skip then defaultVal p.1 else p.2) := by
  induction fvs with
  | nil => intro db rest _; rfl
  | cons p fvs ih =>
    intro db rest h
    obtain ⟨f, v⟩ := p
    unfold ordExpected
    by_cases hs : f.skip = true
    · rw [List.filter_cons] at h
      simp only [hs, Bool.not_true, Bool.false_eq_true, if_false] at h
      simp only [hs, if_true, List.map_cons, ih db rest h]
    · simp only [Bool.not_eq_true] at hs
      rw [List.filter_cons] at h
      simp only [hs, Bool.not_false, if_true, List.map_cons] at h
      cases db with
      | nil => simp [names] at h
      | cons c cs =>
        simp only [names, List.map_cons, List.cons.injEq] at h
        simp only [hs, Bool.false_eq_true, if_false, List.cons_append, List.map_cons]
        have : (sn || c.name == f.col) = true := by simp [h.1]
        simp only [this, if_true]
        rw [ih cs rest h.2]

/-- `ordered_roundtrip_declared`: for the ordered flavor, if the database lists exactly the declared names in
declared order, value → bytes → value is the identity (skipped fields ↦ default) -/
theorem ordered_roundtrip_declared (d : Desc) (fvs : List (Field × Val)) (db : List Col) (cells : List Cell)
    (hfl : d.flavor = .ordered) (hfields : d.fields = fvs.map (·.1))
    (hwt : ∀ p ∈ fvs, WellTyped p.1 p.2)
    (hnames : names db = (fvs.filter (fun p => !p.1.skip)).map (·.1.col))
    (hser : serValue d fvs db = .ok cells) (htc : tcValueOrdered d db = .ok ()) :
    deserValue d db cells = .ok (fvs.map (fun p => if p.1.skip then defaultVal p.1 else p.2)) := by
  rw [ordered_roundtrip d fvs db cells hfl hfields hwt hser htc]
  have := ordExpected_full d.skipNameChecks fvs db [] hnames
  rw [List.append_nil] at this
  rw [this]

/-- an ordered row with fewer cells than columns is never accepted either -/
theorem deRowOrdered_short (sn : Bool) (fields : List Field) : ∀ (db : List Col) (cells : List Cell),
    db.length = (fields.filter (fun f => !f.skip)).length → cells.length < db.length →
    ∃ x, drDeOrd sn fields (rowItems db cells) = .error x := by
  induction fields with
  | nil => intro db cells h1 h2; simp only [List.filter_nil, List.length_nil] at h1; omega
  | cons f fs ih =>
    intro db cells h1 h2
    unfold drDeOrd
    by_cases hs : f.skip = true
    · rw [List.filter_cons] at h1
      simp only [hs, Bool.not_true, Bool.false_eq_true, if_false] at h1
      simp only [hs, if_true]
      obtain ⟨x, hx⟩ := ih db cells h1 h2
      exact ⟨x, by rw [hx]⟩
    · simp only [Bool.not_eq_true] at hs
      rw [List.filter_cons] at h1
      simp only [hs, Bool.not_false, if_true, List.length_cons] at h1
      simp only [hs, Bool.false_eq_true, if_false]
      cases db with
      | nil => simp at h1
      | cons c cs =>
        cases cells with
        | nil => exact ⟨_, rfl⟩
        | cons v vs =>
          simp only [rowItems]
          split
          · exact ⟨_, rfl⟩
          · cases deValD f v with
            | none => exact ⟨_, rfl⟩
            | some w =>
              simp only []
              obtain ⟨x, hx⟩ := ih cs vs (by simpa using h1) (by simpa using h2)
              exact ⟨x, by rw [hx]⟩

/-! ### ordered rows: the deserialize walk and the round trip -/

private theorem drDeOrd_spec (sn : Bool) (fields : List Field) : ∀ (db : List Col) (cells : List Cell),
    drTcOrd sn (fields.filter (fun f => !f.skip)) db = .ok () →
    db.length = (fields.filter (fun f => !f.skip)).length → db.length ≤ cells.length →
    drDeOrd sn fields (rowItems db cells) =
      match ordRowExpected fields cells with
      | some vs => .ok vs
      | none => .error .drColumnDeserFailed := by
  induction fields with
  | nil => intro db cells _ _ _; rfl
  | cons f fs ih =>
    intro db cells htc hlen hcells
    unfold drDeOrd ordRowExpected
    by_cases hs : f.skip = true
    · rw [List.filter_cons] at htc hlen
      simp only [hs, Bool.not_true, Bool.false_eq_true, if_false] at htc hlen
      simp only [hs, if_true, ih db cells htc hlen hcells]
      cases ordRowExpected fs cells <;> rfl
    · simp only [Bool.not_eq_true] at hs
      rw [List.filter_cons] at htc hlen
      simp only [hs, Bool.not_false, if_true] at htc hlen
      simp only [hs, Bool.false_eq_true, if_false]
      cases db with
      | nil => simp at hlen
      | cons c cs =>
        cases cells with
        | nil => simp at hcells
        | cons x xs =>
          unfold drTcOrd at htc
          simp only [rowItems]
          by_cases hn : (!sn && c.name != f.col) = true
          · simp [hn] at htc
          · simp only [Bool.not_eq_true] at hn
            simp only [hn, Bool.false_eq_true, if_false] at htc ⊢
            split at htc
            · cases htc
            · cases hd : deValD f x with
              | none => rfl
              | some v =>
                simp only []
                rw [ih cs xs htc (by simpa using hlen) (by simpa using hcells)]
                cases ordRowExpected fs xs <;> rfl

/-- `deRowOrdered_spec`: after a successful ordered row type check, deserializing a row with a cell for every
column binds purely by position — the i-th non-skipped field gets the i-th cell — and fails (with
`ColumnDeserializationFailed`) exactly when some cell does not deserialize; none of the generated `panic!`s
is reachable. -/
theorem deRowOrdered_spec (d : Desc) (db : List Col) (cells : List Cell)
    (htc : tcRowOrdered d db = .ok ()) (hlen : db.length ≤ cells.length) :
    deRowOrdered d db cells =
      match ordRowExpected d.fields cells with
      | some vs => .ok vs
      | none => .error .drColumnDeserFailed := by
  obtain ⟨h1, _⟩ := (tcRowOrdered_iff d db).mp htc
  have hwalk : drTcOrd d.skipNameChecks (d.fields.filter (fun f => !f.skip)) db = .ok () := by
    unfold tcRowOrdered rowRequiredCount at htc
    have hb : (db.length != (d.fields.filter (fun f => !f.skip)).length) = false := by simp [h1]
    rw [hb] at htc
    simpa using htc
  exact drDeOrd_spec d.skipNameChecks d.fields db cells hwalk h1 hlen

private theorem ordRowExpected_roundtrip (sn : Bool) (fvs : List (Field × Val))
    (hwt : ∀ p ∈ fvs, WellTyped p.1 p.2) : ∀ (db : List Col) (cells : List Cell),
    srOrdered sn (fvs.filter (fun p => !p.1.skip)) db = .ok cells →
    ordRowExpected (fvs.map (·.1)) cells =
      some (fvs.map (fun p => if p.1.skip then defaultVal p.1 else p.2)) := by
  induction fvs with
  | nil => intro db cells _; rfl
  | cons p fvs ih =>
    intro db cells h
    obtain ⟨f, v⟩ := p
    have ih' := ih (fun q hq => hwt q (List.mem_cons_of_mem _ hq))
    simp only [List.map_cons]
    unfold ordRowExpected
    by_cases hs : f.skip = true
    · rw [List.filter_cons] at h
      simp only [hs, Bool.not_true, Bool.false_eq_true, if_false] at h
      simp only [hs, if_true, ih' db cells h, Option.map_some]
    · simp only [Bool.not_eq_true] at hs
      rw [List.filter_cons] at h
      simp only [hs, Bool.not_false, if_true] at h
      simp only [hs, Bool.false_eq_true, if_false]
      cases db with
      | nil => simp [srOrdered] at h
      | cons c cs =>
        unfold srOrdered at h
        split at h
        · cases h
        · cases hsv : serVal f v c.ty with
          | none => rw [hsv] at h; cases h
          | some cell =>
            rw [hsv] at h
            simp only [] at h
            have hcell := serVal_some hsv
            subst hcell
            cases hr : srOrdered sn (fvs.filter (fun p => !p.1.skip)) cs with
            | error x => rw [hr] at h; cases h
            | ok cells' =>
              rw [hr] at h
              cases h
              simp only [deValD_wellTyped f cell (hwt (f, cell) (List.mem_cons_self ..)), ih' cs cells' hr,
                Option.map_some]

/-- `ordered_row_roundtrip`: for the ordered flavor (names checked or `skip_name_checks`), if row
serialization succeeds and the column specs pass the type check, deserializing the written cells gives back
every field's value (`skip` fields as the default) — value → bytes → value is the identity for ordered rows
too. -/
theorem ordered_row_roundtrip (d : Desc) (fvs : List (Field × Val)) (db : List Col) (cells : List Cell)
    (hfl : d.flavor = .ordered) (hfields : d.fields = fvs.map (·.1))
    (hwt : ∀ p ∈ fvs, WellTyped p.1 p.2)
    (hser : serRow d fvs db = .ok cells) (htc : tcRowOrdered d db = .ok ()) :
    deserRow d db cells = .ok (fvs.map (fun p => if p.1.skip then defaultVal p.1 else p.2)) := by
  unfold serRow at hser
  rw [hfl] at hser
  unfold serRowOrdered at hser
  have hlen : db.length ≤ cells.length := by
    obtain ⟨h1, _, h3⟩ := (srOrdered_iff _ _ db cells).mp hser
    rw [h3, List.length_map, h1]
    exact Nat.le_refl _
  unfold deserRow
  rw [hfl]
  simp only [htc]
  rw [deRowOrdered_spec d db cells htc hlen, hfields,
    ordRowExpected_roundtrip d.skipNameChecks fvs hwt db cells hser]

/-! ### the generated `deserialize` on input it was never type-checked against -/

private theorem drDeOrd_no_panic (sn : Bool) (fields : List Field) : ∀ (db : List Col) (cells : List Cell),
    drTcOrd sn (fields.filter (fun f => !f.skip)) db = .ok () →
    db.length = (fields.filter (fun f => !f.skip)).length →
    ∀ x, drDeOrd sn fields (rowItems db cells) = .error x → x ≠ .panic := by
  induction fields with
  | nil => intro db cells _ _ x h; cases h
  | cons f fs ih =>
    intro db cells htc hlen x h
    unfold drDeOrd at h
    by_cases hs : f.skip = true
    · rw [List.filter_cons] at htc hlen
      simp only [hs, Bool.not_true, Bool.false_eq_true, if_false] at htc hlen
      simp only [hs, if_true] at h
      cases hr : drDeOrd sn fs (rowItems db cells) with
      | error y => rw [hr] at h; cases h; exact ih db cells htc hlen _ hr
      | ok vs => rw [hr] at h; cases h
    · simp only [Bool.not_eq_true] at hs
      rw [List.filter_cons] at htc hlen
      simp only [hs, Bool.not_false, if_true] at htc hlen
      simp only [hs, Bool.false_eq_true, if_false] at h
      cases db with
      | nil => simp at hlen
      | cons c cs =>
        cases cells with
        | nil => simp only [rowItems] at h; cases h; simp
        | cons v vs =>
          unfold drTcOrd at htc
          simp only [rowItems] at h
          by_cases hn : (!sn && c.name != f.col) = true
          · simp [hn] at htc
          · simp only [Bool.not_eq_true] at hn
            simp only [hn, Bool.false_eq_true, if_false] at htc h
            split at htc
            · cases htc
            · cases hd : deValD f v with
              | none => rw [hd] at h; cases h; simp
              | some w =>
                rw [hd] at h
                simp only [] at h
                cases hr : drDeOrd sn fs (rowItems cs vs) with
                | error y => rw [hr] at h; cases h; exact ih cs vs htc (by simpa using hlen) _ hr
                | ok ws => rw [hr] at h; cases h

/-- `type_check` ok ⇒ the generated `deserialize` never reaches one of its `panic!` / `unreachable!` / `assert!` /
`.expect` — for every struct descriptor, both flavors, UDT and row derives, and ANY cells (nulls, short lists) -/
theorem typecheck_ok_never_panics (d : Desc) (db : List Col) (cells : List Cell) :
    (d.flavor = .byName → ValidNames (slots d.fields) → tcValueByName d db = .ok () →
      valueDecodePanics d db cells = false) ∧
    (d.flavor = .ordered → tcValueOrdered d db = .ok () → valueDecodePanics d db cells = false) ∧
    (d.flavor = .byName → RowFields d.fields → ValidNames (slots d.fields) → tcRowByName d db = .ok () →
      rowDecodePanics d db cells = false) ∧
    (d.flavor = .ordered → tcRowOrdered d db = .ok () → rowDecodePanics d db cells = false) := by
  refine ⟨?_, ?_, ?_, ?_⟩
  · intro hfl hv htc
    unfold valueDecodePanics deValueUnchecked
    rw [hfl]
    simp only []
    cases h : deValueByName d db cells with
    | ok vs => rfl
    | error x =>
      have hd : deserValue d db cells = .error x := by unfold deserValue; rw [hfl]; simp only [htc, h]
      have := (deserValueByName_no_panic d db cells hfl hv x hd).1
      cases x <;> first | rfl | exact absurd rfl this
  · intro hfl htc
    unfold valueDecodePanics deValueUnchecked
    rw [hfl]
    simp only [dvDeOrd_spec d db cells htc]
    cases ordUdtExpected d.skipNameChecks d.fields (udtItems db cells) <;> rfl
  · intro hfl hr hv htc
    unfold rowDecodePanics deRowUnchecked
    rw [hfl]
    simp only []
    cases h : deRowByName d db cells with
    | ok vs => rfl
    | error x =>
      have hd : deserRow d db cells = .error x := by unfold deserRow; rw [hfl]; simp only [htc, h]
      have := deserRowByName_no_panic d db cells hfl hr hv
      rw [hd] at this
      cases x <;> first | rfl | exact absurd rfl this
  · intro hfl htc
    unfold rowDecodePanics deRowUnchecked
    rw [hfl]
    simp only []
    obtain ⟨h1, _⟩ := (tcRowOrdered_iff d db).mp htc
    have hwalk : drTcOrd d.skipNameChecks (d.fields.filter (fun f => !f.skip)) db = .ok () := by
      unfold tcRowOrdered rowRequiredCount at htc
      have hb : (db.length != (d.fields.filter (fun f => !f.skip)).length) = false := by simp [h1]
      rw [hb] at htc
      simpa using htc
    cases h : deRowOrdered d db cells with
    | ok vs => rfl
    | error x =>
      have := drDeOrd_no_panic d.skipNameChecks d.fields db cells hwalk h1 x h
      cases x <;> first | rfl | exact absurd rfl this

/-- WHICH rows make the generated row deserializers panic when the type check was skipped: (1) by name, a column the
struct has no field for (`unreachable!("… Unknown column name")`); (2) by name, no columns at all while a field is
not skipped (`column … missing in DB row`); (3) ordered, names checked, the first column not named like the first
non-skipped field ("field-column name mismatch"); (4) ordered, no column left for a non-skipped field (`.expect`) -/
theorem unchecked_row_panics (d : Desc) :
    (∀ c cs x xs, d.flavor = .byName → fieldFor (slots d.fields) c.name = none →
      rowDecodePanics d (c :: cs) (x :: xs) = true) ∧
    (∀ f fs cells, d.flavor = .byName → d.fields = f :: fs → f.skip = false →
      rowDecodePanics d [] cells = true) ∧
    (∀ f fs c cs x xs, d.flavor = .ordered → d.skipNameChecks = false → d.fields = f :: fs → f.skip = false →
      c.name ≠ f.col → rowDecodePanics d (c :: cs) (x :: xs) = true) ∧
    (∀ f fs cells, d.flavor = .ordered → d.fields = f :: fs → f.skip = false →
      rowDecodePanics d [] cells = true) := by
  refine ⟨?_, ?_, ?_, ?_⟩
  · intro c cs x xs hfl hf
    have hl : lookupE c.name (tcEntries d.fields) = none := by
      have := congrFun (show fv (tcEntries d.fields) = fieldFor (slots d.fields) from by
        funext n; rw [tcEntries_eq, fv_entries]) c.name
      rw [hf] at this
      unfold fv at this
      cases hl : lookupE c.name (tcEntries d.fields) with
      | none => rfl
      | some e => rw [hl] at this; cases this
    unfold rowDecodePanics deRowUnchecked deRowByName
    rw [hfl]
    simp only [rowItems]
    unfold drDeLoop
    simp [hl]
  · intro f fs cells hfl hfields hs
    unfold rowDecodePanics deRowUnchecked deRowByName
    rw [hfl, hfields]
    simp only [rowItems, drDeLoop]
    unfold drFinalize
    simp only [hs, Bool.false_eq_true, if_false]
    have hent : lookupE f.col (tcEntries (f :: fs)) = some ⟨f, none, false⟩ := by
      unfold tcEntries
      rw [List.filter_cons]
      simp only [hs, Bool.not_false, if_true, List.map_cons]
      rw [lookupE_cons]
      simp
    rw [hent]
    simp
  · intro f fs c cs x xs hfl hsn hfields hs hne
    unfold rowDecodePanics deRowUnchecked deRowOrdered
    rw [hfl, hfields, hsn]
    simp only [rowItems]
    unfold drDeOrd
    have hb : (c.name != f.col) = true := by simp [hne]
    simp [hs, hb]
  · intro f fs cells hfl hfields hs
    unfold rowDecodePanics deRowUnchecked deRowOrdered
    rw [hfl, hfields]
    simp only [rowItems]
    unfold drDeOrd
    simp [hs]

/-! ### `#[scylla(flatten)]`, ordered flavor: serializing the nested struct = serializing its flattened field list -/

mutual
/-- the non-skipped leaf fields of a (possibly nested) struct, in declaration order -/
def flatLeaves : RField → List (Field × Val)
  | .leaf f v => if f.skip then [] else [(f, v)]
  | .flat skip _ inner => if skip then [] else flatLeavesList inner
def flatLeavesList : List RField → List (Field × Val)
  | [] => []
  | r :: rs => flatLeaves r ++ flatLeavesList rs
end

mutual
/-- every flattened struct inside uses the same `skip_name_checks` setting `sn` as the enclosing one -/
def uniformSn (sn : Bool) : RField → Bool
  | .leaf _ _ => true
  | .flat _ snc inner => (snc == sn) && uniformSnList sn inner
def uniformSnList (sn : Bool) : List RField → Bool
  | [] => true
  | r :: rs => uniformSn sn r && uniformSnList sn rs
end

/-- the flat lock-step walk, returning the columns left over -/
def srOrdPrefix (sn : Bool) : List (Field × Val) → List Col → Except Err (List Cell × List Col)
  | [], db => .ok ([], db)
  | _ :: _, [] => .error .srNoColumnWithName
  | (f, v) :: fs, c :: cs =>
    if !sn && c.name != f.col then .error .srColumnNameMismatch
    else match serVal f v c.ty with
      | none => .error .srColumnSerFailed
      | some cell =>
        match srOrdPrefix sn fs cs with
        | .error x => .error x
        | .ok (cells, rest) => .ok (cell :: cells, rest)

private theorem srOrdPrefix_append (sn : Bool) (xs ys : List (Field × Val)) : ∀ db,
    srOrdPrefix sn (xs ++ ys) db =
      match srOrdPrefix sn xs db with
      | .error x => .error x
      | .ok (cells, rest) =>
        match srOrdPrefix sn ys rest with
        | .error x => .error x
        | .ok (more, rest') => .ok (cells ++ more, rest') := by
  induction xs with
  | nil =>
    intro db
    simp only [List.nil_append, srOrdPrefix]
    cases srOrdPrefix sn ys db with
    | error x => rfl
    | ok r => obtain ⟨a, b⟩ := r; rfl
  | cons p xs ih =>
    intro db
    obtain ⟨f, v⟩ := p
    cases db with
    | nil => rfl
    | cons c cs =>
      simp only [List.cons_append, srOrdPrefix]
      split
      · rfl
      · cases serVal f v c.ty with
        | none => rfl
        | some cell =>
          simp only [ih cs]
          cases srOrdPrefix sn xs cs with
          | error x => rfl
          | ok r =>
            obtain ⟨a, b⟩ := r
            simp only []
            cases srOrdPrefix sn ys b with
            | error x => rfl
            | ok r' => obtain ⟨a', b'⟩ := r'; rfl

private theorem srOrdered_eq_prefix (sn : Bool) (fs : List (Field × Val)) : ∀ db,
    srOrdered sn fs db =
      match srOrdPrefix sn fs db with
      | .error x => .error x
      | .ok (cells, []) => .ok cells
      | .ok (_, _ :: _) => .error .srValueMissingForColumn := by
  induction fs with
  | nil => intro db; cases db <;> rfl
  | cons p fs ih =>
    intro db
    obtain ⟨f, v⟩ := p
    cases db with
    | nil => rfl
    | cons c cs =>
      simp only [srOrdered, srOrdPrefix]
      split
      · rfl
      · cases serVal f v c.ty with
        | none => rfl
        | some cell =>
          simp only [ih cs]
          cases srOrdPrefix sn fs cs with
          | error x => rfl
          | ok r =>
            obtain ⟨a, b⟩ := r
            cases b <;> rfl

private theorem srOrderedN_list (sn : Bool) : ∀ (rs : List RField) (db : List Col),
    uniformSnList sn rs = true → srOrderedN sn rs db = srOrdPrefix sn (flatLeavesList rs) db
  | [], db, _ => by simp [srOrderedN, flatLeavesList, srOrdPrefix]
  | .leaf f v :: rest, db, h => by
    unfold uniformSnList at h
    simp only [Bool.and_eq_true] at h
    have ihrest := fun db => srOrderedN_list sn rest db h.2
    unfold srOrderedN flatLeavesList flatLeaves
    by_cases hs : f.skip = true
    · simp only [hs, if_true, List.nil_append]
      exact ihrest db
    · simp only [Bool.not_eq_true] at hs
      simp only [hs, Bool.false_eq_true, if_false, List.singleton_append]
      cases db with
      | nil => rfl
      | cons c cs =>
        simp only [srOrdPrefix]
        split
        · rfl
        · cases serVal f v c.ty with
          | none => rfl
          | some cell =>
            simp only [ihrest cs]
            cases srOrdPrefix sn (flatLeavesList rest) cs <;> rfl
  | .flat skip snc inner :: rest, db, h => by
    unfold uniformSnList uniformSn at h
    simp only [Bool.and_eq_true, beq_iff_eq] at h
    have ihrest := fun db => srOrderedN_list sn rest db h.2
    have ihinner := fun db => srOrderedN_list sn inner db h.1.2
    unfold srOrderedN flatLeavesList flatLeaves
    by_cases hs : skip = true
    · simp only [hs, if_true, List.nil_append]
      exact ihrest db
    · simp only [Bool.not_eq_true] at hs
      simp only [hs, Bool.false_eq_true, if_false]
      rw [h.1.1, ihinner db, srOrdPrefix_append]
      cases srOrdPrefix sn (flatLeavesList inner) db with
      | error x => rfl
      | ok r' =>
        obtain ⟨a, b⟩ := r'
        simp only [ihrest b]
        cases srOrdPrefix sn (flatLeavesList rest) b <;> rfl

/-- `serRow_flatten_eq_flat` (ordered flavor): serializing a struct with `#[scylla(flatten)]` sub-structs (all
with the enclosing struct's `skip_name_checks` setting) is serializing the flattened list of its non-skipped
leaf fields — results and error kinds coincide. -/
theorem serRowOrderedN_eq_flat (sn : Bool) (rs : List RField) (db : List Col)
    (hu : uniformSnList sn rs = true) :
    serRowOrderedN sn rs db = srOrdered sn (flatLeavesList rs) db := by
  unfold serRowOrderedN
  rw [srOrderedN_list sn rs db hu, srOrdered_eq_prefix]
  cases srOrdPrefix sn (flatLeavesList rs) db with
  | error x => rfl
  | ok r => obtain ⟨a, b⟩ := r; cases b <;> rfl

/-! ### `#[scylla(flatten)]`, by-name flavor: nested = flattened field list (after /repo b2d6bfa) -/

private theorem entries_append (xs ys : List (Field × Val)) : entries (xs ++ ys) = entries xs ++ entries ys := by
  unfold entries
  rw [List.filter_append, List.map_append]

private theorem countActive_cons_leaf (f : Field) (v : Val) (rest : List RField) :
    countActive (.leaf f v :: rest) = (if f.skip then 0 else 1) + countActive rest := rfl
private theorem countActive_cons_flat (skip snc : Bool) (inner rest : List RField) :
    countActive (.flat skip snc inner :: rest) = (if skip then 0 else 1) + countActive rest := rfl

/-- `SerializeRowByName::partial` of a nested struct: its leaves are the entries of the flattened field list,
the invariant holds, and `remaining_count` is the number of (unset) flags -/
private theorem mkPFields_spec : ∀ (rs : List RField),
    leavesL (mkPFields rs) = entries (flatLeavesList rs) ∧ invL (mkPFields rs) ∧
      countActive rs = unflagged (mkPFields rs)
  | [] => by simp [mkPFields, leavesL, flatLeavesList, entries, invL, countActive, unflagged]
  | .leaf f v :: rest => by
    obtain ⟨h1, h2, h3⟩ := mkPFields_spec rest
    rw [countActive_cons_leaf]
    unfold mkPFields mkPField flatLeavesList flatLeaves
    by_cases hs : f.skip = true
    · simp only [hs, if_true, List.nil_append, Nat.zero_add]
      exact ⟨h1, h2, h3⟩
    · simp only [Bool.not_eq_true] at hs
      simp only [hs, Bool.false_eq_true, if_false]
      refine ⟨?_, ?_, ?_⟩
      · rw [leavesL_cons_leaf, h1, entries_append]
        simp [entries, hs]
      · rw [invL_cons]; exact ⟨trivial, h2⟩
      · rw [unflagged_cons, h3]; simp [flagged]
  | .flat skip snc inner :: rest => by
    obtain ⟨h1, h2, h3⟩ := mkPFields_spec rest
    obtain ⟨i1, i2, i3⟩ := mkPFields_spec inner
    rw [countActive_cons_flat]
    unfold mkPFields mkPField flatLeavesList flatLeaves
    by_cases hs : skip = true
    · simp only [hs, if_true, List.nil_append, Nat.zero_add]
      exact ⟨h1, h2, h3⟩
    · simp only [Bool.not_eq_true] at hs
      simp only [hs, Bool.false_eq_true, if_false]
      refine ⟨?_, ?_, ?_⟩
      · rw [leavesL_cons_flat, h1, i1, entries_append]
      · rw [invL_cons]
        exact ⟨by unfold invP; exact ⟨i2, i3, fun h => by cases h⟩, h2⟩
      · rw [unflagged_cons, h3]; simp [flagged]

/-- `serRowByName_flatten_eq_flat`: by-name serialization of a struct with `#[scylla(flatten)]` sub-structs —
any nesting depth, skipped and empty sub-structs included — IS by-name serialization of the flattened list of
its non-skipped leaf fields: same cells, same error kind, for every column list.  Hypothesis: leaf names
pairwise distinct (a name used twice is shadowed).  True of the code since b2d6bfa; before, the C16-F8 shape
was a counterexample. -/
theorem serRowByName_flatten_eq_flat (rs : List RField) (db : List Col) (hv : ValidNames (flatLeavesList rs)) :
    serRowByNameN rs db = serRowByName (flatLeavesList rs) db := by
  obtain ⟨h1, h2, h3⟩ := mkPFields_spec rs
  unfold serRowByNameN serRowByName
  simp only []
  have hnd : NodupLeaves (mkPFields rs) := by unfold NodupLeaves; rw [h1]; exact hv
  have hlen : (entries (flatLeavesList rs)).length = unv allTrue (leavesL (mkPFields rs)) := by
    rw [h1]
    unfold unv
    rw [List.filter_eq_self.mpr]
    intro e he
    simp [entries_unvisited _ e he, allTrue]
  have hsim := loopN_sim db (mkPFields rs) (countActive rs) (entries (flatLeavesList rs)).length hnd h2 h3 hlen
  rw [h1] at hsim
  cases hloop : srLoop db (entries (flatLeavesList rs)) (entries (flatLeavesList rs)).length with
  | error x =>
    rw [hloop] at hsim
    simp only [] at hsim ⊢
    rw [hsim]
  | ok r =>
    obtain ⟨cells, es', r'⟩ := r
    rw [hloop] at hsim
    simp only [] at hsim ⊢
    obtain ⟨fields', rem', hl, hleaves, hinv', hrem', hr'⟩ := hsim
    rw [hl]
    simp only []
    rw [checkMissingN_spec fields' rem' hinv' hrem', hleaves, ← hr']

/-- consequently the flattened struct obeys the by-name law: accepted exactly when every column is bound to a
leaf (at any nesting depth) whose value fits and every non-skipped leaf has its column; the cells are the
leaves' values at their columns' positions -/
theorem serRowByNameN_iff (rs : List RField) (db : List Col) (hv : ValidNames (flatLeavesList rs))
    (cells : List Cell) :
    serRowByNameN rs db = .ok cells ↔
      (∀ c ∈ db, ∃ f v, fieldFor (flatLeavesList rs) c.name = some (f, v) ∧ (v = none ∨ f.ty = c.ty)) ∧
      (∀ p ∈ flatLeavesList rs, p.1.skip = false → p.1.col ∈ names db) ∧
      cells = db.map (fun c => ((fieldFor (flatLeavesList rs) c.name).map (·.2)).getD none) := by
  rw [serRowByName_flatten_eq_flat rs db hv]
  exact serRowByName_iff (flatLeavesList rs) db hv cells

/-! ### exact error kinds of the by-name UDT serializer -/

private theorem svFirstErr_append (forbid : Bool) (look : String → Option (Field × Val)) (pre : List Col) (c : Col)
    (post : List Col) (hpre : ∀ c' ∈ pre, colOk forbid look c' = true) (hbad : colOk forbid look c = false) :
    svFirstErr forbid look (pre ++ c :: post) =
      if (look c.name).isSome then .svFieldSerFailed else .svNoSuchField := by
  induction pre with
  | nil => simp [svFirstErr, hbad]
  | cons a pre ih =>
    simp only [List.cons_append, svFirstErr, hpre a (List.mem_cons_self ..), if_true]
    exact ih (fun c' hc' => hpre c' (List.mem_cons_of_mem _ hc'))

/-- the error is that of the FIRST unacceptable column in database order: `FieldSerializationFailed` when a
field is bound to it (its value does not fit the column's type), `NoSuchFieldInUdt` when it is an excess
column under `forbid_excess_udt_fields` — and this takes precedence over a missing required field. -/
theorem serValueByName_error_kind (d : Desc) (fvs : List (Field × Val)) (pre : List Col) (c : Col) (post : List Col)
    (hv : ValidNames fvs) (hpre : ∀ c' ∈ pre, ColAccepted d.forbidExcess fvs c')
    (hbad : ¬ ColAccepted d.forbidExcess fvs c) :
    serValueByName d fvs (pre ++ c :: post) =
      .error (if (fieldFor fvs c.name).isSome then .svFieldSerFailed else .svNoSuchField) := by
  rw [serValueByName_closed d fvs _ hv]
  have hbad' : colOk d.forbidExcess (fv (entries fvs)) c = false := by
    rw [← Bool.not_eq_true]; exact fun h => hbad ((colOk_iff _ fvs c).mp h)
  have hall : (pre ++ c :: post).all (colOk d.forbidExcess (fv (entries fvs))) = false := by
    rw [← Bool.not_eq_true, List.all_eq_true]
    intro h
    have := h c (by simp)
    rw [hbad'] at this; cases this
  rw [hall]
  simp only [Bool.false_eq_true, if_false]
  rw [svFirstErr_append _ _ pre c post (fun c' hc' => (colOk_iff _ fvs c').mpr (hpre c' hc')) hbad', fv_entries]

/-- a database field name listed twice: by-name SERIALIZATION writes the bound field's value at BOTH
positions (instance of `serValueByName_position`, which needs no distinctness), whereas the by-name type
check of deserialization rejects the UDT (`DuplicatedField`) — so `byname_roundtrip` is stated for distinct
database names only. -/
theorem tcValueByName_duplicate_rejected (d : Desc) (db : List Col) (hv : ValidNames (slots d.fields))
    (i j : Nat) (c c' : Col) (hij : i < j) (hi : db[i]? = some c) (hj : db[j]? = some c') (hn : c.name = c'.name)
    (hb : (fieldFor (slots d.fields) c.name).isSome = true) :
    tcValueByName d db ≠ .ok () := by
  intro h
  obtain ⟨_, hnd, _⟩ := (tcValueByName_accepts_iff d db hv).mp h
  -- two bound columns of the same name survive the filter
  have key : ∀ (db : List Col) (i j : Nat), i < j → db[i]? = some c → db[j]? = some c' →
      ¬ (matchedNames (fieldFor (slots d.fields)) db).Nodup := by
    intro db
    induction db with
    | nil => intro i j _ hi; simp at hi
    | cons a db ih =>
      intro i j hij hi hj hnd
      unfold matchedNames at hnd
      rw [List.filter_cons] at hnd
      cases j with
      | zero => omega
      | succ j =>
        simp only [List.getElem?_cons_succ] at hj
        cases i with
        | zero =>
          simp only [List.getElem?_cons_zero, Option.some.injEq] at hi
          subst hi
          simp only [hb, if_true, List.map_cons, List.nodup_cons] at hnd
          apply hnd.1
          rw [hn]
          exact List.mem_map.mpr ⟨c', List.mem_filter.mpr ⟨List.mem_of_getElem? hj, by rw [← hn]; exact hb⟩, rfl⟩
        | succ i =>
          simp only [List.getElem?_cons_succ] at hi
          apply ih i j (by omega) hi hj
          split at hnd
          · simp only [List.map_cons, List.nodup_cons] at hnd; exact hnd.2
          · exact hnd
  exact key db i j hij hi hj hnd

/-! ### tie to the macro SOURCES (`Generated/DeriveC16.lean`, re-extracted from `scylla-macros/src` on every run)

`G.*` are lists copied from the Rust text by `tools/extract_derive_c16.py`: the attribute names each derive accepts,
its `is_required` rule, and — per code generator — the error variants and panicking macros it plants, in source
order.  The theorems below prove the interpreter against them: a macro edit that adds / drops an attribute or an
error emission breaks an obligation here. -/

section SourceTie
open ScyllaVerif.Generated

/-- every attribute the four derives accept is represented in the descriptor (`Field` / `Desc` / `RField.flat`) -/
theorem source_attrs_modelled :
    (∀ a ∈ DeriveC16.svFieldAttrs ++ DeriveC16.srFieldAttrs ++ DeriveC16.dvFieldAttrs ++ DeriveC16.drFieldAttrs,
      a ∈ ["rename", "skip", "allow_missing", "default_when_null", "flatten"]) ∧
    (∀ a ∈ DeriveC16.svStructAttrs ++ DeriveC16.srStructAttrs ++ DeriveC16.dvStructAttrs ++ DeriveC16.drStructAttrs,
      a ∈ ["crate", "flavor", "skip_name_checks", "forbid_excess_udt_fields"]) := by
  constructor <;> simp [DeriveC16.svFieldAttrs, DeriveC16.srFieldAttrs, DeriveC16.dvFieldAttrs, DeriveC16.drFieldAttrs,
    DeriveC16.svStructAttrs, DeriveC16.srStructAttrs, DeriveC16.dvStructAttrs, DeriveC16.drStructAttrs]

/-- which derive has which attribute — the facts the row theorems' hypotheses rest on: rows have no
`allow_missing` (`RowFields`) and no `forbid_excess_udt_fields`; `flatten` exists for `SerializeRow` only (so
there is nothing to distribute on the deserialization side); both UDT derives share one attribute set -/
theorem source_attr_matrix :
    "allow_missing" ∉ DeriveC16.srFieldAttrs ∧ "allow_missing" ∉ DeriveC16.drFieldAttrs ∧
    "allow_missing" ∈ DeriveC16.svFieldAttrs ∧ "allow_missing" ∈ DeriveC16.dvFieldAttrs ∧
    "flatten" ∈ DeriveC16.srFieldAttrs ∧ "flatten" ∉ DeriveC16.svFieldAttrs ∧
    "flatten" ∉ DeriveC16.dvFieldAttrs ∧ "flatten" ∉ DeriveC16.drFieldAttrs ∧
    "forbid_excess_udt_fields" ∈ DeriveC16.svStructAttrs ∧ "forbid_excess_udt_fields" ∈ DeriveC16.dvStructAttrs ∧
    "forbid_excess_udt_fields" ∉ DeriveC16.srStructAttrs ∧ "forbid_excess_udt_fields" ∉ DeriveC16.drStructAttrs ∧
    (∀ a, a ∈ DeriveC16.svFieldAttrs ↔ a ∈ DeriveC16.dvFieldAttrs) ∧
    (∀ a, a ∈ DeriveC16.drFieldAttrs → a ∈ DeriveC16.srFieldAttrs) := by
  simp [DeriveC16.svFieldAttrs, DeriveC16.srFieldAttrs, DeriveC16.dvFieldAttrs, DeriveC16.drFieldAttrs,
    DeriveC16.svStructAttrs, DeriveC16.srStructAttrs, DeriveC16.dvStructAttrs, DeriveC16.drStructAttrs]
  intro a; constructor <;> (intro h; rcases h with h | h | h | h <;> simp [h])

/-- the interpreter's notion of a required field IS the sources' `Field::is_required` (`DeriveC16.*Required` are the
Rust expressions translated token by token by the extractor): `Field.required` for both UDT derives, the
`!skip` filter of `rowRequiredCount` for `DeserializeRow` -/
theorem source_required_rules :
    (∀ f : Field, f.required = DeriveC16.svRequired f.skip f.allowMissing) ∧
    (∀ f : Field, f.required = DeriveC16.dvRequired f.skip f.allowMissing) ∧
    (∀ fields : List Field, requiredCount fields =
      (fields.filter (fun f => DeriveC16.dvRequired f.skip f.allowMissing)).length) ∧
    (∀ fields : List Field, rowRequiredCount fields =
      (fields.filter (fun f => DeriveC16.drRequired f.skip f.allowMissing)).length) := by
  refine ⟨fun f => rfl, fun f => rfl, fun fields => ?_, fun fields => rfl⟩
  unfold requiredCount
  congr 1

/-- every error any interpreter can return — for ALL descriptors and inputs — is a variant its generator in the
macro sources emits (`RawColumnDeserializationFailed` comes from `ColumnIterator`, outside the macros) -/
theorem errors_in_source :
    (∀ d fvs db x, serValueByName d fvs db = .error x → errVariant x ∈ DeriveC16.svByNameEmits) ∧
    (∀ sn forbid fs db x, svOrdered sn forbid fs db = .error x → errVariant x ∈ DeriveC16.svOrderedEmits) ∧
    (∀ fvs db x, serRowByName fvs db = .error x →
      errVariant x ∈ DeriveC16.srByNameEmits ++ DeriveC16.srByNameRuntimeEmits ++ DeriveC16.srSerializeColumnEmits) ∧
    (∀ sn fs db x, srOrdered sn fs db = .error x →
      errVariant x ∈ DeriveC16.srOrderedEmits ++ DeriveC16.srOrderedRuntimeEmits ++ DeriveC16.srSerializeColumnEmits) ∧
    (∀ d db x, tcValueByName d db = .error x → errVariant x ∈ DeriveC16.dvTcByNameEmits) ∧
    (∀ d db cells x, deValueByName d db cells = .error x → errVariant x ∈ DeriveC16.dvDeByNameEmits) ∧
    (∀ d db x, tcValueOrdered d db = .error x → errVariant x ∈ DeriveC16.dvTcOrderedEmits) ∧
    (∀ d db cells x, deValueOrdered d db cells = .error x → errVariant x ∈ DeriveC16.dvDeOrderedEmits) ∧
    (∀ d db x, tcRowByName d db = .error x → errVariant x ∈ DeriveC16.drTcByNameEmits) ∧
    (∀ d db cells x, deRowByName d db cells = .error x →
      errVariant x ∈ DeriveC16.drDeByNameEmits ++ ["RawColumnDeserializationFailed"]) ∧
    (∀ d db x, tcRowOrdered d db = .error x → errVariant x ∈ DeriveC16.drTcOrderedEmits) ∧
    (∀ d db cells x, deRowOrdered d db cells = .error x →
      errVariant x ∈ DeriveC16.drDeOrderedEmits ++ ["RawColumnDeserializationFailed"]) := by
  refine ⟨?_, ?_, ?_, ?_, ?_, ?_, ?_, ?_, ?_, ?_, ?_, ?_⟩
  · intro d fvs db x h
    have := serValueByName_errs d fvs db x h
    simp only [List.mem_cons, List.not_mem_nil, or_false] at this
    rcases this with rfl | rfl | rfl <;> simp [errVariant, DeriveC16.svByNameEmits]
  · intro sn forbid fs db x h
    have := svOrdered_errs sn forbid fs db x h
    simp only [List.mem_cons, List.not_mem_nil, or_false] at this
    rcases this with rfl | rfl | rfl | rfl <;> simp [errVariant, DeriveC16.svOrderedEmits]
  · intro fvs db x h
    have := serRowByName_errs fvs db x h
    simp only [List.mem_cons, List.not_mem_nil, or_false] at this
    rcases this with rfl | rfl | rfl <;>
      simp [errVariant, DeriveC16.srByNameEmits, DeriveC16.srByNameRuntimeEmits, DeriveC16.srSerializeColumnEmits]
  · intro sn fs db x h
    have := srOrdered_errs sn fs db x h
    simp only [List.mem_cons, List.not_mem_nil, or_false] at this
    rcases this with rfl | rfl | rfl | rfl <;>
      simp [errVariant, DeriveC16.srOrderedEmits, DeriveC16.srOrderedRuntimeEmits, DeriveC16.srSerializeColumnEmits]
  · intro d db x h
    have := tcValueByName_errs d db x h
    simp only [List.mem_cons, List.not_mem_nil, or_false] at this
    rcases this with rfl | rfl | rfl | rfl <;> simp [errVariant, DeriveC16.dvTcByNameEmits]
  · intro d db cells x h
    have := deValueByName_errs d db cells x h
    simp only [List.mem_cons, List.not_mem_nil, or_false] at this
    rcases this with rfl | rfl <;> simp [errVariant, DeriveC16.dvDeByNameEmits]
  · intro d db x h
    have := tcValueOrdered_errs d db x h
    simp only [List.mem_cons, List.not_mem_nil, or_false] at this
    rcases this with rfl | rfl | rfl | rfl <;> simp [errVariant, DeriveC16.dvTcOrderedEmits]
  · intro d db cells x h
    have := dvDeOrd_errs _ _ _ x h
    simp only [List.mem_cons, List.not_mem_nil, or_false] at this
    rcases this with rfl | rfl <;> simp [errVariant, DeriveC16.dvDeOrderedEmits]
  · intro d db x h
    have := tcRowByName_errs d db x h
    simp only [List.mem_cons, List.not_mem_nil, or_false] at this
    rcases this with rfl | rfl | rfl | rfl <;> simp [errVariant, DeriveC16.drTcByNameEmits]
  · intro d db cells x h
    have := deRowByName_errs d db cells x h
    simp only [List.mem_cons, List.not_mem_nil, or_false] at this
    rcases this with rfl | rfl | rfl <;> simp [errVariant, DeriveC16.drDeByNameEmits]
  · intro d db x h
    have := tcRowOrdered_errs d db x h
    simp only [List.mem_cons, List.not_mem_nil, or_false] at this
    rcases this with rfl | rfl | rfl <;> simp [errVariant, DeriveC16.drTcOrderedEmits]
  · intro d db cells x h
    have := drDeOrd_errs _ _ _ x h
    simp only [List.mem_cons, List.not_mem_nil, or_false] at this
    rcases this with rfl | rfl | rfl <;> simp [errVariant, DeriveC16.drDeOrderedEmits]

/-- conversely, every variant a generator emits is one the corresponding interpreter knows, and only
the `deserialize` generators plant panicking macros — the ones `deserValueByName_no_panic`, `dvDeOrd_spec`,
`deserRowByName_no_panic`, `deRowOrdered_spec` prove unreachable after the type check -/
theorem source_emissions_modelled :
    (∀ s ∈ DeriveC16.svByNameEmits,
      s ∈ [Err.svNotUdt, Err.svFieldSerFailed, Err.svNoSuchField, Err.svValueMissing].map errVariant) ∧
    (∀ s ∈ DeriveC16.svOrderedEmits,
      s ∈ [Err.svNotUdt, Err.svNoSuchField, Err.svValueMissing, Err.svFieldSerFailed,
        Err.svFieldNameMismatch].map errVariant) ∧
    (∀ s ∈ DeriveC16.dvExtractFieldsEmits, s ∈ [Err.dvNotUdt].map errVariant) ∧
    (∀ s ∈ DeriveC16.srByNameEmits ++ DeriveC16.srByNameRuntimeEmits ++ DeriveC16.srSerializeColumnEmits,
      s ∈ [Err.srColumnSerFailed, Err.srValueMissingForColumn, Err.srNoColumnWithName].map errVariant) ∧
    (∀ s ∈ DeriveC16.srOrderedEmits ++ DeriveC16.srOrderedRuntimeEmits ++ DeriveC16.srSerializeColumnEmits,
      s ∈ [Err.srValueMissingForColumn, Err.srNoColumnWithName, Err.srColumnNameMismatch,
        Err.srColumnSerFailed].map errVariant) ∧
    (∀ s ∈ DeriveC16.dvTcByNameEmits,
      s ∈ [Err.dvDuplicatedField, Err.dvFieldTypeCheckFailed, Err.dvExcessField, Err.dvValuesMissing].map errVariant) ∧
    (∀ s ∈ DeriveC16.dvTcOrderedEmits,
      s ∈ [Err.dvTooFewFields, Err.dvFieldNameMismatch, Err.dvFieldTypeCheckFailed, Err.dvExcessField].map errVariant) ∧
    (∀ s ∈ DeriveC16.dvDeByNameEmits ++ DeriveC16.dvDeOrderedEmits,
      s ∈ [Err.panic, Err.dvFieldDeserFailed].map errVariant) ∧
    (∀ s ∈ DeriveC16.drTcByNameEmits,
      s ∈ [Err.drDuplicatedColumn, Err.drColumnTypeCheckFailed, Err.drUnknownName, Err.drValuesMissing].map errVariant) ∧
    (∀ s ∈ DeriveC16.drTcOrderedEmits,
      s ∈ [Err.drWrongColumnCount, Err.drColumnNameMismatch, Err.drColumnTypeCheckFailed].map errVariant) ∧
    (∀ s ∈ DeriveC16.drDeByNameEmits ++ DeriveC16.drDeOrderedEmits,
      s ∈ [Err.panic, Err.drColumnDeserFailed].map errVariant) ∧
    "PANIC" ∉ DeriveC16.svByNameEmits ++ DeriveC16.svOrderedEmits ++ DeriveC16.srByNameEmits ++
      DeriveC16.srOrderedEmits ++ DeriveC16.srByNameRuntimeEmits ++ DeriveC16.srSerializeColumnEmits ++
      DeriveC16.srOrderedRuntimeEmits ++ DeriveC16.dvTcByNameEmits ++ DeriveC16.dvTcOrderedEmits ++
      DeriveC16.drTcByNameEmits ++ DeriveC16.drTcOrderedEmits := by
  simp [errVariant, DeriveC16.svByNameEmits, DeriveC16.svOrderedEmits, DeriveC16.srByNameEmits,
    DeriveC16.srOrderedEmits, DeriveC16.srByNameRuntimeEmits, DeriveC16.srSerializeColumnEmits,
    DeriveC16.srOrderedRuntimeEmits, DeriveC16.dvTcByNameEmits, DeriveC16.dvTcOrderedEmits,
    DeriveC16.dvDeByNameEmits, DeriveC16.dvDeOrderedEmits, DeriveC16.drTcByNameEmits, DeriveC16.drTcOrderedEmits,
    DeriveC16.drDeByNameEmits, DeriveC16.drDeOrderedEmits, DeriveC16.dvExtractFieldsEmits]

/-- PIN of the source shape the interpreter was transcribed from: per generator, the error emissions with the
attribute-flag conditions enclosing them, and all attribute-flag conditions, literally — ORDER and MULTIPLICITY
included.  A macro edit that adds, drops, renames or reorders an emission, or changes a flag condition WRITTEN AS
`if` / `.then(` FOLLOWED BY `{` (`if forbid_excess_udt_fields {`, `if field.default_when_null {`,
`(!skip_name_checks).then(|| {`, …) changes `Generated/DeriveC16.lean` and breaks this obligation.  Flags flowing
through `let`-bound locals, match-arm guards and closure filters are NOT seen here — they are covered by the
line pin `source_lines_pinned` (Props/C16Pin.lean).  Neither pin says anything about data flow or behaviour. -/
theorem source_shape_pinned :
    DeriveC16.svByNameGuarded = ["NoSuchFieldInUdt|if:self.ctx.attributes.forbid_excess_udt_fields", "NotUdt", "FieldSerializationFailed", "ValueMissingForUdtField|if:!#visited_flag_names && !#rust_field_ignore_missing_flags"] ∧
    DeriveC16.svByNameGuards = ["if:self.ctx.attributes.forbid_excess_udt_fields", "else-of:self.ctx.attributes.forbid_excess_udt_fields", "if:self .ctx .attributes .forbid_excess_udt_fields", "else-of:self .ctx .attributes .forbid_excess_udt_fields", "if:!self.ctx.attributes.forbid_excess_udt_fields", "if:!#visited_flag_names && !#rust_field_ignore_missing_flags"] ∧
    DeriveC16.svOrderedGuarded = ["NotUdt", "FieldSerializationFailed", "FieldNameMismatch|if:!#field_can_be_ignored", "ValueMissingForUdtField|if:!#field_can_be_ignored", "NoSuchFieldInUdt|if:self.ctx.attributes.forbid_excess_udt_fields"] ∧
    DeriveC16.svOrderedGuards = ["if:!self.ctx.attributes.skip_name_checks", "else-of:!self.ctx.attributes.skip_name_checks", "if:!#field_can_be_ignored", "if:!#field_can_be_ignored", "if:self.ctx.attributes.forbid_excess_udt_fields"] ∧
    DeriveC16.srByNameGuarded = ["NoColumnWithName|if:!self.#nonflattened_visited_flag_names"] ∧
    DeriveC16.srByNameGuards = ["if:!self.ctx.fields.is_empty()", "if:self.ctx.fields.is_empty()", "else-of:self.ctx.fields.is_empty()", "arm:#(#nonflattened_columns", "if:!self.#nonflattened_visited_flag_names", "if:!self.#flattened_visited_flag_names", "if:!self.#nonflattened_visited_flag_names", "if:!self.#flattened_visited_flag_names"] ∧
    DeriveC16.srOrderedGuarded = [] ∧
    DeriveC16.srOrderedGuards = ["if:f.attrs.flatten", "else-of:f.attrs.flatten"] ∧
    DeriveC16.srByNameRuntimeGuarded = ["ValueMissingForColumn"] ∧
    DeriveC16.srByNameRuntimeGuards = [] ∧
    DeriveC16.srSerializeColumnGuarded = ["ColumnSerializationFailed"] ∧
    DeriveC16.srSerializeColumnGuards = [] ∧
    DeriveC16.srOrderedRuntimeGuarded = ["ValueMissingForColumn", "NoColumnWithName", "ColumnNameMismatch|if:ENFORCE_NAME && spec.name() != expected"] ∧
    DeriveC16.srOrderedRuntimeGuards = ["if:ENFORCE_NAME && spec.name() != expected"] ∧
    DeriveC16.dvExtractFieldsGuarded = ["NotUdt"] ∧
    DeriveC16.dvExtractFieldsGuards = [] ∧
    DeriveC16.dvTcOrderedGuarded = ["FieldNameMismatch|else-of:default_when_missing", "FieldTypeCheckFailed", "ExcessFieldInUdt|then:self.0.attrs.forbid_excess_udt_fields", "TooFewFields"] ∧
    DeriveC16.dvTcOrderedGuards = ["if:default_when_missing", "else-of:default_when_missing", "then:(!skip_name_checks)", "then:self.0.attrs.forbid_excess_udt_fields"] ∧
    DeriveC16.dvDeOrderedGuarded = ["FieldDeserializationFailed", "PANIC|else-of:default_when_missing", "PANIC|else-of:default_when_missing", "FieldDeserializationFailed"] ∧
    DeriveC16.dvDeOrderedGuards = ["if:field.skip", "if:default_when_null", "else-of:default_when_null", "if:default_when_missing", "else-of:default_when_missing", "if:skip_name_checks", "else-of:skip_name_checks", "if:default_when_missing", "else-of:default_when_missing"] ∧
    DeriveC16.dvTcByNameGuarded = ["FieldTypeCheckFailed|then:(!field.skip)", "DuplicatedField|then:(!field.skip)", "ExcessFieldInUdt|if:forbid_excess_udt_fields", "ValuesMissingForUdtFields"] ∧
    DeriveC16.dvTcByNameGuards = ["then:(!field.skip)", "then:(!field.skip)", "then:field .is_required()", "then:field.is_required()", "if:forbid_excess_udt_fields", "else-of:forbid_excess_udt_fields"] ∧
    DeriveC16.dvDeByNameGuarded = ["PANIC|else-of:field.default_when_missing", "FieldDeserializationFailed|then:(!field.skip)", "PANIC|then:(!field.skip)", "FieldDeserializationFailed"] ∧
    DeriveC16.dvDeByNameGuards = ["if:field.skip", "if:field.default_when_missing", "else-of:field.default_when_missing", "then:(!field.skip)", "if:field.default_when_null", "else-of:field.default_when_null", "then:(!field.skip)"] ∧
    DeriveC16.drTcOrderedGuarded = ["ColumnNameMismatch|then:(!self.0.attrs.skip_name_checks)", "ColumnTypeCheckFailed", "WrongColumnCount"] ∧
    DeriveC16.drTcOrderedGuards = ["then:(!self.0.attrs.skip_name_checks)", "if:f.default_when_null", "else-of:f.default_when_null"] ∧
    DeriveC16.drDeOrderedGuarded = ["PANIC|then:(!self.0.struct_attrs().skip_name_checks)", "ColumnDeserializationFailed|if:field.default_when_null", "ColumnDeserializationFailed|else-of:field.default_when_null", "PANIC"] ∧
    DeriveC16.drDeOrderedGuards = ["if:field.skip", "then:(!self.0.struct_attrs().skip_name_checks)", "if:field.default_when_null", "else-of:field.default_when_null"] ∧
    DeriveC16.drTcByNameGuarded = ["ColumnTypeCheckFailed|then:(!field.skip)", "DuplicatedColumn|then:(!field.skip)", "ColumnWithUnknownName", "ValuesMissingForColumns"] ∧
    DeriveC16.drTcByNameGuards = ["then:(!field.skip)", "then:(!field.skip)", "then:field.is_required()", "if:field.default_when_null", "else-of:field.default_when_null", "then:field.is_required()"] ∧
    DeriveC16.drDeByNameGuarded = ["PANIC", "PANIC", "ColumnDeserializationFailed|if:field.default_when_null", "ColumnDeserializationFailed|else-of:field.default_when_null", "PANIC", "PANIC"] ∧
    DeriveC16.drDeByNameGuards = ["if:field.skip", "if:field.default_when_null", "else-of:field.default_when_null", "then:(!field.skip)"] :=
  ⟨rfl, rfl, rfl, rfl, rfl, rfl, rfl, rfl, rfl, rfl, rfl, rfl, rfl, rfl, rfl, rfl, rfl, rfl, rfl, rfl, rfl, rfl, rfl, rfl, rfl, rfl, rfl, rfl, rfl, rfl, rfl, rfl⟩

/-- the model-side counterpart of 6 of the flag-guarded emissions pinned above (and of the four
`default_when_null` conditions) — the link to the source is string membership in the pinned lists, the content is a
statement proved for ALL descriptors and inputs: the interpreter returns the error only under the flag that guards its
emission in the source:
`NoSuchFieldInUdt` / `ExcessFieldInUdt` only with `forbid_excess_udt_fields`; `FieldNameMismatch` /
`ColumnNameMismatch` only without `skip_name_checks`; and `default_when_null` is what turns a null into the
default (otherwise the field type's own `deserialize` decides) -/
theorem guards_govern_model :
    ("NoSuchFieldInUdt|if:self.ctx.attributes.forbid_excess_udt_fields" ∈ DeriveC16.svByNameGuarded ∧
      ∀ d fvs db, serValueByName d fvs db = .error .svNoSuchField → d.forbidExcess = true) ∧
    ("NoSuchFieldInUdt|if:self.ctx.attributes.forbid_excess_udt_fields" ∈ DeriveC16.svOrderedGuarded ∧
      "if:!self.ctx.attributes.skip_name_checks" ∈ DeriveC16.svOrderedGuards ∧
      ∀ sn forbid fs db, (svOrdered sn forbid fs db = .error .svNoSuchField → forbid = true) ∧
        (svOrdered sn forbid fs db = .error .svFieldNameMismatch → sn = false)) ∧
    ("ExcessFieldInUdt|if:forbid_excess_udt_fields" ∈ DeriveC16.dvTcByNameGuarded ∧
      ∀ d db, tcValueByName d db = .error .dvExcessField → d.forbidExcess = true) ∧
    ("ExcessFieldInUdt|then:self.0.attrs.forbid_excess_udt_fields" ∈ DeriveC16.dvTcOrderedGuarded ∧
      "then:(!skip_name_checks)" ∈ DeriveC16.dvTcOrderedGuards ∧
      ∀ sn forbid fs db, (dvTcOrd sn forbid fs db = .error .dvExcessField → forbid = true) ∧
        (dvTcOrd sn forbid fs db = .error .dvFieldNameMismatch → sn = false)) ∧
    ("ColumnNameMismatch|if:ENFORCE_NAME && spec.name() != expected" ∈ DeriveC16.srOrderedRuntimeGuarded ∧
      ∀ sn fs db, srOrdered sn fs db = .error .srColumnNameMismatch → sn = false) ∧
    ("ColumnNameMismatch|then:(!self.0.attrs.skip_name_checks)" ∈ DeriveC16.drTcOrderedGuarded ∧
      ∀ sn fs db, drTcOrd sn fs db = .error .drColumnNameMismatch → sn = false) ∧
    ("if:field.default_when_null" ∈ DeriveC16.dvDeByNameGuards ∧ "if:default_when_null" ∈ DeriveC16.dvDeOrderedGuards ∧
      "if:field.default_when_null" ∈ DeriveC16.drDeByNameGuards ∧ "if:field.default_when_null" ∈ DeriveC16.drDeOrderedGuards ∧
      ∀ f : Field, (f.defaultWhenNull = true → deValD f none = some (defaultVal f)) ∧
        (f.defaultWhenNull = false → ∀ c, deValD f c = deVal f c) ∧ (∀ b, deValD f (some b) = deVal f (some b))) := by
  refine ⟨⟨by simp [DeriveC16.svByNameGuarded], serValueByName_noSuchField⟩,
    ⟨by simp [DeriveC16.svOrderedGuarded], by simp [DeriveC16.svOrderedGuards], svOrdered_flags⟩,
    ⟨by simp [DeriveC16.dvTcByNameGuarded], tcValueByName_excess⟩,
    ⟨by simp [DeriveC16.dvTcOrderedGuarded], by simp [DeriveC16.dvTcOrderedGuards], dvTcOrd_flags⟩,
    ⟨by simp [DeriveC16.srOrderedRuntimeGuarded], srOrdered_nameMismatch⟩,
    ⟨by simp [DeriveC16.drTcOrderedGuarded], drTcOrd_nameMismatch⟩,
    ⟨by simp [DeriveC16.dvDeByNameGuards], by simp [DeriveC16.dvDeOrderedGuards], by simp [DeriveC16.drDeByNameGuards],
      by simp [DeriveC16.drDeOrderedGuards], ?_⟩⟩
  intro f
  refine ⟨fun h => by simp [deValD, h], fun h c => by simp [deValD, h], fun b => by simp [deValD]⟩

/-- BY DEFINITION of `serValueAt` / `deserValueAt` (written for this; the evidence that the macros behave so is the
run: `-:notudt` and `NULL` cases): a CQL type that is not a UDT is `NotUdt` for serialization and for the type
check, in both flavors, whatever the struct and the values -/
example (d : Desc) (fvs : List (Field × Val)) (v : Option (List Cell)) :
    serValueAt d fvs none = .error .svNotUdt ∧ deserValueAt d none v = .error .dvNotUdt := ⟨rfl, rfl⟩

/-- what IS proved about `NotUdt` and the whole-value null: the `NotUdt` kinds are emitted where the model places
them (source tie), and a null UDT value is always rejected — with `ExpectedNonNull` once the type check has
passed, with the type check's own error otherwise -/
theorem not_udt_and_null (d : Desc) (db : List Col) :
    errVariant .svNotUdt ∈ DeriveC16.svByNameEmits ∧ errVariant .svNotUdt ∈ DeriveC16.svOrderedEmits ∧
    errVariant .dvNotUdt ∈ DeriveC16.dvExtractFieldsEmits ∧
    (∃ x, deserValueAt d (some db) none = .error x) ∧
    (tcValueByName d db = .ok () → d.flavor = .byName → deserValueAt d (some db) none = .error .dvNullUdt) ∧
    (tcValueOrdered d db = .ok () → d.flavor = .ordered → deserValueAt d (some db) none = .error .dvNullUdt) := by
  refine ⟨by simp [errVariant, DeriveC16.svByNameEmits], by simp [errVariant, DeriveC16.svOrderedEmits],
    by simp [errVariant, DeriveC16.dvExtractFieldsEmits], ?_, ?_, ?_⟩
  · unfold deserValueAt deserValueOpt
    simp only []
    cases d.flavor with
    | byName => simp only []; cases tcValueByName d db with
      | error x => exact ⟨x, rfl⟩
      | ok u => exact ⟨_, rfl⟩
    | ordered => simp only []; cases tcValueOrdered d db with
      | error x => exact ⟨x, rfl⟩
      | ok u => exact ⟨_, rfl⟩
  · intro h hf; unfold deserValueAt deserValueOpt; simp only [hf, h]
  · intro h hf; unfold deserValueAt deserValueOpt; simp only [hf, h]

/-- how a field is NAMED, on all four sides: each derive's name function `unraw()`s the Rust identifier (pinned:
if one side loses it — the C16 raw-identifier defect fixed by /repo b86b9e6 — the extracted flag flips and this
obligation breaks), and that is what the interpreter's single `Field.col` does: the `rename` if present, else the
identifier without its `r#` prefix — so a struct deriving both directions writes to the column it reads from -/
theorem source_names_unraw :
    DeriveC16.svNameUnraw = true ∧ DeriveC16.srNameUnraw = true ∧
    DeriveC16.dvNameUnraw = true ∧ DeriveC16.drNameUnraw = true ∧
    (∀ f : Field, f.rename = none → f.col = unrawName f.rustName) ∧
    (∀ (f : Field) (n : String), f.rename = some n → f.col = n) ∧
    unrawName "r#type" = "type" ∧ unrawName "type" = "type" ∧ unrawName "r#" = "" := by
  refine ⟨rfl, rfl, rfl, rfl, ?_, ?_, by decide +kernel, by decide +kernel, by decide +kernel⟩
  · intro f h; simp [Field.col, h]
  · intro f n h; simp [Field.col, h]

/-- the DEFAULT flavor is by name: `#[default]` sits on `MatchByName`, every derive's `flavor` attribute is
`#[darling(default)]`, and the two spellings select the two variants (the family's structs without a `flavor`
attribute are driven through the by-name interpreter) -/
theorem source_default_flavor :
    DeriveC16.defaultFlavor = "MatchByName" ∧ DeriveC16.flavorAttrDefaulted = [true, true, true, true] ∧
    DeriveC16.flavorNames = [("match_by_name", "MatchByName"), ("enforce_order", "EnforceOrder")] :=
  ⟨rfl, rfl, rfl⟩

end SourceTie

/-! ### the generated `SerializeRow::is_empty` -/

/-- a field of a struct deriving `SerializeRow` is skipped -/
def rfieldSkipped : RField → Bool
  | .leaf f _ => f.skip
  | .flat skip _ _ => skip

private theorem countActive_zero_iff : ∀ (rs : List RField), countActive rs = 0 ↔ ∀ r ∈ rs, rfieldSkipped r = true
  | [] => by simp [countActive]
  | .leaf f v :: rest => by
    rw [countActive_cons_leaf, List.forall_mem_cons, ← countActive_zero_iff rest]
    cases hs : f.skip <;> simp [rfieldSkipped, hs]
  | .flat skip snc inner :: rest => by
    rw [countActive_cons_flat, List.forall_mem_cons, ← countActive_zero_iff rest]
    cases hs : skip <;> simp [rfieldSkipped, hs]

private theorem mkPFields_all_skipped : ∀ (rs : List RField), (∀ r ∈ rs, rfieldSkipped r = true) → mkPFields rs = []
  | [], _ => by simp [mkPFields]
  | .leaf f v :: rest, h => by
    have h1 := h _ (List.mem_cons_self ..)
    simp only [rfieldSkipped] at h1
    unfold mkPFields mkPField
    simp only [h1, if_true]
    exact mkPFields_all_skipped rest (fun r hr => h r (List.mem_cons_of_mem _ hr))
  | .flat skip snc inner :: rest, h => by
    have h1 := h _ (List.mem_cons_self ..)
    simp only [rfieldSkipped] at h1
    unfold mkPFields mkPField
    simp only [h1, if_true]
    exact mkPFields_all_skipped rest (fun r hr => h r (List.mem_cons_of_mem _ hr))

private theorem srOrderedN_all_skipped (sn : Bool) : ∀ (rs : List RField) (db : List Col),
    (∀ r ∈ rs, rfieldSkipped r = true) → srOrderedN sn rs db = .ok ([], db)
  | [], db, _ => by simp [srOrderedN]
  | .leaf f v :: rest, db, h => by
    have h1 := h _ (List.mem_cons_self ..)
    simp only [rfieldSkipped] at h1
    unfold srOrderedN
    simp only [h1, if_true]
    exact srOrderedN_all_skipped sn rest db (fun r hr => h r (List.mem_cons_of_mem _ hr))
  | .flat skip snc inner :: rest, db, h => by
    have h1 := h _ (List.mem_cons_self ..)
    simp only [rfieldSkipped] at h1
    unfold srOrderedN
    simp only [h1, if_true]
    exact srOrderedN_all_skipped sn rest db (fun r hr => h r (List.mem_cons_of_mem _ hr))

/-- `is_empty()` — which the session consults to decide whether any values are sent with the statement — is true
exactly when the struct has no unskipped field (a flattened field counts as a field, whatever it contains), and
then serialization for a statement without bind markers indeed writes nothing, in both flavors -/
theorem rowIsEmpty_iff (rs : List RField) :
    (rowIsEmpty rs = true ↔ ∀ r ∈ rs, rfieldSkipped r = true) ∧
    (rowIsEmpty rs = true → serRowByNameN rs [] = .ok [] ∧ ∀ sn, serRowOrderedN sn rs [] = .ok []) := by
  have hiff : rowIsEmpty rs = true ↔ ∀ r ∈ rs, rfieldSkipped r = true := by
    unfold rowIsEmpty
    rw [beq_iff_eq]
    exact countActive_zero_iff rs
  refine ⟨hiff, fun h => ?_⟩
  have hall := hiff.mp h
  have hc : countActive rs = 0 := (countActive_zero_iff rs).mpr hall
  constructor
  · unfold serRowByNameN
    rw [mkPFields_all_skipped rs hall, hc]
    simp [serRowByNameLoopN, checkMissingN]
  · intro sn
    unfold serRowOrderedN
    rw [srOrderedN_all_skipped sn rs [] hall]



/-! ### non-vacuity: concrete structs, orders and values -/

section Examples
private def fA : Field := ⟨"a", none, .int, false, false, true, false⟩            -- `#[scylla(allow_missing)] a: i32`
private def fB : Field := ⟨"b", none, .int, false, false, false, false⟩           -- `b: i32`
private def fC : Field := ⟨"c", some "cc", .text, true, false, false, true⟩       -- `Option<String>`, rename, default_when_null
private def fS : Field := ⟨"s", none, .int, false, true, false, false⟩            -- `#[scylla(skip)]`
private def v1 : Val := some [0, 0, 0, 1]
private def v2 : Val := some [0, 0, 0, 2]
private def dAB : Desc := ⟨.byName, false, false, [fA, fB]⟩
private def dAll : Desc := ⟨.byName, false, false, [fA, fS, fB, fC]⟩
private def fvAll : List (Field × Val) := [(fA, v1), (fS, v2), (fB, v2), (fC, some [104])]

private def errOf {α : Type} : Except Err α → Option Err
  | .ok _ => none
  | .error e => some e

/-- the F7 shape (`allow_missing` field declared before a required one, UDT lacks the required one): an error
now, where the pre-fix generated code returned `Ok` and dropped `b` -/
example : errOf (serValueByName dAB [(fA, v1), (fB, v2)] [⟨"a", .int⟩]) = some .svValueMissing := by decide +kernel
/-- hypotheses of the theorems are satisfiable: names valid, a permuted database order with an excess column
in the middle, values at their columns' positions, trailing excess column not sent -/
example : ValidNames fvAll := by unfold ValidNames; decide +kernel
example : okOpt (serValueByName dAll fvAll
    [⟨"cc", .text⟩, ⟨"zz", .int⟩, ⟨"b", .int⟩, ⟨"a", .int⟩, ⟨"yy", .int⟩]) = some [some [104], none, v2, v1] := by
  decide +kernel
/-- round trip through a permuted order lacking the `allow_missing` column -/
example : okOpt (deserValue dAll [⟨"cc", .text⟩, ⟨"b", .int⟩] [some [104], v2])
    = some [some [0, 0, 0, 0], some [0, 0, 0, 0], v2, some [104]] := by decide +kernel
example : errOf (tcValueByName dAll [⟨"b", .int⟩, ⟨"b", .int⟩]) = some .dvDuplicatedField := by decide +kernel
/-- ordered flavor: declared order accepted, swapped order rejected -/
example : okOpt (svOrdered false false [(fB, v2), (fC, none)] [⟨"b", .int⟩, ⟨"cc", .text⟩]) = some [v2, none] := by
  decide +kernel
example : errOf (svOrdered false false [(fB, v2), (fC, none)] [⟨"cc", .text⟩, ⟨"b", .int⟩])
    = some .svFieldNameMismatch := by decide +kernel
/-- regression for C16-F8 (fixed by /repo b2d6bfa): an empty flattened struct declared before another flattened
struct no longer hides the latter's missing columns — nested and flattened agree on `NoColumnWithName` -/
private def fX : Field := ⟨"x", none, .int, false, false, false, false⟩
private def fY : Field := ⟨"y", none, .text, false, false, false, false⟩
private def s07 : List RField :=
  [.flat false false [], .leaf fB v1, .flat false false [.leaf fX v2, .leaf fY (some [104])]]
example : errOf (serRowByNameN s07 [⟨"b", .int⟩]) = some .srNoColumnWithName := by decide +kernel
example : errOf (serRowByName (flatLeavesList s07) [⟨"b", .int⟩]) = some .srNoColumnWithName := by decide +kernel
example : okOpt (serRowByNameN s07 [⟨"y", .text⟩, ⟨"b", .int⟩, ⟨"x", .int⟩]) = some [some [104], v1, v2] := by
  decide +kernel
/-- `ordExpected` is not the identity in general: a passed-over `allow_missing` field comes back defaulted -/
example : ordExpected false [(fA, v1), (fB, v2)] [⟨"b", .int⟩] = [some [0, 0, 0, 0], v2] := by decide +kernel
/-- ordered UDT walk on arbitrary cells: `c` (`Option`, `default_when_null`) beyond the serialized cells ↦ `None`;
a null on the non-`Option` `b` is an error -/
example : okOpt (deserValue ⟨.ordered, false, false, [fB, fC]⟩ [⟨"b", .int⟩, ⟨"cc", .text⟩] [v2]) = some [v2, none] := by
  decide +kernel
example : errOf (deserValue ⟨.ordered, false, false, [fB, fC]⟩ [⟨"b", .int⟩, ⟨"cc", .text⟩] [none, some [104]])
    = some .dvFieldDeserFailed := by decide +kernel
/-- the whole UDT value null is rejected after the type check -/
example : errOf (deserValueOpt dAll [⟨"b", .int⟩, ⟨"cc", .text⟩] none) = some .dvNullUdt := by decide +kernel
/-- ordered row flavor and `skip_name_checks`: positional binding -/
example : okOpt (srOrdered true [(fB, v2), (fX, v1)] [⟨"zz", .int⟩, ⟨"b", .int⟩]) = some [v2, v1] := by decide +kernel
example : okOpt (deserRow ⟨.byName, false, false, [fB, fX]⟩ [⟨"x", .int⟩, ⟨"b", .int⟩] [v1, v2]) = some [v2, v1] := by
  decide +kernel
end Examples

end ScyllaVerif.Props.C16

import ScyllaVerif.Model.StreamMap
import ScyllaVerif.Model.Conn
/-! C02 — every response reaches exactly the request it answers (theorems). -/
namespace ScyllaVerif.Props.C02
open ScyllaVerif.StreamMap ScyllaVerif.Conn

/-- `exhaustion` (map level): a failed allocation leaves the map unchanged. -/
theorem allocate_none_iff_ids (m : HMap) (r : Nat) : m.allocate r = none ↔ m.ids.allocate = none := by
  unfold HMap.allocate
  split <;> simp_all

end ScyllaVerif.Props.C02

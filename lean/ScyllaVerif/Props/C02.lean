import ScyllaVerif.Model.StreamMap
import ScyllaVerif.Model.Conn
import ScyllaVerif.Proofs.StreamMap
import ScyllaVerif.Proofs.Conn
/-!
# C02 — every response reaches exactly the request it answers on a shared connection

Model: `Model/StreamMap.lean` (bitmap of 512 × u64 at bit level, `ResponseHandlerMap`) and `Model/Conn.lean` (one
connection as a transition system over caller / writer / orphaner / reader / server events).
All theorems hold for EVERY event sequence (`run Conn.init evs`, by the inductive invariant `Inv` of
`Proofs/Conn.lean`) and for the full 32768-id space; nothing is bounded.
-/
namespace ScyllaVerif.Props.C02
open ScyllaVerif.StreamMap ScyllaVerif.Conn

/-! ## 1. the bitmap refines the abstract set of used ids -/

/-- `StreamIdSet::allocate` returns the LEAST free id, it is `< 32768`, and marks exactly that id. -/
theorem bits_refine_allocate (s s' : StreamIdSet) (id : Nat) (hlen : s.blocks.length = 512)
    (h : s.allocate = some (id, s')) :
    id < 32768 ∧ s.isUsed id = false ∧ (∀ j < id, s.isUsed j = true) ∧ s'.isUsed id = true ∧
      (∀ j, j ≠ id → s'.isUsed j = s.isUsed j) ∧ s'.blocks.length = 512 :=
  sallocate_some hlen h

/-- It fails iff all 32768 ids are used. -/
theorem bits_refine_exhausted (s : StreamIdSet) (hlen : s.blocks.length = 512) :
    s.allocate = none ↔ ∀ id < 32768, s.isUsed id = true :=
  sallocate_none hlen

/-- `StreamIdSet::free` clears exactly one bit. -/
theorem bits_refine_free (s : StreamIdSet) (id j : Nat) :
    (s.free id).isUsed j = (s.isUsed j && !(j == id)) ∧ (s.free id).blocks.length = s.blocks.length :=
  ⟨free_isUsed s id j, free_length s id⟩

/-- The fresh bitmap: 512 blocks, nothing used. -/
theorem bits_refine_new : StreamIdSet.new.blocks.length = 512 ∧ ∀ id, StreamIdSet.new.isUsed id = false :=
  ⟨new_length, new_isUsed⟩

/-- non-vacuity: with ids 0..2 taken and 1 freed again, the next id is 1 (least free), not 3. -/
example :
    (do let (_, s) ← StreamIdSet.new.allocate
        let (_, s) ← s.allocate
        let (_, s) ← s.allocate
        let (id, _) ← (s.free 1).allocate
        pure id) = some 1 := by decide +kernel

/-! ## 2. the inductive invariant -/

/-- `Inv` holds initially and is preserved by every event, hence in every reachable state. It says: every frame
outstanding at the server carries a used stream id `< 32768`; outstanding stream ids are pairwise distinct;
a handler registered for stream `s` with request `r` means the server owes `(s, r)`; orphaned ids are outstanding
and have no handler; while the router lives, every outstanding `(s, r)` is either orphaned or has handler `r`;
`request_to_stream` is the inverse of `handlers`; request ids in flight are pairwise distinct and below the
generator; the bitmap has 512 blocks; a waiting caller is parked, holds channel capacity, is queued or registered; a caller holding a
frame holds its own. -/
theorem inv_init : Inv Conn.init := Inv.init

theorem inv_step (c : Conn) (e : Ev) (h : Inv c) : Inv (step c e) := h.step e

theorem inv_reachable (evs : List Ev) : Inv (run Conn.init evs) := Inv.reachable evs

/-! ## 3. a response is delivered to the request it answers, and to no other -/

/-- If the server answers its outstanding entry `(s, r)` and the reader's lookup finds a handler, it is the
handler of request `r` itself. -/
theorem delivery_exact (c : Conn) (h : Inv c) (i s r r' : Nat) (map' : HMap)
    (hi : c.server[i]? = some (s, r)) (hl : c.map.lookup s = (.handler r', map')) : r' = r := by
  have hmem : (s, r) ∈ c.server := List.mem_of_getElem? hi
  unfold HMap.lookup at hl
  simp only at hl
  split at hl
  · cases hl
  · split at hl
    · rename_i req hget
      simp only [Prod.mk.injEq, LookupRes.handler.injEq] at hl
      obtain ⟨e, _⟩ := hl
      subst e
      exact pair_unique h.map.srvOnce (h.map.hSrv s req hget) hmem
    · cases hl

/-- A frame on a stream the server does not owe never finds a handler (nor an orphan): it is `Missing`, and
breaks the connection — it cannot be delivered to anybody. -/
theorem unsolicited_never_hits_handler (c : Conn) (h : Inv c) (s : Nat)
    (hs : ∀ r, (s, r) ∉ c.server) : (c.map.lookup s).1 = .missing := by
  have : s ∉ srvStreams c := by
    intro hm
    obtain ⟨⟨s', r'⟩, hm2, e⟩ := List.mem_map.mp hm
    simp only at e; subst e
    exact hs r' hm2
  rw [lookup_unowed h.map this]

/-- Whatever the schedule: a caller that holds a response frame (delivered or already returned) holds the
frame the server produced for its own request. -/
theorem done_means_own_frame (evs : List Ev) (r f : Nat)
    (h : getCaller (run Conn.init evs).callers r = some (.done (.frame f))) : f = r :=
  (Inv.reachable evs).callers.own r f (Or.inr h)

theorem delivered_means_own_frame (evs : List Ev) (r f : Nat)
    (h : getCaller (run Conn.init evs).callers r = some (.delivered (.frame f))) : f = r :=
  (Inv.reachable evs).callers.own r f (Or.inl h)

/-- In particular the marker frame of `unsolicited` reaches nobody. -/
theorem unsolicited_frame_reaches_nobody (evs : List Ev) (r : Nat) (hr : r < unsolicitedMarker) :
    getCaller (run Conn.init evs).callers r ≠ some (.done (.frame unsolicitedMarker)) := by
  intro h
  have := done_means_own_frame evs r _ h
  omega

/-- non-vacuity: two requests answered out of order; each gets its own frame. -/
example :
    let c := run Conn.init [.submit, .submit, .writerTake, .writerTake, .respond 1, .respond 0, .recv 0, .recv 1]
    getCaller c.callers 0 = some (.done (.frame 0)) ∧ getCaller c.callers 1 = some (.done (.frame 1)) := by
  decide +kernel

/-! ## 4. a stream id is never shared by two unanswered requests -/

/-- In every reachable state two distinct entries outstanding at the server carry different stream ids —
whatever was cancelled before enqueue / before write / after write / after the response. -/
theorem no_shared_stream (evs : List Ev) (i j : Nat) (p q : Nat × Nat) (hij : i < j)
    (hi : (run Conn.init evs).server[i]? = some p) (hj : (run Conn.init evs).server[j]? = some q) :
    p.1 ≠ q.1 := by
  have h := (Inv.reachable evs).map.srvOnce
  have nd : (srvStreams (run Conn.init evs)).Nodup := List.nodup_iff_count.mpr h
  have pw := List.pairwise_iff_getElem.mp nd
  obtain ⟨hi', ei⟩ := List.getElem?_eq_some_iff.mp hi
  obtain ⟨hj', ej⟩ := List.getElem?_eq_some_iff.mp hj
  have := pw i j (by simpa [srvStreams] using hi') (by simpa [srvStreams] using hj') hij
  simpa [srvStreams, ei, ej] using this

/-- An id is handed out again only after its answer arrived: the id given to a new request is not carried by any
outstanding entry. -/
theorem reuse_only_after_answer (c : Conn) (h : Inv c) (r id : Nat) (map' : HMap)
    (ha : c.map.allocate r = some (id, map')) : ∀ r', (id, r') ∉ c.server := by
  intro r' hm
  obtain ⟨ids', hids, _⟩ := hallocate_some ha
  have := (sallocate_some h.map.len hids).2.1
  rw [(h.map.srvUsed id r' hm).2] at this
  cases this

/-- non-vacuity: request 0 is cancelled after its frame was written (stream 0 stays reserved: request 1 gets
stream 1, and so does nobody else); only after the late answer on stream 0 is the id reused (request 2). -/
example :
    let c := run Conn.init [.submit, .writerTake, .cancel 0, .orphanerStep, .submit, .writerTake]
    c.server = [(0, 0), (1, 1)] := by decide +kernel
example :
    let c := run Conn.init [.submit, .writerTake, .cancel 0, .orphanerStep, .submit, .writerTake,
      .respond 0, .submit, .writerTake]
    c.server = [(1, 1), (0, 2)] ∧ getCaller c.callers 0 = some .abandoned := by decide +kernel
/-- non-vacuity: cancelled before the write (notice processed first, then the frame is written anyway); the late
answer finds the handler of the abandoned caller and is discarded; nobody else is affected. -/
example :
    let c := run Conn.init [.submit, .cancel 0, .orphanerStep, .writerTake, .submit, .writerTake, .respond 0,
      .respond 0, .recv 1]
    c.server = [] ∧ getCaller c.callers 0 = some .abandoned ∧ getCaller c.callers 1 = some (.done (.frame 1)) := by
  decide +kernel

/-! ## 5. no solicited answer is lost, the Rust assert cannot fire, exhaustion -/

/-- While the router lives, an answer the server owes is never treated as unsolicited. -/
theorem respond_never_missing (c : Conn) (h : Inv c) (hb : c.broken = false) (i s r : Nat)
    (hi : c.server[i]? = some (s, r)) : (c.map.lookup s).1 ≠ .missing := by
  have hmem : (s, r) ∈ c.server := List.mem_of_getElem? hi
  rcases lookup_owed h.map hb hmem with ⟨_, hl⟩ | ⟨_, _, hl⟩ <;> rw [hl] <;> simp

/-- … and a caller that is still waiting when its answer arrives receives it. -/
theorem respond_reaches_waiting_caller (c : Conn) (h : Inv c) (hb : c.broken = false) (i s r : Nat)
    (hi : c.server[i]? = some (s, r)) (hw : getCaller c.callers r = some .waiting) :
    getCaller (step c (.respond i)).callers r = some (.delivered (.frame r)) :=
  respond_reaches_waiting h hb hi hw

/-- The Rust `assert!(prev_handler.is_none())` in `ResponseHandlerMap::allocate` cannot fire: a freshly
allocated id has no handler (and is not orphaned). -/
theorem allocate_fresh_has_no_handler (c : Conn) (h : Inv c) (id : Nat) (ids' : StreamIdSet)
    (ha : c.map.ids.allocate = some (id, ids')) :
    c.map.handlers.get id = none ∧ id ∉ c.map.orphans := by
  have hfree := (sallocate_some h.map.len ha).2.1
  have notSrv : ∀ r, (id, r) ∉ c.server := by
    intro r hm
    rw [(h.map.srvUsed id r hm).2] at hfree; cases hfree
  constructor
  · cases hg : c.map.handlers.get id with
    | none => rfl
    | some r => exact absurd (h.map.hSrv id r hg) (notSrv r)
  · intro ho
    obtain ⟨⟨s', r'⟩, hm2, e⟩ := List.mem_map.mp (h.map.orphSrv id ho).1
    simp only at e; subst e
    exact notSrv r' hm2

/-- (Unfolding of `step`, kept for reference — the content of the exhaustion claim is `exhaustion_iff_full` and
`exhausted_caller_gets_error` below.) When `allocate` fails the writer answers the task with
`UnableToAllocStreamId`, drops it from the queue and leaves the map (and everything else) unchanged. -/
theorem exhaustion (c : Conn) (r : Nat) (q : List Nat) (hb : c.broken = false) (hq : c.queue = r :: q)
    (hnone : c.map.allocate r = none) :
    step c .writerTake = { c with queue := q, callers := deliver c.callers r (.err .unableToAllocStreamId) } := by
  simp only [step, hb, Bool.false_eq_true, if_false, hq, hnone]

/-- EXHAUSTION (headline): in every state satisfying the invariant, allocating a stream id for a task fails
exactly when all 32768 ids are reserved — never earlier (no id is lost: the bitmap refines the set of used ids,
`bits_refine_*`), and each reserved id is owed by the server or was just allocated (`Inv.map.srvUsed`). -/
theorem exhaustion_iff_full (c : Conn) (h : Inv c) (r : Nat) :
    c.map.allocate r = none ↔ ∀ id < 32768, c.map.ids.isUsed id = true := by
  rw [hallocate_none]; exact sallocate_none h.map.len

/-- Used ids are exactly the ids owed by the server in every reachable state; so exhaustion means 32768
unanswered requests. (Direction needed here: outstanding ⇒ used is `Inv.map.srvUsed`.) -/
theorem exhausted_caller_gets_error (c : Conn) (r : Nat) (q : List Nat) (hb : c.broken = false)
    (hq : c.queue = r :: q) (hnone : c.map.allocate r = none) (hw : getCaller c.callers r = some .waiting) :
    getCaller (step c .writerTake).callers r = some (.delivered (.err .unableToAllocStreamId)) := by
  rw [exhaustion c r q hb hq hnone]
  simp [getCaller_deliver, hw]

end ScyllaVerif.Props.C02

import ScyllaVerif.Model.StreamMap
import ScyllaVerif.Model.Conn
import ScyllaVerif.Proofs.StreamMap
import ScyllaVerif.Proofs.Conn
import ScyllaVerif.Model.ConnSched
import ScyllaVerif.Proofs.ConnSched
import ScyllaVerif.Model.C02StreamIdWords
import ScyllaVerif.Model.ConnIO
import ScyllaVerif.Proofs.FrameStream
import ScyllaVerif.Proofs.ConnIO
/-!
# C02 — every response reaches exactly the request it answers on a shared connection

Model: `Model/StreamMap.lean` (bitmap of 512 × u64 at bit level, `ResponseHandlerMap`) and `Model/Conn.lean` (one
connection as a transition system over caller / writer / orphaner / reader / server events).
All theorems hold for EVERY event sequence (`run Conn.init evs`, by the inductive invariant `Inv` of
`Proofs/Conn.lean`) and for the full 32768-id space; nothing is bounded.
-/
namespace ScyllaVerif.Props.C02
open ScyllaVerif.StreamMap ScyllaVerif.Conn

/-! ## 1. the bitmap refines the abstract set of used ids -/

/-- `StreamIdSet::allocate` returns the LEAST free id, it is `< 32768`, and marks exactly that id. -/
theorem bits_refine_allocate (s s' : StreamIdSet) (id : Nat) (hlen : s.blocks.length = 512)
    (h : s.allocate = some (id, s')) :
    id < 32768 ∧ s.isUsed id = false ∧ (∀ j < id, s.isUsed j = true) ∧ s'.isUsed id = true ∧
      (∀ j, j ≠ id → s'.isUsed j = s.isUsed j) ∧ s'.blocks.length = 512 :=
  sallocate_some hlen h

/-- It fails iff all 32768 ids are used. -/
theorem bits_refine_exhausted (s : StreamIdSet) (hlen : s.blocks.length = 512) :
    s.allocate = none ↔ ∀ id < 32768, s.isUsed id = true :=
  sallocate_none hlen

/-- `StreamIdSet::free` clears exactly one bit. -/
theorem bits_refine_free (s : StreamIdSet) (id j : Nat) :
    (s.free id).isUsed j = (s.isUsed j && !(j == id)) ∧ (s.free id).blocks.length = s.blocks.length :=
  ⟨free_isUsed s id j, free_length s id⟩

/-- The fresh bitmap: 512 blocks, nothing used. -/
theorem bits_refine_new : StreamIdSet.new.blocks.length = 512 ∧ ∀ id, StreamIdSet.new.isUsed id = false :=
  ⟨new_length, new_isUsed⟩

/-- non-vacuity: with ids 0..2 taken and 1 freed again, the next id is 1 (least free), not 3. -/
example :
    (do let (_, s) ← StreamIdSet.new.allocate
        let (_, s) ← s.allocate
        let (_, s) ← s.allocate
        let (id, _) ← (s.free 1).allocate
        pure id) = some 1 := by decide +kernel

/-! ## 1b. the machine-word layer of the bitmap (`Model/C02StreamIdWords.lean`) and the bare bitmap as a system

Seeded change C02-9 computed the block index of `free` in a `u8`: the answer on stream `s ≥ 16384` released the bit of
`s - 16384` and left `s` reserved. The casts of `free` / `allocate` are in the model and these theorems say that, as
written, they lose nothing over the whole `i16` range. -/
section words
open ScyllaVerif.C02StreamIdWords

/-- `free` on a valid stream id (`0 ≤ id < 32768`) never panics and is the `Nat`-level `free`: `as usize`, `/ 64`,
`% 64` select block `id / 64 < 512` and bit `id % 64`, for EVERY id of the space, not only those below 16384. -/
theorem free_word_level (s : StreamIdSet) (id : Int) (hlen : s.blocks.length = 512) (h0 : 0 ≤ id) (h1 : id < 32768) :
    freeI16 s id = some (s.free id.toNat) := by
  have hn : ¬ id < 0 := by omega
  have hb : id.toNat / 64 < s.blocks.length := by omega
  simp only [freeI16, asUsize, hn, if_false, hb, if_true, StreamIdSet.free]

/-- ... and so the answer on stream `id` releases `id` and nothing else, whatever `id` is. -/
theorem answered_id_and_no_other_is_released (s s' : StreamIdSet) (id : Int) (hlen : s.blocks.length = 512)
    (h0 : 0 ≤ id) (h1 : id < 32768) (h : freeI16 s id = some s') :
    ∀ j, s'.isUsed j = (s.isUsed j && !(j == id.toNat)) := by
  rw [free_word_level s id hlen h0 h1] at h
  cases h
  exact fun j => free_isUsed s id.toNat j

/-- The error branch: a negative `i16` sign-extends to a block index far outside the 512 blocks; the slice index
panics (nothing is written). The reader never passes one (`reader` 1636-1652 skips negative streams; model
`ConnIO.reader`). -/
theorem free_negative_id_panics (s : StreamIdSet) (id : Int) (hlen : s.blocks.length = 512) (h0 : id < 0)
    (h1 : -32768 ≤ id) : freeI16 s id = none := by
  have hb : ¬ (2 ^ 64 - id.natAbs) / 64 < s.blocks.length := by
    rw [hlen]; have : (2:Nat) ^ 64 = 18446744073709551616 := by decide
    omega
  simp only [freeI16, asUsize, h0, if_true, hb, if_false]

/-- `off as i16 + block_id as i16 * 64` does not wrap: the `i16` handed out is the id the bitmap marked. -/
theorem allocate_id_fits_i16 (s s' : StreamIdSet) (id : Nat) (hlen : s.blocks.length = 512)
    (h : s.allocate = some (id, s')) : allocateI16 s = some ((id : Int), s') := by
  have hid : id < 32768 := (sallocate_some hlen h).1
  have : idOfBlockBit (id % 64) (id / 64) = (id : Int) := by
    unfold idOfBlockBit wrapI16
    have a : ((id / 64 : Nat) : Int) % 65536 = ((id / 64 : Nat) : Int) := by omega
    have a' : ¬ ((id / 64 : Nat) : Int) ≥ 32768 := by omega
    simp only [a, a', if_false]
    have b : (((id / 64 : Nat) : Int) * 64) % 65536 = ((id / 64 : Nat) : Int) * 64 := by omega
    have b' : ¬ ((id / 64 : Nat) : Int) * 64 ≥ 32768 := by omega
    simp only [b, b', if_false]
    have c : ((id % 64 : Nat) : Int) % 65536 = ((id % 64 : Nat) : Int) := by omega
    have c' : ¬ ((id % 64 : Nat) : Int) ≥ 32768 := by omega
    simp only [c, c', if_false]
    have d : (((id % 64 : Nat) : Int) + ((id / 64 : Nat) : Int) * 64) % 65536 = (id : Int) := by omega
    have d' : ¬ (id : Int) ≥ 32768 := by omega
    simp only [d, d', if_false]
  simp only [allocateI16, h, this]

/-- Freed id = answered id, seen through the allocator: if every id below `id` is reserved, the request submitted
right after the answer on `id` gets exactly `id` (the oracle of the `ids` / `map` cases that keep > 16384 ids held). -/
theorem answered_id_is_the_next_allocated (s : StreamIdSet) (id : Nat) (hlen : s.blocks.length = 512)
    (hid : id < 32768) (hlow : ∀ j < id, s.isUsed j = true) : ∃ s', (s.free id).allocate = some (id, s') := by
  have hlen' : (s.free id).blocks.length = 512 := by rw [free_length]; exact hlen
  cases hal : (s.free id).allocate with
  | none =>
    have := (sallocate_none hlen').mp hal id hid
    rw [free_isUsed] at this; simp at this
  | some p =>
    obtain ⟨id', s'⟩ := p
    obtain ⟨_, hfree, hbelow, _⟩ := sallocate_some hlen' hal
    rw [free_isUsed] at hfree
    refine ⟨s', ?_⟩
    have : id' = id := by
      rcases Nat.lt_trichotomy id' id with hlt | heq | hgt
      · have h1 := hlow id' hlt
        have h2 : (id' == id) = false := by simp; omega
        simp [h1, h2] at hfree
      · exact heq
      · have := hbelow id hgt
        rw [free_isUsed] at this; simp at this
    rw [this]

/-- What the seeded variant does instead, for EVERY id of the upper half: the answered id stays reserved, the id
16384 below it is released (`freeNarrow` is not the code; this is why the differential run must keep more than 16384
ids held). -/
theorem narrow_block_index_frees_another_id (s : StreamIdSet) (id : Nat) (h0 : 16384 ≤ id) (h1 : id < 32768) :
    (freeNarrow s id).isUsed id = s.isUsed id ∧ (freeNarrow s id).isUsed (id - 16384) = false := by
  have e : freeNarrow s id = s.free (id - 16384) := by
    have a : (id / 64) % 256 = (id - 16384) / 64 := by omega
    have b : id % 64 = (id - 16384) % 64 := by omega
    simp only [freeNarrow, StreamIdSet.free, a, b]
  rw [e, free_isUsed, free_isUsed]
  have : (id == id - 16384) = false := by simp; omega
  simp [this]

/-- One operation of the bare bitmap, over ALL `i16` arguments: what `allocate` returns is a non-negative `i16` that
was free and is the least such; `free` of a valid id clears that bit only; `free` of a negative id changes nothing;
the 512 blocks stay 512. -/
theorem id_step_spec (s : StreamIdSet) (hlen : s.blocks.length = 512) (op : IdOp) :
    (idStep s op).1.blocks.length = 512 ∧
    match op with
    | .alloc =>
      (match (idStep s .alloc).2 with
        | some id => 0 ≤ id ∧ id < 32768 ∧ s.isUsed id.toNat = false ∧ (∀ j < id.toNat, s.isUsed j = true) ∧
            ∀ j, (idStep s .alloc).1.isUsed j = (s.isUsed j || j == id.toNat)
        | none => (idStep s .alloc).1 = s ∧ ∀ j < 32768, s.isUsed j = true)
    | .free id =>
      (0 ≤ id → id < 32768 → ∀ j, (idStep s (.free id)).1.isUsed j = (s.isUsed j && !(j == id.toNat))) ∧
      (id < 0 → -32768 ≤ id → (idStep s (.free id)).1 = s) := by
  cases op with
  | alloc =>
    cases hal : s.allocate with
    | none =>
      have : allocateI16 s = none := by simp [allocateI16, hal]
      simp only [idStep, this]
      exact ⟨hlen, trivial, (sallocate_none hlen).mp hal⟩
    | some p =>
      obtain ⟨id, s'⟩ := p
      have hw := allocate_id_fits_i16 s s' id hlen hal
      obtain ⟨hid, hfree, hbelow, hset, hother, hlen'⟩ := sallocate_some hlen hal
      simp only [idStep, hw]
      refine ⟨hlen', by omega, by omega, by simpa using hfree, by simpa using hbelow, ?_⟩
      intro j
      by_cases hj : j = id
      · subst hj; simp [hset]
      · have : (j == id) = false := by simp [hj]
        simp [hother j hj, this]
  | free id =>
    refine ⟨?_, ?_, ?_⟩
    · simp only [idStep]
      cases hf : freeI16 s id with
      | none => exact hlen
      | some s' =>
        simp only [freeI16] at hf
        split at hf
        · cases hf; simp [hlen]
        · cases hf
    · intro h0 h1 j
      simp only [idStep, free_word_level s id hlen h0 h1]
      exact free_isUsed s id.toNat j
    · intro h0 h1
      simp only [idStep, free_negative_id_panics s id hlen h0 h1]

/-- Lifted to every operation sequence from the fresh bitmap. -/
theorem id_run_keeps_512_blocks (ops : List IdOp) : (idRun StreamIdSet.new ops).blocks.length = 512 := by
  suffices h : ∀ (s : StreamIdSet), s.blocks.length = 512 → (idRun s ops).blocks.length = 512 from h _ new_length
  induction ops with
  | nil => intro s h; exact h
  | cons op rest ih => intro s h; exact ih _ (id_step_spec s h op).1

/-- non-vacuity: the whole space reserved, the answer on stream 20000 (block 312 > 255) arrives, the next request gets
20000; the narrowed variant would have handed out 3616. -/
example :
    let full : StreamIdSet := ⟨List.replicate 512 (BitVec.allOnes 64)⟩
    ((freeI16 full 20000).bind fun s => (allocateI16 s).map (·.1)) = some 20000 ∧
      ((freeNarrow full 20000).allocate.map (·.1)) = some 3616 := by decide +kernel

end words

/-! ## 2. the inductive invariant -/

/-- `Inv` holds initially and is preserved by every event, hence in every reachable state. It says: every frame
outstanding at the server carries a used stream id `< 32768`; outstanding stream ids are pairwise distinct;
a handler registered for stream `s` with request `r` means the server owes `(s, r)`; orphaned ids are outstanding
and have no handler; while the router lives, every outstanding `(s, r)` is either orphaned or has handler `r`;
`request_to_stream` is the inverse of `handlers`; request ids in flight are pairwise distinct and below the
generator; the bitmap has 512 blocks; a waiting caller is parked, holds channel capacity, is queued or registered; a caller holding a
frame holds its own. -/
theorem inv_init : Inv Conn.init := Inv.init

theorem inv_step (c : Conn) (e : Ev) (h : Inv c) : Inv (step c e) := h.step e

theorem inv_reachable (evs : List Ev) : Inv (run Conn.init evs) := Inv.reachable evs

/-! ## 3. a response is delivered to the request it answers, and to no other -/

/-- If the server answers its outstanding entry `(s, r)` and the reader's lookup finds a handler, it is the
handler of request `r` itself. -/
theorem delivery_exact (c : Conn) (h : Inv c) (i s r r' : Nat) (map' : HMap)
    (hi : c.server[i]? = some (s, r)) (hl : c.map.lookup s = (.handler r', map')) : r' = r := by
  have hmem : (s, r) ∈ c.server := List.mem_of_getElem? hi
  unfold HMap.lookup at hl
  simp only at hl
  split at hl
  · cases hl
  · split at hl
    · rename_i req hget
      simp only [Prod.mk.injEq, LookupRes.handler.injEq] at hl
      obtain ⟨e, _⟩ := hl
      subst e
      exact pair_unique h.map.srvOnce (h.map.hSrv s req hget) hmem
    · cases hl

/-- A frame on a stream the server does not owe never finds a handler (nor an orphan): it is `Missing`, and
breaks the connection — it cannot be delivered to anybody. -/
theorem unsolicited_never_hits_handler (c : Conn) (h : Inv c) (s : Nat)
    (hs : ∀ r, (s, r) ∉ c.server) : (c.map.lookup s).1 = .missing := by
  have : s ∉ srvStreams c := by
    intro hm
    obtain ⟨⟨s', r'⟩, hm2, e⟩ := List.mem_map.mp hm
    simp only at e; subst e
    exact hs r' hm2
  rw [lookup_unowed h.map this]

/-- Whatever the schedule: a caller that holds a response frame (delivered or already returned) holds the
frame the server produced for its own request. -/
theorem done_means_own_frame (evs : List Ev) (r f : Nat)
    (h : getCaller (run Conn.init evs).callers r = some (.done (.frame f))) : f = r :=
  (Inv.reachable evs).callers.own r f (Or.inr h)

theorem delivered_means_own_frame (evs : List Ev) (r f : Nat)
    (h : getCaller (run Conn.init evs).callers r = some (.delivered (.frame f))) : f = r :=
  (Inv.reachable evs).callers.own r f (Or.inl h)

/-- In particular the marker frame of `unsolicited` reaches nobody. -/
theorem unsolicited_frame_reaches_nobody (evs : List Ev) (r : Nat) (hr : r < unsolicitedMarker) :
    getCaller (run Conn.init evs).callers r ≠ some (.done (.frame unsolicitedMarker)) := by
  intro h
  have := done_means_own_frame evs r _ h
  omega

/-- non-vacuity: two requests answered out of order; each gets its own frame. -/
example :
    let c := run Conn.init [.submit, .submit, .writerTake, .writerTake, .respond 1, .respond 0, .recv 0, .recv 1]
    getCaller c.callers 0 = some (.done (.frame 0)) ∧ getCaller c.callers 1 = some (.done (.frame 1)) := by
  decide +kernel

/-! ## 4. a stream id is never shared by two unanswered requests -/

/-- In every reachable state two distinct entries outstanding at the server carry different stream ids —
whatever was cancelled before enqueue / before write / after write / after the response. -/
theorem no_shared_stream (evs : List Ev) (i j : Nat) (p q : Nat × Nat) (hij : i < j)
    (hi : (run Conn.init evs).server[i]? = some p) (hj : (run Conn.init evs).server[j]? = some q) :
    p.1 ≠ q.1 := by
  have h := (Inv.reachable evs).map.srvOnce
  have nd : (srvStreams (run Conn.init evs)).Nodup := List.nodup_iff_count.mpr h
  have pw := List.pairwise_iff_getElem.mp nd
  obtain ⟨hi', ei⟩ := List.getElem?_eq_some_iff.mp hi
  obtain ⟨hj', ej⟩ := List.getElem?_eq_some_iff.mp hj
  have := pw i j (by simpa [srvStreams] using hi') (by simpa [srvStreams] using hj') hij
  simpa [srvStreams, ei, ej] using this

/-- An id is handed out again only after its answer arrived: the id given to a new request is not carried by any
outstanding entry. -/
theorem reuse_only_after_answer (c : Conn) (h : Inv c) (r id : Nat) (map' : HMap)
    (ha : c.map.allocate r = some (id, map')) : ∀ r', (id, r') ∉ c.server := by
  intro r' hm
  obtain ⟨ids', hids, _⟩ := hallocate_some ha
  have := (sallocate_some h.map.len hids).2.1
  rw [(h.map.srvUsed id r' hm).2] at this
  cases this

/-- non-vacuity: request 0 is cancelled after its frame was written (stream 0 stays reserved: request 1 gets
stream 1, and so does nobody else); only after the late answer on stream 0 is the id reused (request 2). -/
example :
    let c := run Conn.init [.submit, .writerTake, .cancel 0, .orphanerStep, .submit, .writerTake]
    c.server = [(0, 0), (1, 1)] := by decide +kernel
example :
    let c := run Conn.init [.submit, .writerTake, .cancel 0, .orphanerStep, .submit, .writerTake,
      .respond 0, .submit, .writerTake]
    c.server = [(1, 1), (0, 2)] ∧ getCaller c.callers 0 = some .abandoned := by decide +kernel
/-- non-vacuity: cancelled before the write (notice processed first, then the frame is written anyway); the late
answer finds the handler of the abandoned caller and is discarded; nobody else is affected. -/
example :
    let c := run Conn.init [.submit, .cancel 0, .orphanerStep, .writerTake, .submit, .writerTake, .respond 0,
      .respond 0, .recv 1]
    c.server = [] ∧ getCaller c.callers 0 = some .abandoned ∧ getCaller c.callers 1 = some (.done (.frame 1)) := by
  decide +kernel

/-! ## 5. no solicited answer is lost, the Rust assert cannot fire, exhaustion -/

/-- While the router lives, an answer the server owes is never treated as unsolicited. -/
theorem respond_never_missing (c : Conn) (h : Inv c) (hb : c.broken = false) (i s r : Nat)
    (hi : c.server[i]? = some (s, r)) : (c.map.lookup s).1 ≠ .missing := by
  have hmem : (s, r) ∈ c.server := List.mem_of_getElem? hi
  rcases lookup_owed h.map hb hmem with ⟨_, hl⟩ | ⟨_, _, hl⟩ <;> rw [hl] <;> simp

/-- … and a caller that is still waiting when its answer arrives receives it. -/
theorem respond_reaches_waiting_caller (c : Conn) (h : Inv c) (hb : c.broken = false) (i s r : Nat)
    (hi : c.server[i]? = some (s, r)) (hw : getCaller c.callers r = some .waiting) :
    getCaller (step c (.respond i)).callers r = some (.delivered (.frame r)) :=
  respond_reaches_waiting h hb hi hw

/-- The Rust `assert!(prev_handler.is_none())` in `ResponseHandlerMap::allocate` cannot fire: a freshly
allocated id has no handler (and is not orphaned). -/
theorem allocate_fresh_has_no_handler (c : Conn) (h : Inv c) (id : Nat) (ids' : StreamIdSet)
    (ha : c.map.ids.allocate = some (id, ids')) :
    c.map.handlers.get id = none ∧ id ∉ c.map.orphans := by
  have hfree := (sallocate_some h.map.len ha).2.1
  have notSrv : ∀ r, (id, r) ∉ c.server := by
    intro r hm
    rw [(h.map.srvUsed id r hm).2] at hfree; cases hfree
  constructor
  · cases hg : c.map.handlers.get id with
    | none => rfl
    | some r => exact absurd (h.map.hSrv id r hg) (notSrv r)
  · intro ho
    obtain ⟨⟨s', r'⟩, hm2, e⟩ := List.mem_map.mp (h.map.orphSrv id ho).1
    simp only at e; subst e
    exact notSrv r' hm2

/-- (Unfolding of `step`, kept for reference — the content of the exhaustion claim is `exhaustion_iff_full` and
`exhausted_caller_gets_error` below.) When `allocate` fails the writer answers the task with
`UnableToAllocStreamId`, drops it from the queue and leaves the map (and everything else) unchanged. -/
theorem exhaustion (c : Conn) (r : Nat) (q : List Nat) (hb : c.broken = false) (hq : c.queue = r :: q)
    (hnone : c.map.allocate r = none) :
    step c .writerTake = { c with queue := q, callers := deliver c.callers r (.err .unableToAllocStreamId) } := by
  simp only [step, hb, Bool.false_eq_true, if_false, hq, hnone]

/-- EXHAUSTION (headline): in every state satisfying the invariant, allocating a stream id for a task fails
exactly when all 32768 ids are reserved — never earlier (no id is lost: the bitmap refines the set of used ids,
`bits_refine_*`), and each reserved id is owed by the server or was just allocated (`Inv.map.srvUsed`). -/
theorem exhaustion_iff_full (c : Conn) (h : Inv c) (r : Nat) :
    c.map.allocate r = none ↔ ∀ id < 32768, c.map.ids.isUsed id = true := by
  rw [hallocate_none]; exact sallocate_none h.map.len

/-- ORPHANED IDS ARE NOT FREE: a stream id whose caller went away stays reserved — it is outstanding at the server
(which still owes the answer) and marked used in the bitmap — however long ago it was orphaned. -/
theorem orphaned_ids_are_not_free (c : Conn) (h : Inv c) (s : Nat) (hs : s ∈ c.map.orphans) :
    s ∈ srvStreams c ∧ s < 32768 ∧ c.map.ids.isUsed s = true := by
  obtain ⟨hstr, _⟩ := h.map.orphSrv s hs
  obtain ⟨⟨s', r'⟩, hm, e⟩ := List.mem_map.mp hstr
  simp only at e; subst e
  exact ⟨hstr, h.map.srvUsed _ r' hm⟩

/-- … so `allocate` never hands out an orphaned id (nor any id the server still owes an answer on) … -/
theorem allocate_never_hands_out_an_owed_id (c : Conn) (h : Inv c) (r id : Nat) (map' : HMap)
    (ha : c.map.allocate r = some (id, map')) : id ∉ c.map.orphans ∧ id ∉ srvStreams c := by
  obtain ⟨ids', hids, _⟩ := hallocate_some ha
  have hfree := (sallocate_some h.map.len hids).2.1
  have hns : id ∉ srvStreams c := by
    intro hm
    obtain ⟨⟨s', r'⟩, hm2, e⟩ := List.mem_map.mp hm
    simp only at e; subst e
    rw [(h.map.srvUsed _ r' hm2).2] at hfree; cases hfree
  exact ⟨fun ho => hns (orphaned_ids_are_not_free c h id ho).1, hns⟩

/-- … and when every one of the 32768 ids is outstanding — answered by nobody yet, abandoned (orphaned) or not, for
however long — exhaustion is the ONLY outcome of `allocate`: there is no "oldest orphan" to take. -/
theorem exhaustion_when_every_id_is_owed (c : Conn) (h : Inv c) (r : Nat)
    (hall : ∀ id, id < 32768 → id ∈ srvStreams c) : c.map.allocate r = none := by
  rw [exhaustion_iff_full c h r]
  intro id hid
  obtain ⟨⟨s', r'⟩, hm, e⟩ := List.mem_map.mp (hall id hid)
  simp only at e; subst e
  exact (h.map.srvUsed _ r' hm).2

/-- Used ids are exactly the ids owed by the server in every reachable state; so exhaustion means 32768
unanswered requests. (Direction needed here: outstanding ⇒ used is `Inv.map.srvUsed`.) -/
theorem exhausted_caller_gets_error (c : Conn) (r : Nat) (q : List Nat) (hb : c.broken = false)
    (hq : c.queue = r :: q) (hnone : c.map.allocate r = none) (hw : getCaller c.callers r = some .waiting) :
    getCaller (step c .writerTake).callers r = some (.delivered (.err .unableToAllocStreamId)) := by
  rw [exhaustion c r q hb hq hnone]
  simp [getCaller_deliver, hw]

/-! ## 6. the bounded resources: the 1024-slot submit channel, the orphan threshold (`Model/ConnSched.lean`) -/

section sched
open ScyllaVerif.ConnSched

/-- `SInv` (with `Inv` of the connection inside) holds in every state the scheduler layer can reach. -/
theorem sched_inv_reachable (evs : List SEv) : SInv (srun Sched.init evs) := SInv.init.run evs

/-- The submit channel never holds more than its 1024 slots: tasks in the channel plus permits assigned to parked
callers. -/
theorem channel_never_over_capacity (evs : List SEv) :
    (srun Sched.init evs).c.queue.length + (srun Sched.init evs).granted.length ≤ 1024 :=
  (sched_inv_reachable evs).cap

/-- No caller is parked while a slot is free: if some parked caller has no permit, all 1024 slots are in use
(a freed slot is handed to the oldest parked caller at once). -/
theorem no_caller_parks_while_a_slot_is_free (evs : List SEv) (r : Nat)
    (hr : r ∈ (srun Sched.init evs).c.sending) (hn : r ∉ (srun Sched.init evs).granted) :
    (srun Sched.init evs).c.queue.length + (srun Sched.init evs).granted.length = 1024 :=
  (sched_inv_reachable evs).room ⟨r, hr, hn⟩

/-- Permits are only ever assigned to callers that are parked, each at most once; a dead router has assigned none
(its parked callers get `ChannelError`, C10 `break_outcomes`). -/
theorem permits_go_to_parked_callers (evs : List SEv) :
    (∀ r, r ∈ (srun Sched.init evs).granted → r ∈ (srun Sched.init evs).c.sending) ∧
    (srun Sched.init evs).granted.Nodup ∧
    ((srun Sched.init evs).c.broken = true → (srun Sched.init evs).granted = []) :=
  ⟨(sched_inv_reachable evs).sub, (sched_inv_reachable evs).nodup, (sched_inv_reachable evs).dead⟩

/-- A submission takes a slot when one is free … -/
theorem submit_takes_a_free_slot (s : Sched) (hb : s.c.broken = false)
    (hroom : s.c.queue.length + s.granted.length < 1024) :
    (sstep s .submit).c.queue = s.c.queue ++ [s.c.nextReq] ∧ (sstep s .submit).c.sending = s.c.sending := by
  have hn : ¬ s.c.queue.length + s.granted.length ≥ chanCap := by show ¬ _ ≥ 1024; omega
  simp only [sstep, hn, if_false]
  obtain ⟨hq, hs, _⟩ := submit_qs hb
  exact ⟨hq, hs⟩

/-- … and parks when all 1024 are in use. -/
theorem submit_parks_when_full (s : Sched) (hb : s.c.broken = false)
    (hfull : s.c.queue.length + s.granted.length ≥ 1024) :
    (sstep s .submit).c.queue = s.c.queue ∧ (sstep s .submit).c.sending = s.c.sending ++ [s.c.nextReq] := by
  have hn : s.c.queue.length + s.granted.length ≥ chanCap := hfull
  simp only [sstep, hn, if_true]
  obtain ⟨hq, hs, _⟩ := submitFull_qs hb
  exact ⟨hq, hs⟩

/-- non-vacuity: `k ≤ 1024` submissions with an idle writer fill `k` slots (by induction, not by evaluation) … -/
theorem submits_fill (k : Nat) (hk : k ≤ 1024) :
    (srun Sched.init (List.replicate k .submit)).c.queue.length = k ∧
    (srun Sched.init (List.replicate k .submit)).granted = [] ∧
    (srun Sched.init (List.replicate k .submit)).c.sending = [] ∧
    (srun Sched.init (List.replicate k .submit)).c.broken = false := by
  induction k with
  | zero => exact ⟨rfl, rfl, rfl, rfl⟩
  | succ n ih =>
    obtain ⟨hq, hg, hs, hb⟩ := ih (by omega)
    have e : srun Sched.init (List.replicate (n + 1) .submit) =
        sstep (srun Sched.init (List.replicate n .submit)) .submit := by
      rw [List.replicate_succ', srun, List.foldl_append]; rfl
    rw [e]
    have hroom : (srun Sched.init (List.replicate n .submit)).c.queue.length +
        (srun Sched.init (List.replicate n .submit)).granted.length < 1024 := by rw [hq, hg]; simp; omega
    obtain ⟨hq', hs'⟩ := submit_takes_a_free_slot _ hb hroom
    have hn : ¬ (srun Sched.init (List.replicate n .submit)).c.queue.length +
        (srun Sched.init (List.replicate n .submit)).granted.length ≥ chanCap := by show ¬ _ ≥ 1024; omega
    refine ⟨by rw [hq']; simp [hq], ?_, by rw [hs', hs], ?_⟩
    · simp only [sstep, hn, if_false, stamp, (submit_qs hb).2.2, Bool.false_eq_true]
      exact hg
    · simp only [sstep, hn, if_false, stamp]
      exact (submit_qs hb).2.2

theorem submits_nextReq (k : Nat) : (srun Sched.init (List.replicate k .submit)).c.nextReq = k := by
  induction k with
  | zero => rfl
  | succ n ih =>
    rw [List.replicate_succ', srun, List.foldl_append]
    show (sstep (srun Sched.init (List.replicate n .submit)) .submit).c.nextReq = n + 1
    simp only [sstep, stamp]
    split <;> (simp only [step]; split <;> simp [ih])

/-- … and the 1025th parks (it is request 1024). -/
theorem the_1025th_submission_parks :
    (sstep (srun Sched.init (List.replicate 1024 .submit)) .submit).c.sending = [1024] ∧
    (sstep (srun Sched.init (List.replicate 1024 .submit)) .submit).c.queue.length = 1024 := by
  obtain ⟨hq, hg, hs, hb⟩ := submits_fill 1024 (Nat.le_refl _)
  obtain ⟨hq', hs'⟩ := submit_parks_when_full _ hb (by rw [hq, hg]; exact Nat.le_refl _)
  exact ⟨by rw [hs', hs, submits_nextReq]; rfl, by rw [hq', hq]⟩

/-! ### orphan ages -/

/-- The ages follow the orphan set exactly — one entry per orphaned stream id, none for any other — and no age lies
in the future. -/
theorem orphan_ages_track_orphans (evs : List SEv) :
    (srun Sched.init evs).ages.map (·.1) = (srun Sched.init evs).c.map.orphans ∧
    ∀ p, p ∈ (srun Sched.init evs).ages → p.2 ≤ (srun Sched.init evs).clock :=
  ⟨(sched_inv_reachable evs).keys, (sched_inv_reachable evs).le⟩

/-- An orphaned id keeps the time at which it was orphaned: an event that leaves the orphan set as it was leaves the
ages as they were (and the model's skipping of the recomputation in that case changes nothing:
`ScyllaVerif.ConnSched.agesFor_eq_syncAges`). -/
theorem orphan_age_is_kept (evs : List SEv) (e : SEv)
    (ho : (sstep (srun Sched.init evs) e).c.map.orphans = (srun Sched.init evs).c.map.orphans) :
    (sstep (srun Sched.init evs) e).ages = (srun Sched.init evs).ages :=
  ages_same_of_orphans_same _ (sched_inv_reachable evs) e ho

/-- THE ORPHAN THRESHOLD: on the orphaner's tick, more than 1024 stream ids that have been orphaned for at least
1 s end the router with `TooManyOrphanedStreamIds`, and nobody is left waiting (outside the push window). -/
theorem orphan_threshold_breaks (s : Sched) (h : SInv s) (hb : s.c.broken = false) (hold : oldOrphans s > 1024) :
    (sstep s .orphanTick).c.broken = true ∧ (sstep s .orphanTick).c.cause = some .tooManyOrphanedStreamIds ∧
    ∀ r, getCaller (sstep s .orphanTick).c.callers r = some .waiting → r ∈ (sstep s .orphanTick).c.permits := by
  have hold' : oldOrphans s > orphanLimit := hold
  have e : (sstep s .orphanTick).c = step s.c (.break_ .tooManyOrphanedStreamIds) := by
    simp only [sstep, hb, Bool.false_eq_true, if_false, hold', if_true, stamp]
  rw [e]
  have hbr : (step s.c (.break_ .tooManyOrphanedStreamIds)).broken = true := by
    simp only [step, hb, Bool.false_eq_true, if_false]; rfl
  refine ⟨hbr, by simp only [step, hb, Bool.false_eq_true, if_false]; rfl, ?_⟩
  intro r hw
  have hinv := h.inv.step (.break_ .tooManyOrphanedStreamIds)
  obtain ⟨hq, hs, _, hh, _⟩ := hinv.map.brk hbr
  rcases hinv.callers.tracked r hw with m | m | ⟨st, hs'⟩ | m
  · rw [hs] at m; cases m
  · rw [hq] at m; cases m
  · rw [hh] at hs'; cases hs'
  · exact m

/-- … and 1024 or fewer do not: the tick changes nothing. -/
theorem orphan_threshold_quiet (s : Sched) (hold : oldOrphans s ≤ 1024) : sstep s .orphanTick = s := by
  have hold' : ¬ oldOrphans s > orphanLimit := by show ¬ _ > 1024; omega
  simp only [sstep, hold', if_false]
  split <;> rfl

/-- An id counts as an old orphan only once a full second has passed since it was orphaned — strictly more than a
second, or exactly a second on a stream id other than 32767 (the `BTreeSet` range `..(now - 1 s, i16::MAX)` of the
code is exclusive at its upper end). -/
theorem old_orphans_are_a_second_old (s : Sched) :
    oldOrphans s = (s.ages.filter (fun p =>
      decide (p.2 + 1000 < s.clock) || (decide (p.2 + 1000 = s.clock) && decide (p.1 < 32767)))).length := rfl

/-- THE CONSTANTS are the code's: the capacity of the submit channel, the orphan count and age thresholds are
re-extracted from `connection.rs` on every run (`Generated/Constants.lean`), the model uses the extracted values, and
they are 1024 / 1024 / 1 s; the verification hook's own submit channel (`connection_verif.rs`) has the capacity of the
production one. -/
theorem channel_capacity_is_1024 :
    chanCap = 1024 ∧ ScyllaVerif.Generated.submitChannelCapacity = 1024 ∧
    ScyllaVerif.Generated.hookSubmitChannelCapacity = ScyllaVerif.Generated.submitChannelCapacity ∧
    orphanLimit = 1024 ∧ orphanAge = 1000 := ⟨rfl, rfl, rfl, rfl, rfl⟩

/-- non-vacuity: request 0 is written and abandoned at time 0; after 999 ms it does not count, after 1000 ms it
does; its answer removes it again. -/
example :
    let s := srun Sched.init [.submit, .writerOne, .cancel 0, .orphaner, .advance 999]
    let s' := sstep s (.advance 1)
    s.ages = [(0, 0)] ∧ oldOrphans s = 0 ∧ oldOrphans s' = 1 ∧ (sstep s' (.respond 0)).ages = [] := by
  decide +kernel

end sched

/-! ## 9. the reader CONSUMES: no complete frame stays in the buffer (audit D5 / round 6, item (a))

`Props.C10.wire_is_frame_aligned` (`received = encodeAll fs ++ inbuf` for SOME `fs`) is also true of a reader that never
takes anything out of its buffer. Here the frames are named: `consumedBy` is computed from the model's own run
(`ConnIO.wrun` over the chunks): the bytes the reader has removed from its buffer, parsed. -/
section consumes
open ScyllaVerif.FrameStream ScyllaVerif.ConnIO

/-- Ghost: the frames the model's reader has taken out of its buffer (and handed to `deliverFrame`) after the chunks
arrived on wire `w` — what `readFrames` finds in `received` minus what is still in `inbuf`. -/
def consumedBy (w : Wire) (chunks : List (List UInt8)) : List Frame :=
  let w' := wrun w (chunks.map .bytes)
  (readFrames ((w'.received.drop w.received.length).take
      ((w'.received.length - w.received.length) - w'.inbuf.length))).1

private theorem wrun_bytes (rest : List (List UInt8)) (w : Wire) (bs : List UInt8) (he : w.eof = false) :
    (wrun (wstep w (.bytes bs)) (rest.map .bytes)).c = (reader w.c (w.inbuf ++ (bs ++ rest.flatten)) false).1 ∧
    (wrun (wstep w (.bytes bs)) (rest.map .bytes)).inbuf = (reader w.c (w.inbuf ++ (bs ++ rest.flatten)) false).2 ∧
    (wrun (wstep w (.bytes bs)) (rest.map .bytes)).received = w.received ++ (bs ++ rest.flatten) := by
  induction rest generalizing w bs with
  | nil => simp [wrun, wstep, he]
  | cons b2 rest ih =>
    have he1 : (wstep w (.bytes bs)).eof = false := by simp [wstep, he]
    obtain ⟨h1, h2, h3⟩ := ih (wstep w (.bytes bs)) b2 he1
    have hc : (wstep w (.bytes bs)).c = (reader w.c (w.inbuf ++ bs) false).1 := by simp [wstep, he]
    have hi : (wstep w (.bytes bs)).inbuf = (reader w.c (w.inbuf ++ bs) false).2 := by simp [wstep, he]
    have hr : (wstep w (.bytes bs)).received = w.received ++ bs := by simp [wstep, he]
    have hrun : wrun (wstep w (.bytes bs)) ((b2 :: rest).map .bytes) =
        wrun (wstep (wstep w (.bytes bs)) (.bytes b2)) (rest.map .bytes) := rfl
    rw [hrun, h1, h2, h3, hc, hi, hr, reader_chunks]
    simp [List.append_assoc]

private theorem not_broken_of_reader {c : Conn} {b : List UInt8} {e : Bool}
    (h : (reader c b e).1.broken = false) : c.broken = false := by
  cases hb : c.broken with
  | false => rfl
  | true => rw [reader_broken hb] at h; simp_all

private theorem reader_all (frames : List Frame) (hwf : ∀ f ∈ frames, f.wf) (g : Frame) (hg : g.wf) (k : Nat)
    (hk : k < 9 + g.body.length) (c : Conn)
    (hnb : (reader c (encodeAll frames ++ (encode g).take k) false).1.broken = false) :
    (reader c (encodeAll frames ++ (encode g).take k) false).2 = (encode g).take k := by
  induction frames generalizing c with
  | nil =>
    have hb := not_broken_of_reader hnb
    have hcut := readFrame_cut g hg [] k hk
    rw [List.append_nil] at hcut
    have hstop : ∀ f rest, readFrame ((encode g).take k) ≠ .frame f rest := by
      intro f rest; rw [hcut]; split
      · simp
      · split <;> simp
    simp only [encodeAll, List.flatMap_nil, List.nil_append]
    rw [reader_stop hb false hstop]
  | cons f fs ih =>
    have hb := not_broken_of_reader hnb
    have hf : f.wf := hwf f List.mem_cons_self
    have hall : encodeAll (f :: fs) ++ (encode g).take k = encode f ++ (encodeAll fs ++ (encode g).take k) := by
      simp [encodeAll]
    rw [hall] at hnb ⊢
    rw [reader_frame hb false (readFrame_encode f hf _)] at hnb ⊢
    exact ih (fun x hx => hwf x (List.mem_cons_of_mem _ hx)) _ hnb

private theorem readFrames_encodeAll (frames : List Frame) (hwf : ∀ f ∈ frames, f.wf) :
    (readFrames (encodeAll frames)).1 = frames := by
  induction frames with
  | nil => simp [encodeAll, readFrames_nil]
  | cons f fs ih =>
    have hall : encodeAll (f :: fs) = encode f ++ encodeAll fs := by simp [encodeAll]
    rw [hall, readFrames_frame (readFrame_encode f (hwf f List.mem_cons_self) _)]
    simp [ih (fun x hx => hwf x (List.mem_cons_of_mem _ hx))]

/-- After ANY chunking `bs :: rest` of a byte stream that is the well-formed frames `f1..fn` followed by a proper
prefix `p` of a frame, on a connection the reader has not ended: the model's reader has consumed EXACTLY `f1..fn`
(none withheld, none invented, in order) and what stays buffered is exactly `p`. A reader that leaves a complete frame
in its buffer falsifies this. (The chunk list is non-empty; single chunks may be empty.) -/
theorem reader_consumes_every_complete_frame (c0 : Conn) (bs : List UInt8) (rest : List (List UInt8))
    (frames : List Frame) (hwf : ∀ f ∈ frames, f.wf) (g : Frame) (hg : g.wf) (k : Nat) (hk : k < 9 + g.body.length)
    (hstream : (bs :: rest).flatten = encodeAll frames ++ (encode g).take k)
    (hnb : (wrun { c := c0 } ((bs :: rest).map .bytes)).c.broken = false) :
    consumedBy { c := c0 } (bs :: rest) = frames ∧
      (wrun { c := c0 } ((bs :: rest).map .bytes)).inbuf = (encode g).take k := by
  obtain ⟨h1, h2, h3⟩ := wrun_bytes rest { c := c0 } bs rfl
  have hrun : wrun { c := c0 } ((bs :: rest).map .bytes) = wrun (wstep { c := c0 } (.bytes bs)) (rest.map .bytes) := rfl
  have hfl : bs ++ rest.flatten = encodeAll frames ++ (encode g).take k := by simpa using hstream
  simp only [List.nil_append] at h1 h2 h3
  rw [hfl] at h1 h2 h3
  rw [hrun] at hnb
  rw [h1] at hnb
  have hin := reader_all frames hwf g hg k hk c0 hnb
  refine ⟨?_, by rw [hrun, h2, hin]⟩
  unfold consumedBy
  simp only [hrun, h2, h3, hin, List.length_nil, List.drop_zero, Nat.sub_zero, List.length_append,
    Nat.add_sub_cancel, List.take_left', readFrames_encodeAll frames hwf]

/-- Hence the reader never stalls on a complete frame: if the buffer starts with a whole frame and the router lives,
the reader's step hands that frame on and leaves strictly less in the buffer. -/
theorem reader_never_stalls_on_complete_frame (c : Conn) (hb : c.broken = false) (inbuf rest : List UInt8)
    (f : Frame) (e : Bool) (h : readFrame inbuf = .frame f rest) :
    reader c inbuf e = reader (deliverFrame c f) rest e ∧ (reader c inbuf e).2.length < inbuf.length := by
  have h1 := reader_frame hb e h
  refine ⟨h1, ?_⟩
  obtain ⟨fs, hfs⟩ := reader_rest rest (deliverFrame c f) e
  have hlt := readFrame_rest_lt h
  have : (reader (deliverFrame c f) rest e).2.length ≤ rest.length := by
    conv => rhs; rw [hfs]
    simp
  rw [h1]; omega

/-- non-vacuity: two answers (to requests 0 and 1) arrive in 1-byte chunks followed by 3 bytes of a third frame: the
reader has consumed exactly the two frames, the 3 bytes stay buffered, both callers hold their frames. -/
example :
    let f0 : Frame := ⟨0, 0, 0x08, [1, 2]⟩
    let f1 : Frame := ⟨0, 1, 0x08, []⟩
    let c0 := run Conn.init [.submit, .submit, .writerTake, .writerTake]
    let chunks := (encode f0 ++ encode f1 ++ (encode f0).take 3).map fun b => [b]
    consumedBy { c := c0 } chunks = [f0, f1] ∧
      (wrun { c := c0 } (chunks.map .bytes)).inbuf = (encode f0).take 3 ∧
      (wrun { c := c0 } (chunks.map .bytes)).c.broken = false := by decide +kernel

end consumes

end ScyllaVerif.Props.C02

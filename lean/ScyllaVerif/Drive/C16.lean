import ScyllaVerif.Model.Util
import ScyllaVerif.Model.Derive
/-! Line-protocol driver for C16 (format: see `harness/src/c16.rs`).  The struct descriptor travels in the
case line; all four derives are deterministic, so `impl` is ignored. -/
namespace ScyllaVerif.Drive.C16
open ScyllaVerif.Util ScyllaVerif.Derive

/-- parsed descriptor tree (values not yet attached) -/
inductive PF where
  | leaf (f : Field)
  | nest (skip : Bool) (skipNames : Bool) (fs : List PF)

def bit : String → Option Bool
  | "0" => some false
  | "1" => some true
  | _ => none

def parseTy : String → Option Ty
  | "int" => some .int
  | "text" => some .text
  | "boolean" => some .bool
  | "list" => some .list
  | "udt" => some .udt
  | _ => none

/-- `n` fields from the token list (fuel bounds the nesting + length) -/
def parseFields : Nat → Nat → List String → Option (List PF × List String)
  | _, 0, ts => some ([], ts)
  | 0, _ + 1, _ => none
  | fuel + 1, n + 1, "L" :: rust :: ren :: ty :: o :: s :: am :: dn :: ts =>
    match parseTy ty, bit o, bit s, bit am, bit dn with
    | some ty, some o, some s, some am, some dn =>
      if ty == .bool then none else
      let f : Field := ⟨rust, if ren == "-" then none else some ren, ty, o, s, am, dn⟩
      match parseFields fuel n ts with
      | some (fs, rest) => some (.leaf f :: fs, rest)
      | none => none
    | _, _, _, _, _ => none
  | fuel + 1, n + 1, "N" :: _rust :: s :: _flavor :: snc :: k :: ts =>
    match bit s, bit snc, k.toNat? with
    | some s, some snc, some k =>
      match parseFields fuel k ts with
      | some (inner, rest) =>
        match parseFields fuel n rest with
        | some (fs, rest') => some (.nest s snc inner :: fs, rest')
        | none => none
      | none => none
    | _, _, _ => none
  | _, _, _ => none

mutual
def leavesOf : PF → List Field
  | .leaf f => [f]
  | .nest _ _ fs => leavesOfList fs
def leavesOfList : List PF → List Field
  | [] => []
  | p :: ps => leavesOf p ++ leavesOfList ps
end

def isFlat : List PF → Bool
  | [] => true
  | .leaf _ :: ps => isFlat ps
  | .nest _ _ _ :: _ => false

def flatFields : List PF → List Field
  | [] => []
  | .leaf f :: ps => f :: flatFields ps
  | .nest _ _ _ :: ps => flatFields ps

mutual
/-- attach the values (one per leaf, in declaration order) -/
def attach : PF → List Val → Option (RField × List Val)
  | .leaf f, v :: vs => some (.leaf f v, vs)
  | .leaf _, [] => none
  | .nest s snc fs, vs =>
    match attachList fs vs with
    | some (rs, rest) => some (.flat s snc rs, rest)
    | none => none
def attachList : List PF → List Val → Option (List RField × List Val)
  | [], vs => some ([], vs)
  | p :: ps, vs =>
    match attach p vs with
    | some (r, rest) =>
      (match attachList ps rest with
       | some (rs, rest') => some (r :: rs, rest')
       | none => none)
    | none => none
end

def parseCol (s : String) : Option Col :=
  match s.splitOn ":" with
  | [n, t] => (parseTy t).map (fun ty => ⟨n, ty⟩)
  | _ => none

def parseVal (s : String) : Option Val :=
  if s == "n" then some none else (parseHex s).map some

def showVal : Val → String
  | none => "n"
  | some b => toHex b

def showOk (vs : List Val) : String :=
  if vs.isEmpty then "ok" else "ok " ++ " ".intercalate (vs.map showVal)

def showErr : Err → String
  | .svNoSuchField => "err ser NoSuchFieldInUdt"
  | .svValueMissing => "err ser ValueMissingForUdtField"
  | .svFieldNameMismatch => "err ser FieldNameMismatch"
  | .svFieldSerFailed => "err ser FieldSerializationFailed"
  | .srValueMissingForColumn => "err ser ValueMissingForColumn"
  | .srNoColumnWithName => "err ser NoColumnWithName"
  | .srColumnNameMismatch => "err ser ColumnNameMismatch"
  | .srColumnSerFailed => "err ser ColumnSerializationFailed"
  | .dvTooFewFields => "err typecheck TooFewFields"
  | .dvFieldNameMismatch => "err typecheck FieldNameMismatch"
  | .dvFieldTypeCheckFailed => "err typecheck FieldTypeCheckFailed"
  | .dvExcessField => "err typecheck ExcessFieldInUdt"
  | .dvDuplicatedField => "err typecheck DuplicatedField"
  | .dvValuesMissing => "err typecheck ValuesMissingForUdtFields"
  | .dvFieldDeserFailed => "err deser FieldDeserializationFailed"
  | .dvNullUdt => "err deser ExpectedNonNull"
  | .svNotUdt => "err ser NotUdt"
  | .dvNotUdt => "err typecheck NotUdt"
  | .drWrongColumnCount => "err typecheck WrongColumnCount"
  | .drColumnNameMismatch => "err typecheck ColumnNameMismatch"
  | .drColumnTypeCheckFailed => "err typecheck ColumnTypeCheckFailed"
  | .drDuplicatedColumn => "err typecheck DuplicatedColumn"
  | .drUnknownName => "err typecheck ColumnWithUnknownName"
  | .drValuesMissing => "err typecheck ValuesMissingForColumns"
  | .drColumnDeserFailed => "err deser ColumnDeserializationFailed"
  | .drRawColumnFailed => "err deser RawColumnDeserializationFailed"
  | .panic => "PANIC"

def showRes : Except Err (List Val) → String
  | .ok vs => showOk vs
  | .error e => showErr e

/-- a Rust value the harness can build: `None` only for `Option`, 4 bytes for `i32`, ASCII for `String` -/
def valOk (f : Field) (v : Val) : Bool :=
  match v with
  | none => f.opt
  | some b => if f.ty == .int then b.length == 4 else if f.ty == .text then b.all (· < 128) else true

def splitSemi (ws : List String) : List (List String) :=
  ws.foldr (fun w acc =>
    if w == ";" then [] :: acc
    else match acc with
      | [] => [[w]]
      | a :: rest => (w :: a) :: rest) [[]]

def run (case _impl : String) : String :=
  match splitSemi (words case) with
  | [head, cols, vals] =>
    match head with
    | op :: _name :: flavor :: snc :: forbid :: n :: fieldToks =>
      -- `dv … ; … ; NULL`: the whole UDT value is null
      let wholeNull := op == "dv" && vals == ["NULL"]
      -- column section `-:notudt`: the CQL type handed to the generated code is not a UDT (plain `int`)
      let notUdt := (op == "sv" || op == "dv") && cols == ["-:notudt"]
      let cols := if notUdt then [] else cols
      match (if flavor == "bn" then some Flavor.byName else if flavor == "ord" then some Flavor.ordered else none),
            bit snc, bit forbid, n.toNat?, cols.mapM parseCol, (if wholeNull then some []
             else if op == "du" then (match vals with | _ :: rest => (rest.mapM parseVal).map (none :: ·) | [] => none)
             else vals.mapM parseVal) with
      | some flavor, some snc, some forbid, some n, some db, some vs =>
        match parseFields (fieldToks.length + 1) n fieldToks with
        | some (pfs, []) =>
          let d : Desc := ⟨flavor, snc, forbid, flatFields pfs⟩
          let leaves := leavesOfList pfs
          if op == "ie" then
            -- generated `SerializeRow::is_empty`
            (match attachList pfs (leaves.map (fun _ => none)) with
             | some (rfs, _) => toString (rowIsEmpty rfs)
             | none => "bad-case")
          else if op == "sv" || op == "sr" then
            if leaves.length != vs.length || !((leaves.zip vs).all (fun p => valOk p.1 p.2)) then "bad-case"
            else if op == "sv" then
              (if isFlat pfs then showRes (serValueAt d (leaves.zip vs) (if notUdt then none else some db)) else "bad-case")
            else
              match attachList pfs vs with
              | some (rfs, []) =>
                let nested := match flavor with
                  | .byName => serRowByNameN rfs db
                  | .ordered => serRowOrderedN snc rfs db
                if isFlat pfs then
                  -- the flat interpreter (the one the theorems are about) must agree with the nested one
                  let flat := serRow d (leaves.zip vs) db
                  if showRes flat == showRes nested then showRes flat else "MODEL-INCONSISTENT flat/nested"
                else showRes nested
              | _ => "bad-case"
          else if op == "dv" then
            (if isFlat pfs then
              showRes (deserValueAt d (if notUdt then none else some db) (if wholeNull then none else some vs))
             else "bad-case")
          else if op == "du" then
            -- `deserialize` without `type_check` (second token after the struct name decides row / UDT in the harness;
            -- here: the descriptor's kind is not in the line, so `du` carries `row` / `udt` as the first value token)
            (match vals with
             | "row" :: _ => (if isFlat pfs then showRes (deRowUnchecked d db (vs.drop 1)) else "bad-case")
             | "udt" :: _ => (if isFlat pfs then showRes (deValueUnchecked d db (vs.drop 1)) else "bad-case")
             | _ => "bad-case")
          else if op == "dr" then
            (if isFlat pfs then showRes (deserRow d db vs) else "bad-case")
          else "bad-case"
        | _ => "bad-case"
      | _, _, _, _, _, _ => "bad-case"
    | _ => "bad-case"
  | _ => "bad-case"

end ScyllaVerif.Drive.C16

import ScyllaVerif.Model.Util
import ScyllaVerif.Model.Prepared
import ScyllaVerif.Drive.C14Session
/-! Line-protocol driver for C14.

Case: `hist <nodes> <stmts> <steps>`
* `<nodes>`  = `E,N,…`   one letter per node: `E` metadata-id extension negotiated, `N` not; `G` / `H` = `E` / `N`
               with a (scripted, shared) timestamp generator on every connection to the node
* `<stmts>`  = `n1,l3t2,z2,…` per statement number: kind (`n` normal, `l` late, `z` late0), initial shape 0..5 and
               optionally `t<0..7>`: how the caller writes the statement text (`textV`: whitespace, newlines, semicolon,
               mixed case, non-ASCII); ids and PREPARE texts are printed as hex of the exact bytes
* `<steps>`  = `;`-separated schedule (callers `k`, nodes `n`, statement numbers `s`):
    `N<k>.<s>.<n>`                                  caller k starts `Connection::prepare` of statement s on node n
    `A<k>.x.<s>.<n>.<u>.<cl>.<scl>.<ts>.<pg>.<ps>.<nv>`  caller k starts an execution (u = use_cached_result_metadata,
                                                    scl = serial consistency, nv = number of bound values)
    `A<k>.b.<n>.<cl>.<scl>.<ts>.<s1>,<s2>,…`        caller k starts a batch
    `S<k>`  the node consumes caller k's request     `R<k>`  caller k receives its response
    `C<k>`  = `S<k>;R<k>` repeated until caller k is idle
    `E<n>.ev.<s>` evict  `E<n>.sc.<s>.<shape>` schema change  `E<n>.ic.<s>` id change
    `E<n>.pf.<s>.<0|1>` PREPARE fails  `E<n>.li.<0|1>` UNPREPARED names a bogus id
    `E<n>.ov.<pv|pc|er|vo|mc|fm|fn>` one-shot byzantine answer (`Ov` in Model/Prepared.lean)
The bound values of the execution started by step number i are `10*i, 10*i+1, …` (batch item j: the one value `10*i+j`).
Output: one token per step joined by ` ; ` and a final `end …` dump of the current result columns. -/
namespace ScyllaVerif.Drive.C14
open ScyllaVerif.Util ScyllaVerif.Prepared

def shapeCols : Nat → List Col
  | 1 => [⟨"a", .int⟩]
  | 2 => [⟨"a", .text⟩]
  | 3 => [⟨"a", .int⟩, ⟨"b", .text⟩]
  | 4 => [⟨"b", .text⟩, ⟨"a", .int⟩]
  | 5 => [⟨"c", .int⟩]
  | _ => []

def shapeMeta (k : Nat) : SMeta := ⟨s!"m{k}", shapeCols k⟩

def showCols (cs : List Col) : String :=
  if cs.isEmpty then "-"
  else ",".intercalate (cs.map (fun c => c.name ++ ":" ++ (match c.ty with | .int => "int" | .text => "text")))

def showSId (i : SId) : String := s!"{hexOfString i.text}#{i.ver}"

def showOptId : Option Id → String
  | none => "~"
  | some "" => "\"\""
  | some x => x

def showOpt (f : α → String) : Option α → String
  | none => "-"
  | some x => f x

def showVal : Val → String
  | .int n => toString n
  | .text h => "x" ++ h

def showRows : Option (List (List Val)) → String
  | none => "ERR"
  | some [] => "-"
  | some rs => String.join (rs.map (fun r => "[" ++ ",".intercalate (r.map showVal) ++ "]"))

def showReq (node : Nat) : Req → String
  | .prepare t => s!">n{node} PREP x{hexOfString t}"
  | .execute r =>
    s!">n{node} EXEC id={showSId r.id} mid={showOptId r.mid} skip={if r.skip then 1 else 0} v={natList r.values} cl={r.cl} scl={showOpt toString r.scl} ts={showOpt toString r.ts} pg={showOpt toString r.pageSize} ps={showOpt id r.ps}"
  | .batch b =>
    let items := ",".intercalate (b.stmts.map (fun (i, v) => s!"{showSId i}/{"+".intercalate (v.map toString)}"))
    s!">n{node} BATCH {if items.isEmpty then "-" else items} cl={b.cl} scl={showOpt toString b.scl} ts={showOpt toString b.ts}"

def showResp : Resp → String
  | .unprepared i => s!"<unprepared:{showSId i}"
  | .error c => s!"<error:{c}"
  | .void => "<void"
  | .rows r =>
    let m := match r.noMeta, r.newId with
      | true, some i => s!"nometa+{i}"
      | true, none => "nometa"
      | false, some i => s!"meta+{i}"
      | false, none => "meta"
    s!"<rows:{m}:{r.colCount}"
  | .prepared p => s!"<prepared:{showSId p.id}:{showOptId p.mid}:{if p.noMeta then s!"nometa{p.colCount}" else showCols p.cols}"

def showOutcome : Outcome → String
  | .rows m d more => s!"=rows cols={showCols m.cols} r={showRows d} more={showOpt id more}"
  | .void => "=void"
  | .prepared => "=prepared"
  | .dbError c => s!"=err:DbError:{c}"
  | .repreparedIdChanged => "=err:RepreparedIdChanged"
  | .repreparedIdMissingInBatch => "=err:RepreparedIdMissingInBatch"
  | .unexpectedResponse => "=err:UnexpectedResponse"
  | .parseError => "=err:CqlResultParseError"

def showObs : Obs → String
  | .invalid => "-"
  | .sent n r => showReq n r
  | .served r => showResp r
  | .done o => showOutcome o
  | .event => "e"

/-- the statement object whose current metadata a `recv` of this caller may touch -/
def objOfPc : Pc → Option Nat
  | .exec1 op _ => some op.obj
  | .execPrep op => some op.obj
  | .exec2 op _ => some op.obj
  | .batchPrep _ _ o => some o
  | _ => none

def recvShown (st : State) (k : Nat) : State × String :=
  let o := objOfPc (st.caller k).pc
  let (st1, ob) := recv st k
  match ob, o with
  | .invalid, _ => (st1, "-")
  | _, some o => (st1, showObs ob ++ " c=" ++ showCols (st1.objs o).cur.cols)
  | _, none => (st1, showObs ob)

def complete (st : State) (k : Nat) : Nat → State × List String
  | 0 => (st, ["FUEL"])
  | fuel + 1 =>
    match (st.caller k).wire with
    | .none => (st, [])
    | .req _ _ =>
      let (st1, ob) := serveStep st k
      let (st2, rest) := complete st1 k fuel
      (st2, showObs ob :: rest)
    | .resp _ =>
      let (st1, s) := recvShown st k
      let (st2, rest) := complete st1 k fuel
      (st2, s :: rest)

def optNat (s : String) : Option (Option Nat) := if s == "-" then some none else s.toNat?.map some
def optPs (s : String) : Option (Option String) := if s == "-" then some none else some (some s)
def bool01 (s : String) : Option Bool := if s == "1" then some true else if s == "0" then some false else none

def tag (s : String) : Option (Char × Nat) :=
  match s.toList with
  | c :: rest => (String.ofList rest).toNat?.map (fun n => (c, n))
  | [] => none

/-- one schedule entry → the state after it and what it printed (`none` = unparsable) -/
def doStep (nNodes : Nat) (tvs : List Nat) (st : State) (idx : Nat) (w : String) : Option (State × List String) :=
  let okN (n : Nat) : Bool := n < nNodes
  let okS (s : Nat) : Bool := s < tvs.length
  match w.splitOn "." with
  | [] => none
  | h :: args =>
    match tag h with
    | none => none
    | some (c, k) =>
      if c == 'E' && !okN k then none else
      if c != 'E' && k ≥ 4 then none else
      match c, args with
      | 'N', [s, n] =>
        match s.toNat?, n.toNat? with
        | some s, some n =>
          if okS s && okN n then let (st1, ob) := start st k (.prepare s n (textV s (tvs.getD s 0))); some (st1, [showObs ob]) else none
        | _, _ => none
      | 'A', ["x", s, n, u, cl, scl, ts, pg, ps, nv] =>
        match s.toNat?, n.toNat?, bool01 u, cl.toNat?, optNat scl, optNat ts, optNat pg, optPs ps, nv.toNat? with
        | some s, some n, some u, some cl, some scl, some ts, some pg, some ps, some nv =>
          if !(okS s && okN n && nv ≤ 4) then none else
          let vals := (List.range nv).map (fun j => 10 * idx + j)
          let (st1, ob) := start st k (.execute ⟨s, n, u, cl, scl, ts.map Int.ofNat, pg, ps, vals⟩)
          some (st1, [showObs ob])
        | _, _, _, _, _, _, _, _, _ => none
      | 'A', ["b", n, cl, scl, ts, items] =>
        match n.toNat?, cl.toNat?, optNat scl, optNat ts, parseNatList items with
        | some n, some cl, some scl, some ts, some items =>
          if !(okN n && items.all okS) then none else
          let its := items.zipIdx.map (fun (s, j) => (s, [10 * idx + j]))
          let (st1, ob) := start st k (.batch ⟨n, cl, scl, ts.map Int.ofNat, its⟩)
          some (st1, [showObs ob])
        | _, _, _, _, _ => none
      | 'S', [] => let (st1, ob) := serveStep st k; some (st1, [showObs ob])
      | 'R', [] => let (st1, s) := recvShown st k; some (st1, [s])
      | 'C', [] =>
        match (st.caller k).wire with
        | .none => some (st, ["-"])
        | _ => some (complete st k 40)
      | 'E', ["ev", s] => s.toNat?.map (fun s => let (st1, ob) := eventStep st k (.evict s); (st1, [showObs ob]))
      | 'E', ["sc", s, sh] =>
        match s.toNat?, sh.toNat? with
        | some s, some sh => let (st1, ob) := eventStep st k (.schemaChange s (shapeMeta sh)); some (st1, [showObs ob])
        | _, _ => none
      | 'E', ["ic", s] => s.toNat?.map (fun s => let (st1, ob) := eventStep st k (.idChange s); (st1, [showObs ob]))
      | 'E', ["pf", s, on] =>
        match s.toNat?, bool01 on with
        | some s, some on => let (st1, ob) := eventStep st k (.prepFail s on); some (st1, [showObs ob])
        | _, _ => none
      | 'E', ["ov", o] =>
        let ov : Option Ov := match o with
          | "pv" => some .prepVoid | "pc" => some .prepCount | "er" => some .execError | "vo" => some .execVoid
          | "mc" => some .malformed | "fm" => some .forceMeta | "fn" => some .forceNoMeta | _ => none
        ov.map (fun o => let (st1, ob) := eventStep st k (.override o); (st1, [showObs ob]))
      | 'E', ["li", on] => (bool01 on).map (fun on => let (st1, ob) := eventStep st k (.liar on); (st1, [showObs ob]))
      | _, _ => none

def runSteps (nNodes : Nat) (tvs : List Nat) (st : State) : Nat → List String → Option (State × List String)
  | _, [] => some (st, [])
  | idx, w :: ws =>
    match doStep nNodes tvs st idx w with
    | none => none
    | some (st1, out) =>
      match runSteps nNodes tvs st1 (idx + 1) ws with
      | none => none
      | some (st2, rest) => some (st2, out ++ rest)

def parseKind : Char → Option Kind
  | 'n' => some .normal
  | 'l' => some .late
  | 'z' => some .late0
  | _ => none

def parseStmt (w : String) : Option (SrvStmt × Nat) :=
  match w.toList with
  | [k, d] =>
    match parseKind k, (String.ofList [d]).toNat? with
    | some k, some sh => some (⟨0, shapeMeta sh, k, false⟩, 0)
    | _, _ => none
  | [k, d, 't', v] =>
    match parseKind k, (String.ofList [d]).toNat?, (String.ofList [v]).toNat? with
    | some k, some sh, some tv => if tv < 8 then some (⟨0, shapeMeta sh, k, false⟩, tv) else none
    | _, _, _ => none
  | _ => none

def parseNode (stmts : List SrvStmt) (w : String) : Option Node :=
  let st : Nat → SrvStmt := fun i => stmts.getD i ⟨0, shapeMeta 0, .normal, false⟩
  if w == "E" then some ⟨true, false, [], st, false, none⟩
  else if w == "N" then some ⟨false, false, [], st, false, none⟩
  else if w == "G" then some ⟨true, true, [], st, false, none⟩
  else if w == "H" then some ⟨false, true, [], st, false, none⟩
  else none

def dummyStmt : Stmt := ⟨"", ⟨"", 0⟩, RMeta.empty, RMeta.empty⟩

def endDump (st : State) (nStmts : Nat) : String :=
  "end " ++ " ".intercalate ((List.range nStmts).map (fun s =>
    match st.slot s with
    | none => s!"q{s}=none"
    | some o => s!"q{s}={showCols (st.objs o).cur.cols}"))

def run (case impl : String) : String :=
  match words case with
  | "pb" :: _ => ScyllaVerif.Drive.C14Session.run case impl
  | "cs" :: _ => ScyllaVerif.Drive.C14Session.run case impl
  | "cm" :: _ => ScyllaVerif.Drive.C14Session.run case impl
  | ["hist", nodes, stmts, steps] =>
    match (stmts.splitOn ",").mapM parseStmt with
    | none => "bad-case"
    | some sst =>
      let ss := sst.map (·.1)
      let tvs := sst.map (·.2)
      match (nodes.splitOn ",").mapM (parseNode ss) with
      | none => "bad-case"
      | some ns =>
        let st0 : State :=
          { objs := fun _ => dummyStmt, nObjs := 0, slot := fun _ => none,
            node := fun i => ns.getD i ⟨false, false, [], fun _ => ⟨0, shapeMeta 0, .normal, false⟩, false, none⟩,
            caller := fun _ => ⟨.idle, .none⟩, tsCtr := 0 }
        match runSteps ns.length tvs st0 0 ((steps.splitOn ";").filter (· ≠ "")) with
        | none => "bad-case"
        | some (st, out) => " ; ".intercalate (out ++ [endDump st ss.length])
  | _ => "bad-case"

end ScyllaVerif.Drive.C14

import ScyllaVerif.Model.Util
import ScyllaVerif.Model.Speculative
import ScyllaVerif.Model.SpecStmtConfig
/-! Line-protocol driver for C13.

* `cfg <stmt|prep|batch> <op,op,…|->`             — the public setters of `Statement` / `PreparedStatement` / `Batch`
  (`Model/SpecStmtConfig.lean`): what every getter shows afterwards, `is_idempotent` first;

* `class <ok|Error>`                             — `canBeIgnored` on one value of the error universe
  (`Name` or `Name(payload,…)`): `ignorable` / `definitive`;
* `lbplan <shards> <ident> <node> <shard>`         — `lbRaw` over the single-target policy; the observed `Plan` must
  be `resolveAll` of it for some random shards (checker);
* `spec <max> <interval> <delay>:<outcome> …`   — `execute` over scripted fibers in virtual time;
* `gate <idem>[/<timeout>] <none|max:interval> <conn>:<delay>:<outcome>:<decision> …` — the gate (+ optional
  client-side request timeout) + shared plan + fibers that walk the plan (`execution.rs:519-644` with the harness's scripted retry policy).

The driver owns the *clock* and the scripted behaviour of the fibers; everything the property is about goes
through `Speculative.step`: the driver only decides which event happens next (the earliest pending wake-up;
when several are pending at the same virtual instant — a tie between the timer and completions, which
`futures::select!` resolves pseudo-randomly — every order is explored) and reads the observable output off
the model state.  The model therefore acts as a *checker* on ties: it echoes the implementation's line iff
some order of the simultaneous events produces it. -/
namespace ScyllaVerif.Drive.C13
open ScyllaVerif.Util ScyllaVerif.Speculative

/-! ### the error universe on the wire: `Name` or `Name(arg,…)` (a bare name of a payload variant = a default payload) -/

def boolArg (s : String) : Option Bool :=
  if s == "1" then some true else if s == "0" then some false else none

def parseOp (s : String) : Option OpType :=
  if s == "Read" then some .read else if s == "Write" then some .write
  else if s.startsWith "Other" then (s.drop 5).toString.toNat?.map .other else none

def consistencies : List String :=
  ["Any", "One", "Two", "Three", "Quorum", "All", "LocalQuorum", "EachQuorum", "LocalOne", "Serial", "LocalSerial"]
def writeTypes : List String :=
  ["Simple", "Batch", "UnloggedBatch", "Counter", "BatchLog", "Cas", "View", "Cdc"]

def clArg (s : String) : Option String := if consistencies.contains s then some s else none
def wtArg (s : String) : Option String := if writeTypes.contains s then some s else none

def parseDb (name : String) (args : List String) : Option DbErr :=
  match name, args with
  | "SyntaxError", [] => some .syntaxError
  | "Invalid", [] => some .invalid
  | "AlreadyExists", [] => some (.alreadyExists "ks" "t")
  | "AlreadyExists", [k, t] => some (.alreadyExists k t)
  | "FunctionFailure", [] => some (.functionFailure "ks" "f" ["int"])
  | "FunctionFailure", [k, f, n] => n.toNat?.map fun n => .functionFailure k f (List.replicate n "int")
  | "AuthenticationError", [] => some .authenticationError
  | "Unauthorized", [] => some .unauthorized
  | "ConfigError", [] => some .configError
  | "Unavailable", [] => some (.unavailable "Quorum" 2 1)
  | "Unavailable", [c, r, a] => match clArg c, r.toInt?, a.toInt? with
    | some c, some r, some a => some (.unavailable c r a)
    | _, _, _ => none
  | "Overloaded", [] => some .overloaded
  | "IsBootstrapping", [] => some .isBootstrapping
  | "TruncateError", [] => some .truncateError
  | "ReadTimeout", [] => some (.readTimeout "Quorum" 1 2 true)
  | "ReadTimeout", [c, rc, rq, dp] => match clArg c, rc.toInt?, rq.toInt?, boolArg dp with
    | some c, some rc, some rq, some dp => some (.readTimeout c rc rq dp)
    | _, _, _, _ => none
  | "WriteTimeout", [] => some (.writeTimeout "Quorum" 1 2 "Simple")
  | "WriteTimeout", [c, rc, rq, wt] => match clArg c, rc.toInt?, rq.toInt?, wtArg wt with
    | some c, some rc, some rq, some wt => some (.writeTimeout c rc rq wt)
    | _, _, _, _ => none
  | "ReadFailure", [] => some (.readFailure "Quorum" 1 2 1 false)
  | "ReadFailure", [c, rc, rq, nf, dp] => match clArg c, rc.toInt?, rq.toInt?, nf.toInt?, boolArg dp with
    | some c, some rc, some rq, some nf, some dp => some (.readFailure c rc rq nf dp)
    | _, _, _, _, _ => none
  | "WriteFailure", [] => some (.writeFailure "Quorum" 1 2 1 "Batch")
  | "WriteFailure", [c, rc, rq, nf, wt] => match clArg c, rc.toInt?, rq.toInt?, nf.toInt?, wtArg wt with
    | some c, some rc, some rq, some nf, some wt => some (.writeFailure c rc rq nf wt)
    | _, _, _, _, _ => none
  | "Unprepared", [] => some (.unprepared [0x69, 0x64])
  | "Unprepared", [h] => (parseHex h).map .unprepared
  | "ServerError", [] => some .serverError
  | "ProtocolError", [] => some .protocolError
  | "RateLimitReached", [] => some (.rateLimitReached .write true)
  | "RateLimitReached", [op, f] => match parseOp op, boolArg f with
    | some op, some f => some (.rateLimitReached op f)
    | _, _ => none
  | "Other", [] => some (.other 0x1234)
  | "Other", [c] => c.toInt?.map .other
  | _, _ => none

def parseBroken (args : List String) : Option BrokenKind :=
  match args with
  | [] => some .channelError
  | ["KeepaliveTimeout"] => some .keepaliveTimeout
  | ["KeepaliveRequestError"] => some .keepaliveRequestError
  | ["FrameHeaderParseError", sub] =>
    if ["HeaderIoError", "FrameFromClient", "FrameFromServer", "VersionNotSupported", "ConnectionClosed"].contains sub
    then some (.frameHeaderParseError sub) else none
  | ["CqlEventHandlingError"] => some .cqlEventHandlingError
  | ["UnexpectedStreamId", n] => n.toInt?.map .unexpectedStreamId
  | ["WriteError", k] =>
    if ["BrokenPipe", "ConnectionReset", "TimedOut", "UnexpectedEof"].contains k then some (.writeError k) else none
  | ["TooManyOrphanedStreamIds", n] => n.toNat?.map .tooManyOrphanedStreamIds
  | ["ChannelError"] => some .channelError
  | _ => none

/-- a nested error named by its variant: no argument = the first variant -/
def subArg (allowed : List String) (args : List String) : Option String :=
  match args with
  | [] => allowed.head?
  | [x] => if allowed.contains x then some x else none
  | _ => none

def parseAttempt (name : String) (args : List String) : Option AttemptErr :=
  match name with
  | "SerializationError" => if args.isEmpty then some .serializationError else none
  | "CqlRequestSerialization" =>
    (subArg ["SnapCompressError", "BatchTooManyStatements", "BatchLengthMismatch"] args).map .cqlRequestSerialization
  | "UnableToAllocStreamId" => if args.isEmpty then some .unableToAllocStreamId else none
  | "BrokenConnectionError" => (parseBroken args).map .brokenConnectionError
  | "BodyExtensionsParseError" =>
    (subArg ["NoCompressionNegotiated", "TraceIdParse", "WarningsListParse", "CustomPayloadMapParse", "SnapDecompressError"] args).map
      .bodyExtensionsParseError
  | "CqlResultParseError" => (subArg ["UnknownResultId", "ResultIdParseError", "SetKeyspaceParseError"] args).map .cqlResultParseError
  | "CqlErrorParseError" =>
    (subArg ["ErrorCodeParseError", "ReasonParseError", "MalformedErrorField"] args).map .cqlErrorParseError
  | "UnexpectedResponse" =>
    (subArg ["Ready", "Error", "Authenticate", "Supported", "Result", "Event", "AuthChallenge", "AuthSuccess"] args).map
      .unexpectedResponse
  | "RepreparedIdChanged" => if args.isEmpty then some .repreparedIdChanged else none
  | "RepreparedIdMissingInBatch" => if args.isEmpty then some .repreparedIdMissingInBatch else none
  | "NonfinishedPagingState" => if args.isEmpty then some .nonfinishedPagingState else none
  | _ => (parseDb name args).map fun d => .dbError d "msg"

/-- split `Name(a,b)` into the name and the arguments -/
def splitTok (tok : String) : Option (String × List String) :=
  match tok.splitOn "(" with
  | [n] => some (n, [])
  | [n, rest] =>
    if rest.endsWith ")" then
      let inner := (rest.dropEnd 1).toString
      some (n, if inner == "" then [] else inner.splitOn ",")
    else none
  | _ => none

def parseAttemptErr (tok : String) : Option AttemptErr :=
  match splitTok tok with
  | some (n, args) => parseAttempt n args
  | none => none

def parseReqErr (tok : String) : Option ReqErr :=
  match splitTok tok with
  | none => none
  | some (n, args) =>
    match n, args with
    | "EmptyPlan", [] => some .emptyPlan
    | "ConnectionPoolError", [] => some (.connectionPoolError .initializing)
    | "ConnectionPoolError", ["Broken"] => some (.connectionPoolError .broken)
    | "ConnectionPoolError", ["Initializing"] => some (.connectionPoolError .initializing)
    | "ConnectionPoolError", ["NodeDisabledByHostFilter"] => some (.connectionPoolError .nodeDisabledByHostFilter)
    | "RequestTimeout", [] => some (.requestTimeout 5)
    | "RequestTimeout", [ms] => ms.toNat?.map .requestTimeout
    | _, _ => (parseAttempt n args).map .lastAttemptError

def dbKindName : DbKind → String
  | .syntaxError => "SyntaxError" | .invalid => "Invalid" | .alreadyExists => "AlreadyExists"
  | .functionFailure => "FunctionFailure" | .authenticationError => "AuthenticationError"
  | .unauthorized => "Unauthorized" | .configError => "ConfigError" | .unavailable => "Unavailable"
  | .overloaded => "Overloaded" | .isBootstrapping => "IsBootstrapping" | .truncateError => "TruncateError"
  | .readTimeout => "ReadTimeout" | .writeTimeout => "WriteTimeout" | .readFailure => "ReadFailure"
  | .writeFailure => "WriteFailure" | .unprepared => "Unprepared" | .serverError => "ServerError"
  | .protocolError => "ProtocolError" | .rateLimitReached => "RateLimitReached" | .other => "Other"

/-- the variant name (what the harness prints for a returned error) -/
def reqErrName : ReqErr → String
  | .emptyPlan => "EmptyPlan"
  | .connectionPoolError _ => "ConnectionPoolError"
  | .requestTimeout _ => "RequestTimeout"
  | .lastAttemptError e => match e with
    | .serializationError => "SerializationError"
    | .cqlRequestSerialization _ => "CqlRequestSerialization"
    | .unableToAllocStreamId => "UnableToAllocStreamId"
    | .brokenConnectionError _ => "BrokenConnectionError"
    | .bodyExtensionsParseError _ => "BodyExtensionsParseError"
    | .cqlResultParseError _ => "CqlResultParseError"
    | .cqlErrorParseError _ => "CqlErrorParseError"
    | .dbError d _ => dbKindName d.kind
    | .unexpectedResponse _ => "UnexpectedResponse"
    | .repreparedIdChanged => "RepreparedIdChanged"
    | .repreparedIdMissingInBatch => "RepreparedIdMissingInBatch"
    | .nonfinishedPagingState => "NonfinishedPagingState"

/-! ### the world: clock + scripted fibers around `Speculative.step` -/

/-- Success payload: (fiber or target index, `IgnoredWriteError`?). -/
abbrev Pay := Nat × Bool

inductive Pc
  /-- pushed into `async_tasks`, not yet polled -/
  | fresh
  /-- `spec`: sleeping, will return `o` -/
  | sleeping (o : Outcome Pay)
  /-- `gate`: the `nth` attempt on target `t` is on the wire -/
  | attempt (t : Nat) (nth : Nat)

structure Fiber where
  id : Nat
  wakeAt : Nat
  pc : Pc
  lastErr : Option ReqErr

structure TargetScript where
  conn : Bool
  delay : Nat
  out : Option AttemptErr   -- `none` = the attempt succeeds
  dec : Char

inductive Mode
  | spec (script : List (Nat × Outcome Pay))
  | gate (targets : List TargetScript)

structure World where
  mode : Mode
  st : St Pay Nat
  now : Nat
  deadline : Nat
  interval : Nat
  reqDeadline : Option Nat   -- client-side request timeout (virtual ms)
  fibers : List Fiber
  starts : List Nat          -- reversed
  seen : List Nat            -- reversed
  atts : List (Nat × Nat)    -- reversed: (time, target)
  mo : Nat
  evs : List (Event Pay)     -- reversed: every event fed to `step` (checked to be `sequential` at the end)

def World.apply (w : World) (e : Event Pay) : World := { w with st := step w.st e, evs := e :: w.evs }

def World.setFiber (w : World) (f : Fiber) : World :=
  { w with fibers := w.fibers.map (fun g => if g.id == f.id then f else g) }

/-- the `select_next_some` branch with fiber `f`'s output -/
def World.completeFiber (w : World) (f : Fiber) (o : Outcome Pay) : World :=
  let w := w.apply (.complete f.id o)
  { w with seen := f.id :: w.seen, fibers := w.fibers.filter (fun g => g.id != f.id) }

inductive Action
  | pop
  | start (t nth : Nat)
  | finish (t nth : Nat)

/-- A fiber of `run_request_speculative_fiber` runs until it awaits (`execution.rs:532-643`). -/
def fiberGo (targets : List TargetScript) : Nat → World → Fiber → Action → World
  | 0, w, _, _ => w
  | fuel + 1, w, f, .pop =>
    match w.st.plan with
    | [] => w.completeFiber f (f.lastErr.map .err)                       -- `last_error.map(Result::Err)` (`:643`)
    | t :: _ =>
      let w := w.apply (.pop f.id)
      match targets[t]? with
      | none => w
      | some ts =>
        if !ts.conn then fiberGo targets fuel w { f with lastErr := some (.connectionPoolError .initializing) } .pop  -- `:538-547`
        else fiberGo targets fuel w f (.start t 1)
  | fuel + 1, w, f, .start t nth =>
    let w := w.apply (.send f.id)
    let w := { w with atts := (w.now, t) :: w.atts, mo := max w.mo w.st.attempts.length }
    match targets[t]? with
    | none => w
    | some ts =>
      if ts.delay == 0 then fiberGo targets fuel w f (.finish t nth)
      else w.setFiber { f with pc := .attempt t nth, wakeAt := w.now + ts.delay }
  | fuel + 1, w, f, .finish t nth =>
    let w := w.apply (.attemptDone f.id)
    match targets[t]? with
    | none => w
    | some ts =>
      match ts.out with
      | none => w.completeFiber f (some (.ok (t, false)))                 -- `:582-585`
      | some e =>
        let f := { f with lastErr := some (.lastAttemptError e) }         -- `:619`
        let dec := if ts.dec == 's' && nth ≥ 2 then 'n' else ts.dec
        if dec == 'n' then fiberGo targets fuel w f .pop                  -- RetryNextTarget
        else if dec == 's' then fiberGo targets fuel w f (.start t (nth + 1))   -- RetrySameTarget
        else if dec == 'i' then w.completeFiber f (some (.ok (t, true)))  -- IgnoreWriteError
        else w.completeFiber f (f.lastErr.map .err)                       -- DontRetry: `break 'targets_in_plan`

def fiberFuel (w : World) : Nat := 6 * (w.st.plan.length + 2)

/-- fiber `f` is polled -/
def World.runFiber (w : World) (f : Fiber) : World :=
  match w.mode, f.pc with
  | .spec script, .fresh =>
    let (d, o) := (script[f.id]?).getD (0, none)
    if d == 0 then w.completeFiber f o
    else w.setFiber { f with pc := .sleeping o, wakeAt := w.now + d }
  | .spec _, .sleeping o => w.completeFiber f o
  | .gate targets, .fresh => fiberGo targets (fiberFuel w) w f .pop
  | .gate targets, .attempt t nth => fiberGo targets (fiberFuel w) w f (.finish t nth)
  | _, _ => w

/-- the `sleep` branch of `select!` -/
def World.fireTimer (w : World) : World :=
  let before := w.st.started
  let w := w.apply .timerFires
  if w.st.started > before then
    { w with fibers := w.fibers ++ [{ id := before, wakeAt := w.now, pc := .fresh, lastErr := none }],
             starts := w.now :: w.starts, deadline := w.now + w.interval }
  else w

def renderRes : Res Pay → String
  | .ok (k, false) => s!"ok:{k}"
  | .ok (k, true) => s!"ign:{k}"
  | .err (.requestTimeout ms) => s!"err:RequestTimeout({ms})"
  | .err e => "err:" ++ reqErrName e

def render (w : World) (r : Res Pay) : String :=
  match w.mode with
  | .spec _ =>
    s!"starts={natList w.starts.reverse} seen={natList w.seen.reverse} res={renderRes r} at={w.now}"
  | .gate _ =>
    let atts := w.atts.reverse.map (fun p => s!"{p.1}@{p.2}")
    let atts := if atts.isEmpty then "-" else ",".intercalate atts
    s!"att={atts} res={renderRes r} at={w.now} mo={w.mo}"

def minOf : List Nat → Nat
  | [] => 0
  | x :: xs => xs.foldl min x

/-- All observable outputs over every resolution of the ties. -/
def explore : Nat → World → List String
  | 0, _ => ["FUEL"]
  | fuel + 1, w =>
    match w.st.returned with
    | some r =>
      -- the schedule this driver fed to `step` must satisfy the hypothesis `Props.C13.Sequential`
      if sequential (fun _ => false) w.evs.reverse then [render w r] else ["REJECT driver-schedule-not-sequential"]
    | none =>
      let timer : List (Nat × Option (Option Fiber)) := if w.st.sleepArmed then [(w.deadline, some none)] else []
      let dl : List (Nat × Option (Option Fiber)) := match w.reqDeadline with
        | some d => [(d, none)]
        | none => []
      let cands := dl ++ timer ++ w.fibers.map (fun f => (f.wakeAt, some (some f)))
      if cands.isEmpty then ["HANG"] else
      let t := minOf (cands.map (·.1))
      let w := { w with now := t }
      (cands.filter (·.1 == t)).flatMap fun c =>
        match c.2 with
        | none => explore fuel (w.apply .deadline)
        | some none => explore fuel w.fireTimer
        | some (some f) => explore fuel (w.runFiber f)

def mkWorld (mode : Mode) (st : St Pay Nat) (interval : Nat) (reqDeadline : Option Nat) : World :=
  { mode := mode, st := st, now := 0, deadline := interval, interval := interval, reqDeadline := reqDeadline,
    fibers := [{ id := 0, wakeAt := 0, pc := .fresh, lastErr := none }], starts := [0], seen := [], atts := [], mo := 0, evs := [] }

def check (outs : List String) (impl : String) : String :=
  let outs := outs.eraseDups
  if outs.contains impl then impl
  else match outs with
    | [o] => o
    | _ => "REJECT expected-one-of " ++ " | ".intercalate outs

def parseOutcome (idx : Nat) (s : String) : Option (Outcome Pay) :=
  if s == "ok" then some (some (.ok (idx, false)))
  else if s == "none" then some none
  else (parseReqErr s).map (fun e => some (.err e))

def parseSpecTok (idx : Nat) (tok : String) : Option (Nat × Outcome Pay) :=
  match tok.splitOn ":" with
  | [d, o] => match d.toNat?, parseOutcome idx o with
    | some d, some o => some (d, o)
    | _, _ => none
  | _ => none

def parseSpecToks : Nat → List String → Option (List (Nat × Outcome Pay))
  | _, [] => some []
  | i, t :: ts => match parseSpecTok i t, parseSpecToks (i + 1) ts with
    | some x, some xs => some (x :: xs)
    | _, _ => none

def parseTarget (tok : String) : Option TargetScript :=
  match tok.splitOn ":" with
  | [c, d, o, dec] =>
    let conn := if c == "1" then some true else if c == "0" then some false else none
    let out : Option (Option AttemptErr) := if o == "ok" then some none else (parseAttemptErr o).map some
    let dec := match dec.toList with
      | [ch] => if ch == 'n' || ch == 'd' || ch == 'i' || ch == 's' then some ch else none
      | _ => none
    match conn, d.toNat?, out, dec with
    | some conn, some d, some out, some dec => some { conn := conn, delay := d, out := out, dec := dec }
    | _, _, _, _ => none
  | _ => none

def parseBit (s : String) : Option Bool :=
  if s == "1" then some true else if s == "0" then some false else none

def parsePolicy (s : String) : Option (Option (Nat × Nat)) :=
  if s == "none" then some none
  else match s.splitOn ":" with
    | [m, i] => match m.toNat?, i.toNat? with
      | some m, some i => some (some (m, i))
      | _, _ => none
    | _ => none

/-! ### `lbplan`: `Plan` over the single-target policy -/

def rawStr (t : RawTarget) : String :=
  match t.2 with
  | some s => s!"{t.1}:{s}"
  | none => s!"{t.1}:-"

def parsePlanEntry (s : String) : Option (Nat × Nat) :=
  match s.splitOn ":" with
  | [n, sh] => match n.toNat?, sh.toNat? with
    | some n, some sh => some (n, sh)
    | _, _ => none
  | _ => none

/-- the observed plan is `resolveAll raw ρ` for some random shards `ρ` below the nodes' shard counts -/
def planMatches (shards : List Nat) : List RawTarget → List (Nat × Nat) → Bool
  | [], [] => true
  | (n, some s) :: raw, (m, sh) :: obs => n == m && s == sh && planMatches shards raw obs
  | (n, none) :: raw, (m, sh) :: obs => n == m && sh < max 1 (shards.getD n 0) && planMatches shards raw obs
  | _, _ => false

def runLbPlan (shards : List Nat) (ident : String) (target : Nat) (shard : Option Nat) (impl : String) : String :=
  let found := ident == "host" || ident == "node" || ident == "addr"
  let pick := singleTargetPick found target shard
  let fb := singleTargetFallback
  let raw := lbRaw pick fb
  let head := s!"pick={(pick.map rawStr).getD "none"} fb={if fb.isEmpty then "-" else ",".intercalate (fb.map rawStr)} plan="
  let implPlan := match (words impl).getLast? with
    | some w => if w.startsWith "plan=" then some (w.drop 5).toString else none
    | none => none
  let obs : Option (List (Nat × Nat)) := match implPlan with
    | some "-" => some []
    | some p => (p.splitOn ",").mapM parsePlanEntry
    | none => none
  match implPlan, obs with
  | some p, some obs => if planMatches shards raw obs then head ++ p
                        else head ++ "REJECT expected " ++ (if raw.isEmpty then "-" else ",".intercalate (raw.map rawStr))
  | _, _ => head ++ "REJECT unparsable"

def parseRawEntry (n : Nat) (tok : String) : Option RawTarget :=
  match tok.splitOn ":" with
  | [k, sh] => match k.toNat? with
    | some k => if k ≥ n then none
                else if sh == "-" then some (k, none) else sh.toNat?.map (fun s => (k, some s))
    | none => none
  | _ => none

/-- `lbscript`: `Plan` over a scripted policy: the hypothesis `PolicyDistinct` (decided) and `lbRaw`, the observed plan
being `resolveAll` of it for some random shards. -/
def runLbScript (shards : List Nat) (pick : Option RawTarget) (fb : List RawTarget) (impl : String) : String :=
  let sharded := fun k => shards.getD k 0 > 0
  let raw := lbRaw pick fb
  let head := s!"distinct={if policyDistinctB sharded pick fb then 1 else 0} plan="
  let implPlan := match (words impl).getLast? with
    | some w => if w.startsWith "plan=" then some (w.drop 5).toString else none
    | none => none
  let obs : Option (List (Nat × Nat)) := match implPlan with
    | some "-" => some []
    | some p => (p.splitOn ",").mapM parsePlanEntry
    | none => none
  match implPlan, obs with
  | some p, some obs => if planMatches shards raw obs then head ++ p
                        else head ++ "REJECT expected " ++ (if raw.isEmpty then "-" else ",".intercalate (raw.map rawStr))
  | _, _ => head ++ "REJECT unparsable"

/-! ### `pplan`: `pagerPlan` against the targets a real `Session` used, page by page -/

def kvOf (ws : List String) (k : String) : Option String :=
  (ws.filterMap fun w => match w.splitOn "=" with
    | [a, b] => if a == k then some b else none
    | _ => none).head?

def parseObsEntry (tok : String) : Option (Nat × Option Nat) :=
  match tok.splitOn ":" with
  | [k, sh] => match k.toNat? with
    | some k => if sh == "-" then some (k, none) else sh.toNat?.map (fun s => (k, some s))
    | none => none
  | _ => none

def parseObsPage (s : String) : Option (List (Nat × Option Nat)) :=
  if s == "-" then some [] else (s.splitOn ",").mapM parseObsEntry

/-- an observed request (node, server-side shard of the connection) is on the plan target `t` -/
def obsMatches (sharded : Bool) (t : PlanTarget) (o : Nat × Option Nat) : Bool :=
  t.1 == o.1 && (if sharded then o.2 == some t.2 else o.2 == none)

def prefixMatches (sharded : Bool) : List PlanTarget → List (Nat × Option Nat) → Bool
  | _, [] => true
  | t :: ts, o :: os => obsMatches sharded t o && prefixMatches sharded ts os
  | [], _ :: _ => false

/-- The requests of page `j` are the first executions' draws from `pagerPlan coord lbPlan`.
The coordinator is the target of whichever execution of the previous page answered first: known when that page had
one request (every page but the held one), otherwise one of its targets (the replies of equally held requests can
overtake each other).  `exact` (the harness saw every timer run on time): exactly `min kmax |plan|` requests were made;
otherwise (a stalled machine) a non-empty prefix suffices. -/
def pageOk (exact sharded : Bool) (lbPlan : List PlanTarget) (kmax : Nat) (prev : Option (List (Nat × Option Nat)))
    (obs : List (Nat × Option Nat)) : Bool :=
  let toCoord (c : Nat × Option Nat) : Option (Nat × Option Nat) := some (c.1, if sharded then c.2 else none)
  let coords : List (Option (Nat × Option Nat)) := match prev with
    | none => [none]
    | some ps => ps.map toCoord
  !obs.isEmpty && coords.any fun coord =>
    let expected := pagerPlan coord lbPlan
    (if exact then obs.length == min kmax expected.length else obs.length ≤ min kmax expected.length)
      && prefixMatches sharded expected obs

def runPPlan (ws : List String) (impl : String) : String :=
  match (kvOf ws "n").bind String.toNat?, (kvOf ws "sh").bind String.toNat?, (kvOf ws "max").bind String.toNat?,
        (kvOf ws "slow").bind String.toNat?, kvOf ws "order" with
  | some n, some sh, some mx, some slow, some order =>
    match (order.splitOn ",").mapM (parseRawEntry n) with
    | none => "bad-case"
    | some order =>
      -- the scripted policy: pick = the first entry, fallback = all of them (`Plan` skips the exact copies of the pick)
      let lbPlan := resolveAll (lbRaw order.head? order) []
      if !(impl.startsWith "pages=") then impl  -- e2e-skip / bad-case lines of the harness are not judged
      else match words impl with
        | [pagesW, timingW] =>
          let pagesStr := (pagesW.drop 6).toString
          let exact := timingW == "timing=ok"
          if !exact && timingW != "timing=stalled" then "REJECT unparsable" else
          match (pagesStr.splitOn "/").mapM parseObsPage with
          | some [p0, p1, p2] =>
            let sharded := sh > 0
            let k (j : Nat) := if j == slow then 1 + mx else 1
            if !pageOk exact sharded lbPlan (k 0) none p0 then "REJECT page 0 is not the load-balancing plan's head"
            else if !pageOk exact sharded lbPlan (k 1) (some p0) p1 then "REJECT page 1 is not what pagerPlan gives"
            else if !pageOk exact sharded lbPlan (k 2) (some p1) p2 then "REJECT page 2 is not what pagerPlan gives"
            else impl
          | _ => "REJECT unparsable"
        | _ => "REJECT unparsable"
  | _, _, _, _, _ => "bad-case"

/-! ### `cfg`: setter calls on a statement object -/
namespace Cfg
open ScyllaVerif.SpecStmtConfig

def natArg (s : String) (pre : Nat) (max : Nat) : Option Nat :=
  match (s.drop pre).toString.toNat? with
  | some n => if n ≤ max then some n else none
  | none => none

/-- `n` = `None`, else a number up to `max`. -/
def optArg (s : String) (pre : Nat) (max : Nat) : Option (Option Nat) :=
  if (s.drop pre).toString == "n" then some none else (natArg s pre max).map some

def parseOp (s : String) : Option Op :=
  if s == "uc" then some .unsetConsistency
  else if s == "us" then some .unsetSerial
  else if s == "cl" then some .clone
  else if s == "rh" then some .removeHistory
  else if s == "i0" then some (.setIdempotent false)
  else if s == "i1" then some (.setIdempotent true)
  else if s == "tr0" then some (.setTracing false)
  else if s == "tr1" then some (.setTracing true)
  else if s == "k0" then some (.setSkipMeta false)
  else if s == "k1" then some (.setSkipMeta true)
  else if s == "tsn" then some (.setTimestamp none)
  else if s.startsWith "ts" then
    match (s.drop 2).toString.toInt? with
    | some t => if -9223372036854775808 ≤ t && t ≤ 9223372036854775807 then some (.setTimestamp (some t)) else none
    | none => none
  else if s.startsWith "to" then (optArg s 2 1000000000).map .setTimeout
  else if s.startsWith "c" then (natArg s 1 10).map .setConsistency
  else if s.startsWith "s" then (optArg s 1 1).map .setSerial
  else if s.startsWith "h" then (natArg s 1 2).map .setHistory
  else if s.startsWith "p" then (optArg s 1 2).map .setProfile
  else if s.startsWith "l" then (optArg s 1 2).map .setLb
  else if s.startsWith "r" then (optArg s 1 2).map .setRetry
  else if s.startsWith "g" then (natArg s 1 2147483647).map .setPageSize
  else none

def parseKind (s : String) : Option Kind :=
  if s == "stmt" then some .stmt else if s == "prep" then some .prepared else if s == "batch" then some .batch else none

def run (kind ops : String) : String :=
  let opsP : Option (List Op) := if ops == "-" then some [] else (ops.splitOn ",").mapM parseOp
  match parseKind kind, opsP with
  | some k, some ops =>
    if ops.length > 64 || !ops.all (fun o => o.allowedOn k) then "bad-case"
    else SpecStmtConfig.render k (SpecStmtConfig.applyAll {} ops)
  | _, _ => "bad-case"

end Cfg

def run (case impl : String) : String :=
  match words case with
  | ["cfg", kind, ops] => Cfg.run kind ops
  | ["class", o] =>
    let cls (b : Bool) := if b then "ignorable" else "definitive"
    if o == "ok" then cls (canBeIgnored (.ok (0, false) : Res Pay))
    else match parseReqErr o with
      | some e => cls (canBeIgnored (.err e : Res Pay))
      | none => "bad-case"
  | ["lbplan", shards, ident, target, shard] =>
    let sh : Option (Option Nat) := if shard == "-" then some none else shard.toNat?.map some
    match (shards.splitOn ",").mapM String.toNat?, target.toNat?, sh with
    | some shards, some target, some sh =>
      if shards.isEmpty || shards.length > 8 || target ≥ shards.length
          || !(["host", "node", "addr", "nohost", "noaddr"].contains ident) then "bad-case"
      else runLbPlan shards ident target sh impl
    | _, _, _ => "bad-case"
  | ["lbscript", shards, pick, fb] =>
    match (shards.splitOn ",").mapM String.toNat? with
    | some shards =>
      if shards.isEmpty || shards.length > 8 then "bad-case" else
      let n := shards.length
      let pickP : Option (Option RawTarget) := if pick == "none" then some none else (parseRawEntry n pick).map some
      let fbP : Option (List RawTarget) := if fb == "-" then some [] else (fb.splitOn ",").mapM (parseRawEntry n)
      match pickP, fbP with
      | some pickP, some fbP => runLbScript shards pickP fbP impl
      | _, _ => "bad-case"
    | none => "bad-case"
  | "pplan" :: ws => runPPlan ws impl
  | "spec" :: m :: i :: toks =>
    match m.toNat?, i.toNat?, parseSpecToks 0 toks with
    | some m, some i, some script =>
      let w := mkWorld (.spec script) (initSpec m none []) i none
      check (explore (8 * (m + 4)) w) impl
    | _, _, _ => "bad-case"
  | "gate" :: idem :: pol :: toks =>
    let idemTo : Option (Bool × Option Nat) := match idem.splitOn "/" with
      | [b] => (parseBit b).map (fun b => (b, none))
      | [b, t] => match parseBit b, t.toNat? with
        | some b, some t => some (b, some t)
        | _, _ => none
      | _ => none
    match idemTo, parsePolicy pol, toks.mapM parseTarget with
    | some (idem, timeout), some pol, some targets =>
      let plan := List.range targets.length
      let st : St Pay Nat := init idem (pol.map (·.1)) timeout plan
      let w := mkWorld (.gate targets) st ((pol.map (·.2)).getD 0) timeout
      check (explore (8 * (targets.length + (pol.map (·.1)).getD 0 + 4)) w) impl
    | _, _, _ => "bad-case"
  | _ => "bad-case"

end ScyllaVerif.Drive.C13

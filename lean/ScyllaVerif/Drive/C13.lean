import ScyllaVerif.Model.Util
import ScyllaVerif.Model.Speculative
/-! Line-protocol driver for C13.

* `ign <ok|ErrorName>`                          — `canBeIgnored`;
* `spec <max> <interval> <delay>:<outcome> …`   — `execute` over scripted fibers in virtual time;
* `gate <idem>[/<timeout>] <none|max:interval> <conn>:<delay>:<outcome>:<decision> …` — the gate (+ optional
  client-side request timeout) + shared plan + fibers that walk the plan (`execution.rs:519-644` with the harness's scripted retry policy).

The driver owns the *clock* and the scripted behaviour of the fibers; everything the property is about goes
through `Speculative.step`: the driver only decides which event happens next (the earliest pending wake-up;
when several are pending at the same virtual instant — a tie between the timer and completions, which
`futures::select!` resolves pseudo-randomly — every order is explored) and reads the observable output off
the model state.  The model therefore acts as a *checker* on ties: it echoes the implementation's line iff
some order of the simultaneous events produces it. -/
namespace ScyllaVerif.Drive.C13
open ScyllaVerif.Util ScyllaVerif.Speculative

/-! ### names -/

def dbNames : List (String × DbErr) :=
  [("SyntaxError", .syntaxError), ("Invalid", .invalid), ("AlreadyExists", .alreadyExists),
   ("FunctionFailure", .functionFailure), ("AuthenticationError", .authenticationError),
   ("Unauthorized", .unauthorized), ("ConfigError", .configError), ("Unavailable", .unavailable),
   ("Overloaded", .overloaded), ("IsBootstrapping", .isBootstrapping), ("TruncateError", .truncateError),
   ("ReadTimeout", .readTimeout), ("WriteTimeout", .writeTimeout), ("ReadFailure", .readFailure),
   ("WriteFailure", .writeFailure), ("Unprepared", .unprepared), ("ServerError", .serverError),
   ("ProtocolError", .protocolError), ("RateLimitReached", .rateLimitReached), ("Other", .other)]

def attemptNames : List (String × AttemptErr) :=
  [("SerializationError", .serializationError), ("CqlRequestSerialization", .cqlRequestSerialization),
   ("UnableToAllocStreamId", .unableToAllocStreamId), ("BrokenConnectionError", .brokenConnectionError),
   ("BodyExtensionsParseError", .bodyExtensionsParseError), ("CqlResultParseError", .cqlResultParseError),
   ("CqlErrorParseError", .cqlErrorParseError), ("UnexpectedResponse", .unexpectedResponse),
   ("RepreparedIdChanged", .repreparedIdChanged), ("RepreparedIdMissingInBatch", .repreparedIdMissingInBatch),
   ("NonfinishedPagingState", .nonfinishedPagingState)]
  ++ dbNames.map (fun p => (p.1, .dbError p.2))

def requestNames : List (String × ReqErr) :=
  [("EmptyPlan", .emptyPlan), ("ConnectionPoolError", .connectionPoolError), ("RequestTimeout", .requestTimeout)]
  ++ attemptNames.map (fun p => (p.1, .lastAttemptError p.2))

def parseAttemptErr (s : String) : Option AttemptErr := (attemptNames.find? (·.1 == s)).map (·.2)
def parseReqErr (s : String) : Option ReqErr := (requestNames.find? (·.1 == s)).map (·.2)
def reqErrName (e : ReqErr) : String := ((requestNames.find? (·.2 == e)).map (·.1)).getD "?"

/-! ### the world: clock + scripted fibers around `Speculative.step` -/

/-- Success payload: (fiber or target index, `IgnoredWriteError`?). -/
abbrev Pay := Nat × Bool

inductive Pc
  /-- pushed into `async_tasks`, not yet polled -/
  | fresh
  /-- `spec`: sleeping, will return `o` -/
  | sleeping (o : Outcome Pay)
  /-- `gate`: the `nth` attempt on target `t` is on the wire -/
  | attempt (t : Nat) (nth : Nat)

structure Fiber where
  id : Nat
  wakeAt : Nat
  pc : Pc
  lastErr : Option ReqErr

structure TargetScript where
  conn : Bool
  delay : Nat
  out : Option AttemptErr   -- `none` = the attempt succeeds
  dec : Char

inductive Mode
  | spec (script : List (Nat × Outcome Pay))
  | gate (targets : List TargetScript)

structure World where
  mode : Mode
  st : St Pay Nat
  now : Nat
  deadline : Nat
  interval : Nat
  reqDeadline : Option Nat   -- client-side request timeout (virtual ms)
  fibers : List Fiber
  starts : List Nat          -- reversed
  seen : List Nat            -- reversed
  atts : List (Nat × Nat)    -- reversed: (time, target)
  mo : Nat

def World.apply (w : World) (e : Event Pay) : World := { w with st := step w.st e }

def World.setFiber (w : World) (f : Fiber) : World :=
  { w with fibers := w.fibers.map (fun g => if g.id == f.id then f else g) }

/-- the `select_next_some` branch with fiber `f`'s output -/
def World.completeFiber (w : World) (f : Fiber) (o : Outcome Pay) : World :=
  let w := w.apply (.complete f.id o)
  { w with seen := f.id :: w.seen, fibers := w.fibers.filter (fun g => g.id != f.id) }

inductive Action
  | pop
  | start (t nth : Nat)
  | finish (t nth : Nat)

/-- A fiber of `run_request_speculative_fiber` runs until it awaits (`execution.rs:532-643`). -/
def fiberGo (targets : List TargetScript) : Nat → World → Fiber → Action → World
  | 0, w, _, _ => w
  | fuel + 1, w, f, .pop =>
    match w.st.plan with
    | [] => w.completeFiber f (f.lastErr.map .err)                       -- `last_error.map(Result::Err)` (`:643`)
    | t :: _ =>
      let w := w.apply (.pop f.id)
      match targets[t]? with
      | none => w
      | some ts =>
        if !ts.conn then fiberGo targets fuel w { f with lastErr := some .connectionPoolError } .pop  -- `:538-547`
        else fiberGo targets fuel w f (.start t 1)
  | fuel + 1, w, f, .start t nth =>
    let w := w.apply (.send f.id)
    let w := { w with atts := (w.now, t) :: w.atts, mo := max w.mo w.st.attempts.length }
    match targets[t]? with
    | none => w
    | some ts =>
      if ts.delay == 0 then fiberGo targets fuel w f (.finish t nth)
      else w.setFiber { f with pc := .attempt t nth, wakeAt := w.now + ts.delay }
  | fuel + 1, w, f, .finish t nth =>
    let w := w.apply (.attemptDone f.id)
    match targets[t]? with
    | none => w
    | some ts =>
      match ts.out with
      | none => w.completeFiber f (some (.ok (t, false)))                 -- `:582-585`
      | some e =>
        let f := { f with lastErr := some (.lastAttemptError e) }         -- `:619`
        let dec := if ts.dec == 's' && nth ≥ 2 then 'n' else ts.dec
        if dec == 'n' then fiberGo targets fuel w f .pop                  -- RetryNextTarget
        else if dec == 's' then fiberGo targets fuel w f (.start t (nth + 1))   -- RetrySameTarget
        else if dec == 'i' then w.completeFiber f (some (.ok (t, true)))  -- IgnoreWriteError
        else w.completeFiber f (f.lastErr.map .err)                       -- DontRetry: `break 'targets_in_plan`

def fiberFuel (w : World) : Nat := 6 * (w.st.plan.length + 2)

/-- fiber `f` is polled -/
def World.runFiber (w : World) (f : Fiber) : World :=
  match w.mode, f.pc with
  | .spec script, .fresh =>
    let (d, o) := (script[f.id]?).getD (0, none)
    if d == 0 then w.completeFiber f o
    else w.setFiber { f with pc := .sleeping o, wakeAt := w.now + d }
  | .spec _, .sleeping o => w.completeFiber f o
  | .gate targets, .fresh => fiberGo targets (fiberFuel w) w f .pop
  | .gate targets, .attempt t nth => fiberGo targets (fiberFuel w) w f (.finish t nth)
  | _, _ => w

/-- the `sleep` branch of `select!` -/
def World.fireTimer (w : World) : World :=
  let before := w.st.started
  let w := w.apply .timerFires
  if w.st.started > before then
    { w with fibers := w.fibers ++ [{ id := before, wakeAt := w.now, pc := .fresh, lastErr := none }],
             starts := w.now :: w.starts, deadline := w.now + w.interval }
  else w

def renderRes : Res Pay → String
  | .ok (k, false) => s!"ok:{k}"
  | .ok (k, true) => s!"ign:{k}"
  | .err e => "err:" ++ reqErrName e

def render (w : World) (r : Res Pay) : String :=
  match w.mode with
  | .spec _ =>
    s!"starts={natList w.starts.reverse} seen={natList w.seen.reverse} res={renderRes r} at={w.now}"
  | .gate _ =>
    let atts := w.atts.reverse.map (fun p => s!"{p.1}@{p.2}")
    let atts := if atts.isEmpty then "-" else ",".intercalate atts
    s!"att={atts} res={renderRes r} at={w.now} mo={w.mo}"

def minOf : List Nat → Nat
  | [] => 0
  | x :: xs => xs.foldl min x

/-- All observable outputs over every resolution of the ties. -/
def explore : Nat → World → List String
  | 0, _ => ["FUEL"]
  | fuel + 1, w =>
    match w.st.returned with
    | some r => [render w r]
    | none =>
      let timer : List (Nat × Option (Option Fiber)) := if w.st.sleepArmed then [(w.deadline, some none)] else []
      let dl : List (Nat × Option (Option Fiber)) := match w.reqDeadline with
        | some d => [(d, none)]
        | none => []
      let cands := dl ++ timer ++ w.fibers.map (fun f => (f.wakeAt, some (some f)))
      if cands.isEmpty then ["HANG"] else
      let t := minOf (cands.map (·.1))
      let w := { w with now := t }
      (cands.filter (·.1 == t)).flatMap fun c =>
        match c.2 with
        | none => explore fuel (w.apply .deadline)
        | some none => explore fuel w.fireTimer
        | some (some f) => explore fuel (w.runFiber f)

def mkWorld (mode : Mode) (st : St Pay Nat) (interval : Nat) (reqDeadline : Option Nat) : World :=
  { mode := mode, st := st, now := 0, deadline := interval, interval := interval, reqDeadline := reqDeadline,
    fibers := [{ id := 0, wakeAt := 0, pc := .fresh, lastErr := none }], starts := [0], seen := [], atts := [], mo := 0 }

def check (outs : List String) (impl : String) : String :=
  let outs := outs.eraseDups
  if outs.contains impl then impl
  else match outs with
    | [o] => o
    | _ => "REJECT expected-one-of " ++ " | ".intercalate outs

def parseOutcome (idx : Nat) (s : String) : Option (Outcome Pay) :=
  if s == "ok" then some (some (.ok (idx, false)))
  else if s == "none" then some none
  else (parseReqErr s).map (fun e => some (.err e))

def parseSpecTok (idx : Nat) (tok : String) : Option (Nat × Outcome Pay) :=
  match tok.splitOn ":" with
  | [d, o] => match d.toNat?, parseOutcome idx o with
    | some d, some o => some (d, o)
    | _, _ => none
  | _ => none

def parseSpecToks : Nat → List String → Option (List (Nat × Outcome Pay))
  | _, [] => some []
  | i, t :: ts => match parseSpecTok i t, parseSpecToks (i + 1) ts with
    | some x, some xs => some (x :: xs)
    | _, _ => none

def parseTarget (tok : String) : Option TargetScript :=
  match tok.splitOn ":" with
  | [c, d, o, dec] =>
    let conn := if c == "1" then some true else if c == "0" then some false else none
    let out : Option (Option AttemptErr) := if o == "ok" then some none else (parseAttemptErr o).map some
    let dec := match dec.toList with
      | [ch] => if ch == 'n' || ch == 'd' || ch == 'i' || ch == 's' then some ch else none
      | _ => none
    match conn, d.toNat?, out, dec with
    | some conn, some d, some out, some dec => some { conn := conn, delay := d, out := out, dec := dec }
    | _, _, _, _ => none
  | _ => none

def parseBit (s : String) : Option Bool :=
  if s == "1" then some true else if s == "0" then some false else none

def parsePolicy (s : String) : Option (Option (Nat × Nat)) :=
  if s == "none" then some none
  else match s.splitOn ":" with
    | [m, i] => match m.toNat?, i.toNat? with
      | some m, some i => some (some (m, i))
      | _, _ => none
    | _ => none

def run (case impl : String) : String :=
  match words case with
  | ["ign", o] =>
    if o == "ok" then toString (canBeIgnored (.ok (0, false) : Res Pay))
    else match parseReqErr o with
      | some e => toString (canBeIgnored (.err e : Res Pay))
      | none => "bad-case"
  | "spec" :: m :: i :: toks =>
    match m.toNat?, i.toNat?, parseSpecToks 0 toks with
    | some m, some i, some script =>
      let w := mkWorld (.spec script) (initSpec m false []) i none
      check (explore (8 * (m + 4)) w) impl
    | _, _, _ => "bad-case"
  | "gate" :: idem :: pol :: toks =>
    let idemTo : Option (Bool × Option Nat) := match idem.splitOn "/" with
      | [b] => (parseBit b).map (fun b => (b, none))
      | [b, t] => match parseBit b, t.toNat? with
        | some b, some t => some (b, some t)
        | _, _ => none
      | _ => none
    match idemTo, parsePolicy pol, toks.mapM parseTarget with
    | some (idem, timeout), some pol, some targets =>
      let plan := List.range targets.length
      let st : St Pay Nat := init idem (pol.map (·.1)) timeout.isSome plan
      let w := mkWorld (.gate targets) st ((pol.map (·.2)).getD 0) timeout
      check (explore (8 * (targets.length + (pol.map (·.1)).getD 0 + 4)) w) impl
    | _, _, _ => "bad-case"
  | _ => "bad-case"

end ScyllaVerif.Drive.C13

import ScyllaVerif.Model.Util
import ScyllaVerif.Model.Request
/-! Line-protocol driver for C09 (request frames).

Case: `<kind> <comp> <tracing> <stream> <fields…>` (see `harness/src/c09.rs` for the grammar); output `ok <frame hex>` or
`err <kind>`.  Deterministic except for two things where the model runs as a *checker* on the implementation's line:
* STARTUP: the `HashMap` iteration order is read off the implementation's frame (with the independent parser), must be
  a permutation of the requested entries, and the model then encodes in that order;
* compression: the LZ4/Snappy block codec is a parameter of the model; it is instantiated with "whatever block the
  implementation produced", so header, flags, length field and the LZ4 length prefix are still the model's, and the
  second word of the line (the body the harness obtained by decompressing) is the model's uncompressed body. -/
namespace ScyllaVerif.Drive.C09
open ScyllaVerif.Util ScyllaVerif.Request ScyllaVerif.Wire
open ScyllaVerif.ReqParse (Consistency SerialConsistency BatchType RawVal)

/-- Cap on run-length tokens so that a malformed case cannot exhaust memory. -/
def maxLen : Nat := 2 ^ 25

/-- `-` empty, `z<n>` n zero bytes, `y<n>` n times `a`, else hex. -/
def bytesTok (s : String) : Option Bytes :=
  match s.toList with
  | 'z' :: rest =>
    match (String.ofList rest).toNat? with
    | some n => if n ≤ maxLen then some (List.replicate n 0) else none
    | none => none
  | 'y' :: rest =>
    match (String.ofList rest).toNat? with
    | some n => if n ≤ maxLen then some (List.replicate n 0x61) else none
    | none => none
  | _ => parseHex s

def optBytesTok (s : String) : Option (Option Bytes) :=
  if s == "N" then some none else (bytesTok s).map some

def rawValTok (s : String) : Option RawVal :=
  if s == "N" then some .null
  else if s == "U" then some .unset
  else (bytesTok s).map .val

/-- `item` or `item<sep>count`. -/
def repeated {α : Type} (sep : String) (f : String → Option α) (s : String) : Option (List α) :=
  match s.splitOn sep with
  | [x] => (f x).map (fun v => [v])
  | [x, k] =>
    match f x, k.toNat? with
    | some v, some n => if n ≤ maxLen then some (List.replicate n v) else none
    | _, _ => none
  | _ => none

/-- `_` = no values; else comma-separated items. -/
def valuesTok (s : String) : Option (List RawVal) :=
  if s == "_" then some []
  else ((s.splitOn ",").mapM (repeated "*" rawValTok)).map List.flatten

def consistencyTok : String → Option Consistency
  | "Any" => some .any | "One" => some .one | "Two" => some .two | "Three" => some .three
  | "Quorum" => some .quorum | "All" => some .all | "LocalQuorum" => some .localQuorum
  | "EachQuorum" => some .eachQuorum | "LocalOne" => some .localOne | "Serial" => some .serial
  | "LocalSerial" => some .localSerial | _ => none

def serialTok : String → Option (Option SerialConsistency)
  | "N" => some none | "Serial" => some (some .serial) | "LocalSerial" => some (some .localSerial) | _ => none

def batchTypeTok : String → Option BatchType
  | "Logged" => some .logged | "Unlogged" => some .unlogged | "Counter" => some .counter | _ => none

def eventTok : String → Option EventType
  | "TopologyChange" => some .topologyChange | "StatusChange" => some .statusChange
  | "SchemaChange" => some .schemaChange | "ClientRoutesChange" => some .clientRoutesChange | _ => none

def i64Tok (s : String) : Option (Option Int64) :=
  if s == "N" then some none
  else match s.toInt? with
    | some v => if -(2 ^ 63) ≤ v ∧ v < 2 ^ 63 then some (some (Int64.ofInt v)) else none
    | none => none

def i32Tok (s : String) : Option (Option Int32) :=
  if s == "N" then some none
  else match s.toInt? with
    | some v => if -(2 ^ 31) ≤ v ∧ v < 2 ^ 31 then some (some (Int32.ofInt v)) else none
    | none => none

def boolTok : String → Option Bool
  | "0" => some false | "1" => some true | _ => none

def compTok : String → Option (Option Compression)
  | "none" => some none | "lz4" => some (some .lz4) | "snappy" => some (some .snappy) | _ => none

def streamTok (s : String) : Option (Option Int16) :=
  if s == "N" then some none
  else match s.toInt? with
    | some v => if -(2 ^ 15) ≤ v ∧ v < 2 ^ 15 then some (some (Int16.ofInt v)) else none
    | none => none

/-- `<cons> <serial> <ts> <page size> <paging state> <skip> <values>`. -/
def paramsToks : List String → Option Params
  | [c, sc, ts, ps, pg, sk, vs] =>
    match consistencyTok c, serialTok sc, i64Tok ts, i32Tok ps, optBytesTok pg, boolTok sk, valuesTok vs with
    | some c, some sc, some ts, some ps, some pg, some sk, some vs =>
      some { consistency := c, serialConsistency := sc, timestamp := ts, pageSize := ps, pagingState := pg,
             skipMetadata := sk, values := vs }
    | _, _, _, _, _, _, _ => none
  | _ => none

def stmtTok (s : String) : Option BatchStmt :=
  match s.splitOn ":" with
  | ["q", t] => (bytesTok t).map .query
  | ["p", i] => (bytesTok i).map .prepared
  | _ => none

def pairTok (s : String) : Option (Bytes × Bytes) :=
  match s.splitOn "=" with
  | [k, v] =>
    match bytesTok k, bytesTok v with
    | some k, some v => some (k, v)
    | _, _ => none
  | _ => none

def splitAtSlash (ws : List String) : List String × List String :=
  (ws.takeWhile (· ≠ "/"), (ws.dropWhile (· ≠ "/")).drop 1)

def reqOf (kind : String) (fields : List String) : Option Req :=
  match kind, fields with
  | "options", [] => some .options
  | "prepare", [t] => (bytesTok t).map .prepare
  | "auth", [t] => (optBytesTok t).map .authResponse
  | "query", t :: rest =>
    match bytesTok t, paramsToks rest with
    | some t, some p => some (.query t p)
    | _, _ => none
  | "execute", i :: m :: rest =>
    match bytesTok i, optBytesTok m, paramsToks rest with
    | some i, some m, some p => some (.execute i m p)
    | _, _, _ => none
  | "register", [_ver, evs] =>
    if evs == "_" then some (.register [])
    else ((evs.splitOn ",").mapM (repeated "*" eventTok)).map (fun l => .register l.flatten)
  | "startup", pairs => (pairs.mapM pairTok).map .startup
  | "batch", ty :: c :: sc :: ts :: rest =>
    let (ss, vs) := splitAtSlash rest
    match batchTypeTok ty, consistencyTok c, serialTok sc, i64Tok ts,
          ss.mapM (repeated "^" stmtTok), vs.mapM (repeated "^" valuesTok) with
    | some ty, some c, some sc, some ts, some ss, some vs => some (.batch ty ss.flatten vs.flatten c sc ts)
    | _, _, _, _, _, _ => none
  | _, _ => none

def stmtErrStr : StmtErr → String
  | .statementString => "StatementString"
  | .statementId => "StatementId"
  | .tooManyValues => "TooManyValues"
  | .values => "Values"

def errStr : Err → String
  | .valuesTooMany => "Values.TooManyValues"
  | .valueTooBig => "Values.ValueTooBig"
  | .queryStatementString => "Query.StatementString"
  | .queryBadPagingState => "Query.BadPagingState"
  | .prepareStatementString => "Prepare.StatementString"
  | .executeStatementId => "Execute.StatementId"
  | .executeResultMetadataId => "Execute.ResultMetadataId"
  | .executeBadPagingState => "Execute.BadPagingState"
  | .batchTooManyStatements => "Batch.TooManyStatements"
  | .batchMismatch a b => s!"Batch.Mismatch {a} {b}"
  | .batchStmt i e => s!"Batch.Stmt {i} {stmtErrStr e}"
  | .startupOptions => "Startup.Options"
  | .registerEventTypes => "Register.EventTypes"
  | .authResponse => "AuthResponse.Response"
  | .snapCompress => "SnapCompress"

/-- Is `xs` a permutation of `ys`? (small lists) -/
def isPerm {α : Type} [BEq α] : List α → List α → Bool
  | [], ys => ys.isEmpty
  | x :: xs, ys => ys.contains x && isPerm xs (ys.erase x)

/-- The codec parameter instantiated from the implementation's compressed block. -/
def codecFrom (block : Bytes) : Codec :=
  { lz4 := fun _ => block, unlz4 := fun _ _ => none, snappy := fun _ => some block, unsnappy := fun _ => none,
    snappyLen := fun _ => none }

def noCodec : Codec := codecFrom []

def implWords (impl : String) : List String := words impl

/-- `biglen <what> <len>`: a 2 GiB `List UInt8` cannot be built, so the model is run through its length-only
abstraction `bigFieldErr` (proved equal to the encoder's answer for every byte string of that length:
`Props.C09.bigField_sound`). -/
def bigLen (what : String) (n : Nat) : String :=
  let w : Option BigField :=
    match what with
    | "query-statement" => some .queryStatement
    | "prepare-statement" => some .prepareStatement
    | "batch-statement" => some .batchStatement
    | "value" => some .value
    | "paging-state" => some .pagingState
    | "execute-paging-state" => some .executePagingState
    | "auth-response" => some .authResponse
    | "adapter-value" => some .adapterValue
    | _ => none
  match w with
  | none => "bad-case"
  | some w =>
    match bigFieldErr w n with
    | none => "accepted"
    | some e => "err " ++ errStr e

/-- `frame k`: the model's frame given the codec; `body`: the model's uncompressed body. -/
def finishWith (frame : Codec → Except Err Bytes) (body : Except Err Bytes) (comp : Option Compression)
    (stream : Option Int16) (impl : String) : String :=
  let iw := implWords impl
  -- the compressed block the implementation produced (checker-mode codec parameter)
  let block : Bytes :=
    match comp, iw with
    | some c, "ok" :: fhex :: _ =>
      match parseHex fhex with
      | some f => if c == .lz4 then f.drop 13 else f.drop 9
      | none => []
    | _, _ => []
  match frame (codecFrom block) with
  | .error e => "err " ++ errStr e
  | .ok f =>
    let f := match stream with
      | some s => setStream f s
      | none => f
    match comp with
    | none => "ok " ++ toHex f
    | some _ =>
      match body with
      | .ok body => "ok " ++ toHex f ++ " " ++ toHex body
      | .error e => "err " ++ errStr e

def finish (r : Req) (comp : Option Compression) (tr : Bool) (stream : Option Int16) (impl : String) : String :=
  finishWith (fun k => encodeReq k r comp tr) (encodeBody r) comp stream impl

/-- `q:<text>[#cols]` / `p:<id>[#cols]`: a statement and the number of columns of its serialization context. -/
def stmtCtxTok (s : String) : Option (BatchStmt × Nat) :=
  match s.splitOn "#" with
  | [x] => (stmtTok x).map (fun st => (st, 0))
  | [x, n] =>
    match stmtTok x, n.toNat? with
    | some st, some n => some (st, n)
    | _, _ => none
  | _ => none

/-- `abatch <comp> <tr> <stream> <carrier> <type> <cons> <serial> <ts> <stmt>[#cols][^k] … / <values>[^k] …`:
a BATCH whose values go through `RawBatchValuesAdapter` (the carrier — vec / iter / tuple — does not matter to the model). -/
def runAdapter (comp : Option Compression) (tr : Bool) (stream : Option Int16) (fields : List String)
    (impl : String) : String :=
  match fields with
  | carrier :: ty :: c :: sc :: ts :: rest =>
    let (ss, vs) := splitAtSlash rest
    match batchTypeTok ty, consistencyTok c, serialTok sc, i64Tok ts,
          ss.mapM (repeated "^" stmtCtxTok), vs.mapM (repeated "^" valuesTok) with
    | some ty, some c, some sc, some ts, some ss, some vs =>
      let nl := vs.flatten.length
      if carrier == "vec" || carrier == "iter" || (carrier == "tuple" && 1 ≤ nl && nl ≤ 4) then
        let body := encodeBatchA ty ss.flatten vs.flatten c sc ts
        finishWith (fun k => encodeFrameOf k body Generated.requestOpcode_Batch comp tr) body comp stream impl
      else "bad-case"
    | _, _, _, _, _, _ => "bad-case"
  | _ => "bad-case"

/-- `decomp <lz4|snappy> <body>`: the model's `decompressE` with the block decoders instantiated from what the
reference decoders answered (`ref=ok:HEX|err|skip|none`, `len=N|err` in the implementation's line). -/
def runDecomp (c : Compression) (body : Bytes) (impl : String) : String :=
  let iw := implWords impl
  let refW := iw.find? (fun w => w.startsWith "ref=")
  let lenW := iw.find? (fun w => w.startsWith "len=")
  match refW with
  | none => "REJECT no-reference-decoder-answer"
  | some rw =>
    let refS := (rw.drop 4).toString
    let refBytes : Option Bytes :=
      if refS.startsWith "ok:" then parseHex (refS.drop 3).toString else none
    let lenN : Option Nat :=
      match lenW with
      | some lw => ((lw.drop 4).toString).toNat?
      | none => none
    let k : Codec := { lz4 := fun _ => [], unlz4 := fun _ _ => refBytes, snappy := fun _ => none,
                       unsnappy := fun _ => refBytes, snappyLen := fun _ => lenN }
    let tail := " " ++ rw ++ (match lenW with | some lw => " " ++ lw | none => "")
    match decompressE k c body with
    | .ok b => "ok " ++ toHex b ++ tail
    | .error .prefix => "err prefix" ++ tail
    | .error .guard => "err guard" ++ tail
    | .error .header => "err header" ++ tail
    | .error .codec =>
      if refS == "skip" then "REJECT reference-decoder-skipped-but-the-model-needs-it" else "err codec" ++ tail

def run (case impl : String) : String :=
  match words case with
  | ["biglen", what, n] =>
    match n.toNat? with
    | some n => bigLen what n
    | none => "bad-case"
  | ["decomp", comp, body] =>
    match compTok comp, bytesTok body with
    | some (some c), some b => runDecomp c b impl
    | _, _ => "bad-case"
  | "abatch" :: comp :: tr :: stream :: fields =>
    match compTok comp, boolTok tr, streamTok stream with
    | some comp, some tr, some stream => runAdapter comp tr stream fields impl
    | _, _, _ => "bad-case"
  | kind :: comp :: tr :: stream :: fields =>
    match compTok comp, boolTok tr, streamTok stream, reqOf kind fields with
    | some comp, some tr, some stream, some r =>
      match r with
      | .startup opts =>
        -- checker: take the entry order from the implementation's frame
        match implWords impl with
        | "ok" :: _ :: body? =>
          let bodyHex : Option String :=
            match comp, body?, implWords impl with
            | none, _, _ :: fhex :: _ => some fhex
            | some _, [b], _ => some b
            | _, _, _ => none
          match bodyHex.bind parseHex with
          | none => "REJECT unparsable"
          | some bytes =>
            let body := if comp.isNone then bytes.drop 9 else bytes
            match ReqParse.rdStringMap body with
            | some (m, []) =>
              if isPerm m opts then finish (.startup m) comp tr stream impl
              else "REJECT entries-are-not-a-permutation-of-the-requested-options"
            | _ => "REJECT body-is-not-a-string-map"
        | _ => finish r comp tr stream impl
      | _ => finish r comp tr stream impl
    | _, _, _, _ => "bad-case"
  | _ => "bad-case"

end ScyllaVerif.Drive.C09

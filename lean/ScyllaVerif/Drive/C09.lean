import ScyllaVerif.Model.Util
import ScyllaVerif.Model.Request
import ScyllaVerif.Model.RequestGlue
/-! Line-protocol driver for C09 (request frames).

Case: `<kind> <comp> <tracing> <stream> <fields…>` (see `harness/src/c09.rs` for the grammar); output `ok <frame hex>` or
`err <kind>`.  Deterministic except for two things where the model runs as a *checker* on the implementation's line:
* STARTUP: the `HashMap` iteration order is read off the implementation's frame (with the independent parser), must be
  a permutation of the requested entries, and the model then encodes in that order;
* compression: the LZ4/Snappy block codec is a parameter of the model; it is instantiated with "whatever block the
  implementation produced", so header, flags, length field and the LZ4 length prefix are still the model's, and the
  second word of the line (the body the harness obtained by decompressing) is the model's uncompressed body. -/
namespace ScyllaVerif.Drive.C09
open ScyllaVerif.Util ScyllaVerif.Request ScyllaVerif.Wire
open ScyllaVerif.ReqParse (Consistency SerialConsistency BatchType RawVal)

/-- Cap on run-length tokens so that a malformed case cannot exhaust memory. -/
def maxLen : Nat := 2 ^ 25

/-- `-` empty, `z<n>` n zero bytes, `y<n>` n times `a`, else hex. -/
def bytesTok (s : String) : Option Bytes :=
  match s.toList with
  | 'z' :: rest =>
    match (String.ofList rest).toNat? with
    | some n => if n ≤ maxLen then some (List.replicate n 0) else none
    | none => none
  | 'y' :: rest =>
    match (String.ofList rest).toNat? with
    | some n => if n ≤ maxLen then some (List.replicate n 0x61) else none
    | none => none
  | _ => parseHex s

def optBytesTok (s : String) : Option (Option Bytes) :=
  if s == "N" then some none else (bytesTok s).map some

def rawValTok (s : String) : Option RawVal :=
  if s == "N" then some .null
  else if s == "U" then some .unset
  else (bytesTok s).map .val

/-- `item` or `item<sep>count`. -/
def repeated {α : Type} (sep : String) (f : String → Option α) (s : String) : Option (List α) :=
  match s.splitOn sep with
  | [x] => (f x).map (fun v => [v])
  | [x, k] =>
    match f x, k.toNat? with
    | some v, some n => if n ≤ maxLen then some (List.replicate n v) else none
    | _, _ => none
  | _ => none

/-- `_` = no values; else comma-separated items. -/
def valuesTok (s : String) : Option (List RawVal) :=
  if s == "_" then some []
  else ((s.splitOn ",").mapM (repeated "*" rawValTok)).map List.flatten

def consistencyTok : String → Option Consistency
  | "Any" => some .any | "One" => some .one | "Two" => some .two | "Three" => some .three
  | "Quorum" => some .quorum | "All" => some .all | "LocalQuorum" => some .localQuorum
  | "EachQuorum" => some .eachQuorum | "LocalOne" => some .localOne | "Serial" => some .serial
  | "LocalSerial" => some .localSerial | _ => none

def serialTok : String → Option (Option SerialConsistency)
  | "N" => some none | "Serial" => some (some .serial) | "LocalSerial" => some (some .localSerial) | _ => none

def batchTypeTok : String → Option BatchType
  | "Logged" => some .logged | "Unlogged" => some .unlogged | "Counter" => some .counter | _ => none

def eventTok : String → Option EventType
  | "TopologyChange" => some .topologyChange | "StatusChange" => some .statusChange
  | "SchemaChange" => some .schemaChange | "ClientRoutesChange" => some .clientRoutesChange | _ => none

def i64Tok (s : String) : Option (Option Int64) :=
  if s == "N" then some none
  else match s.toInt? with
    | some v => if -(2 ^ 63) ≤ v ∧ v < 2 ^ 63 then some (some (Int64.ofInt v)) else none
    | none => none

def i32Tok (s : String) : Option (Option Int32) :=
  if s == "N" then some none
  else match s.toInt? with
    | some v => if -(2 ^ 31) ≤ v ∧ v < 2 ^ 31 then some (some (Int32.ofInt v)) else none
    | none => none

def boolTok : String → Option Bool
  | "0" => some false | "1" => some true | _ => none

def compTok : String → Option (Option Compression)
  | "none" => some none | "lz4" => some (some .lz4) | "snappy" => some (some .snappy) | _ => none

def streamTok (s : String) : Option (Option Int16) :=
  if s == "N" then some none
  else match s.toInt? with
    | some v => if -(2 ^ 15) ≤ v ∧ v < 2 ^ 15 then some (some (Int16.ofInt v)) else none
    | none => none

/-- `<cons> <serial> <ts> <page size> <paging state> <skip> <values>`. -/
def paramsToks : List String → Option Params
  | [c, sc, ts, ps, pg, sk, vs] =>
    match consistencyTok c, serialTok sc, i64Tok ts, i32Tok ps, optBytesTok pg, boolTok sk, valuesTok vs with
    | some c, some sc, some ts, some ps, some pg, some sk, some vs =>
      some { consistency := c, serialConsistency := sc, timestamp := ts, pageSize := ps, pagingState := pg,
             skipMetadata := sk, values := vs }
    | _, _, _, _, _, _, _ => none
  | _ => none

def stmtTok (s : String) : Option BatchStmt :=
  match s.splitOn ":" with
  | ["q", t] => (bytesTok t).map .query
  | ["p", i] => (bytesTok i).map .prepared
  | _ => none

def pairTok (s : String) : Option (Bytes × Bytes) :=
  match s.splitOn "=" with
  | [k, v] =>
    match bytesTok k, bytesTok v with
    | some k, some v => some (k, v)
    | _, _ => none
  | _ => none

def splitAtSlash (ws : List String) : List String × List String :=
  (ws.takeWhile (· ≠ "/"), (ws.dropWhile (· ≠ "/")).drop 1)

def reqOf (kind : String) (fields : List String) : Option Req :=
  match kind, fields with
  | "options", [] => some .options
  | "prepare", [t] => (bytesTok t).map .prepare
  | "auth", [t] => (optBytesTok t).map .authResponse
  | "query", t :: rest =>
    match bytesTok t, paramsToks rest with
    | some t, some p => some (.query t p)
    | _, _ => none
  | "execute", i :: m :: rest =>
    match bytesTok i, optBytesTok m, paramsToks rest with
    | some i, some m, some p => some (.execute i m p)
    | _, _, _ => none
  | "register", [_ver, evs] =>
    if evs == "_" then some (.register [])
    else ((evs.splitOn ",").mapM (repeated "*" eventTok)).map (fun l => .register l.flatten)
  | "startup", pairs => (pairs.mapM pairTok).map .startup
  | "batch", ty :: c :: sc :: ts :: rest =>
    let (ss, vs) := splitAtSlash rest
    match batchTypeTok ty, consistencyTok c, serialTok sc, i64Tok ts,
          ss.mapM (repeated "^" stmtTok), vs.mapM (repeated "^" valuesTok) with
    | some ty, some c, some sc, some ts, some ss, some vs => some (.batch ty ss.flatten vs.flatten c sc ts)
    | _, _, _, _, _, _ => none
  | _, _ => none

def stmtErrStr : StmtErr → String
  | .statementString => "StatementString"
  | .statementId => "StatementId"
  | .tooManyValues => "TooManyValues"
  | .values => "Values"

def errStr : Err → String
  | .valuesTooMany => "Values.TooManyValues"
  | .valueTooBig => "Values.ValueTooBig"
  | .queryStatementString => "Query.StatementString"
  | .queryBadPagingState => "Query.BadPagingState"
  | .prepareStatementString => "Prepare.StatementString"
  | .executeStatementId => "Execute.StatementId"
  | .executeResultMetadataId => "Execute.ResultMetadataId"
  | .executeBadPagingState => "Execute.BadPagingState"
  | .batchTooManyStatements => "Batch.TooManyStatements"
  | .batchMismatch a b => s!"Batch.Mismatch {a} {b}"
  | .batchStmt i e => s!"Batch.Stmt {i} {stmtErrStr e}"
  | .startupOptions => "Startup.Options"
  | .registerEventTypes => "Register.EventTypes"
  | .authResponse => "AuthResponse.Response"
  | .snapCompress => "SnapCompress"

/-- Is `xs` a permutation of `ys`? (small lists) -/
def isPerm {α : Type} [BEq α] : List α → List α → Bool
  | [], ys => ys.isEmpty
  | x :: xs, ys => ys.contains x && isPerm xs (ys.erase x)

/-- The codec parameter instantiated from the implementation's compressed block. -/
def codecFrom (block : Bytes) : Codec :=
  { lz4 := fun _ => block, unlz4 := fun _ _ => none, snappy := fun _ => some block, unsnappy := fun _ => none,
    snappyLen := fun _ => none }

def noCodec : Codec := codecFrom []

def implWords (impl : String) : List String := words impl

/-- `biglen <what> <len>`: a 2 GiB `List UInt8` cannot be built, so the model is run through its length-only
abstraction `bigFieldErr` (proved equal to the encoder's answer for every byte string of that length:
`Props.C09.bigField_sound`). -/
def bigLen (what : String) (n : Nat) : String :=
  let w : Option BigField :=
    match what with
    | "query-statement" => some .queryStatement
    | "prepare-statement" => some .prepareStatement
    | "batch-statement" => some .batchStatement
    | "value" => some .value
    | "paging-state" => some .pagingState
    | "execute-paging-state" => some .executePagingState
    | "auth-response" => some .authResponse
    | "adapter-value" => some .adapterValue
    | _ => none
  match w with
  | none => "bad-case"
  | some w =>
    match bigFieldErr w n with
    | none => "accepted"
    | some e => "err " ++ errStr e

/-- `frame k`: the model's frame given the codec; `body`: the model's uncompressed body. -/
def finishWith (frame : Codec → Except Err Bytes) (body : Except Err Bytes) (comp : Option Compression)
    (stream : Option Int16) (impl : String) : String :=
  let iw := implWords impl
  -- the compressed block the implementation produced (checker-mode codec parameter)
  let block : Bytes :=
    match comp, iw with
    | some c, "ok" :: fhex :: _ =>
      match parseHex fhex with
      | some f => if c == .lz4 then f.drop 13 else f.drop 9
      | none => []
    | _, _ => []
  match frame (codecFrom block) with
  | .error e => "err " ++ errStr e
  | .ok f =>
    let f := match stream with
      | some s => setStream f s
      | none => f
    match comp with
    | none => "ok " ++ toHex f
    | some _ =>
      match body with
      | .ok body => "ok " ++ toHex f ++ " " ++ toHex body
      | .error e => "err " ++ errStr e

def finish (r : Req) (comp : Option Compression) (tr : Bool) (stream : Option Int16) (impl : String) : String :=
  finishWith (fun k => encodeReq k r comp tr) (encodeBody r) comp stream impl

/-- `q:<text>[#cols]` / `p:<id>[#cols]`: a statement and the number of columns of its serialization context. -/
def stmtCtxTok (s : String) : Option (BatchStmt × Nat) :=
  match s.splitOn "#" with
  | [x] => (stmtTok x).map (fun st => (st, 0))
  | [x, n] =>
    match stmtTok x, n.toNat? with
    | some st, some n => some (st, n)
    | _, _ => none
  | _ => none

/-- `abatch <comp> <tr> <stream> <carrier> <type> <cons> <serial> <ts> <stmt>[#cols][^k] … / <values>[^k] …`:
a BATCH whose values go through `RawBatchValuesAdapter` (the carrier — vec / iter / tuple — does not matter to the model). -/
def runAdapter (comp : Option Compression) (tr : Bool) (stream : Option Int16) (fields : List String)
    (impl : String) : String :=
  match fields with
  | carrier :: ty :: c :: sc :: ts :: rest =>
    let (ss, vs) := splitAtSlash rest
    match batchTypeTok ty, consistencyTok c, serialTok sc, i64Tok ts,
          ss.mapM (repeated "^" stmtCtxTok), vs.mapM (repeated "^" valuesTok) with
    | some ty, some c, some sc, some ts, some ss, some vs =>
      let nl := vs.flatten.length
      if carrier == "vec" || carrier == "iter" || (carrier == "tuple" && 1 ≤ nl && nl ≤ 4) then
        let body := encodeBatchA ty ss.flatten vs.flatten c sc ts
        finishWith (fun k => encodeFrameOf k body Generated.requestOpcode_Batch comp tr) body comp stream impl
      else "bad-case"
    | _, _, _, _, _, _ => "bad-case"
  | _ => "bad-case"

/-- `decomp <lz4|snappy> <body>`: the model's `decompressE` with the block decoders instantiated from what the
reference decoders answered (`ref=ok:HEX|err|skip|none`, `len=N|err` in the implementation's line). -/
def runDecomp (c : Compression) (body : Bytes) (impl : String) : String :=
  let iw := implWords impl
  let refW := iw.find? (fun w => w.startsWith "ref=")
  let lenW := iw.find? (fun w => w.startsWith "len=")
  match refW with
  | none => "REJECT no-reference-decoder-answer"
  | some rw =>
    let refS := (rw.drop 4).toString
    let refBytes : Option Bytes :=
      if refS.startsWith "ok:" then parseHex (refS.drop 3).toString else none
    let lenN : Option Nat :=
      match lenW with
      | some lw => ((lw.drop 4).toString).toNat?
      | none => none
    let k : Codec := { lz4 := fun _ => [], unlz4 := fun _ _ => refBytes, snappy := fun _ => none,
                       unsnappy := fun _ => refBytes, snappyLen := fun _ => lenN }
    let tail := " " ++ rw ++ (match lenW with | some lw => " " ++ lw | none => "")
    match decompressE k c body with
    | .ok b => "ok " ++ toHex b ++ tail
    | .error .prefix => "err prefix" ++ tail
    | .error .guard => "err guard" ++ tail
    | .error .header => "err header" ++ tail
    | .error .codec =>
      if refS == "skip" then "REJECT reference-decoder-skipped-but-the-model-needs-it" else "err codec" ++ tail

/-! ### `sess …`: connection-level glue (see `harness/src/c09/conn.rs` for the grammar) -/
section Sess
open ScyllaVerif.RequestGlue

def bytesLt : Bytes → Bytes → Bool
  | [], [] => false
  | [], _ :: _ => true
  | _ :: _, [] => false
  | a :: as, b :: bs => if a < b then true else if b < a then false else bytesLt as bs

def pairLt (x y : Bytes × Bytes) : Bool :=
  bytesLt x.1 y.1 || (x.1 == y.1 && bytesLt x.2 y.2)

def insertSorted (x : Bytes × Bytes) : List (Bytes × Bytes) → List (Bytes × Bytes)
  | [] => [x]
  | y :: ys => if pairLt x y then x :: y :: ys else y :: insertSorted x ys

def sortPairs (xs : List (Bytes × Bytes)) : List (Bytes × Bytes) := xs.foldr insertSorted []

def cfgToks : List String → Option StmtConfig
  | [c, sc, ts, tr] =>
    let cons : Option (Option Consistency) := if c == "N" then some none else (consistencyTok c).map some
    let serial : Option (Option (Option SerialConsistency)) :=
      match sc with
      | "D" => some none
      | "N" => some (some none)
      | "Serial" => some (some (some .serial))
      | "LocalSerial" => some (some (some .localSerial))
      | _ => none
    match cons, serial, i64Tok ts, boolTok tr with
    | some cons, some serial, some ts, some tr => some { consistency := cons, serialConsistency := serial, timestamp := ts, tracing := tr }
    | _, _, _, _ => none
  | _ => none

/-- page size: `N` or a positive i32. -/
def pageSizeTok (s : String) : Option (Option Int32) :=
  match i32Tok s with
  | some (some v) => if v.toInt ≤ 0 then none else some (some v)
  | other => other

def extFieldOk (s : String) : Bool := s.toList.all (fun c => c.isAlphanum || c == '-')

structure SessHead where
  ext : Bool
  comps : List String
  rl : Option String
  lwt : Option String
  tab : Bool
  cfgcomp : Option Compression
  genr : Option Int64

def sessHead : List String → Option SessHead
  | [ext, comps, rl, lwt, tab, cfg, genr] =>
    let compsL := if comps == "-" then [] else comps.splitOn "+"
    match boolTok ext, boolTok tab, compTok cfg, i64Tok genr with
    | some ext, some tab, some cfg, some genr =>
      if compsL.all (fun c => c == "lz4" || c == "snappy") && extFieldOk rl && extFieldOk lwt then
        some { ext := ext, comps := compsL, rl := if rl == "N" then none else some rl,
               lwt := if lwt == "N" then none else some lwt, tab := tab, cfgcomp := cfg, genr := genr }
      else none
    | _, _, _, _ => none
  | _ => none

/-- `ProtocolFeatures::parse_from_supported` on the scripted SUPPORTED (`str::parse::<i32>` / `::<u32>`). -/
def negotiated (h : SessHead) : Negotiated :=
  { rateLimitError :=
      match h.rl with
      | some v => match v.toInt? with
        | some i => decide (-(2 ^ 31) ≤ i ∧ i < 2 ^ 31)
        | none => false
      | none => false
    lwtMask :=
      match h.lwt with
      | some v => match v.toNat? with
        | some n => if n < 2 ^ 32 then some n else none
        | none => none
      | none => none
    tabletsV1 := h.tab
    metadataId := h.ext
    compressionSupported :=
      match h.cfgcomp with
      | some .lz4 => h.comps.contains "lz4"
      | some .snappy => h.comps.contains "snappy"
      | none => false }

/-- What the `VerifConn` pass-through (`connection_verif.rs`, written for the check — NOT production defaulting) hands to
`*_with_consistency`: `determine_consistency(connection default)` and `serial_consistency.flatten()`. -/
def hookCons (cfg : StmtConfig) : Consistency := cfg.consistency.getD .localQuorum
def hookSerial (cfg : StmtConfig) : Option SerialConsistency := cfg.serialConsistency.join

def connCtx (h : SessHead) : ConnCtx :=
  { defaultConsistency := .localQuorum, genTimestamp := h.genr, metadataIdExt := h.ext }

def hex2 (n : Nat) : String := hexByte (UInt8.ofNat n)

/-- One frame as the harness prints it: `<header flags>:<opcode>:<uncompressed body>`. -/
def frameStr (comp : Option Compression) (tracing : Bool) (op : Nat) (body : Bytes) : String :=
  hex2 (frameFlags comp.isSome tracing) ++ ":" ++ hex2 op ++ ":" ++ toHex body

def prepInfoToks (h : SessHead) : List String → Option (Bytes × PreparedInfo × Nat)
  | [text, id, bind, rcols, mid] =>
    match bytesTok text, bytesTok id, bind.toNat?, rcols.toNat?, optBytesTok mid with
    | some text, some id, some bind, some rcols, some mid =>
      if mid.isSome != h.ext || bind > 300 || rcols > 300 || text.isEmpty then none
      else some (text, { id := id, resultColCount := rcols, resultMetadataId := mid, useCachedResultMetadata := false }, bind)
    | _, _, _, _, _ => none
  | _ => none

def prepareFrame (comp : Option Compression) (text : Bytes) : Option String :=
  match encodeBody (.prepare text) with
  | .ok b => some (frameStr comp false Generated.requestOpcode_Prepare b)
  | .error _ => none

def reqFrame (comp : Option Compression) (tracing : Bool) (r : Req) : List String :=
  match encodeBody r with
  | .ok b => [frameStr comp tracing (opcode r) b]
  | .error _ => []

def dedup : List Bytes → List Bytes
  | [] => []
  | x :: xs => x :: (dedup xs).filter (· != x)

/-- `q:text:id:cols` / `p:text:id:cols`. -/
def sessStmtTok (_h : SessHead) (s : String) : Option (Bool × Bytes × Bytes × Nat) :=
  match s.splitOn ":" with
  | [k, text, id, cols] =>
    match bytesTok text, bytesTok id, cols.toNat? with
    | some text, some id, some cols =>
      if (k == "p" || k == "q") && cols ≤ 300 && !text.isEmpty then some (k == "p", text, id, cols) else none
    | _, _, _ => none
  | _ => none

def runSess (fields : List String) (impl : String) : String :=
  match sessHead (fields.take 7), fields.drop 7 with
  | some h, op :: f =>
    let n := negotiated h
    let conn := connCtx h
    let comp := effectiveCompression n h.cfgcomp
    let startup := "startup=" ++ ",".intercalate ((sortPairs (startupOptions n h.cfgcomp)).map
      (fun kv => toHex kv.1 ++ "=" ++ toHex kv.2))
    let finishFrames (frames : List String) : String :=
      (startup ++ " frames=" ++ toString frames.length ++ " " ++ " ".intercalate frames).trimAscii.toString
    match op, f with
    | "query", [text, c, sc, ts, tr, ps, pg] =>
      match bytesTok text, cfgToks [c, sc, ts, tr], pageSizeTok ps, optBytesTok pg with
      | some text, some cfg, some ps, some pg =>
        finishFrames (reqFrame comp cfg.tracing (queryRequest text (hookCons cfg) (hookSerial cfg) cfg conn ps pg))
      | _, _, _, _ => "bad-case"
    | "execute", [text, id, bind, rcols, mid, uc, c, sc, ts, tr, ps, pg, vals] =>
      match prepInfoToks h [text, id, bind, rcols, mid], boolTok uc, cfgToks [c, sc, ts, tr], pageSizeTok ps,
            optBytesTok pg, valuesTok vals with
      | some (text, info, _), some uc, some cfg, some ps, some pg, some vals =>
        match prepareFrame comp text, mkSerVals vals with
        | some pf, .ok _ =>
          finishFrames (pf :: reqFrame comp cfg.tracing
            (executeRequest { info with useCachedResultMetadata := uc } vals (hookCons cfg) (hookSerial cfg) cfg conn ps pg))
        | some _, .error e => "err values:" ++ errStr e
        | none, _ => "bad-case"
      | _, _, _, _, _, _ => "bad-case"
    | "iter", [text, id, bind, rcols, mid, c, sc, ts, tr, ps, states, vals] =>
      let statesL : Option (List Bytes) := if states == "_" then some [] else (states.splitOn ",").mapM bytesTok
      match prepInfoToks h [text, id, bind, rcols, mid], cfgToks [c, sc, ts, tr], pageSizeTok ps, statesL, valuesTok vals with
      | some (text, info, _), some cfg, some (some ps), some states, some vals =>
        if states.any (·.isEmpty) || states.length > 50 then "bad-case"
        else
          match prepareFrame comp text, mkSerVals vals with
          | some pf, .ok _ =>
            finishFrames (pf :: (pagerRequests info vals cfg conn ps states).flatMap (reqFrame comp cfg.tracing))
          | some _, .error e => "err values:" ++ errStr e
          | none, _ => "bad-case"
      | _, _, _, _, _ => "bad-case"
    | "batch", ty :: c :: sc :: ts :: tr :: rest =>
      let (ss, rs) := splitAtSlash rest
      match batchTypeTok ty, cfgToks [c, sc, ts, tr], ss.mapM (sessStmtTok h), rs.mapM valuesTok with
      | some ty, some cfg, some ss, some rows =>
        let consistent := ss.all (fun a => ss.all (fun b => a.2.1 != b.2.1 || (a.2.2.1 == b.2.2.1 && a.2.2.2 == b.2.2.2)))
        if !consistent || ss.length > 200 || rows.length > 200 then "bad-case"
        else
          let server (t : Bytes) : Bytes × Nat :=
            match ss.find? (fun x => x.2.1 == t) with
            | some x => (x.2.2.1, x.2.2.2)
            | none => ([], 0)
          let stmts : List GlueStmt := ss.map (fun x => if x.1 then .prepared x.2.2.1 x.2.2.2 else .unprepared x.2.1)
          -- PREPAREs issued by the caller, in order
          let pre := (ss.filter (·.1)).filterMap (fun x => prepareFrame comp x.2.1)
          -- PREPAREs issued by prepare_batch: a set; take the order from the implementation's line
          let tp := dedup (textsToPrepare stmts rows)
          let tpFrames := tp.filterMap (prepareFrame comp)
          let implFrames := (implWords impl).filter (fun w => w.length > 5 && (w.drop 2).toString.startsWith ":09:")
          let observed := implFrames.drop pre.length
          let tpOrdered := if isPerm observed tpFrames then observed else tpFrames
          let batch : List String :=
            match batchRequestBody server ty stmts rows (hookCons cfg) (hookSerial cfg) cfg conn with
            | .ok b => [frameStr comp cfg.tracing Generated.requestOpcode_Batch b]
            | .error _ => []
          finishFrames (pre ++ tpOrdered ++ batch)
      | _, _, _, _ => "bad-case"
    | _, _ => "bad-case"
  | _, _ => "bad-case"

/-! ### `glue …`: a real `Session` (production defaulting; see `harness/src/c09/sessglue.rs`) -/

def serialOptTok : String → Option (Option SerialConsistency)
  | "N" => some none | "Serial" => some (some .serial) | "LocalSerial" => some (some .localSerial) | _ => none

def profTok (s : String) : Option (Option ExecProfile) :=
  if s == "-" then some none
  else match s.splitOn "/" with
    | [c, sc] =>
      match consistencyTok c, serialOptTok sc with
      | some c, some sc => some (some ⟨c, sc⟩)
      | _, _ => none
    | _ => none

def idTok (s : String) : Option (Option Bytes) :=
  if s == "N" then some none else (bytesTok s).map some

/-- `<opcode>:<consistency>:<serial|->:<page size|->:<tracing bit>:<timestamp|->:<paging state|N>:<skip_metadata>` of a
QUERY / EXECUTE record. -/
def glueFrame (op : Nat) (p : Params) (tracing : Bool) : String :=
  hex2 op ++ ":" ++ toString (consistencyCode p.consistency) ++ ":" ++
  (match p.serialConsistency with | some s => toString (serialConsistencyCode s) | none => "-") ++ ":" ++
  (match p.pageSize with | some v => toString v.toInt | none => "-") ++ ":" ++ (if tracing then "1" else "0") ++ ":" ++
  (match p.timestamp with | some v => toString v.toInt | none => "-") ++ ":" ++
  (match p.pagingState with | some b => toHex b | none => "N") ++ ":" ++ (if p.skipMetadata then "1" else "0")

def glueReqFrame (r : Req) (tracing : Bool) : String :=
  match r with
  | .query _ p => glueFrame (opcode r) p tracing
  | .execute _ _ p => glueFrame (opcode r) p tracing
  | _ => "?"

/-- The token of a BATCH: the option fields read off the body with the independent parser, then the body itself. -/
def glueBatchFrame (body : Bytes) (tracing : Bool) : String :=
  match ReqParse.parseBody false 0x0D body with
  | some (.batch _ _ c sc ts) =>
    hex2 Generated.requestOpcode_Batch ++ ":" ++
      toString (consistencyCode c) ++ ":" ++
      (match sc with | some s => toString (serialConsistencyCode s) | none => "-") ++ ":-:" ++
      (if tracing then "1" else "0") ++ ":" ++ (match ts with | some v => toString v | none => "-") ++ ":N:-:" ++ toHex body
  | _ => "unparsable-batch-body"

def selectText : Bytes := ascii "SELECT pk, v FROM ks.t WHERE pk = ?"
def selectAllText : Bytes := ascii "SELECT pk, v FROM ks.t"
def insertText : Bytes := ascii "INSERT INTO ks.t (pk, v) VALUES (?, ?)"
def text2 : Bytes := ascii "INSERT INTO ks.t (pk, v) VALUES (0x00, 0)"

def runGlue (f : List String) (impl : String) : String :=
  if impl.startsWith "e2e-skip" then impl   -- the session could not be built: nothing was judged
  else
  match f with
  | [sc, ss, sp, genr, dn, dv, an, av, ci, op, c, ser, ts, tr, ps, pages, via, uc, ids] =>
    match consistencyTok sc, serialOptTok ss, profTok sp, i64Tok genr, idTok dn, idTok dv, idTok an, idTok av, idTok ci,
          cfgToks [c, ser, ts, tr], i32Tok ps, pages.toNat?, boolTok uc, (ids.splitOn ",").mapM bytesTok with
    | some sc, some ss, some sp, some genr, some dn, some dv, some an, some av, some ci, some cfg, some (some ps),
      some pages, some uc, some [id1, id2, idA, idB] =>
      let plain := ["query_unpaged", "query_page", "query_iter", "query_pages", "queryv_unpaged", "queryv_page", "queryv_iter",
        "queryv_pages"]
      let exec := ["execute_unpaged", "execute_page", "execute_iter", "execute_pages"]
      let okShape := (plain.contains op && via == "-" && !uc) ||
        (exec.contains op && ["handle", "stmt", "cmiss", "chit"].contains via) ||
        (op == "batch" && ["handle", "cmiss", "chit", "pbatch"].contains via && !uc) ||
        (op == "tracing" && via == "-" && !uc && cfg.consistency.isSome && cfg.serialConsistency.isNone &&
          cfg.timestamp.isNone && !cfg.tracing && sp.isNone)
      if ps.toInt ≤ 0 || pages < 1 || pages > 20 || !okShape then "bad-case"
      else
        let sd : ExecProfile := ⟨sc, ss⟩
        let conn : ConnCtx := { defaultConsistency := .localQuorum, genTimestamp := genr, metadataIdExt := false }
        let ident : Identity := { driverName := dn, driverVersion := dv, applicationName := an, applicationVersion := av, clientId := ci }
        let identity := "identity=" ++ ",".intercalate ((sortPairs (identityOptions ident)).map
          (fun kv => toHex kv.1 ++ "=" ++ toHex kv.2))
        let kind := (op.splitOn "_").getLast?.getD ""
        let iter := kind == "iter"
        let manual := kind == "pages"
        let m : Paging := if kind == "unpaged" then .unpaged else .paged
        -- the server's scripted paging states: iterators `[j]`; manual paging: empty-but-present, long, two bytes
        let manualState (j : Nat) : Bytes :=
          if j == 1 then [] else if j % 2 == 0 then UInt8.ofNat j :: List.replicate 300 0xAB else [UInt8.ofNat j, 0]
        let states : List Bytes :=
          if iter then (List.range (pages - 1)).map (fun j => [UInt8.ofNat (j + 1)])
          else if manual then (List.range (pages - 1)).map (fun j => manualState (j + 1))
          else []
        -- the SELECT's PREPARED answer: 2 result columns, no metadata id (extension off on the mock cluster)
        let info : PreparedInfo := { id := [], resultColCount := 2, resultMetadataId := none, useCachedResultMetadata := uc }
        let vals : List RawVal := [.val [1, 2]]
        -- (tracing bit of the PREPARE frames, frames)
        let res : Option (String × List String) :=
          if op == "tracing" then
            -- `get_tracing_info`: two driver-built statements (sessions, events) with the session's fetch consistency
            -- (`cfg.consistency`), unpaged, one uuid value, prepared on the fly (no result metadata)
            let tinfo : PreparedInfo := { id := [], resultColCount := 0, resultMetadataId := none, useCachedResultMetadata := false }
            let one := sessionPreparedFromStatement [] tinfo false [.val (List.replicate 16 7)] cfg none sd conn .unpaged ps []
            some ("0", ((one.drop 1) ++ (one.drop 1)).map (fun x => glueReqFrame x.1 x.2))
          else if op == "query_pages" then
            some ("-", (sessionManualQueryPages selectAllText cfg sp sd conn ps states).map (fun r => glueReqFrame r cfg.tracing))
          else if op == "execute_pages" && via == "handle" then
            some ("0", (sessionManualExecutePages info vals cfg sp sd conn ps states).map (fun r => glueReqFrame r cfg.tracing))
          else if op.startsWith "query_" then
            some ("-", (none :: states.map some).map (fun st =>
              glueReqFrame (sessionQuery selectAllText cfg sp sd conn m ps st) cfg.tracing))
          else if op.startsWith "queryv_" then
            -- PREPARE + EXECUTE(s) of the handle that inherited the statement's configuration
            let rs := sessionPreparedFromStatement selectText info false vals cfg sp sd conn m ps states
            some ((match rs.head? with | some (_, t) => if t then "1" else "0" | none => "-"),
                  (rs.drop 1).map (fun x => glueReqFrame x.1 x.2))
          else if op.startsWith "execute_" then
            if via == "handle" then
              -- a bare statement is prepared (untraced), the handle is configured afterwards
              some ("0", (none :: states.map some).map (fun st =>
                glueReqFrame (sessionExecute info vals cfg sp sd conn m ps st) cfg.tracing))
            else
              let rs := sessionPreparedFromStatement selectText info uc vals cfg sp sd conn m ps states
              -- cache hit: no PREPARE in the judged call
              some ((if via == "chit" then "-" else match rs.head? with | some (_, t) => if t then "1" else "0" | none => "-"),
                    (rs.drop 1).map (fun x => glueReqFrame x.1 x.2))
          else
            -- BATCH: prepared INSERT with (pk, v) + a second statement without values; CachingSession prepares both
            let stmts : List GlueStmt :=
              if via == "handle" then [.prepared id1 2, .unprepared text2]
              else if via == "pbatch" then [.prepared idA 1, .prepared id1 2, .prepared idB 1, .prepared id2 0]
              else [.prepared id1 2, .prepared id2 0]
            let rows : List (List RawVal) :=
              if via == "pbatch" then [[.val [1, 2]], [.val [1, 2], .val [0, 0, 0, 5]], [.val [1, 2]], []]
              else [[.val [1, 2], .val [0, 0, 0, 5]], []]
            match sessionBatchBody (fun _ => ([], 0)) .unlogged stmts rows cfg sp sd conn with
            | .ok body => some ((if via == "chit" then "-" else "0"), [glueBatchFrame body cfg.tracing])
            | .error _ => some ((if via == "chit" then "-" else "0"), [])
        match res with
        | some (ptr, fr) =>
          (identity ++ " ptr=" ++ ptr ++ " frames=" ++ toString fr.length ++ " " ++ " ".intercalate fr).trimAscii.toString
        | none => "bad-case"
    | _, _, _, _, _, _, _, _, _, _, _, _, _, _ => "bad-case"
  | _ => "bad-case"

/-! ### `glueb …`: `Session::batch` with a chosen NUMBER of statements (the session's own guard on the count, in front of
the serializer's; see `harness/src/c09/sessglue.rs`) -/

/-- FNV-1a (64 bit) of the body: the two sides compare a 3 MB BATCH body byte-exactly through its length and digest. -/
def fnv1a (b : Bytes) : UInt64 :=
  b.foldl (fun h x => (h ^^^ x.toUInt64) * 0x100000001b3) 0xcbf29ce484222325

/-- `0d:<consistency>:<serial|->:<tracing bit>:<timestamp|->:n=<statements>:len=<body length>:fnv=<digest>`.  The
option fields and the count are the ones `session_batch_glue` proves the body reads back to (the independent Lean parser
re-measures the remaining input per field and is quadratic on a 65535-statement body, so it is not run here; the Rust side
of the line is produced by the mock node's own parser, and length + digest tie the whole body byte for byte). -/
def glueBigBatchFrame (body : Bytes) (n : Nat) (c : Consistency) (sc : Option SerialConsistency) (ts : Option Int64)
    (tracing : Bool) : String :=
  hex2 Generated.requestOpcode_Batch ++ ":" ++ toString (consistencyCode c) ++ ":" ++
    (match sc with | some s => toString (serialConsistencyCode s) | none => "-") ++ ":" ++
    (if tracing then "1" else "0") ++ ":" ++ (match ts with | some v => toString v.toInt | none => "-") ++
    ":n=" ++ toString n ++ ":len=" ++ toString body.length ++ ":fnv=" ++ toString (fnv1a body).toNat

def runGlueB (f : List String) (impl : String) : String :=
  if impl.startsWith "e2e-skip" then impl
  else
  match f with
  | [n, mode, via, c, ser, ts, tr, ids] =>
    match n.toNat?, cfgToks [c, ser, ts, tr], (ids.splitOn ",").mapM bytesTok with
    | some n, some cfg, some [id1, _, _, _] =>
      if n > 200000 || !(["u", "p", "m"].contains mode) || !(via == "s" || (via == "c" && mode == "p")) then "bad-case"
      else
        let sd : ExecProfile := ⟨.localQuorum, some .localSerial⟩
        let conn : ConnCtx := { defaultConsistency := .localQuorum, genTimestamp := none, metadataIdExt := false }
        let isPrep (i : Nat) : Bool := mode == "p" || (mode == "m" && i % 2 == 0)
        let stmts : List GlueStmt := (List.range n).map (fun i => if isPrep i then .prepared id1 2 else .unprepared text2)
        let rows : List (List RawVal) :=
          (List.range n).map (fun i => if isPrep i then [.val [1, 2], .val [0, 0, 0, 5]] else [])
        match sessionBatch (fun _ => ([], 0)) .unlogged stmts rows cfg none sd conn with
        | .ok body =>
          "ok frames=1 " ++ glueBigBatchFrame body stmts.length (sessionConsistency cfg (chosenProfile none sd))
            (sessionSerial cfg (chosenProfile none sd)) (requestTimestamp cfg conn) cfg.tracing
        | .error (.tooManyQueries k) => "err:TooManyQueries:" ++ toString k ++ " frames=0"
        | .error (.frame _) => "err:refused frames=0"
    | _, _, _ => "bad-case"
  | _ => "bad-case"

end Sess

def run (case impl : String) : String :=
  match words case with
  | ["biglen", what, n] =>
    match n.toNat? with
    | some n => bigLen what n
    | none => "bad-case"
  | "sess" :: fields => runSess fields impl
  | "glue" :: fields => runGlue fields impl
  | "glueb" :: fields => runGlueB fields impl
  | ["decomp", comp, body] =>
    match compTok comp, bytesTok body with
    | some (some c), some b => runDecomp c b impl
    | _, _ => "bad-case"
  | "abatch" :: comp :: tr :: stream :: fields =>
    match compTok comp, boolTok tr, streamTok stream with
    | some comp, some tr, some stream => runAdapter comp tr stream fields impl
    | _, _, _ => "bad-case"
  | kind :: comp :: tr :: stream :: fields =>
    match compTok comp, boolTok tr, streamTok stream, reqOf kind fields with
    | some comp, some tr, some stream, some r =>
      match r with
      | .startup opts =>
        -- checker: take the entry order from the implementation's frame
        match implWords impl with
        | "ok" :: _ :: body? =>
          let bodyHex : Option String :=
            match comp, body?, implWords impl with
            | none, _, _ :: fhex :: _ => some fhex
            | some _, [b], _ => some b
            | _, _, _ => none
          match bodyHex.bind parseHex with
          | none => "REJECT unparsable"
          | some bytes =>
            let body := if comp.isNone then bytes.drop 9 else bytes
            match ReqParse.rdStringMap body with
            | some (m, []) =>
              if isPerm m opts then finish (.startup m) comp tr stream impl
              else "REJECT entries-are-not-a-permutation-of-the-requested-options"
            | _ => "REJECT body-is-not-a-string-map"
        | _ => finish r comp tr stream impl
      | _ => finish r comp tr stream impl
    | _, _, _, _ => "bad-case"
  | _ => "bad-case"

end ScyllaVerif.Drive.C09

import ScyllaVerif.Model.Util
import ScyllaVerif.Model.Ring
import ScyllaVerif.Model.Replicas
import ScyllaVerif.Model.Refresh
import ScyllaVerif.Drive.Topology
/-! Line-protocol driver for C04.  Case: `q<kind> <topology> <keyspace strategies> <strategy> <dc|-> <token>`
(syntax in `Drive/Topology.lean`).  Output: `len=… iter=… choose=… ord=… ep=… epl=… epu=…` — the size, the iteration order,
`choose` for every index `0..len`, the ring-ordered view, and `get_token_endpoints` for the first keyspace (`k0`), the last one, and an unknown keyspace.
A history case `h<kind> <n> (<mode> <topology> <strategies>)×n <strategy> <dc|-> <token>` builds a cluster (`n`) and
applies refreshes (`r` full, `t` topology only); its output is the observation after every step, joined by ` / `.
Everything is deterministic (the random index of `choose` is swept by a scripted RNG), so `impl` is ignored. -/
namespace ScyllaVerif.Drive.C04
open ScyllaVerif.Util ScyllaVerif.Ring ScyllaVerif.Replicas ScyllaVerif.Refresh ScyllaVerif.Drive.Topology

def optIds (l : List (Option Node)) : String :=
  if l.isEmpty then "-" else ",".intercalate (l.map (fun o => match o with | some n => toString n.id | none => "x"))

/-- The observation line of one locator state: all views of the queried replica set and `get_token_endpoints`
for the first, the last and an unknown keyspace. -/
def observeLine (loc : Locator) (pre : List Strategy) (strat : Strategy) (dc : Option Nat) (tok : Int) : String :=
  let rs := replicasForToken loc tok strat dc
  let len := rs.len loc
  let chosen := (List.range len).map (fun i => rs.choose loc i)
  let ep := tokenEndpoints loc pre.head? tok
  let epl := tokenEndpoints loc pre.getLast? tok
  let epu := tokenEndpoints loc none tok
  s!"len={len} iter={nodeIds (rs.iter loc)} choose={optIds chosen} ord={nodeIds (rs.ordered loc)} ep={nodeIds ep} epl={nodeIds epl} epu={nodeIds epu}"

/-- The peers as the hook hands them to the driver: address = position in the list; `accepted` = the host filter's verdict
(false for the rejecting hooks, true for the accepting ones). -/
def toMPeers (t : Topology) (accepted : Bool) : List MPeer :=
  (t.zipIdx).map (fun (p, i) => ⟨p.node, i, p.tokens, accepted⟩)

/-- History steps `<mode> <topology> <strategies>`, mode `n` (new), `r` (full refresh), `t` (topology only,
strategies written `=`), `R` / `T` (the same with an accepting host filter).  Returns the observation after every step, through the model of
`calculate_new_topology` (`Model/Refresh.lean`); the rejecting hooks clear `is_enabled` before a refresh, all hooks set it afterwards from
the specs.  Each step also prints, per peer, the arm of the reuse match it took (`c` = the previous object, `i` =
inherited at a new address, `n` = new). -/
def armLetter : Arm → Char
  | .reused => 'c'
  | .inherited => 'i'
  | .fresh => 'n'

def runHistory (strat : Strategy) (dc : Option Nat) (tok : Int) :
    List String → Option CState → List String → Option (List String)
  | [], _, acc => some acc.reverse
  | mode :: topo :: pre :: rest, st, acc =>
    match parseTopologyEx topo with
    | none => none
    | some tx =>
      let t : Topology := tx.map (·.1)
      let peers := toMPeers t (mode == "R" || mode == "T")
      -- the hooks impose `enabled` on the new state from the specs: flag `d` = disabled
      let ids := (tx.filter (fun p => !p.2.contains 'd')).map (·.1.node.id)
      -- the state `calculate_new_topology` sees: the rejecting hooks clear `is_enabled` first
      let before : Option CState :=
        match mode, st with
        | "n", none => some ⟨[], [], ⟨[], precompute [] []⟩⟩
        | "r", some st => some (st.setEnabled [])
        | "t", some st => some (st.setEnabled [])
        | "R", some st => some st
        | "T", some st => some st
        | _, _ => none
      match before with
      | none => none
      | some b =>
        let next : Option CState :=
          if mode == "t" || mode == "T" then (if pre == "=" then some (b.refreshTopology peers) else none)
          else (parseStrategies pre).map (fun S => b.refresh peers S)
        match next with
        | none => none
        | some st' =>
          let st' := st'.setEnabled ids
          let arms := String.ofList (peers.map (fun p => armLetter (pickArm b.known p)))
          let arms := if arms.isEmpty then "-" else arms
          runHistory strat dc tok rest (some st')
            ((observeLine st'.loc st'.keyspaces strat dc tok ++ " arms=" ++ arms) :: acc)
  | _, _, _ => none

def run (case _impl : String) : String :=
  match words case with
  | [q, topo, pre, strat, dc, tok] =>
    if !q.startsWith "q" then "bad-case" else
    match parseTopology topo, parseStrategies pre, parseStrategy strat, parseOptNat dc, tok.toInt? with
    | some topo, some pre, some strat, some dc, some tok =>
      if !i64ok tok then "bad-case" else
      observeLine (Topology.locator topo pre) pre strat dc (tokenNew tok)
    | _, _, _, _, _ => "bad-case"
  | h :: n :: rest =>
    if !h.startsWith "h" then "bad-case" else
    match n.toNat? with
    | none => "bad-case"
    | some n =>
      if n = 0 || rest.length != 3 * n + 3 then "bad-case" else
      match rest.drop (3 * n) with
      | [strat, dc, tok] =>
        match parseStrategy strat, parseOptNat dc, tok.toInt? with
        | some strat, some dc, some tok =>
          if !i64ok tok then "bad-case" else
          match runHistory strat dc (tokenNew tok) (rest.take (3 * n)) none [] with
          | some lines => " / ".intercalate lines
          | none => "bad-case"
        | _, _, _ => "bad-case"
      | _ => "bad-case"
  | _ => "bad-case"

end ScyllaVerif.Drive.C04

import ScyllaVerif.Model.Util
import ScyllaVerif.Model.Ring
import ScyllaVerif.Model.Replicas
import ScyllaVerif.Drive.Topology
/-! Line-protocol driver for C04.  Case: `q<kind> <topology> <keyspace strategies> <strategy> <dc|-> <token>`
(syntax in `Drive/Topology.lean`).  Output: `len=… iter=… choose=… ord=… ep=… epl=… epu=…` — the size, the iteration order,
`choose` for every index `0..len`, the ring-ordered view, and `get_token_endpoints` for the first keyspace (`k0`), the last one, and an unknown keyspace.
Everything is deterministic (the random index of `choose` is swept by a scripted RNG), so `impl` is ignored. -/
namespace ScyllaVerif.Drive.C04
open ScyllaVerif.Util ScyllaVerif.Ring ScyllaVerif.Replicas ScyllaVerif.Drive.Topology

def optIds (l : List (Option Node)) : String :=
  if l.isEmpty then "-" else ",".intercalate (l.map (fun o => match o with | some n => toString n.id | none => "x"))

def run (case _impl : String) : String :=
  match words case with
  | [q, topo, pre, strat, dc, tok] =>
    if !q.startsWith "q" then "bad-case" else
    match parseTopology topo, parseStrategies pre, parseStrategy strat, parseOptNat dc, tok.toInt? with
    | some topo, some pre, some strat, some dc, some tok =>
      if !i64ok tok then "bad-case" else
      let tok := tokenNew tok
      let loc := Topology.locator topo pre
      let rs := replicasForToken loc tok strat dc
      let len := rs.len loc
      let chosen := (List.range len).map (fun i => rs.choose loc i)
      let ep := tokenEndpoints loc pre.head? tok
      let epl := tokenEndpoints loc pre.getLast? tok
      let epu := tokenEndpoints loc none tok
      s!"len={len} iter={nodeIds (rs.iter loc)} choose={optIds chosen} ord={nodeIds (rs.ordered loc)} ep={nodeIds ep} epl={nodeIds epl} epu={nodeIds epu}"
    | _, _, _, _, _ => "bad-case"
  | _ => "bad-case"

end ScyllaVerif.Drive.C04

import ScyllaVerif.Model.Util
import ScyllaVerif.Model.Ring
import ScyllaVerif.Model.Replicas
import ScyllaVerif.Model.Refresh
import ScyllaVerif.Model.C04Fetch
import ScyllaVerif.Drive.Topology
import ScyllaVerif.Drive.C04Fetch
/-! Line-protocol driver for C04.  Case kinds (first word; only its first letter matters, the rest feeds the
evidence histogram):

* `q… <topology> <keyspaces> <strategy> <dc|-> <token>` — a cluster built from scratch (syntax in
  `Drive/Topology.lean`).  `<keyspaces>` = the keyspaces `k0, k1, …` as `|`-separated strategies; `!` = the fetch of
  that keyspace failed (`resolve_metadata_keyspaces`: the previous state's definition is kept, else the keyspace
  is absent).  Output: `len=… iter=… choose=… ord=… ep=… epl=… epu=…` — size, iteration order, `choose` for every index,
  the ring-ordered view, `get_token_endpoints` for `k0`, for the last keyspace of the list, and for an unknown one.
* `h… <n> (<mode> <topology> <keyspaces>)×n <strategy> <dc|-> <token>` — a history: `n` builds the cluster, `r` / `t`
  full / topology-only refresh (keyspaces `=`) with a rejecting host filter, `R` / `T` with an accepting one,
  `F` / `G` with a per-peer verdict (peer flag `a` = accepted; the old nodes' enabled-ness is not cleared).
  Output: the observation after every step plus `arms=` (per peer the arm of the node-reuse match) and `pool=` (per peer
  whether its node object has a connection pool), joined by ` / `.
* `d… <n> (<mode> <topology> <keyspaces>)×n <strategy> <dc|-> <token>` — a history as `h…` in which a host id MAY be
  listed more than once in one peer list (rows with one id must agree on datacenter, rack and flags; anything else is
  `bad-case`): every row gets its own node object, all in the ring, `known_nodes` keeps the last.  `arms=` / `pool=`
  describe, per row, the object `known_nodes` holds for the row's host id.  Two more fields per step: `ring=` the ring
  entries in ring order as `id@address`, `known=` the known nodes by ascending id as `id@address`.
* `p <L|P> <row>` — one `system.local` / `system.peers` row → `Peer` (checker for the random dummy token).
* `v <token counts|->` — `validate_peers`.
* `s <options>` — replication option map → `Strategy`.
* `m <rows> <options|options|…> <keyspace index> <dc|-> <token>` — rows and keyspace rows → cluster state → the
  replica set of that keyspace's strategy (the implementation line starts with the dummy tokens it drew). -/
namespace ScyllaVerif.Drive.C04
open ScyllaVerif.Util ScyllaVerif.Ring ScyllaVerif.Replicas ScyllaVerif.Refresh ScyllaVerif.C04Fetch
open ScyllaVerif.Drive.Topology ScyllaVerif.Drive.C04Fetch

def optIds (l : List (Option Node)) : String :=
  if l.isEmpty then "-" else ",".intercalate (l.map (fun o => match o with | some n => toString n.id | none => "x"))

/-- `S3|!|N0=2`: keyspace `k<i>` = the i-th entry; `!` = its fetch failed. -/
def parseFetched (s : String) : Option Fetched :=
  if s == "-" then some []
  else ((s.splitOn "|").zipIdx.mapM (fun (w, i) =>
    if w == "!" then some (i, none) else (parseStrategy w).map (fun st => (i, some st))))

/-- The observation line of one state: all views of the queried replica set and `get_token_endpoints` for `k0`,
`k<last>` and an unknown keyspace. -/
def observeLine (loc : Locator) (ks : Keyspaces) (last : Nat) (strat : Strategy) (dc : Option Nat) (tok : Int) : String :=
  let rs := replicasForToken loc tok strat dc
  let len := rs.len loc
  let chosen := (List.range len).map (fun i => rs.choose loc i)
  let ep := tokenEndpoints loc (ks.lookup 0) tok
  let epl := tokenEndpoints loc (ks.lookup last) tok
  let epu := tokenEndpoints loc none tok
  s!"len={len} iter={nodeIds (rs.iter loc)} choose={optIds chosen} ord={nodeIds (rs.ordered loc)} ep={nodeIds ep} epl={nodeIds epl} epu={nodeIds epu}"

/-- The peers as the hook hands them to the driver: address = position in the list; `accepted` = the host filter's
verdict (false for the rejecting hooks, true for the accepting ones). -/
def toMPeers (t : Topology) (accepted : Bool) : List MPeer :=
  (t.zipIdx).map (fun (p, i) => ⟨p.node, i, p.tokens, accepted⟩)

/-- The address of a peer: its position in the list, or `200 + k` for the peers of address group `g<k>` (several
nodes sharing one address). -/
def addrOf (flags : String) (pos : Nat) : Nat :=
  match flags.toList.dropWhile (· != 'g') with
  | _ :: d :: _ => if '0' ≤ d ∧ d ≤ '9' then 200 + (d.toNat - 48) else pos
  | _ => pos

/-- Peers with flags, repeated host ids allowed when the rows agree on datacenter, rack and flags (`d` cases). -/
def parseTopologyRep (s : String) : Option (List (Peer × String)) :=
  if s == "-" then some []
  else match (s.splitOn ";").mapM parsePeerEx with
    | none => none
    | some ps =>
      if ps.all (fun p => p.1.tokens.all i64ok) &&
          ps.all (fun p => ps.all (fun q => p.1.node.id != q.1.node.id || (p.1.node == q.1.node && p.2 == q.2)))
      then some ps else none

/-- The last row of the list with the host id of `p` (`p` itself when ids are distinct): the row whose node object
`known_nodes` holds. -/
def lastRow (peers : List MPeer) (p : MPeer) : MPeer :=
  (peers.reverse.find? (fun q => decide (q.node.id = p.node.id))).getD p

def idAt (k : KNode) : String := s!"{k.node.id}@{k.addr}"

def armLetter : Arm → Char
  | .reused => 'c'
  | .inherited => 'i'
  | .fresh => 'n'

/-- History steps through the model of `calculate_new_topology` / `resolve_metadata_keyspaces` (`Model/Refresh.lean`);
the rejecting hooks clear `is_enabled` before a refresh, all hooks set it afterwards from the specs (flag `d` =
disabled).  `last` = index of the last keyspace of the most recent keyspace list. -/
def runHistory (rep : Bool) (strat : Strategy) (dc : Option Nat) (tok : Int) :
    List String → Option CState → Nat → List String → Option (List String)
  | [], _, _, acc => some acc.reverse
  | mode :: topo :: pre :: rest, st, last, acc =>
    match (if rep then parseTopologyRep topo else parseTopologyEx topo) with
    | none => none
    | some tx =>
      -- the host filter's verdict: nobody (r, t), everybody (R, T), the peers flagged `a` (F, G)
      let peers : List MPeer := (tx.zipIdx).map (fun (p, i) =>
        ⟨p.1.node, addrOf p.2 i, p.1.tokens, mode == "R" || mode == "T" || ((mode == "F" || mode == "G") && p.2.contains 'a')⟩)
      let ids := (tx.filter (fun p => !p.2.contains 'd')).map (·.1.node.id)
      let before : Option CState :=
        match mode, st with
        | "n", none => some ⟨[], [], ⟨[], precompute [] []⟩⟩
        | "r", some st => some (st.setEnabled [])
        | "t", some st => some (st.setEnabled [])
        | "R", some st => some st
        | "T", some st => some st
        | "F", some st => some st
        | "G", some st => some st
        | _, _ => none
      match before with
      | none => none
      | some b =>
        let next : Option (CState × Nat) :=
          if mode == "t" || mode == "T" || mode == "G" then (if pre == "=" then some (b.refreshTopology peers, last) else none)
          else (parseFetched pre).map (fun f => (b.refresh peers f, f.length - 1))
        match next with
        | none => none
        | some (st', last') =>
          let st' := st'.setEnabled ids
          -- observed through `known_nodes.get(host id)`: the object of the LAST row with that id
          let arms := String.ofList (peers.map (fun p => armLetter (pickArm b.known (lastRow peers p))))
          let arms := if arms.isEmpty then "-" else arms
          -- the real pool presence of every node object (`pool.is_some()`, not the override)
          let pools := String.ofList (peers.map (fun p => if (pickNode b.known (lastRow peers p)).pool then '1' else '0'))
          let pools := if pools.isEmpty then "-" else pools
          let extra :=
            if !rep then "" else
              let ring := mkRing (peers.flatMap (fun p => p.tokens.map (fun tk => (tokenNew tk, pickNode b.known p))))
              let ids := ((peers.map (·.node.id)).eraseDups).mergeSort (fun a b => decide (a ≤ b))
              let known := ids.filterMap (fun i => (lookupKnown st'.known i).map idAt)
              let show_ (l : List String) : String := if l.isEmpty then "-" else ",".intercalate l
              " ring=" ++ show_ (ring.map (fun e => idAt e.2)) ++ " known=" ++ show_ known
          runHistory rep strat dc tok rest (some st') last'
            ((observeLine st'.loc st'.keyspaces last' strat dc tok ++ " arms=" ++ arms ++ " pool=" ++ pools ++ extra) :: acc)
  | _, _, _, _ => none

/-- `dummies=<id>:<token>,…` at the head of the implementation's line of an `m` case. -/
def parseDummies (w : String) : Option (List (Nat × Int)) :=
  if !w.startsWith "dummies=" then none
  else
    let body := (w.drop 8).toString
    if body == "-" then some []
    else (body.splitOn ",").mapM (fun e => match e.splitOn ":" with
      | [i, t] => match i.toNat?, t.toInt? with
        | some i, some t => some (i, t)
        | _, _ => none
      | _ => none)

def runRows (rows : List Row) (opts : List (List (String × String))) (ksIdx : Nat) (dc : Option Nat) (tok : Int)
    (impl : String) : String :=
  let implW := words impl
  -- which rows need a dummy token, and which the implementation reports
  let need := (rows.filter needsDummy).filterMap (·.hostId)
  -- a fetch that validate_peers refuses is never published
  let dummyOf (ds : List (Nat × Int)) (r : Row) : Int := match r.hostId with
    | some id => (ds.lookup id).getD 0
    | none => 0
  let finish (ds : List (Nat × Int)) : String :=
    let peers := rows.filterMap (fun r => peerFromRow r (dummyOf ds r))
    match validatePeers peers with
    | .error e => "invalid " ++ ((validateLine (.error e)).drop 4).toString
    | .ok _ =>
      -- one unreadable replication map fails the whole fetch (`query_keyspaces`, `KeyspacesMetadataError::Strategy`)
      if opts.any (fun m => (strategyFromOptions m).toOption.isNone) then "invalid strategy" else
      let fetched : Fetched := opts.zipIdx.map (fun (m, i) => (i, (strategyFromOptions m).toOption.map toStrategy))
      let st := CState.fresh (toMPeers (peersToTopology peers) false) fetched
      let strat := (st.keyspaces.lookup ksIdx).getD .localStrategy
      let head := "dummies=" ++ (if ds.isEmpty then "-" else ",".intercalate (ds.map (fun e => s!"{e.1}:{e.2}")))
      head ++ " " ++ observeLine st.loc st.keyspaces (opts.length - 1) strat dc tok
  match implW with
  | "invalid" :: _ => if need.isEmpty then finish [] else
      -- dummy tokens make token lists non-empty; only "no peers" can still be invalid
      finish (need.map (fun i => (i, 0)))
  | w :: _ =>
    match parseDummies w with
    | none => "REJECT unparsable dummies"
    | some ds =>
      if ds.map (·.1) != need then "REJECT dummy tokens expected for hosts " ++ natList need
      else if !ds.all (fun e => i64ok e.2 && e.2 != -9223372036854775808) then "REJECT dummy token out of range"
      else finish ds
  | [] => "REJECT empty"

def run (case impl : String) : String :=
  match words case with
  | [] => "bad-case"
  | k :: args =>
    if k.startsWith "q" then
      match args with
      | [topo, pre, strat, dc, tok] =>
        match parseTopology topo, parseFetched pre, parseStrategy strat, parseOptNat dc, tok.toInt? with
        | some topo, some pre, some strat, some dc, some tok =>
          if !i64ok tok then "bad-case" else
          let st := CState.fresh (toMPeers topo false) pre
          observeLine st.loc st.keyspaces (pre.length - 1) strat dc (tokenNew tok)
        | _, _, _, _, _ => "bad-case"
      | _ => "bad-case"
    else if k.startsWith "h" || k.startsWith "d" then
      match args with
      | n :: rest =>
        match n.toNat? with
        | none => "bad-case"
        | some n =>
          if n = 0 || rest.length != 3 * n + 3 then "bad-case" else
          match rest.drop (3 * n) with
          | [strat, dc, tok] =>
            match parseStrategy strat, parseOptNat dc, tok.toInt? with
            | some strat, some dc, some tok =>
              if !i64ok tok then "bad-case" else
              match runHistory (k.startsWith "d") strat dc (tokenNew tok) (rest.take (3 * n)) none 0 [] with
              | some lines => " / ".intercalate lines
              | none => "bad-case"
            | _, _, _ => "bad-case"
          | _ => "bad-case"
      | _ => "bad-case"
    else if k == "p" then
      match args with
      | [src, row] =>
        if src != "L" && src != "P" then "bad-case" else
        match parseRow row with
        | some r => runPeer r impl
        | none => "bad-case"
      | _ => "bad-case"
    else if k == "v" then
      match args with
      | [counts] =>
        match parseNatList counts with
        | some cs => validateLine (validatePeers (cs.zipIdx.map (fun (c, i) => ⟨i, none, none, List.replicate c 0⟩)))
        | none => "bad-case"
      | _ => "bad-case"
    else if k == "s" then
      match args with
      | [opts] => match parseOptions opts with
        | some m => runStrategy m impl
        | none => "bad-case"
      | _ => "bad-case"
    else if k == "m" then
      match args with
      | [rows, opts, ksIdx, dc, tok] =>
        match parseRows rows, (if opts == "-" then some [] else (opts.splitOn "|").mapM parseOptions), ksIdx.toNat?,
            parseOptNat dc, tok.toInt? with
        | some rows, some opts, some ksIdx, some dc, some tok =>
          if !i64ok tok then "bad-case"
          else if ((rows.filterMap (·.hostId)).eraseDups.length != (rows.filterMap (·.hostId)).length) then "bad-case"
          else runRows rows opts ksIdx dc (tokenNew tok) impl
        | _, _, _, _, _ => "bad-case"
      | _ => "bad-case"
    else "bad-case"

end ScyllaVerif.Drive.C04

import ScyllaVerif.Model.Util
import ScyllaVerif.Model.Prepared
import ScyllaVerif.Model.PreparedSession
/-! Drivers of the `pb` (Connection::prepare_batch) and `cs` (CachingSession / Session::prepare) cases of C14.
`pb` is computed from the model (`connPrepareBatch`, any set order: the PREPARE texts are printed sorted).
`cs` is a CHECKER: which cache entry is evicted (`DashMap::iter().next()`) and in which order concurrent misses are
inserted cannot be known, so the driver keeps the SET of cache contents the model can be in, filters it with what the
implementation's line shows (PREPARE frames = miss, none = hit), and echoes the implementation's token iff it is
producible (`REJECT …` otherwise). -/
namespace ScyllaVerif.Drive.C14Session
open ScyllaVerif.Util ScyllaVerif.PreparedSession
open ScyllaVerif.Prepared (textV hexOfString)

def textOf (s : Nat) : String := textV s ((s * 3 + 1) % 8)

/-! ## pb -/

inductive Item | p (s : Nat) | qv (s : Nat) | qe (s : Nat)

def parseItem (w : String) : Option Item :=
  match w.toList with
  | 'P' :: rest => (String.ofList rest).toNat?.bind (fun s => if s < 8 then some (.p s) else none)
  | 'Q' :: rest =>
    match rest.reverse with
    | 'v' :: r => (String.ofList r.reverse).toNat?.bind (fun s => if s < 8 then some (.qv s) else none)
    | 'e' :: r => (String.ofList r.reverse).toNat?.bind (fun s => if s < 8 then some (.qe s) else none)
    | _ => none
  | _ => none

def insertSorted (t : String) : List String → List String
  | [] => [t]
  | x :: xs => if t == x then x :: xs else if t < x then t :: x :: xs else x :: insertSorted t xs

def optS (f : α → String) : Option α → String
  | none => "-"
  | some x => f x

def showVals (v : List Nat) : String := if v.isEmpty then "-" else "+".intercalate (v.map toString)

def showF : FStmt → String
  | .byText t v => s!"t:{hexOfString t}/{showVals v}"
  | .byId id v => s!"i:{hexOfString id}#0/{showVals v}"

def runPb (cfg fail items : String) : String :=
  match cfg.splitOn ".", (if items == "-" then some [] else (items.splitOn ",").mapM parseItem) with
  | [cl, scl, ts], some its =>
    match cl.toNat?, (if scl == "-" then some none else scl.toNat?.map some),
          (if ts == "-" then some none else ts.toNat?.map some),
          (if fail == "-" then some none else (fail.toNat?.bind (fun f => if f < 8 then some (some f) else none))) with
    | some cl, some scl, some ts, some fail =>
      if its.length > 12 || its.any (fun | .p s => s % 2 == 1 | .qv s => s % 2 == 1 | .qe s => s % 2 == 0) then "bad-case" else
      let stmts : List BStmt := its.map (fun
        | .p s => .prepared ⟨textOf s, textOf s, Cfg.default, 5000, false⟩
        | .qv s => .query ⟨textOf s, Cfg.default, 5000⟩
        | .qe s => .query ⟨textOf s, Cfg.default, 5000⟩)
      let vals : List (List Nat) := its.zipIdx.map (fun (it, j) => match it with | .qe _ => [] | _ => [j + 1])
      let b : Batch := ⟨1, ⟨some cl, scl, ts.map Int.ofNat, false⟩, stmts⟩
      let failText := fail.map textOf
      let prep : String → Except Nat String := fun t => if some t == failText then .error 0x2200 else .ok t
      let order := (wantsPrepare stmts vals).foldl (fun acc t => insertSorted t acc) []
      match connPrepareBatch prep order b vals with
      | .error (e, _) => s!"prep=* | frame=- | res=err:DbError:{e}"
      | .ok (b', sent) =>
        let fr := frameStmts b'.stmts vals
        let items := if fr.isEmpty then "-" else ",".intercalate (fr.map showF)
        let prepS := if sent.isEmpty then "-" else ",".intercalate (sent.map hexOfString)
        s!"prep={prepS} | frame=ty{b'.ty} {items} cl={optS toString b'.cfg.cl} scl={optS toString b'.cfg.scl} ts={optS toString b'.cfg.ts} | res=ok"
    | _, _, _, _ => "bad-case"
  | _, _ => "bad-case"

/-! ## cs (checker)

The checker EXECUTES the model (`Model/PreparedSession.lean`): `cacheGet`, `addPrepared`, `cacheAdd` (hence `evictLoop`,
`cacheInsert`), `cachingBatch` (hence `resolveAll`, `missed`, `allPrepared`), `prepareNongeneric` (hence `prepareOnAll`,
`afterFirstOk`, `allSame`). What the model takes as arguments is enumerated here: the victim the map's iterator yields
(`pick`: every choice), the order in which concurrent preparations complete (every permutation), the order in which
the connections are iterated (every permutation of the per-node answers the harness prints). The candidate set is the
set of caches the MODEL can be in; a line is echoed iff some candidate produces exactly it. -/

def csTexts : List String :=
  ["SELECT pk, v FROM ks.t WHERE pk = ?", "  SELECT pk, v FROM ks.t WHERE pk = ?\n", "select pk, v from ks.t where pk = ?;",
   "INSERT INTO ks.t (pk, v) VALUES (?, 1) -- ü ☃", "INSERT INTO ks.t (pk, v)\n  VALUES (?, 2)"]

def textNo (s : String) : Nat := (csTexts.findIdx? (· == s)).getD 99

def removeNth : List α → Nat → List α
  | [], _ => []
  | _ :: xs, 0 => xs
  | x :: xs, n + 1 => x :: removeNth xs n

/-- all permutations (small lists; `fuel` ≥ length) -/
def perms : Nat → List α → List (List α)
  | _, [] => [[]]
  | 0, _ => []
  | fuel + 1, xs => ((List.range xs.length).map (fun i => match xs[i]? with
      | some x => (perms fuel (removeNth xs i)).map (x :: ·)
      | none => [])).flatten

/-- a `pick` for the model: which key the map's iterator yields, as a function of the cache (by its length) -/
def pickOf (script : List Nat) : Cache → String :=
  fun c => ((c[(script.getD c.length 0) % (max c.length 1)]?).map (·.1)).getD ""

/-- all scripts for caches of length ≤ `len`: one index per length -/
def scripts : Nat → List (List Nat)
  | 0 => [[0]]
  | len + 1 => ((scripts len).map (fun s => (List.range (len + 1)).map (fun i => s ++ [i]))).flatten

def normCache (c : Cache) : Cache := c.mergeSort (fun a b => a.1 ≤ b.1)

def dedupC (cs : List Cache) : List Cache := (cs.map normCache).eraseDups

/-- every cache the model's `cacheAdd` can produce -/
def cacheAddChoices (cap : Nat) (c : Cache) (s : PStmt) : List Cache :=
  dedupC ((scripts c.length).map (fun sc => cacheAdd cap (pickOf sc) c s))

/-- the per-node answers of one text, as printed by the harness: `o<variant>*<frames>` / `e<code>*<frames>` -/
structure NodeAns where
  ans : Except Nat String
  frames : Nat

def parseAns (text : String) (w : String) : Option NodeAns :=
  match w.splitOn "*" with
  | [a, c] =>
    match a.toList, c.toNat? with
    | 'o' :: v, some c => some ⟨.ok (text ++ "#" ++ String.ofList v), c⟩
    | 'e' :: code, some c => (String.ofList code).toNat?.map (fun e => ⟨.error e, c⟩)
    | _, _ => none
  | _ => none

/-- `pa=t0@o0*1,e8704*1+t3@…` -/
def parsePa (s : String) : Option (List (Nat × List NodeAns)) :=
  if s == "-" then some []
  else (s.splitOn "+").mapM (fun part => match part.splitOn "@" with
    | [th, rest] =>
      match th.toList with
      | 't' :: d =>
        match (String.ofList d).toNat? with
        | some t => ((rest.splitOn ",").mapM (parseAns (csTexts.getD t ""))).map (fun l => (t, l))
        | none => none
      | _ => none
    | _ => none)

instance : BEq (Except PErr String) :=
  ⟨fun a b => match a, b with
    | .ok x, .ok y => x == y
    | .error x, .error y => decide (x = y)
    | _, _ => false⟩

def perrLabel : PErr → String
  | .allAttemptsFailed e => s!"err:prep:allfailed:{e}"
  | .idsMismatch => "err:prep:mismatch"
  | .noConnections => "err:pool"

/-- the outcomes `Session::prepare` can have for these per-node answers (any iteration order of the connections;
`conns` connections per node in the per-shard attempt), computed by the MODEL's `prepareNongeneric` -/
def prepareOutcomes (conns : Nat) (answers : List NodeAns) : List (Except PErr String) :=
  ((perms answers.length (answers.map (·.ans))).map (fun p =>
    prepareNongeneric p ((p.map (fun a => List.replicate conns a)).flatten))).eraseDups

/-- frames per node for `calls` preparations: one each, plus `conns` each if the per-node attempt failed -/
def framesOk (conns calls : Nat) (answers : List NodeAns) : Bool :=
  let firstOk := match prepareOnAll (answers.map (·.ans)) with | .ok _ => true | .error _ => false
  answers.all (fun a => a.frames == calls * (1 + (if firstOk then 0 else conns)))

structure CsState where
  n : Nat
  conns : Nat
  cap : Nat
  u : Bool
  cands : List Cache

def showIdHex (id : String) : String :=
  match id.splitOn "#" with
  | [] => ""
  | parts => hexOfString ("#".intercalate parts.dropLast) ++ "#" ++ parts.getLastD ""

def hex2 (n : Nat) : String := ScyllaVerif.Prepared.hexByte n

def cfgOf (k : Nat) : Cfg × Nat :=
  match k with
  | 0 => (⟨some 1, none, none, false⟩, 7)
  | 1 => (⟨some 4, none, none, true⟩, 5000)
  | _ => (⟨some 6, none, none, false⟩, 123)

/-- the EXECUTE the session sends for a handle (execute_single_page): id, the caller's value, the HANDLE's consistency,
skip_metadata = the handle's use_cached flag (for statements with result columns), the HANDLE's page size -/
def execToken (h : PStmt) (idx t : Nat) : String :=
  s!"EXEC {showIdHex h.id} v=x{hex2 idx}{hex2 t} cl={optS toString h.cfg.cl} sk={if h.useCached && t < 3 then 1 else 0} pg={h.page}"

def batchToken (b : Batch) (idx : Nat) : String :=
  let items := b.stmts.zipIdx.map (fun (s, j) => match s with
    | .prepared p => s!"i:{showIdHex p.id}/x{hex2 idx}{hex2 j}"
    | .query q => s!"t:{hexOfString q.text}/x{hex2 idx}{hex2 j}")
  s!"ty{b.ty} {",".intercalate items} cl={optS toString b.cfg.cl} scl={optS toString b.cfg.scl} ts={optS toString b.cfg.ts}"

def digitAt (cs : List Char) (i : Nat) : Option Nat :=
  match cs[i]? with
  | some c => if c.isDigit then some (c.toNat - 48) else none
  | none => none

def toNatErr : Except PErr String → Except Nat String
  | .ok id => .ok id
  | .error (.allAttemptsFailed e) => .error e
  | .error .idsMismatch => .error 1
  | .error .noConnections => .error 2

/-- one op: the candidate caches after it, or why the implementation's token is not producible by the model -/
def csStep (st : CsState) (idx : Nat) (op tok : String) : Except String CsState :=
  let cs := op.toList
  match cs with
  | 'M' :: _ | 'N' :: _ | 'F' :: _ | 'G' :: _ => if tok == op then .ok st else .error "event token"
  | 'x' :: _ =>
    match digitAt cs 1, digitAt cs 3, tok.splitOn "~" with
    | some t, some k, [opE, paE, frame, res] =>
      if opE != op then .error "op echo" else
      match parsePa ((paE.splitOn "pa=").getLastD "") with
      | none => .error "unparsable pa"
      | some pa =>
        let (cfg, page) := cfgOf k
        let q : Query := ⟨csTexts.getD t "", cfg, page⟩
        -- every way the MODEL's add_prepared_statement can go from every candidate cache
        let outcomes : List (Except PErr String) := match pa.lookup t with
          | some answers => if framesOk st.conns 1 answers then prepareOutcomes st.conns answers else []
          | none => []
        let fromCache (c : Cache) : List (Option Cache) :=
          match cacheGet q.text c with
          | some _ =>
            -- a hit: nothing may have been prepared
            if !pa.isEmpty then [] else
            match addPrepared st.cap st.u (fun _ => .error 0) (pickOf []) c q with
            | .ok (h, c', false) => if frame == execToken h idx t && res == "ok" then [some c'] else []
            | _ => []
          | none =>
            if pa.length != 1 then [] else
            let perOutcome (o : Except PErr String) : List (Option Cache) :=
              (scripts c.length).map (fun sc =>
                match addPrepared st.cap st.u (fun _ => toNatErr o) (pickOf sc) c q with
                | .ok (h, c', true) => if frame == execToken h idx t && res == "ok" then some c' else none
                | .error _ =>
                  (match o with
                   | .error pe => if res == perrLabel pe && frame == "-" then some c else none
                   | .ok _ => none)
                | _ => none)
            (outcomes.map perOutcome).flatten
        let results : List (Option Cache) := (st.cands.map fromCache).flatten
        let next := dedupC (results.filterMap id)
        if next.isEmpty then .error s!"not producible by the model from any of its {st.cands.length} cache(s)" else .ok { st with cands := next }
    | _, _, _ => .error "bad token"
  | 'b' :: body =>
    match tok.splitOn "~" with
    | [opE, paE, frame, res] =>
      if opE != op then .error "op echo" else
      match parsePa ((paE.splitOn "pa=").getLastD "") with
      | none => .error "unparsable pa"
      | some pa =>
        let stmts : List BStmt := (List.range (body.length / 2)).filterMap (fun j =>
          match body[2 * j]?, digitAt body (2 * j + 1) with
          | some 'q', some t => some (.query ⟨csTexts.getD t "", Cfg.default, 5000⟩)
          | some 'p', some t => some (.prepared ⟨csTexts.getD t "" ++ "#0", csTexts.getD t "", Cfg.default, 5000, false⟩)
          | _, _ => none)
        let b : Batch := ⟨1, ⟨some 4, some 9, some (Int.ofNat (1000 + idx)), idx % 2 == 0⟩, stmts⟩
        let results : List Cache := (st.cands.map (fun c =>
          -- the texts the MODEL asks the cluster about, with multiplicity
          let missedQ := if allPrepared b then [] else missed c b.stmts
          let missedT := missedQ.map (fun q => textNo q.text)
          -- the harness must have seen PREPAREs for exactly those texts, the right number of frames per node
          if !(pa.all (fun (t, _) => missedT.contains t)) || !(missedT.all (fun t => (pa.lookup t).isSome)) then [] else
          if !(pa.all (fun (t, answers) => framesOk st.conns (missedT.filter (· == t)).length answers)) then [] else
          -- one outcome choice per text (usually a single one)
          let choice : List (Nat × List (Except PErr String)) := pa.map (fun (t, answers) => (t, prepareOutcomes st.conns answers))
          let combos : List (List (Nat × Except PErr String)) := choice.foldl (fun acc (t, os) =>
            (acc.map (fun a => os.map (fun o => a ++ [(t, o)]))).flatten) [[]]
          (combos.map (fun combo =>
            let prep : String → Except Nat String := fun text => match combo.lookup (textNo text) with
              | some o => toNatErr o
              | none => .error 0
            match cachingBatch st.u prep c b with
            | .ok (b', _) =>
              if frame != batchToken b' idx || res != "ok" then [] else
              -- the misses reach the cache in any completion order, each with its own eviction choices
              let done : List PStmt := missedQ.filterMap (fun q => match prep q.text with
                | .ok id => some ⟨id, q.text, q.cfg, q.page, st.u⟩ | .error _ => none)
              ((perms done.length done).map (fun order =>
                order.foldl (fun (cs : List Cache) s => (cs.map (fun c' => cacheAddChoices st.cap c' s)).flatten) [c])).flatten
            | .error _ =>
              -- try_join_all fails with one of the preparation errors; the other preparations may or may not have
              -- completed (and reached the cache) before that
              let labels := combo.filterMap (fun (_, o) => match o with | .error pe => some (perrLabel pe) | .ok _ => none)
              if !labels.contains res || frame != "-" then [] else
              let good : List PStmt := missedQ.filterMap (fun q => match prep q.text with
                | .ok id => some ⟨id, q.text, q.cfg, q.page, st.u⟩ | .error _ => none)
              let subsets := good.foldl (fun (acc : List (List PStmt)) e => acc ++ acc.map (· ++ [e])) [[]]
              (subsets.map (fun sub => ((perms sub.length sub).map (fun order =>
                order.foldl (fun (cs : List Cache) s => (cs.map (fun c' => cacheAddChoices st.cap c' s)).flatten) [c])).flatten)).flatten)).flatten)).flatten
        let next := dedupC results
        if next.isEmpty then .error s!"not producible by the model from any of its {st.cands.length} cache(s)" else .ok { st with cands := next }
    | _ => .error "bad token"
  | _ => .error "bad op"

def getParam (ws : List String) (k : String) : Option String :=
  ws.findSome? (fun w => match w.splitOn "=" with | [a, b] => if a == k then some b else none | _ => none)

def runCs (ws : List String) (impl : String) : String :=
  match (getParam ws "n").bind String.toNat?, (getParam ws "cap").bind String.toNat?, getParam ws "ops" with
  | some n, some cap, some opsS =>
    let u := getParam ws "u" == some "1"
    let sh := ((getParam ws "sh").bind String.toNat?).getD 0
    let ops := (opsS.splitOn ".").filter (· ≠ "")
    let opOk (op : String) : Bool :=
      let cs := op.toList
      match cs with
      | [c, a, 't', d] => (c == 'M' || c == 'N' || c == 'F' || c == 'G') && a.isDigit && (a.toNat - 48) < n && d.isDigit && (d.toNat - 48) < 5
      | ['x', a, 'c', k] => a.isDigit && (a.toNat - 48) < 5 && k.isDigit && (k.toNat - 48) < 3
      | 'b' :: body => body.length % 2 == 0 && !body.isEmpty && body.length ≤ 12 &&
          (List.range (body.length / 2)).all (fun j => (body[2 * j]? == some 'q' || body[2 * j]? == some 'p') &&
            (match body[2 * j + 1]? with | some d => d.isDigit && (d.toNat - 48) < 5 | none => false))
      | _ => false
    if !(1 ≤ n && n ≤ 4 && 1 ≤ cap && cap ≤ 8 && (sh == 0 || sh == 2 || sh == 3) && ops.length ≤ 60 && ops.all opOk) then "bad-case" else
    let implT := impl.trimAscii.toString
    if implT.startsWith "e2e-skip" then implT else
    let toks := implT.splitOn " ; "
    if toks.length != ops.length then "REJECT token count" else
    let st0 : CsState := ⟨n, max sh 1, cap, u, [[]]⟩
    let r := ((ops.zip toks).zipIdx).foldl (fun (acc : Except String CsState) ((op, tok), idx) =>
      match acc with
      | .error e => .error e
      | .ok st => match csStep st idx op tok with | .error e => .error s!"{op}: {e}" | .ok st' => .ok st') (.ok st0)
    match r with
    | .ok _ => implT
    | .error e => "REJECT " ++ e
  | _, _, _ => "bad-case"

def run (case impl : String) : String :=
  match words case with
  | ["pb", cfg, fail, items] => runPb cfg fail items
  | "cs" :: rest => runCs rest impl
  | _ => "bad-case"

end ScyllaVerif.Drive.C14Session

import ScyllaVerif.Model.Util
import ScyllaVerif.Model.Prepared
import ScyllaVerif.Model.PreparedSession
/-! Drivers of the `pb` (Connection::prepare_batch) and `cs` (CachingSession / Session::prepare) cases of C14.
`pb` is computed from the model (`connPrepareBatch`, any set order: the PREPARE texts are printed sorted).
`cs` is a CHECKER: which cache entry is evicted (`DashMap::iter().next()`) and in which order concurrent misses are
inserted cannot be known, so the driver keeps the SET of cache contents the model can be in, filters it with what the
implementation's line shows (PREPARE frames = miss, none = hit), and echoes the implementation's token iff it is
producible (`REJECT …` otherwise). -/
namespace ScyllaVerif.Drive.C14Session
open ScyllaVerif.Util ScyllaVerif.PreparedSession
open ScyllaVerif.Prepared (textV hexOfString)

def textOf (s : Nat) : String := textV s ((s * 3 + 1) % 8)

/-! ## pb -/

inductive Item | p (s : Nat) | qv (s : Nat) | qe (s : Nat)

def parseItem (w : String) : Option Item :=
  match w.toList with
  | 'P' :: rest => (String.ofList rest).toNat?.bind (fun s => if s < 8 then some (.p s) else none)
  | 'Q' :: rest =>
    match rest.reverse with
    | 'v' :: r => (String.ofList r.reverse).toNat?.bind (fun s => if s < 8 then some (.qv s) else none)
    | 'e' :: r => (String.ofList r.reverse).toNat?.bind (fun s => if s < 8 then some (.qe s) else none)
    | _ => none
  | _ => none

def insertSorted (t : String) : List String → List String
  | [] => [t]
  | x :: xs => if t == x then x :: xs else if t < x then t :: x :: xs else x :: insertSorted t xs

def optS (f : α → String) : Option α → String
  | none => "-"
  | some x => f x

def showVals (v : List Nat) : String := if v.isEmpty then "-" else "+".intercalate (v.map toString)

def showF : FStmt → String
  | .byText t v => s!"t:{hexOfString t}/{showVals v}"
  | .byId id v => s!"i:{hexOfString id}#0/{showVals v}"

def runPb (cfg fail items : String) : String :=
  match cfg.splitOn ".", (if items == "-" then some [] else (items.splitOn ",").mapM parseItem) with
  | [cl, scl, ts], some its =>
    match cl.toNat?, (if scl == "-" then some none else scl.toNat?.map some),
          (if ts == "-" then some none else ts.toNat?.map some),
          (if fail == "-" then some none else (fail.toNat?.bind (fun f => if f < 8 then some (some f) else none))) with
    | some cl, some scl, some ts, some fail =>
      if its.length > 12 || its.any (fun | .p s => s % 2 == 1 | .qv s => s % 2 == 1 | .qe s => s % 2 == 0) then "bad-case" else
      let stmts : List BStmt := its.map (fun
        | .p s => .prepared ⟨textOf s, textOf s, Cfg.default, 5000, false⟩
        | .qv s => .query ⟨textOf s, Cfg.default, 5000⟩
        | .qe s => .query ⟨textOf s, Cfg.default, 5000⟩)
      let vals : List (List Nat) := its.zipIdx.map (fun (it, j) => match it with | .qe _ => [] | _ => [j + 1])
      let b : Batch := ⟨1, ⟨some cl, scl, ts.map Int.ofNat, false⟩, stmts⟩
      let failText := fail.map textOf
      let prep : String → Except Nat String := fun t => if some t == failText then .error 0x2200 else .ok t
      let order := (wantsPrepare stmts vals).foldl (fun acc t => insertSorted t acc) []
      match connPrepareBatch prep order b vals with
      | .error (e, _) => s!"prep=* | frame=- | res=err:DbError:{e}"
      | .ok (b', sent) =>
        let fr := frameStmts b'.stmts vals
        let items := if fr.isEmpty then "-" else ",".intercalate (fr.map showF)
        let prepS := if sent.isEmpty then "-" else ",".intercalate (sent.map hexOfString)
        s!"prep={prepS} | frame=ty{b'.ty} {items} cl={optS toString b'.cfg.cl} scl={optS toString b'.cfg.scl} ts={optS toString b'.cfg.ts} | res=ok"
    | _, _, _, _ => "bad-case"
  | _, _ => "bad-case"

/-! ## cs (checker) -/

/-- a possible cache: (text number, id variant it was prepared under) -/
abbrev PCache := List (Nat × Nat)

structure CsState where
  n : Nat
  cap : Nat
  mismatch : List (Nat × Nat)   -- (node, text) flags that are on
  refuse : List Nat
  caches : List PCache

def hasFlag (st : CsState) (node t : Nat) : Bool := st.mismatch.contains (node, t)

/-- what `Session::prepare` of text t yields now: `some variant` or `none` = error; and the PREPARE frames per node -/
def sessionPrepare (st : CsState) (t : Nat) : Except String Nat × Nat :=
  if st.refuse.contains t then (.error "err:prep:allfailed", 2 * st.n)
  else
    let flags := (List.range st.n).map (fun node => hasFlag st node t)
    if flags.all id then (.ok 1, st.n)
    else if flags.all (!·) then (.ok 0, st.n)
    else (.error "err:prep:mismatch", 2 * st.n)

def removeNth : List α → Nat → List α
  | [], _ => []
  | _ :: xs, 0 => xs
  | x :: xs, n + 1 => x :: removeNth xs n

/-- all results of `while cap <= len { remove any }` -/
def evictAll (cap : Nat) : Nat → PCache → List PCache
  | 0, c => [c]
  | fuel + 1, c =>
    if cap ≤ c.length then ((List.range c.length).map (fun i => evictAll cap fuel (removeNth c i))).flatten else [c]

def addAll (cap : Nat) (c : PCache) (e : Nat × Nat) : List PCache :=
  -- the eviction loop runs on the cache as it is (the key may already be there), then `insert` replaces
  (evictAll cap c.length c).map (fun c' => e :: c'.filter (fun x => x.1 != e.1))

def normalize (c : PCache) : PCache := c.mergeSort (fun a b => a.1 < b.1 || (a.1 == b.1 && a.2 ≤ b.2))

def dedupCaches (cs : List PCache) : List PCache := (cs.map normalize).eraseDups

/-- all permutations (small lists; `fuel` ≥ length) -/
def perms : Nat → List α → List (List α)
  | _, [] => [[]]
  | 0, _ => []
  | fuel + 1, xs => ((List.range xs.length).map (fun i => match xs[i]? with
      | some x => (perms fuel (removeNth xs i)).map (x :: ·)
      | none => [])).flatten

/-- add the entries in every order, with every eviction choice -/
def addMany (cap : Nat) (c : PCache) (es : List (Nat × Nat)) : List PCache :=
  ((perms es.length es).map (fun order =>
    order.foldl (fun (cs : List PCache) e => (cs.map (fun c' => addAll cap c' e)).flatten) [c])).flatten

def parsePrep (s : String) : Option (List (Nat × Nat)) :=
  if s == "-" then some []
  else (s.splitOn ",").mapM (fun w => match w.splitOn "x" with
    | [a, b] => match a.toNat?, b.toNat? with | some a, some b => some (a, b) | _, _ => none
    | _ => none)

def digitAt (cs : List Char) (i : Nat) : Option Nat :=
  match cs[i]? with
  | some c => if c.isDigit then some (c.toNat - 48) else none
  | none => none

def variantOfFrame (frame : String) (t : Nat) (texts : List String) : Option Nat :=
  -- the id printed in the frame is hex(text)#variant
  match texts[t]? with
  | none => none
  | some tx =>
    let h := hexOfString tx
    if (frame.splitOn (h ++ "#0")).length > 1 then some 0
    else if (frame.splitOn (h ++ "#1")).length > 1 then some 1 else none

def csTexts : List String :=
  ["SELECT pk, v FROM ks.t WHERE pk = ?", "  SELECT pk, v FROM ks.t WHERE pk = ?\n", "select pk, v from ks.t where pk = ?;",
   "INSERT INTO ks.t (pk, v) VALUES (?, 1) -- ü ☃", "INSERT INTO ks.t (pk, v)\n  VALUES (?, 2)"]

/-- one op: the new state, or why the implementation's token is not producible -/
def csStep (st : CsState) (op tok : String) : Except String CsState :=
  let cs := op.toList
  match cs with
  | 'M' :: _ | 'N' :: _ =>
    match digitAt cs 1, digitAt cs 3 with
    | some node, some t =>
      if tok != op then .error "event token" else
      let rest := st.mismatch.filter (· != (node, t))
      .ok { st with mismatch := if cs.head? == some 'M' then (node, t) :: rest else rest }
    | _, _ => .error "bad op"
  | 'F' :: _ | 'G' :: _ =>
    match digitAt cs 1 with
    | some t =>
      if tok != op then .error "event token" else
      let rest := st.refuse.filter (· != t)
      .ok { st with refuse := if cs.head? == some 'F' then t :: rest else rest }
    | none => .error "bad op"
  | 'x' :: _ =>
    match digitAt cs 1, tok.splitOn "~" with
    | some t, opE :: prepE :: rest =>
      if opE != op then .error "op echo" else
      let res := rest.getLastD ""
      let frame := "~".intercalate rest.dropLast
      match parsePrep ((prepE.splitOn "=").getLastD "") with
      | none => .error "unparsable prep"
      | some [] =>
        -- a HIT: some possible cache holds the text; the EXECUTE carries the id it was cached under
        let hits := st.caches.filter (fun c => c.any (·.1 == t))
        if hits.isEmpty then .error s!"no PREPARE although text {t} cannot be cached" else
        if res != "ok" then .error "a cache hit must execute" else
        match variantOfFrame frame t csTexts with
        | none => .error "the EXECUTE does not carry an id of the text"
        | some v =>
          let ok := hits.filter (fun c => c.contains (t, v))
          if ok.isEmpty then .error "the EXECUTE carries an id the text was never cached under" else
          .ok { st with caches := dedupCaches ok }
      | some [(t', cnt)] =>
        if t' != t then .error "PREPARE of another text" else
        let misses := st.caches.filter (fun c => !c.any (·.1 == t))
        if misses.isEmpty then .error s!"PREPARE although text {t} must be cached" else
        let (outcome, frames) := sessionPrepare st t
        if cnt != frames then .error s!"{cnt} PREPARE frames, expected {frames}" else
        match outcome with
        | .error lbl => if res == lbl then .ok { st with caches := dedupCaches misses } else .error s!"expected {lbl}"
        | .ok v =>
          if res != "ok" then .error "preparation succeeded, the execution must too" else
          if variantOfFrame frame t csTexts != some v then .error "the EXECUTE does not carry the id just prepared" else
          .ok { st with caches := dedupCaches ((misses.map (fun c => addAll st.cap c (t, v))).flatten) }
      | _ => .error "PREPAREs of several texts for one execute_unpaged"
    | _, _ => .error "bad op"
  | 'b' :: body =>
    match tok.splitOn "~" with
    | opE :: prepE :: rest =>
      if opE != op then .error "op echo" else
      let res := rest.getLastD ""
      let qs : List Nat := (List.range (body.length / 2)).filterMap (fun j =>
        if body[2 * j]? == some 'q' then digitAt body (2 * j + 1) else none)
      match parsePrep ((prepE.splitOn "=").getLastD "") with
      | none => .error "unparsable prep"
      | some prep =>
        let missedTexts := (prep.map (·.1)).eraseDups
        if missedTexts.any (fun t => !qs.contains t) then .error "PREPARE of a text that is not an unprepared statement of the batch" else
        -- consistent caches: exactly the unprepared texts WITHOUT prepare frames are cached
        let consistent := st.caches.filter (fun c => qs.all (fun t => (c.any (·.1 == t)) == !missedTexts.contains t))
        if consistent.isEmpty then .error "hit/miss pattern impossible for every cache the model can be in" else
        let outcomes := missedTexts.map (fun t => (t, sessionPrepare st t))
        let failing := outcomes.filter (fun o => match o.2.1 with | .error _ => true | .ok _ => false)
        if failing.isEmpty then
          -- every miss is asked once per unprepared statement carrying it
          let countsOk := outcomes.all (fun (t, (_, frames)) => prep.lookup t == some (frames * (qs.filter (· == t)).length))
          if !countsOk then .error "number of PREPARE frames" else
          if res != "ok" then .error "every preparation succeeded, the batch must be executed" else
          -- one cache insertion per unprepared statement that missed (two statements with the same text: two insertions,
          -- each preceded by its own eviction loop)
          let entries := (qs.filter (fun t => missedTexts.contains t)).filterMap (fun t => match (sessionPrepare st t).1 with
            | .ok v => some (t, v) | .error _ => none)
          .ok { st with caches := dedupCaches ((consistent.map (fun c => addMany st.cap c entries)).flatten) }
        else
          -- try_join_all fails with one of the errors; the other preparations may or may not have reached the cache
          if !(failing.any (fun o => match o.2.1 with | .error l => l == res | .ok _ => false)) then .error "the batch must fail with a preparation error" else
          let good := (qs.filter (fun t => missedTexts.contains t)).filterMap (fun t => match (sessionPrepare st t).1 with
            | .ok v => some (t, v) | .error _ => none)
          let subsets := good.foldl (fun (acc : List (List (Nat × Nat))) e => acc ++ acc.map (e :: ·)) [[]]
          .ok { st with caches := dedupCaches ((consistent.map (fun c => (subsets.map (fun s => addMany st.cap c s)).flatten)).flatten) }
    | _ => .error "bad token"
  | _ => .error "bad op"

def getParam (ws : List String) (k : String) : Option String :=
  ws.findSome? (fun w => match w.splitOn "=" with | [a, b] => if a == k then some b else none | _ => none)

def runCs (ws : List String) (impl : String) : String :=
  match (getParam ws "n").bind String.toNat?, (getParam ws "cap").bind String.toNat?, getParam ws "ops" with
  | some n, some cap, some opsS =>
    let ops := (opsS.splitOn ".").filter (· ≠ "")
    let implT := impl.trimAscii.toString
    if implT.startsWith "e2e-skip" then implT else
    let toks := implT.splitOn " ; "
    if toks.length != ops.length then "REJECT token count" else
    let st0 : CsState := ⟨n, cap, [], [], [[]]⟩
    let r := (ops.zip toks).foldl (fun (acc : Except String CsState) (op, tok) =>
      match acc with
      | .error e => .error e
      | .ok st => match csStep st op tok with | .error e => .error s!"{op}: {e}" | .ok st' => .ok st') (.ok st0)
    match r with
    | .ok _ => implT
    | .error e => "REJECT " ++ e
  | _, _, _ => "bad-case"

def run (case impl : String) : String :=
  match words case with
  | ["pb", cfg, fail, items] => runPb cfg fail items
  | "cs" :: rest => runCs rest impl
  | _ => "bad-case"

end ScyllaVerif.Drive.C14Session

import ScyllaVerif.Model.Util
import ScyllaVerif.Model.Prepared
import ScyllaVerif.Model.PreparedSession
import ScyllaVerif.Model.PreparedCacheConc
/-! Drivers of the `pb` (Connection::prepare_batch) and `cs` (CachingSession / Session::prepare) cases of C14.
`pb` is computed from the model (`connPrepareBatch`, any set order: the PREPARE texts are printed sorted).
`cs` is a CHECKER: which cache entry is evicted (`DashMap::iter().next()`) and in which order concurrent misses are
inserted cannot be known, so the driver keeps the SET of cache contents the model can be in, filters it with what the
implementation's line shows (PREPARE frames = miss, none = hit), and echoes the implementation's token iff it is
producible (`REJECT …` otherwise). -/
namespace ScyllaVerif.Drive.C14Session
open ScyllaVerif.Util ScyllaVerif.PreparedSession
open ScyllaVerif.Prepared (textV hexOfString)

def textOf (s : Nat) : String := textV s ((s * 3 + 1) % 8)

/-! ## pb -/

inductive Item | p (s : Nat) | qv (s : Nat) | qe (s : Nat)

def parseItem (w : String) : Option Item :=
  match w.toList with
  | 'P' :: rest => (String.ofList rest).toNat?.bind (fun s => if s < 8 then some (.p s) else none)
  | 'Q' :: rest =>
    match rest.reverse with
    | 'v' :: r => (String.ofList r.reverse).toNat?.bind (fun s => if s < 8 then some (.qv s) else none)
    | 'e' :: r => (String.ofList r.reverse).toNat?.bind (fun s => if s < 8 then some (.qe s) else none)
    | _ => none
  | _ => none

def insertSorted (t : String) : List String → List String
  | [] => [t]
  | x :: xs => if t == x then x :: xs else if t < x then t :: x :: xs else x :: insertSorted t xs

def optS (f : α → String) : Option α → String
  | none => "-"
  | some x => f x

def showVals (v : List Nat) : String := if v.isEmpty then "-" else "+".intercalate (v.map toString)

def showF : FStmt → String
  | .byText t v => s!"t:{hexOfString t}/{showVals v}"
  | .byId id v => s!"i:{hexOfString id}#0/{showVals v}"

def runPb (cfg fail items ev : String) : String :=
  match cfg.splitOn ".", (if items == "-" then some [] else (items.splitOn ",").mapM parseItem) with
  | [cl, scl, ts], some its =>
    match cl.toNat?, (if scl == "-" then some none else scl.toNat?.map some),
          (if ts == "-" then some none else ts.toNat?.map some),
          (if fail == "-" then some none else (fail.toNat?.bind (fun f => if f < 8 then some (some f) else none))) with
    | some cl, some scl, some ts, some fail =>
      if its.length > 12 || its.any (fun | .p s => s % 2 == 1 | .qv s => s % 2 == 1 | .qe s => s % 2 == 0) then "bad-case" else
      let stmts : List BStmt := its.map (fun
        | .p s => .prepared ⟨textOf s, textOf s, Cfg.default, 5000, false⟩
        | .qv s => .query ⟨textOf s, Cfg.default, 5000⟩
        | .qe s => .query ⟨textOf s, Cfg.default, 5000⟩)
      let vals : List (List Nat) := its.zipIdx.map (fun (it, j) => match it with | .qe _ => [] | _ => [j + 1])
      let b : Batch := ⟨1, ⟨some cl, scl, ts.map Int.ofNat, false⟩, stmts⟩
      let failText := fail.map textOf
      let prep : String → Except Nat String := fun t => if some t == failText then .error 0x2200 else .ok t
      let order := (wantsPrepare stmts vals).foldl (fun acc t => insertSorted t acc) []
      match connPrepareBatch prep order b vals with
      | .error (e, _) => s!"prep=* | frame=- | res=err:DbError:{e}"
      | .ok (b', sent) =>
        -- server-side eviction on the rebuilt batch: the ids at the named positions, one per BATCH frame
        let positions : List Nat := if ev == "-" then [] else (ev.splitOn ".").filterMap String.toNat?
        let script : List String := positions.filterMap (fun pos => match (b'.stmts[pos]? : Option BStmt) with
          | some (BStmt.prepared p) => some p.id | _ => none)
        let rounds := (batchRounds b' script).filterMap id
        let reS := if rounds.isEmpty then "-" else ",".intercalate (rounds.map hexOfString)
        let fr := frameStmts b'.stmts vals
        let items := if fr.isEmpty then "-" else ",".intercalate (fr.map showF)
        let prepS := if sent.isEmpty then "-" else ",".intercalate (sent.map hexOfString)
        s!"prep={prepS} | frame=ty{b'.ty} {items} cl={optS toString b'.cfg.cl} scl={optS toString b'.cfg.scl} ts={optS toString b'.cfg.ts} | re={reS} | res=ok"
    | _, _, _, _ => "bad-case"
  | _, _ => "bad-case"

/-! ## cs (checker)

The checker EXECUTES the model (`Model/PreparedSession.lean`): `cacheGet`, `addPrepared`, `cacheAdd` (hence `evictLoop`,
`cacheInsert`), `cachingBatch` (hence `resolveAll`, `missed`, `allPrepared`), `prepareNongeneric` (hence `prepareOnAll`,
`afterFirstOk`, `allSame`). What the model takes as arguments is enumerated here: the victim the map's iterator yields
(`pick`: every choice), the order in which concurrent preparations complete (every permutation), the order in which
the connections are iterated (every permutation of the per-node answers the harness prints). The candidate set is the
set of caches the MODEL can be in; a line is echoed iff some candidate produces exactly it. -/

def csTexts : List String :=
  ["SELECT pk, v FROM ks.t WHERE pk = ?", "  SELECT pk, v FROM ks.t WHERE pk = ?\n", "select pk, v from ks.t where pk = ?;",
   "INSERT INTO ks.t (pk, v) VALUES (?, 1) -- ü ☃", "INSERT INTO ks.t (pk, v)\n  VALUES (?, 2)"]

def textNo (s : String) : Nat := (csTexts.findIdx? (· == s)).getD 99

def removeNth : List α → Nat → List α
  | [], _ => []
  | _ :: xs, 0 => xs
  | x :: xs, n + 1 => x :: removeNth xs n

/-- all permutations (small lists; `fuel` ≥ length) -/
def perms : Nat → List α → List (List α)
  | _, [] => [[]]
  | 0, _ => []
  | fuel + 1, xs => ((List.range xs.length).map (fun i => match xs[i]? with
      | some x => (perms fuel (removeNth xs i)).map (x :: ·)
      | none => [])).flatten

/-- a `pick` for the model: which key the map's iterator yields, as a function of the cache (by its length) -/
def pickOf (script : List Nat) : Cache → String :=
  fun c => ((c[(script.getD c.length 0) % (max c.length 1)]?).map (·.1)).getD ""

/-- all scripts for caches of length ≤ `len`: one index per length -/
def scripts : Nat → List (List Nat)
  | 0 => [[0]]
  | len + 1 => ((scripts len).map (fun s => (List.range (len + 1)).map (fun i => s ++ [i]))).flatten

def normCache (c : Cache) : Cache := c.mergeSort (fun a b => a.1 ≤ b.1)

def dedupC (cs : List Cache) : List Cache := (cs.map normCache).eraseDups

/-- every cache the model's `cacheAdd` can produce -/
def cacheAddChoices (cap : Nat) (c : Cache) (s : PStmt) : List Cache :=
  dedupC ((scripts c.length).map (fun sc => cacheAdd cap (pickOf sc) c s))

/-- the per-node answers of one text, as printed by the harness: `o<variant>*<frames>` / `e<code>*<frames>` -/
structure NodeAns where
  ans : Except Nat String
  frames : Nat

def parseAns (text : String) (w : String) : Option NodeAns :=
  match w.splitOn "*" with
  | [a, c] =>
    match a.toList, c.toNat? with
    | 'o' :: v, some c => some ⟨.ok (text ++ "#" ++ String.ofList v), c⟩
    | 'e' :: code, some c => (String.ofList code).toNat?.map (fun e => ⟨.error e, c⟩)
    | _, _ => none
  | _ => none

/-- `pa=t0@o0*1,e8704*1+t3@…` -/
def parsePa (s : String) : Option (List (Nat × List NodeAns)) :=
  if s == "-" then some []
  else (s.splitOn "+").mapM (fun part => match part.splitOn "@" with
    | [th, rest] =>
      match th.toList with
      | 't' :: d =>
        match (String.ofList d).toNat? with
        | some t => ((rest.splitOn ",").mapM (parseAns (csTexts.getD t ""))).map (fun l => (t, l))
        | none => none
      | _ => none
    | _ => none)

instance : BEq (Except PErr String) :=
  ⟨fun a b => match a, b with
    | .ok x, .ok y => x == y
    | .error x, .error y => decide (x = y)
    | _, _ => false⟩

def perrLabel : PErr → String
  | .allAttemptsFailed e => s!"err:prep:allfailed:{e}"
  | .idsMismatch => "err:prep:mismatch"
  | .noConnections => "err:pool"

/-- the outcomes `Session::prepare` can have for these per-node answers (any iteration order of the connections;
`conns` connections per node in the per-shard attempt), computed by the MODEL's `prepareNongeneric` -/
def prepareOutcomes (conns : Nat) (answers : List NodeAns) : List (Except PErr String) :=
  ((perms answers.length (answers.map (·.ans))).map (fun p =>
    prepareNongeneric p ((p.map (fun a => List.replicate conns a)).flatten))).eraseDups

/-- frames per node for `calls` preparations: one each, plus `conns` each if the per-node attempt failed -/
def framesOk (conns calls : Nat) (answers : List NodeAns) : Bool :=
  let firstOk := match prepareOnAll (answers.map (·.ans)) with | .ok _ => true | .error _ => false
  answers.all (fun a => a.frames == calls * (1 + (if firstOk then 0 else conns)))

structure CsState where
  n : Nat
  conns : Nat
  cap : Nat
  u : Bool
  cands : List Cache

def showIdHex (id : String) : String :=
  match id.splitOn "#" with
  | [] => ""
  | parts => hexOfString ("#".intercalate parts.dropLast) ++ "#" ++ parts.getLastD ""

def hex2 (n : Nat) : String := ScyllaVerif.Prepared.hexByte n

def cfgOf (k : Nat) : Cfg × Nat :=
  match k with
  | 0 => (⟨some 1, none, none, false⟩, 7)
  | 1 => (⟨some 4, none, none, true⟩, 5000)
  | _ => (⟨some 6, none, none, false⟩, 123)

/-- the EXECUTE the session sends for a handle (execute_single_page): id, the caller's value, the HANDLE's consistency,
skip_metadata = the handle's use_cached flag (for statements with result columns), the HANDLE's page size -/
def execToken (h : PStmt) (idx t : Nat) : String :=
  s!"EXEC {showIdHex h.id} v=x{hex2 idx}{hex2 t} cl={optS toString h.cfg.cl} sk={if h.useCached && t < 3 then 1 else 0} pg={h.page}"

def batchToken (b : Batch) (idx : Nat) : String :=
  let items := b.stmts.zipIdx.map (fun (s, j) => match s with
    | .prepared p => s!"i:{showIdHex p.id}/x{hex2 idx}{hex2 j}"
    | .query q => s!"t:{hexOfString q.text}/x{hex2 idx}{hex2 j}")
  s!"ty{b.ty} {",".intercalate items} cl={optS toString b.cfg.cl} scl={optS toString b.cfg.scl} ts={optS toString b.cfg.ts}"

def digitAt (cs : List Char) (i : Nat) : Option Nat :=
  match cs[i]? with
  | some c => if c.isDigit then some (c.toNat - 48) else none
  | none => none

def toNatErr : Except PErr String → Except Nat String
  | .ok id => .ok id
  | .error (.allAttemptsFailed e) => .error e
  | .error .idsMismatch => .error 1
  | .error .noConnections => .error 2

/-! ### concurrent callers (`c<t><t>…`): every interleaving of the MODEL `PreparedCacheConc.step` -/

namespace Conc
open ScyllaVerif.PreparedCacheConc

def pcKey : Pc → String
  | .idle => "i"
  | .lookup t => "l" ++ t
  | .preparing t => "p" ++ t
  | .loopHead e => "h" ++ e.text ++ "/" ++ e.id
  | .picking e => "k" ++ e.text ++ "/" ++ e.id
  | .removing e v => "r" ++ e.text ++ "/" ++ e.id ++ "/" ++ v
  | .inserting e => "n" ++ e.text ++ "/" ++ e.id
  | .done e m => "d" ++ e.text ++ "/" ++ e.id ++ (if m then "+" else "-")
  | .failed c => "f" ++ toString c

def stKey (m : Nat) (st : State) : String :=
  let c := (st.cache.map (fun e => e.text ++ "/" ++ e.id)).mergeSort (· ≤ ·)
  "|".intercalate c ++ "#" ++ "|".intercalate ((List.range m).map (fun k => pcKey (st.pc k)))

def finished (m : Nat) (st : State) : Bool :=
  (List.range m).all (fun k => match st.pc k with | .done _ _ | .failed _ => true | _ => false)

def dedupSt (m : Nat) (sts : List State) : List State :=
  (sts.foldl (fun (acc : List (String × State)) s =>
    let k := stKey m s
    if acc.any (·.1 == k) then acc else (k, s) :: acc) []).map (·.2)

/-- all successors of a state: every caller that can move, every `iter().next()` choice -/
def successors (cap : Nat) (prep : String → Except Nat String) (m : Nat) (st : State) : List State :=
  ((List.range m).map (fun k =>
    match st.pc k with
    | .done _ _ | .failed _ | .idle => []
    | .picking _ => (List.range (max st.cache.length 1)).map (fun c => step cap prep st k c)
    | _ => [step cap prep st k 0])).flatten

/-- every terminal state reachable by some interleaving -/
def explore (cap : Nat) (prep : String → Except Nat String) (m : Nat) : Nat → List State → List State → List State
  | 0, _, acc => acc
  | fuel + 1, frontier, acc =>
    if frontier.isEmpty then acc else
    let next := dedupSt m ((frontier.map (successors cap prep m)).flatten)
    let (fin, rest) := next.partition (finished m)
    explore cap prep m fuel rest (dedupSt m (acc ++ fin))

/-- every state reachable at all (for operations that are cut short by an error) -/
def exploreAll (cap : Nat) (prep : String → Except Nat String) (m : Nat) : Nat → List State → List State → List State
  | 0, _, acc => acc
  | fuel + 1, frontier, acc =>
    if frontier.isEmpty then acc else
    let next := dedupSt m ((frontier.map (successors cap prep m)).flatten)
    exploreAll cap prep m fuel (next.filter (fun s => !(finished m s))) (dedupSt m (acc ++ next))

end Conc

/-- one op: the candidate caches after it, or why the implementation's token is not producible by the model -/
def csStep (st : CsState) (idx : Nat) (op tok : String) : Except String CsState :=
  let cs := op.toList
  match cs with
  | 'M' :: _ | 'N' :: _ | 'F' :: _ | 'G' :: _ | 'V' :: _ => if tok == op then .ok st else .error "event token"
  | 'x' :: _ =>
    match digitAt cs 1, digitAt cs 3, tok.splitOn "~" with
    | some t, some k, [opE, paE, frame, res] =>
      if opE != op then .error "op echo" else
      match parsePa ((paE.splitOn "pa=").getLastD "") with
      | none => .error "unparsable pa"
      | some pa =>
        let (cfg, page) := cfgOf k
        let q : Query := ⟨csTexts.getD t "", cfg, page⟩
        -- every way the MODEL's add_prepared_statement can go from every candidate cache
        let outcomes : List (Except PErr String) := match pa.lookup t with
          | some answers => if framesOk st.conns 1 answers then prepareOutcomes st.conns answers else []
          | none => []
        let fromCache (c : Cache) : List (Option Cache) :=
          match cacheGet q.text c with
          | some _ =>
            -- a hit: nothing may have been prepared
            if !pa.isEmpty then [] else
            match addPrepared st.cap st.u (fun _ => .error 0) (pickOf []) c q with
            | .ok (h, c', false) => if frame == execToken h idx t && res == "ok" then [some c'] else []
            | _ => []
          | none =>
            if pa.length != 1 then [] else
            let perOutcome (o : Except PErr String) : List (Option Cache) :=
              (scripts c.length).map (fun sc =>
                match addPrepared st.cap st.u (fun _ => toNatErr o) (pickOf sc) c q with
                | .ok (h, c', true) => if frame == execToken h idx t && res == "ok" then some c' else none
                | .error _ =>
                  (match o with
                   | .error pe => if res == perrLabel pe && frame == "-" then some c else none
                   | .ok _ => none)
                | _ => none)
            (outcomes.map perOutcome).flatten
        let results : List (Option Cache) := (st.cands.map fromCache).flatten
        let next := dedupC (results.filterMap id)
        if next.isEmpty then .error s!"not producible by the model from any of its {st.cands.length} cache(s)" else .ok { st with cands := next }
    | _, _, _ => .error "bad token"
  | 'b' :: body =>
    match tok.splitOn "~" with
    | [opE, paE, frame, res] =>
      if opE != op then .error "op echo" else
      match parsePa ((paE.splitOn "pa=").getLastD "") with
      | none => .error "unparsable pa"
      | some pa =>
        let stmts : List BStmt := (List.range (body.length / 2)).filterMap (fun j =>
          match body[2 * j]?, digitAt body (2 * j + 1) with
          | some 'q', some t => some (.query ⟨csTexts.getD t "", Cfg.default, 5000⟩)
          | some 'p', some t => some (.prepared ⟨csTexts.getD t "" ++ "#0", csTexts.getD t "", Cfg.default, 5000, false⟩)
          | _, _ => none)
        let b : Batch := ⟨1, ⟨some 4, some 9, some (Int.ofNat (1000 + idx)), idx % 2 == 0⟩, stmts⟩
        -- `try_join_all`: the unprepared statements of the batch are CONCURRENT callers of add_prepared_statement on the one
        -- cache (Model/PreparedCacheConc.lean); the all-lookups-first schedule is `cachingBatch` (Model/PreparedSession.lean)
        let qTexts : List Nat := stmts.filterMap (fun s => match s with | .query q => some (textNo q.text) | .prepared _ => none)
        let m := qTexts.length
        let prepOf (text : String) : Except Nat String :=
          match pa.lookup (textNo text) with
          | some answers => (match (prepareOutcomes st.conns answers).head? with | some o => toNatErr o | none => .error 0)
          | none => .error 0
        let errLabels : List String := (pa.map (fun (_, answers) => (prepareOutcomes st.conns answers).filterMap (fun o =>
          match o with | .error pe => some (perrLabel pe) | .ok _ => none))).flatten
        let results : List Cache := (st.cands.map (fun c =>
          if allPrepared b then
            (match cachingBatch st.u prepOf c b with
             | .ok (b', _) => if pa.isEmpty && frame == batchToken b' idx && res == "ok" then [c] else []
             | .error _ => [])
          else
          let cache0 : ScyllaVerif.PreparedCacheConc.Cache := c.zipIdx.map (fun ((tx, p), i) => ⟨tx, p.id, i⟩)
          let s0 : ScyllaVerif.PreparedCacheConc.State :=
            ⟨cache0, fun k => match qTexts[k]? with | some tx => .lookup (csTexts.getD tx "") | none => .idle, cache0.length⟩
          let callsOf (f : ScyllaVerif.PreparedCacheConc.State) (tx : Nat) : Nat :=
            ((List.range m).filter (fun k => qTexts[k]? == some tx && (match f.pc k with
              | .done _ true | .failed _ | .loopHead _ | .picking _ | .removing _ _ | .inserting _ | .preparing _ => true | _ => false))).length
          let framesFine (f : ScyllaVerif.PreparedCacheConc.State) : Bool := (List.range 5).all (fun tx => match pa.lookup tx with
            | some answers => callsOf f tx > 0 && framesOk st.conns (callsOf f tx) answers
            | none => callsOf f tx == 0)
          let toCache (f : ScyllaVerif.PreparedCacheConc.State) : Cache :=
            f.cache.map (fun e => (e.text, (⟨e.id, e.text, Cfg.default, 5000, st.u⟩ : PStmt)))
          if res == "ok" then
            let finals := Conc.explore st.cap prepOf m (12 * m + 12) [s0] []
            finals.filterMap (fun f =>
              -- the batch handed on: prepared statements as they are, every unprepared one replaced by ITS caller's handle
              let handles : List (Option PStmt) := (List.range m).map (fun k => match f.pc k with
                | .done e _ => some ⟨e.id, e.text, Cfg.default, 5000, st.u⟩ | _ => none)
              if handles.any (·.isNone) then none else
              let (rebuilt, _) := stmts.foldl (fun (acc : List BStmt × Nat) s => match s with
                | .prepared p => (acc.1 ++ [.prepared p], acc.2)
                | .query _ => (acc.1 ++ [match (handles.getD acc.2 none) with | some h => .prepared h | none => s], acc.2 + 1)) ([], 0)
              if frame == batchToken { b with stmts := rebuilt } idx && framesFine f then some (toCache f) else none)
          else
            -- a preparation failed: the call ends with that error at some point of some interleaving
            if !errLabels.contains res || frame != "-" then [] else
            ((Conc.exploreAll st.cap prepOf m (12 * m + 12) [s0] [s0]).filter (fun f =>
              (List.range m).any (fun k => match f.pc k with | .failed _ => true | _ => false))).map toCache)).flatten
        let next := dedupC results
        if next.isEmpty then .error s!"not producible by the model from any of its {st.cands.length} cache(s)" else .ok { st with cands := next }
    | _ => .error "bad token"
  | 's' :: body =>
    -- Session::prepare_batch: the MODEL's `sessionPrepareBatch` with `prep` = the outcome of `prepareNongeneric` on the
    -- per-node answers printed by the harness (every outcome some connection order gives, per text)
    match tok.splitOn "~" with
    | [opE, paE, stE, res] =>
      if opE != op then .error "op echo" else
      match parsePa ((paE.splitOn "pa=").getLastD "") with
      | none => .error "unparsable pa"
      | some pa =>
        let stmts : List BStmt := (List.range (body.length / 2)).filterMap (fun j =>
          match body[2 * j]?, digitAt body (2 * j + 1) with
          | some 'q', some t => some (.query ⟨csTexts.getD t "", ⟨some ([1, 4, 6].getD (j % 3) 0), none, none, false⟩, 100 + j⟩)
          | some 'p', some t => some (.prepared ⟨csTexts.getD t "" ++ "#0", csTexts.getD t "", Cfg.default, 5000, false⟩)
          | _, _ => none)
        let b : Batch := ⟨1, ⟨some 4, none, some (Int.ofNat (2000 + idx)), false⟩, stmts⟩
        let asked := sessionPrepareAsked stmts
        let askedNos := (asked.map textNo).eraseDups
        -- nothing but the unprepared statements' texts is prepared
        if !(pa.all (fun (t, _) => askedNos.contains t)) then .error "a text was prepared that the model does not ask about" else
        -- per text: the outcomes the model allows
        let perText : List (Nat × List (Except PErr String)) := askedNos.map (fun t => (t, match pa.lookup t with
          | some answers => prepareOutcomes st.conns answers
          | none => []))
        -- every assignment of one outcome per text
        let assigns : List (List (Nat × Except PErr String)) := perText.foldl (fun acc (t, os) =>
          (acc.map (fun a => os.map (fun o => a ++ [(t, o)]))).flatten) [[]]
        let shown (b' : Batch) : String := ",".intercalate (b'.stmts.map (fun s => match s with
          | .prepared p => s!"{showIdHex p.id}/{p.page}/{optS toString p.cfg.cl}"
          | .query _ => "unprepared"))
        let okFrames : Bool := askedNos.all (fun t => match pa.lookup t with
          | some answers => framesOk st.conns ((asked.filter (fun x => textNo x == t)).length) answers
          | none => false)
        let good := assigns.any (fun a =>
          let prep : String → Except PErr String := fun text => match a.lookup (textNo text) with
            | some o => o | none => .error .noConnections
          match sessionPrepareBatch prep b with
          | .ok b' => res == "ok" && stE == "st=" ++ shown b' && okFrames
          -- a failed call drops its other preparations: their frames may or may not have been sent
          | .error es => stE == "st=-" && (es.map perrLabel).contains res)
        -- a failure is also possible while the frames of the failing text are the only ones seen
        let goodPartial := res != "ok" && stE == "st=-" &&
          (pa.any (fun (_, answers) => ((prepareOutcomes st.conns answers).any (fun o => match o with
            | .error pe => perrLabel pe == res | .ok _ => false))))
        if good || goodPartial then .ok st else .error "not producible by the model's sessionPrepareBatch"
    | _ => .error "bad token"
  | 'c' :: body =>
    match tok.splitOn "~" with
    | [opE, paE, idsE, res] =>
      if opE != op then .error "op echo" else
      match parsePa ((paE.splitOn "pa=").getLastD ""), body.mapM (fun ch => if ch.isDigit && ch.toNat - 48 < 5 then some (ch.toNat - 48) else none) with
      | some pa, some texts =>
        let m := texts.length
        let obsIds := ((idsE.splitOn "ids=").getLastD "").splitOn ","
        if obsIds.length != m || res != "ok" then .error "ids" else
        -- what the cluster answers for a text now (per-node answers printed by the harness; `prepareNongeneric`)
        let prepOf (text : String) : Except Nat String :=
          match pa.lookup (textNo text) with
          | some answers => (match (prepareOutcomes st.conns answers).head? with | some o => toNatErr o | none => .error 0)
          | none => .error 0
        let results : List Cache := (st.cands.map (fun c =>
          let cache0 : ScyllaVerif.PreparedCacheConc.Cache := c.zipIdx.map (fun ((t, p), i) => ⟨t, p.id, i⟩)
          let s0 : ScyllaVerif.PreparedCacheConc.State :=
            ⟨cache0, fun k => match texts[k]? with | some t => .lookup (csTexts.getD t "") | none => .idle, cache0.length⟩
          let finals := Conc.explore st.cap prepOf m (12 * m + 12) [s0] []
          (finals.filterMap (fun f =>
            -- the handles the callers got
            let idsOk := (List.range m).all (fun k => match f.pc k with
              | .done e _ => obsIds[k]? == some (showIdHex e.id)
              | .failed _ => obsIds[k]? == some "E"
              | _ => false)
            -- the cluster was asked once per miss: frames per node
            let callsOf (t : Nat) : Nat := ((List.range m).filter (fun k => texts[k]? == some t && (match f.pc k with
              | .done _ true | .failed _ => true | _ => false))).length
            let framesFine := (List.range 5).all (fun t => match pa.lookup t with
              | some answers => callsOf t > 0 && framesOk st.conns (callsOf t) answers
              | none => callsOf t == 0)
            if idsOk && framesFine then
              some (f.cache.map (fun e => (e.text, (⟨e.id, e.text, Cfg.default, 5000, st.u⟩ : PStmt)))) else none)))).flatten
        let next := dedupC results
        if next.isEmpty then .error s!"no interleaving of the concurrent model produces this from any of its {st.cands.length} cache(s)" else .ok { st with cands := next }
      | _, _ => .error "unparsable"
    | _ => .error "bad token"
  | _ => .error "bad op"

def getParam (ws : List String) (k : String) : Option String :=
  ws.findSome? (fun w => match w.splitOn "=" with | [a, b] => if a == k then some b else none | _ => none)

def runCs (ws : List String) (impl : String) : String :=
  match (getParam ws "n").bind String.toNat?, (getParam ws "cap").bind String.toNat?, getParam ws "ops" with
  | some n, some cap, some opsS =>
    let u := getParam ws "u" == some "1"
    let sh := ((getParam ws "sh").bind String.toNat?).getD 0
    let ops := (opsS.splitOn ".").filter (· ≠ "")
    let opOk (op : String) : Bool :=
      let cs := op.toList
      match cs with
      | [c, a, 't', d] => (c == 'M' || c == 'N' || c == 'F' || c == 'G') && a.isDigit && (a.toNat - 48) < n && d.isDigit && (d.toNat - 48) < 5
      | ['V', a] => a.isDigit && (a.toNat - 48) < n
      | ['x', a, 'c', k] => a.isDigit && (a.toNat - 48) < 5 && k.isDigit && (k.toNat - 48) < 3
      | 'c' :: body => 1 ≤ body.length && body.length ≤ 3 && body.all (fun d => d.isDigit && (d.toNat - 48) < 5)
      | 'b' :: body | 's' :: body => body.length % 2 == 0 && !body.isEmpty && body.length ≤ 12 &&
          (List.range (body.length / 2)).all (fun j => (body[2 * j]? == some 'q' || body[2 * j]? == some 'p') &&
            (match body[2 * j + 1]? with | some d => d.isDigit && (d.toNat - 48) < 5 | none => false))
      | _ => false
    if !(1 ≤ n && n ≤ 4 && 1 ≤ cap && cap ≤ 8 && (sh == 0 || sh == 2 || sh == 3) && ops.length ≤ 60 && ops.all opOk) then "bad-case" else
    let implT := impl.trimAscii.toString
    if implT.startsWith "e2e-skip" then implT else
    let toks := implT.splitOn " ; "
    if toks.length != ops.length then "REJECT token count" else
    -- developer switch (never generated): `mut=1` / `mut=2` run the checker with a WRONG capacity (cap+1 / cap-1), to
    -- measure how often a wrong eviction decision is observable in the run
    let capM := match getParam ws "mut" with
      | some "1" => cap + 1
      | some "2" => max (cap - 1) 1
      | _ => cap
    let st0 : CsState := ⟨n, max sh 1, capM, u, [[]]⟩
    let r := ((ops.zip toks).zipIdx).foldl (fun (acc : Except String CsState) ((op, tok), idx) =>
      match acc with
      | .error e => .error e
      | .ok st => match csStep st idx op tok with | .error e => .error s!"{op}: {e}" | .ok st' => .ok st') (.ok st0)
    match r with
    | .ok _ => implT
    | .error e => "REJECT " ++ e
  | _, _, _ => "bad-case"

/-! ## cm (checker): CachingSession handles and the shared result metadata, connections WITH the metadata-id extension

`cm n=<n> cap=<cap> ops=<op>.<op>…`, texts 0-2 (the SELECT spellings). The harness keeps every handle it was given in a
numbered slot. Ops: `g<t>` one `add_prepared_statement`, handle → next slot; `c<t><t>…` concurrent callers, handles →
next slots in caller order; `A<t>` the schema changes (every node: the statement's result metadata version + 1);
`h<j>` `Session::execute_unpaged` through the handle in slot j; `x<t>` `CachingSession::execute_unpaged(text)`;
`V<node>` the node forgets its prepared statements; `F<node>` / `G<node>` the node refuses / accepts PREPAREs (never node 0).
Tokens: `<op>~p=<n0>.<n1>.<n2>` (preparations per text), `…~mid=<version presented>~chg=<node answered METADATA_CHANGED>`.
The checker keeps the set of (cache with cells, cell of every slot, version held by every cell) the MODEL
(`PreparedCacheConc.step`, `execThrough`, `newCell`) can be in. -/

namespace Cm
open ScyllaVerif.PreparedCacheConc

structure St where
  cache : PreparedCacheConc.Cache
  /-- (text number, cell) of every handle the harness holds -/
  slots : List (Nat × Nat)
  /-- version held by each cell -/
  cells : List (Nat × Nat)

def cellsFn (cells : List (Nat × Nat)) : Cells := fun c => (cells.lookup c).getD 0

/-- cells renamed in order of first appearance (slots, then the cache by text); unreferenced cells dropped -/
def canon (s : St) : St :=
  let cacheS := s.cache.mergeSort (fun a b => a.text ≤ b.text)
  let order := ((s.slots.map (·.2)) ++ cacheS.map (·.cell)).eraseDups
  let ren (c : Nat) : Nat := (order.findIdx? (· == c)).getD 0
  ⟨cacheS.map (fun e => ⟨e.text, e.id, ren e.cell⟩), s.slots.map (fun (t, c) => (t, ren c)),
   order.zipIdx.map (fun (c, i) => (i, cellsFn s.cells c))⟩

def key (s : St) : String :=
  "|".intercalate (s.cache.map (fun e => s!"{textNo e.text}:{e.cell}")) ++ "#" ++
  "|".intercalate (s.slots.map (fun (t, c) => s!"{t}:{c}")) ++ "#" ++
  "|".intercalate (s.cells.map (fun (c, v) => s!"{c}:{v}"))

def dedup (ss : List St) : List St :=
  ((ss.map canon).foldl (fun (acc : List (String × St)) s =>
    let k := key s
    if acc.any (·.1 == k) then acc else (k, s) :: acc) []).map (·.2)

def pcKeyC : Pc → String
  | .loopHead e => "h" ++ e.text ++ "/" ++ toString e.cell
  | .picking e => "k" ++ e.text ++ "/" ++ toString e.cell
  | .removing e v => "r" ++ e.text ++ "/" ++ toString e.cell ++ "/" ++ v
  | .inserting e => "n" ++ e.text ++ "/" ++ toString e.cell
  | .done e m => "d" ++ e.text ++ "/" ++ toString e.cell ++ (if m then "+" else "-")
  | p => Conc.pcKey p

def stKeyC (m : Nat) (st : State) : String :=
  let c := (st.cache.map (fun e => e.text ++ "/" ++ toString e.cell)).mergeSort (· ≤ ·)
  "|".intercalate c ++ "#" ++ "|".intercalate ((List.range m).map (fun k => pcKeyC (st.pc k))) ++ "#" ++ toString st.nextCell

def dedupStC (m : Nat) (sts : List State) : List State :=
  (sts.foldl (fun (acc : List (String × State)) s =>
    let k := stKeyC m s
    if acc.any (·.1 == k) then acc else (k, s) :: acc) []).map (·.2)

/-- every terminal state reachable by some interleaving, statement objects (cells) kept apart -/
def exploreC (cap : Nat) (prep : String → Except Nat String) (m : Nat) : Nat → List State → List State → List State
  | 0, _, acc => acc
  | fuel + 1, frontier, acc =>
    if frontier.isEmpty then acc else
    let next := dedupStC m ((frontier.map (Conc.successors cap prep m)).flatten)
    let (fin, rest) := next.partition (Conc.finished m)
    exploreC cap prep m fuel rest (dedupStC m (acc ++ fin))

def cmTexts : List String := csTexts.take 3

def prepOk : String → Except Nat String := fun t => .ok (t ++ "#0")

def showP (ps : List Nat) : String := ".".intercalate (ps.map toString)

/-- `texts` (one caller each) call add_prepared_statement at once on candidate `s`: every outcome as
(new state WITHOUT the new handles in slots, the callers' handles (text, cell), preparations per text) -/
def adds (mu cap : Nat) (srv : List Nat) (s : St) (texts : List Nat) : List (St × List (Nat × Nat) × List Nat) :=
  let m := texts.length
  let next0 := (s.cells.map (·.1)).foldl (fun a c => max a (c + 1)) 0
  let s0 : State := ⟨s.cache, fun k => match texts[k]? with | some t => .lookup (cmTexts.getD t "") | none => .idle, next0⟩
  (exploreC cap prepOk m (12 * m + 12) [s0] []).filterMap (fun f =>
    let hs : List (Option (Nat × Nat × Bool)) := (List.range m).map (fun k => match f.pc k with
      | .done e missed => some (textNo e.text, e.cell, missed) | _ => none)
    if hs.any (·.isNone) then none else
    let hs' := hs.filterMap id
    -- a statement object made by a preparation holds the version the cluster announces now
    let cells' := (hs'.filter (·.2.2)).foldl (fun (acc : List (Nat × Nat)) (t, c, _) =>
      let fn := newCell (cellsFn acc) c (srv.getD t 0)
      (c, fn c) :: acc) s.cells
    let counts := (List.range 3).map (fun t => (hs'.filter (fun h => h.1 == t && h.2.2)).length)
    -- developer switch `mut=3` (never generated): a hit hands out a COPY of the statement object (no sharing)
    let (hsM, cellsM) := if mu != 3 then (hs'.map (fun (t, c, _) => (t, c)), cells') else
      (hs'.zipIdx.foldl (fun (acc : List (Nat × Nat) × List (Nat × Nat)) ((t, c, missed), i) =>
        if missed then (acc.1 ++ [(t, c)], acc.2) else
        let fresh := f.nextCell + 100 + i
        (acc.1 ++ [(t, fresh)], (fresh, cellsFn acc.2 c) :: acc.2)) ([], cells'))
    some (⟨f.cache, s.slots, cellsM⟩, hsM, counts))

/-- one execution through a handle on `cell` of text `t`: presented version, changed?, the state after -/
def execH (mu : Nat) (srv : List Nat) (s : St) (t cell : Nat) : Nat × Bool × St :=
  let r := execThrough (cellsFn s.cells) cell (srv.getD t 0)
  -- developer switch `mut=4` (never generated): every statement object of the text learns what one was told
  let same : List Nat := if mu != 4 then [] else
    (s.slots.filter (·.1 == t)).map (·.2) ++ (s.cache.filter (fun e => textNo e.text == t)).map (·.cell)
  let cells1 := (cell, r.2.2 cell) :: s.cells.filter (·.1 != cell)
  (r.1, r.2.1, { s with cells := cells1.map (fun (c, v) => if same.contains c then (c, r.2.2 cell) else (c, v)) })

def b01 (b : Bool) : String := if b then "1" else "0"

structure Ck where
  srv : List Nat
  cands : List St
  /-- per node: refuses PREPAREs; the texts it holds prepared -/
  refusing : List Bool
  held : List (List Nat)

/-- after a preparation of text `t` every node that does not refuse holds it -/
def holdAll (ck : Ck) (ps : List Nat) : Ck :=
  { ck with held := ck.held.zipIdx.map (fun (h, node) =>
      if ck.refusing.getD node false then h else h ++ ((List.range 3).filter (fun t => ps.getD t 0 > 0 && !h.contains t))) }

/-- the execution part of a token: `mid=<P>~u=-~chg=<C>` (a node that holds the statement), `mid=<P>~u=<k>~re=<S>~chg=<C>`
(node k answered UNPREPARED, was re-prepared: the statement object now holds what the PREPARED announced - `newCell` -
and the EXECUTE is sent again), `mid=<P>~u=<k>~err` (node k refused the re-preparation: nothing changes).
Returns the new state and the node that now holds the text, if any. -/
def execTok (mu : Nat) (ck : Ck) (s : St) (t cell : Nat) (rest : String) : Option (St × Option Nat) :=
  let presented := cellsFn s.cells cell
  let holders := (List.range ck.held.length).filter (fun node => (ck.held.getD node []).contains t)
  match rest.splitOn "~" with
  | [m, "u=-", c] =>
    let (pres, chg, s') := execH mu ck.srv s t cell
    if !holders.isEmpty && m == s!"mid={pres}" && c == s!"chg={b01 chg}" then some (s', none) else none
  | [m, u, "err"] =>
    match ((u.splitOn "u=").getLastD "").toNat? with
    | some node =>
      if node < ck.held.length && !holders.contains node && ck.refusing.getD node false && m == s!"mid={presented}" then some (s, none) else none
    | none => none
  | [m, u, re, c] =>
    match ((u.splitOn "u=").getLastD "").toNat? with
    | some node =>
      if !(node < ck.held.length && !holders.contains node && !(ck.refusing.getD node false) && m == s!"mid={presented}") then none else
      -- the re-preparation stores the announced (current) metadata in the statement object
      let s1 : St := { s with cells := (cell, newCell (cellsFn s.cells) cell (ck.srv.getD t 0) cell) :: s.cells.filter (·.1 != cell) }
      let (pres, chg, s2) := execH mu ck.srv s1 t cell
      if re == s!"re={pres}" && c == s!"chg={b01 chg}" then some (s2, some node) else none
    | none => none
  | _ => none

def holdOne (ck : Ck) (t : Nat) : Option Nat → Ck
  | none => ck
  | some node => { ck with held := ck.held.zipIdx.map (fun (h, i) => if i == node && !h.contains t then h ++ [t] else h) }

def stepCm (mu cap : Nat) (ck : Ck) (op tok : String) : Except String Ck :=
  let fin (next : List St) (ck' : Ck) : Except String Ck :=
    let d := dedup next
    if d.isEmpty then .error s!"not producible by the model from any of its {ck.cands.length} state(s)" else .ok { ck' with cands := d }
  -- `<op>~p=a.b.c~…`: the preparation counts, and the rest
  let pOf (rest : List String) : Option (List Nat × String) :=
    match rest with
    | p :: more =>
      (match ((p.splitOn "p=").getLastD "").splitOn "." |>.mapM String.toNat? with
       | some ps => if p.startsWith "p=" && ps.length == 3 then some (ps, "~".intercalate more) else none
       | none => none)
    | [] => none
  match op.toList with
  | ['A', d] =>
    let t := d.toNat - 48
    if tok != op then .error "event token" else
    .ok { ck with srv := ck.srv.zipIdx.map (fun (v, i) => if i == t then v + 1 else v) }
  | ['V', d] =>
    if tok != op then .error "event token" else
    .ok { ck with held := ck.held.zipIdx.map (fun (h, i) => if i == d.toNat - 48 then [] else h) }
  | ['F', d] | ['G', d] =>
    if tok != op then .error "event token" else
    .ok { ck with refusing := ck.refusing.zipIdx.map (fun (r, i) => if i == d.toNat - 48 then op.startsWith "F" else r) }
  | 'g' :: _ | 'c' :: _ =>
    let texts := (op.toList.drop 1).map (fun d => d.toNat - 48)
    match tok.splitOn "~" with
    | opE :: rest =>
      (match pOf rest with
       | some (psObs, "") =>
         if opE != op then .error "op echo" else
         fin ((ck.cands.map (fun s => (adds mu cap ck.srv s texts).filterMap (fun (s', hs, ps) =>
           if ps == psObs then some { s' with slots := s'.slots ++ hs } else none))).flatten) (holdAll ck psObs)
       | _ => .error "bad token")
    | [] => .error "bad token"
  | 'h' :: js =>
    match (String.ofList js).toNat?, tok.splitOn "~" with
    | some j, opE :: rest =>
      if opE != op then .error "op echo" else
      let results := ck.cands.filterMap (fun s => match s.slots[j]? with
        | none => none
        | some (t, cell) => (execTok mu ck s t cell ("~".intercalate rest)).map (fun (s', nd) => (s', t, nd)))
      (match results.head? with
       | some (_, t, nd) => fin (results.map (·.1)) (holdOne ck t nd)
       | none => fin [] ck)
    | _, _ => .error "bad op"
  | 'x' :: [d] =>
    let t := d.toNat - 48
    match tok.splitOn "~" with
    | opE :: rest =>
      (match pOf rest with
       | some (psObs, execPart) =>
         if opE != op then .error "op echo" else
         let ck1 := holdAll ck psObs
         let results := (ck.cands.map (fun s => (adds mu cap ck.srv s [t]).filterMap (fun (s', hs, ps) =>
           match hs with
           | [(t', cell)] => if ps == psObs then execTok mu ck1 s' t' cell execPart else none
           | _ => none))).flatten
         (match results.head? with
          | some (_, nd) => fin (results.map (·.1)) (holdOne ck1 t nd)
          | none => fin [] ck1)
       | none => .error "bad token")
    | [] => .error "bad token"
  | _ => .error "bad op"

def runCm (ws : List String) (impl : String) : String :=
  match (getParam ws "n").bind String.toNat?, (getParam ws "cap").bind String.toNat?, getParam ws "ops" with
  | some n, some cap, some opsS =>
    let ops := (opsS.splitOn ".").filter (· ≠ "")
    let d3 (c : Char) : Bool := c.isDigit && (c.toNat - 48) < 3
    -- slots are created by g / c only, in order: h<j> must name an existing one
    let (okOps, _) := ops.foldl (fun (acc : Bool × Nat) op => match op.toList with
      | ['A', d] | ['x', d] => (acc.1 && d3 d, acc.2)
      | ['V', d] => (acc.1 && d.isDigit && (d.toNat - 48) < n, acc.2)
      | ['F', d] | ['G', d] => (acc.1 && d.isDigit && 0 < (d.toNat - 48) && (d.toNat - 48) < n, acc.2)
      | ['g', d] => (acc.1 && d3 d, acc.2 + 1)
      | 'c' :: body => (acc.1 && 1 ≤ body.length && body.length ≤ 3 && body.all d3, acc.2 + body.length)
      | 'h' :: js => (acc.1 && !js.isEmpty && js.all Char.isDigit && js.length ≤ 2 && ((String.ofList js).toNat?.getD 99) < acc.2, acc.2)
      | _ => (false, acc.2)) (true, 0)
    if !(1 ≤ n && n ≤ 3 && 1 ≤ cap && cap ≤ 4 && ops.length ≤ 40 && okOps) then "bad-case" else
    let implT := impl.trimAscii.toString
    if implT.startsWith "e2e-skip" then implT else
    let toks := implT.splitOn " ; "
    if toks.length != ops.length then "REJECT token count" else
    -- developer switches (never generated): `mut=3` = every hit makes its own object (no sharing), `mut=4` = all
    -- objects of a text share, to measure how often a wrong sharing relation is observable in the run
    let mu := ((getParam ws "mut").bind String.toNat?).getD 0
    let r := (ops.zip toks).foldl (fun (acc : Except String Ck) (op, tok) =>
      match acc with
      | .error e => .error e
      | .ok ck => match stepCm mu cap ck op tok with | .error e => .error s!"{op}: {e}" | .ok ck' => .ok ck')
      (.ok ⟨[0, 0, 0], [⟨[], [], []⟩], List.replicate n false, List.replicate n []⟩)
    match r with
    | .ok _ => implT
    | .error e => "REJECT " ++ e
  | _, _, _ => "bad-case"

end Cm

def run (case impl : String) : String :=
  match words case with
  | ["pb", cfg, fail, items] => runPb cfg fail items "-"
  | ["pb", cfg, fail, items, ev] => runPb cfg fail items ev
  | "cs" :: rest => runCs rest impl
  | "cm" :: rest => Cm.runCm rest impl
  | _ => "bad-case"

end ScyllaVerif.Drive.C14Session

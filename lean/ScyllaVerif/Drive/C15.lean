import ScyllaVerif.Model.Util
import ScyllaVerif.Model.Tablets
import ScyllaVerif.Model.TabletsRefresh
/-! Line-protocol driver for C15.

* `tab <op>;<op>;…` — one history on a fresh `VerifTablets` (one `TableTablets`, one `TabletsInfo`, a node set):
    `n<id>@<dc>` / `n<id>`        register (or replace by a fresh object) a node, with / without datacenter
    `a<first>:<last>:<reps>`      `TableTablets::add_tablet`; `<reps>` = `-` or `<id>.<shard>,…`
    `q<token>`                    `tablet_for_token` → `none` | `<first>:<last>:<reps>`
    `s<lo>:<hi>`                  `q` for every token of `lo..=hi`, joined by `/`
    `d<token>@<dc>`               `dc_replicas_for_token` → `none` | `<reps>`
    `m<removed>/<recreated>`      `TableTablets::perform_maintenance`; `<removed>` = ids, `<recreated>` = `<id>@<dc>` / `<id>`
    `t`                           dump `[<tablet>|…]u<unresolved>s<stale>`
    `A<ks>.<table>:<first>:<last>:<reps>`   `TabletsInfo::add_tablet`
    `M<ks>:<0|1>:<t>+<t>[:<view>+<view>]&…/<removed>/<recreated>`   `TabletsInfo::perform_maintenance`
    `T`                           dump of every table of the `TabletsInfo`, sorted, then `u<unresolved>s<stale>`
    `Q<ks>.<table>:<token>`       `tablets_for_table(..).replicas_for_token(..)`
    `D<ks>.<table>:<token>@<dc>`  `tablets_for_table(..).dc_replicas_for_token(..)`
* `cs <op>;<op>;…` / `csa <op>;…` / `csm <op>;…` — one history on a real `ClusterState` (keyspaces `k0`, `k1`, tables `t0`, `t1`
  each; table index in the ops: 0, 1 = `k0.t0`, `k0.t1`, 2, 3 = `k1.t0`, `k1.t1`);
  `cs`: the host filter rejects every peer (pool-less nodes), `csa`: it accepts every peer and the nodes are enabled
  (the accepted-node arms of `calculate_new_topology`, `inherit_with_ip_changed`), `csm`: per-peer verdicts (a trailing `*`
  on a peer = accepted; a node is enabled iff it was accepted when built / kept - the mixed arms):
    `P<peer>,<peer>…[!<schema>]`  first: `ClusterState::new`; later: a metadata refresh (`new_updated`); a peer is
                                  `<id>[@<dc>[/<rack>]]`, its address is its position in the list; `<schema>` = `x` (no keyspace),
                                  `-` (not tablet-based), `e` (its fetch failed), `<tables>/<views>`; `!<k0>&<k1>` (default `t0+t1/` and `x`)
                                  → `P<ids whose Node object was kept>|<tables of the tablet map with their sizes>`
    `N<peer>,<peer>…`             `new_with_updated_topology` (peers only, keyspaces of the current state) → `N…` likewise
    `L<t>:<first>:<last>:<reps>`  `ClusterState::update_tablets` with one tablet for table `t<t>`
    `B<item>|<item>|…`            ONE `update_tablets` call with the whole batch, items `<t>:<first>:<last>:<reps>` in order
    `s<t>:<lo>:<hi>`              `replica_locator().replicas_for_token` for every token of `lo..=hi`, joined by `/`
    `d<t>:<token>@<dc>`           the same restricted to a datacenter
* `payload <hex>` — `RawTablet::from_custom_payload` on the cell bytes.
* `exh <alphabet> <len> <i>,<j>,…` — digest of every history of `len` more operations of the alphabet after the prefix.
-/
namespace ScyllaVerif.Drive.C15
open ScyllaVerif.Util ScyllaVerif.Tablets ScyllaVerif.TabletsRefresh

structure World where
  table : Table
  info : Info
  nodes : List (Nat × Node)
  gen : Nat

def World.init : World := ⟨Table.empty, Info.empty, [], 0⟩

def splitOp (op : String) : Option (Char × String) :=
  match op.toList with
  | [] => none
  | c :: rest => some (c, String.ofList rest)

def parseList {α : Type} (sep : String) (f : String → Option α) (s : String) : Option (List α) :=
  if s == "" || s == "-" then some [] else (s.splitOn sep).mapM f

def parseRep (s : String) : Option (Nat × Nat) :=
  match s.splitOn "." with
  | [a, b] => match a.toNat?, b.toNat? with
    | some x, some y => some (x, y)
    | _, _ => none
  | _ => none

def parseNodeDc (s : String) : Option (Nat × Option String) :=
  match s.splitOn "@" with
  | [a] => a.toNat?.map (fun x => (x, none))
  | [a, d] => a.toNat?.map (fun x => (x, some d))
  | _ => none

def showReps (rs : List Rep) : String :=
  if rs.isEmpty then "-" else ",".intercalate (rs.map fun p => s!"{p.1.hostId}.{p.2}")

def showTablet (t : Tablet) : String := s!"{t.first}:{t.last}:{showReps t.replicas.all}"

def showOptTablet : Option Tablet → String
  | none => "none"
  | some t => showTablet t

def showOptReps : Option (List Rep) → String
  | none => "none"
  | some r => showReps r

def unresolved (xs : List Tablet) : Nat := (xs.filter (·.failed.isSome)).length

def staleCount (nodes : List (Nat × Node)) (xs : List Tablet) : Nat :=
  let isStale (p : Rep) : Bool := !(alGet p.1.hostId nodes == some p.1)
  (xs.map fun t =>
    (t.replicas.all.filter isStale).length +
    ((t.replicas.perDc.map fun kv => (kv.2.filter isStale).length).foldl (· + ·) 0)).foldl (· + ·) 0

def showTable (nodes : List (Nat × Node)) (xs : List Tablet) : String :=
  "[" ++ "|".intercalate (xs.map showTablet) ++ s!"]u{unresolved xs}s{staleCount nodes xs}"

/-- the node-set part of the hook's `maintenance`: removed nodes leave, recreated ones get a fresh object -/
def applyTopology (w : World) (removed : List Nat) (recreated : List (Nat × Option String)) :
    World × List (Nat × Node) :=
  let nodes := removed.foldl (fun ns id => alErase id ns) w.nodes
  recreated.foldl (fun (acc : World × List (Nat × Node)) r =>
    match alGet r.1 acc.1.nodes with
    | none => acc
    | some _ =>
      let n : Node := ⟨r.1, r.2, acc.1.gen⟩
      ({ acc.1 with nodes := alSet r.1 n acc.1.nodes, gen := acc.1.gen + 1 }, alSet r.1 n acc.2))
    ({ w with nodes := nodes }, [])

def insertSorted (e : (String × String) × Table) : List ((String × String) × Table) → List ((String × String) × Table)
  | [] => [e]
  | x :: rest =>
    if e.1.1 < x.1.1 || (e.1.1 == x.1.1 && e.1.2 < x.1.2) then e :: x :: rest else x :: insertSorted e rest

def parseNames (s : String) : List String := if s == "" then [] else s.splitOn "+"

/-- `<ks>:<0|1>:<tables>[:<views>]` -/
def parseKeyspace (s : String) : Option KsMeta :=
  match s.splitOn ":" with
  | [name, flag, tables] =>
    if flag == "1" then some ⟨name, true, parseNames tables, []⟩
    else if flag == "0" then some ⟨name, false, parseNames tables, []⟩
    else none
  | [name, flag, tables, views] =>
    if flag == "1" then some ⟨name, true, parseNames tables, parseNames views⟩
    else if flag == "0" then some ⟨name, false, parseNames tables, parseNames views⟩
    else none
  | _ => none

/-- `collect::<HashMap<_, _>>()`: a repeated keyspace name keeps the last entry (at the first one's place) -/
def dedupKs (kss : List KsMeta) : List KsMeta :=
  kss.foldl (fun acc k => if acc.any (·.name == k.name) then acc.map (fun x => if x.name == k.name then k else x) else acc ++ [k]) []

def scanTokens (xs : List Tablet) : Nat → Int → List String
  | 0, _ => []
  | n + 1, tok => showOptTablet (tabletForToken xs (tokenNew tok)) :: scanTokens xs n (tok + 1)

def tabOp (w : World) (op : String) : Option (World × String) :=
  match splitOp op with
  | none => none
  | some (c, arg) =>
    if c == 'n' then
      match parseNodeDc arg with
      | some (id, dc) =>
        some ({ w with nodes := alSet id ⟨id, dc, w.gen⟩ w.nodes, gen := w.gen + 1 }, "n")
      | none => none
    else if c == 'a' then
      match arg.splitOn ":" with
      | [f, l, reps] =>
        match f.toInt?, l.toInt?, parseList "," parseRep reps with
        | some f, some l, some reps =>
          let t := Tablet.fromRaw (tokenNew f) (tokenNew l) reps (fun id => alGet id w.nodes)
          let (tbl, ok) := w.table.addTablet t
          some ({ w with table := tbl }, if ok then "a" else "panic")
        | _, _, _ => none
      | _ => none
    else if c == 'q' then
      match arg.toInt? with
      | some tok => some (w, showOptTablet (tabletForToken w.table.tablets (tokenNew tok)))
      | none => none
    else if c == 's' then
      match arg.splitOn ":" |>.mapM String.toInt? with
      | some [lo, hi] =>
        if lo ≤ hi ∧ hi - lo ≤ 64 then
          some (w, "/".intercalate (scanTokens w.table.tablets (hi - lo + 1).toNat lo))
        else none
      | _ => none
    else if c == 'd' then
      match arg.splitOn "@" with
      | [tok, dc] =>
        match tok.toInt? with
        | some tok => some (w, showOptReps (dcReplicasForToken w.table.tablets (tokenNew tok) dc))
        | none => none
      | _ => none
    else if c == 'm' then
      match arg.splitOn "/" with
      | [rm, rc] =>
        match parseList "," String.toNat? rm, parseList "," parseNodeDc rc with
        | some removed, some recreated =>
          let (w1, recMap) := applyTopology w removed recreated
          let tbl := w1.table.maintenance removed w1.nodes recMap
          some ({ w1 with table := tbl }, s!"m{unresolved tbl.tablets}:{staleCount w1.nodes tbl.tablets}")
        | _, _ => none
      | _ => none
    else if c == 't' then
      if arg != "" then none else some (w, showTable w.nodes w.table.tablets)
    else if c == 'A' then
      match arg.splitOn ":" with
      | [spec, f, l, reps] =>
        match spec.splitOn ".", f.toInt?, l.toInt?, parseList "," parseRep reps with
        | [ks, tb], some f, some l, some reps =>
          let t := Tablet.fromRaw (tokenNew f) (tokenNew l) reps (fun id => alGet id w.nodes)
          let (inf, ok) := w.info.addTablet (ks, tb) t
          some ({ w with info := inf }, if ok then "A" else "panic")
        | _, _, _, _ => none
      | _ => none
    else if c == 'M' then
      match arg.splitOn "/" with
      | [kss, rm, rc] =>
        match parseList "&" parseKeyspace kss, parseList "," String.toNat? rm, parseList "," parseNodeDc rc with
        | some kss, some removed, some recreated =>
          let keyspaces := dedupKs kss
          let (w1, recMap) := applyTopology w removed recreated
          let inf := w1.info.maintenanceKs keyspaces removed w1.nodes recMap
          let all := inf.tables.flatMap (·.2.tablets)
          some ({ w1 with info := inf }, s!"M{unresolved all}:{staleCount w1.nodes all}")
        | _, _, _ => none
      | _ => none
    else if c == 'T' then
      if arg != "" then none else
      let sorted := w.info.tables.foldl (fun acc e => insertSorted e acc) []
      let all := w.info.tables.flatMap (·.2.tablets)
      some (w, (if sorted.isEmpty then "-" else
        "&".intercalate (sorted.map fun e => s!"{e.1.1}.{e.1.2}=" ++ "[" ++ "|".intercalate (e.2.tablets.map showTablet) ++ "]"))
        ++ s!"u{unresolved all}s{staleCount w.nodes all}")
    else if c == 'D' then
      match arg.splitOn "@" with
      | [a, dc] =>
        match a.splitOn ":" with
        | [spec, tok] =>
          match spec.splitOn ".", tok.toInt? with
          | [ks, tb], some tok =>
            some (w, match alGet (ks, tb) w.info.tables with
              | none => "none"
              | some tbl => showOptReps (dcReplicasForToken tbl.tablets (tokenNew tok) dc))
          | _, _ => none
        | _ => none
      | _ => none
    else if c == 'Q' then
      match arg.splitOn ":" with
      | [spec, tok] =>
        match spec.splitOn ".", tok.toInt? with
        | [ks, tb], some tok =>
          some (w, match alGet (ks, tb) w.info.tables with
            | none => "none"
            | some tbl => showOptReps (replicasForToken tbl.tablets (tokenNew tok)))
        | _, _ => none
      | _ => none
    else none

def runTab (ops : List String) : String :=
  let rec go (w : World) (acc : List String) : List String → Option (List String)
    | [] => some acc.reverse
    | op :: rest =>
      match tabOp w op with
      | none => none
      | some (w', out) => go w' (out :: acc) rest
  match go World.init [] ops with
  | none => "bad-case"
  | some outs => ";".intercalate outs

/-! ### exhaustive small universe (`exh`) -/

def exhRanges : List (Nat × Nat) :=
  (List.range 6).flatMap fun f => ((List.range 6).filter (f ≤ ·)).map fun l => (f, l)

/-- alphabet `A`: the 21 ranges over tokens 0..=5 (replica `(first+last) % 2`, shard `first`);
alphabet `B`: the same ranges with replica `(first+last) % 3` (node 2 is unknown at first) plus four topology steps. -/
def exhAlphabet (alpha : String) : Option (List String) :=
  if alpha == "A" then some (exhRanges.map fun r => s!"a{r.1}:{r.2}:{(r.1 + r.2) % 2}.{r.1}")
  else if alpha == "B" then
    some ((exhRanges.map fun r => s!"a{r.1}:{r.2}:{(r.1 + r.2) % 3}.0") ++ ["m/", "m0/", "n2@dc1", "m/1@dc0"])
  else none

def exhSetup : List String := ["n0@dc0", "n1@dc1"]

def mix (h : UInt64) (v : Nat) : UInt64 := h * 1099511628211 + UInt64.ofNat v + 1

def repsCode (rs : List Rep) : Nat := rs.foldl (fun c p => c * 64 + (p.1.hostId + 1) * 8 + p.2) 0

def tabletCode : Option Tablet → Nat
  | none => 0
  | some t => 1 + t.first.toNat + 8 * t.last.toNat + 64 * repsCode t.replicas.all

def optRepsCode : Option (List Rep) → Nat
  | none => 0
  | some r => 1 + repsCode r

/-- what is observed in one state: every token, in full and per datacenter; size of the list; counters -/
def exhEmit (w : World) (acc : Nat × UInt64) : Nat × UInt64 :=
  let xs := w.table.tablets
  let h := (List.range 6).foldl (fun h (t : Nat) =>
    let tok : Int := t
    let h := mix h (tabletCode (tabletForToken xs tok))
    let h := mix h (optRepsCode (dcReplicasForToken xs tok "dc0"))
    mix h (optRepsCode (dcReplicasForToken xs tok "dc1"))) acc.2
  (acc.1 + 1, mix h (xs.length * 10000 + unresolved xs * 100 + staleCount w.nodes xs))

def exhGo (ops : List String) : Nat → World → Nat × UInt64 → Nat × UInt64
  | 0, w, acc => exhEmit w acc
  | d + 1, w, acc =>
    ops.foldl (fun acc op =>
      match tabOp w op with
      | some (w', _) => exhGo ops d w' acc
      | none => acc) (exhEmit w acc)

def runExh (alpha : String) (depth : Nat) (prefixIdx : List Nat) : String :=
  match exhAlphabet alpha with
  | none => "bad-case"
  | some ops =>
    match prefixIdx.mapM (fun i => ops[i]?) with
    | none => "bad-case"
    | some pre =>
      let w := (exhSetup ++ pre).foldl (fun (w : Option World) op => w.bind fun w => (tabOp w op).map (·.1)) (some World.init)
      match w with
      | none => "bad-case"
      | some w =>
        let (n, h) := exhGo ops depth w (0, 14695981039346656037)
        s!"{n} {h.toNat}"

def showPayloadErr : PayloadErr → String
  | .deserialization => "deserialization"
  | .typecheck => "typecheck"
  | .shardnum => "shardnum"
  | .wrongrange => "wrongrange"

def runPayload (arg : String) : String :=
  if arg == "absent" then "absent" else
  match parseHex arg with
  | none => "bad-case"
  | some bs =>
    match parsePayload bs with
    | .ok (f, l, reps) =>
      let r := if reps.isEmpty then "-" else ",".intercalate (reps.map fun p => s!"{p.1}.{p.2}")
      s!"ok {f}:{l}:{r}"
    | .error e => "err " ++ showPayloadErr e

/-! ### `cs`: refresh histories on the cluster state -/

def parsePeer (idx : Nat) (s0 : String) : Option Peer :=
  -- a trailing `*`: the host filter accepts this peer (`csm` histories)
  let acc := s0.endsWith "*"
  let s := if acc then (s0.dropEnd 1).toString else s0
  match s.splitOn "@" with
  | [a] => a.toNat?.map fun id => ⟨id, none, none, idx, acc⟩
  | [a, loc] =>
    match a.toNat?, loc.splitOn "/" with
    | some id, [dc] => some ⟨id, some dc, none, idx, acc⟩
    | some id, [dc, rack] => some ⟨id, some dc, some rack, idx, acc⟩
    | _, _ => none
  | _ => none

def parsePeers (s : String) : Option (List Peer) :=
  if s == "" then none else
  let parts := s.splitOn ","
  let rec go (idx : Nat) : List String → Option (List Peer)
    | [] => some []
    | x :: rest =>
      match parsePeer idx x, go (idx + 1) rest with
      | some p, some ps => if ps.any (fun q => q.hostId == p.hostId) then none else some (p :: ps)
      | _, _ => none
  go 0 parts

def insertNat (x : Nat) : List Nat → List Nat
  | [] => [x]
  | y :: ys => if x ≤ y then x :: y :: ys else y :: insertNat x ys

/-- one keyspace of the schema part of a `P` op, as its fetch result: `x` = absent, `-` = exists but is not
tablet-based (vnodes), `e` = its fetch FAILED, `<tables>/<views>` = tablet-based with these tables and views -/
def parseCsKeyspace (name cfg : String) : Option (List (String × Option KsMeta)) :=
  if cfg == "x" then some []
  else if cfg == "-" then some [(name, some ⟨name, false, [], []⟩)]
  else if cfg == "e" then some [(name, none)]
  else match cfg.splitOn "/" with
    | [tables, views] =>
      let ts := parseNames tables
      let vs := parseNames views
      if (ts ++ vs).all (fun n => n == "t0" || n == "t1") then some [(name, some ⟨name, true, ts, vs⟩)] else none
    | _ => none

/-- `!<k0 cfg>[&<k1 cfg>]`; without `!`: `k0` = `t0+t1/`, `k1` absent -/
def parseCsSchema (s : Option String) : Option (List (String × Option KsMeta)) :=
  match s with
  | none => parseCsKeyspace "k0" "t0+t1/"
  | some cfg =>
    match cfg.splitOn "&" with
    | [a] => parseCsKeyspace "k0" a
    | [a, b] =>
      match parseCsKeyspace "k0" a, parseCsKeyspace "k1" b with
      | some x, some y => some (x ++ y)
      | _, _ => none
    | _ => none

inductive CsMode where
  /-- the host filter rejects every peer; the hook resets the nodes to "not enabled" before a refresh -/
  | reject
  /-- the host filter accepts every peer; the nodes are enabled -/
  | accept
  /-- per-peer verdicts (`*`); a node is enabled iff the refresh that built or kept it accepted it -/
  | mixed
  deriving DecidableEq

/-- table index of the ops: 0, 1 = `k0.t0`, `k0.t1`; 2, 3 = `k1.t0`, `k1.t1` -/
def csSpec (t : String) : Option (String × String) :=
  if t == "0" then some ("k0", "t0") else if t == "1" then some ("k0", "t1")
  else if t == "2" then some ("k1", "t0") else if t == "3" then some ("k1", "t1") else none

def csScan (inf : Info) (spec : String × String) : Nat → Int → List String
  | 0, _ => []
  | n + 1, tok => showReps ((locatorTabletReplicas inf spec (tokenNew tok) none).getD []) :: csScan inf spec n (tok + 1)

def csItem (s : String) : Option RawItem :=
  match s.splitOn ":" with
  | [t, f, l, reps] =>
    match csSpec t, f.toInt?, l.toInt?, parseList "," parseRep reps with
    | some spec, some f, some l, some reps =>
      if tokenNew f > tokenNew l then none else some (spec, tokenNew f, tokenNew l, reps)
    | _, _, _, _ => none
  | _ => none

def showTableSizes (inf : Info) : String :=
  let sorted := inf.tables.foldl (fun acc e => insertSorted e acc) []
  if sorted.isEmpty then "-" else "+".intercalate (sorted.map fun e => s!"{e.1.1}.{e.1.2}:{e.2.tablets.length}")

/-- one refresh through the model's own `kstep`; `fetched = none`: `new_with_updated_topology`.  Output: node objects
kept, table sizes, and for every keyspace whose fetch failed `~e` (an older version is reused) / `~E` (dropped). -/
def csRefresh (mode : CsMode) (st : KState) (peers : List Peer) (fetched : Option (List (String × Option KsMeta))) :
    KState × String :=
  let peers := match mode with
    | .reject => peers.map fun p => { p with accepted := false }
    | .accept => peers.map fun p => { p with accepted := true }
    | .mixed => peers
  let old : Known := match mode with
    | .reject => st.cs.known.map fun e => (e.1, { e.2 with enabled := false })
    | .accept => st.cs.known.map fun e => (e.1, { e.2 with enabled := true })
    | .mixed => st.cs.known
  let st0 : KState := { st with cs := { st.cs with known := old } }
  let st' := match fetched with
    | none => kstep st0 (.topology peers)
    | some f => kstep st0 (.refresh peers f)
  let kept := st'.cs.known.foldl (fun acc e =>
    match alGet e.1 old with
    | some o => if o.node == e.2.node then insertNat e.1 acc else acc
    | none => acc) []
  let tags := match fetched with
    | none => ""
    | some f => String.join (f.map fun e =>
        match e.2 with
        | some _ => ""
        | none => if st.kss.any (fun k => k.name == e.1) then "~e" else "~E")
  (st', natList kept ++ "|" ++ showTableSizes st'.cs.info ++ tags)

def csOp (mode : CsMode) (st : Option KState) (op : String) : Option (KState × String) :=
  match splitOp op with
  | none => none
  | some (c, arg) =>
    if c == 'P' then
      let (ps, schema) := match arg.splitOn "!" with
        | [a] => (a, some none)
        | [a, b] => (a, some (some b))
        | _ => (arg, none)
      match parsePeers ps, schema.bind parseCsSchema with
      | some peers, some fetched =>
        let (st', out) := csRefresh mode (st.getD KState.init) peers (some fetched)
        some (st', "P" ++ out)
      | _, _ => none
    else match st with
    | none => none
    | some st =>
      let cs := st.cs
      if c == 'N' then
        -- `new_with_updated_topology`: new peers, the keyspaces of the current state
        match parsePeers arg with
        | some peers =>
          let (st', out) := csRefresh mode st peers none
          some (st', "N" ++ out)
        | none => none
      else if c == 'L' || c == 'B' then
        -- `L`: a batch of one; `B`: one `update_tablets` call with several tablets, `|`-separated
        let items := if c == 'L' then [arg] else arg.splitOn "|"
        match items.mapM csItem with
        | some batch =>
          let ok := (learnBatch cs batch).2
          some (kstep st (.batch batch), if ok then String.singleton c else "panic")
        | none => none
      else if c == 's' then
        match arg.splitOn ":" with
        | [t, lo, hi] =>
          match csSpec t, lo.toInt?, hi.toInt? with
          | some spec, some lo, some hi =>
            if lo ≤ hi ∧ hi - lo ≤ 64 then
              some (st, match alGet spec cs.info.tables with
                | none => "notable"
                | some _ => "/".intercalate (csScan cs.info spec (hi - lo + 1).toNat lo))
            else none
          | _, _, _ => none
        | _ => none
      else if c == 'd' then
        match arg.splitOn "@" with
        | [a, dc] =>
          match a.splitOn ":" with
          | [t, tok] =>
            match csSpec t, tok.toInt? with
            | some spec, some tok =>
              some (st, match locatorTabletReplicas cs.info spec (tokenNew tok) (some dc) with
                | none => "notable"
                | some r => showReps r)
            | _, _ => none
          | _ => none
        | _ => none
      else none

def runCs (mode : CsMode) (ops : List String) : String :=
  let rec go (st : Option KState) (acc : List String) : List String → Option (List String)
    | [] => some acc.reverse
    | op :: rest =>
      match csOp mode st op with
      | none => none
      | some (st', out) => go (some st') (out :: acc) rest
  match go none [] ops with
  | none => "bad-case"
  | some outs => ";".intercalate outs

def run (case _impl : String) : String :=
  match words case with
  | ["tab", ops] => runTab ((ops.splitOn ";").filter (· ≠ ""))
  | ["cs", ops] => runCs .reject ((ops.splitOn ";").filter (· ≠ ""))
  | ["csa", ops] => runCs .accept ((ops.splitOn ";").filter (· ≠ ""))
  | ["csm", ops] => runCs .mixed ((ops.splitOn ";").filter (· ≠ ""))
  | ["payload", arg] => runPayload arg
  | ["exh", alpha, depth, pre] =>
    match depth.toNat?, parseNatList pre with
    | some d, some p => if d ≤ 6 then runExh alpha d p else "bad-case"
    | _, _ => "bad-case"
  | _ => "bad-case"

end ScyllaVerif.Drive.C15

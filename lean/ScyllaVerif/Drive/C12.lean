import ScyllaVerif.Model.Util
import ScyllaVerif.Model.Ring
import ScyllaVerif.Model.Replicas
import ScyllaVerif.Model.Plan
import ScyllaVerif.Model.Sharding
import ScyllaVerif.Model.Tablets
import ScyllaVerif.Model.Routing
import ScyllaVerif.Drive.Topology
import ScyllaVerif.Drive.C05
import ScyllaVerif.Drive.C03
/-! Line-protocol driver for C12 (route of a token-aware request).  Rust side: `harness/src/c12.rs`.

```
plan[.<tag>] <topology> <strategies> <tablets> <config> <request> <tbl> <samples>
    topology / strategies : Drive/Topology.lean (peer flags `[d][x][s<nr_shards>m<msb>]`: disabled, not connected,
                            the node's sharder)
    tablets  := "-" | table ("+" table)*          table := ks "." tbl ("@" tablet)*       (tablets in insertion order)
    tablet   := first "_" last "_" ("-" | host "." shard ("," host "." shard)*)
    config / request : Drive/C05.lean;  tbl = index of the table `t<tbl>` in keyspace `k<request.ks>`
  impl : R=<replicas> D=<replicas in the preferred datacenter|x> | plan=<id:shard,..> pf=<id.s<shard>|id.n,..>
         R / D = `replicas_for_token(token, strategy, None / preferred dc, table)` iterated, `id.shard`;
         plan = distinct first items of `Plan::new(..)` over the samples; pf = distinct (`pick()` or else first of
         `fallback()`) with the OPTIONAL shard the policy supplied.
  model: prints R / D itself; the part after `|` is CHECKED (every observed first target must be the head of
         `routePlan` for some random choices) and echoed, else `REJECT ..`.

hist[.<tag>] <topology> <strategies> <ops> <config> <request> <tbl> <samples>
    ops := "-" | op ("+" op)*     op := "T" ks "." tbl "@" tablet   (one `update_tablets`; replicas may name unknown hosts)
                                      | "B" ks "." tbl "@" hex      (the same, as the bytes of the `tablets-routing-v1`
                                                                      custom-payload entry of a response)
                                      | "E" ks "." tbl              (table declared in the tablet-based keyspace)
                                      | "R" topology                (metadata refresh = `ClusterState::new_updated`)
                                      | "G" topology | "H" topology (the same / `new_with_updated_topology` with a host
                                                                      filter that ACCEPTS every peer; not mixed with R)
    the observation (same implementation / model lines as `plan`) is made on the state after the last op; a node object
    survives a refresh iff its datacenter, rack and position in the peer list (= address) are unchanged.

stmt[.<tag>] <topology> <strategies> <tablets> <config> <stmt> <values> <exec> <samples>
    stmt   := <cdc 0|1> "/" <bind-marker indexes of the key columns in key order|-> "/" <ks> "/" <tbl> ["/" <lwt 0|1>]   (distinct indexes)
    values := value ("," value)*   (C03 syntax: hex | - | N | U | z<len>x<hh>)     exec := consistency "/" serial "/" pref
  impl : `tok=<token|none|err_..>` then (unless the token computation failed) the `plan` observation for the RoutingInfo
         `Session::execute` builds: token = `PreparedStatement::calculate_token` on the forged PREPARED + bound values,
         table = `get_table_spec()`, LWT = `is_confirmed_lwt()`.
  model: `sessionRoutingInfo` (C03's token model inside the glue), then as `plan`.

refill[.<tag>] <S<k>|H<k>> <p|n> <script>     script := step (";" step)*, first step N.., last step W
    N<nr>.<msb>  the node (re)starts with these sharding parameters (nr = 0: a node without shards); all connections die
    P<nr>.<msb>  the parameters change for connections accepted from now on     A<s>,<s>..  shards of the next connections
    M<d>         connections on the shard-aware port land on (source port + d) % nr     C<s>  the node closes the pooled
    connection that serves shard s     W  wait until the pool has settled, then look     Q<s>,..  the same, probing these
    shard numbers (e.g. numbers of the sharder the node had before a restart: the reshard race)
  impl : the node's record of events and the looks, in order: `r<id>:<shard>/<nr>/<msb>[q]` | `r<id>:-[q]` (READY sent; q =
         through the shard-aware port), `b<id>` (closed by the node), `D[cnt=<pool size>,nr=<n|->,<shard>:<conn id>:<reported>,..]`
  model: runs `Refiller.step` on the events and CHECKS every look against its own buckets (size, published sharder, every
         probe's connection is one `connectionForShard` can return from the MODEL's published pool, with the model's shard).

pool <nr> <msb> <S<k>|H<k>> <p|n|q> <requested shards>      route <nr> <msb> <S<k>|H<k>> <p|n|q> <tokens>
    (q: the scripted server reports the NEXT shard for shard-aware-port connections; irrelevant to the model, which
     is given the pooled shards as the server knows them)
  impl : nr=<n|-> have=<server-side shards of the pooled connections, sorted> | <req>:<got> ..   (route: <tok>:<shard>:<got>)
  model: checks nr, for `route` computes the shard itself (`shardOfImpl` = the target node's sharder), and checks that
         `got` is the reported shard of a connection `connectionForShard` can return for SOME random choices.
```
Never defaults on a parse failure: `bad-case`. -/
namespace ScyllaVerif.Drive.C12
open ScyllaVerif.Util ScyllaVerif.Ring ScyllaVerif.Replicas ScyllaVerif.Plan ScyllaVerif.Routing
open ScyllaVerif.Drive.Topology ScyllaVerif.Drive.C05

/-! ### parsing -/

def parseRep (s : String) : Option (Nat × Nat) :=
  match s.splitOn "." with
  | [h, sh] => match h.toNat?, sh.toNat? with
    | some h, some sh => some (h, sh)
    | _, _ => none
  | _ => none

/-- `first_last_reps` -/
def parseTablet (s : String) : Option (Int × Int × List (Nat × Nat)) :=
  match s.splitOn "_" with
  | [f, l, reps] =>
    let reps : Option (List (Nat × Nat)) := if reps == "-" then some [] else (reps.splitOn ",").mapM parseRep
    match f.toInt?, l.toInt?, reps with
    | some f, some l, some reps =>
      if i64ok f && i64ok l && decide (tokenNew f ≤ tokenNew l) then some (tokenNew f, tokenNew l, reps) else none
    | _, _, _ => none
  | _ => none

/-- `ks.tbl@tablet@tablet..` -/
def parseTable (s : String) : Option ((Nat × Nat) × List (Int × Int × List (Nat × Nat))) :=
  match s.splitOn "@" with
  | [] => none
  | name :: tablets =>
    match name.splitOn ".", tablets.mapM parseTablet with
    | [ks, tb], some ts => match ks.toNat?, tb.toNat? with
      | some ks, some tb => some ((ks, tb), ts)
      | _, _ => none
    | _, _ => none

def parseTables (s : String) : Option (List ((Nat × Nat) × List (Int × Int × List (Nat × Nat)))) :=
  if s == "-" then some []
  else match (s.splitOn "+").mapM parseTable with
    | some ts => if (ts.map (·.1)).eraseDups.length == ts.length then some ts else none
    | none => none

/-- The tablet list of a table after the inserts, through the C15 model (`Tablet::from_raw_tablet`, `add_tablet`). -/
def buildTable (peers : List Node) (ts : List (Int × Int × List (Nat × Nat))) : List Tablets.Tablet :=
  (ts.foldl (fun (tbl : Tablets.Table) t =>
    (tbl.addTablet (Tablets.Tablet.fromRaw t.1 t.2.1 t.2.2 (translator peers))).1) Tablets.Table.empty).tablets

/-- `d`, `x` and `g<digit>` (an address group of the harness: peers sharing one address; nodes are identified by host
id, so the model ignores it). -/
def flagPrefixOk : List Char → Bool
  | [] => true
  | 'g' :: c :: rest => c.isDigit && flagPrefixOk rest
  | c :: rest => (c == 'd' || c == 'x') && flagPrefixOk rest

/-- Peer flags of C12: `[d][x][g<k>][s<nr_shards>m<msb_ignore>]`; `none` = malformed, `some none` = a node without shards. -/
def parseFlags (flags : String) : Option (Option SharderM) :=
  match flags.splitOn "s" with
  | [pre] => if flagPrefixOk pre.toList then some none else none
  | [pre, suf] =>
    if !flagPrefixOk pre.toList then none else
    match suf.splitOn "m" with
    | [nr, msb] =>
      if nr.isEmpty || msb.isEmpty || !nr.all Char.isDigit || !msb.all Char.isDigit then none else
      match nr.toNat?, msb.toNat? with
      | some nr, some msb => if nr = 0 || nr > 65535 || msb ≥ 64 then none else some (some ⟨nr, UInt8.ofNat msb⟩)
      | _, _ => none
    | _ => none
  | _ => none

def mkRCluster (ps : List (Peer × String)) (ks : List Strategy)
    (tables : List ((Nat × Nat) × List (Int × Int × List (Nat × Nat)))) : RCluster :=
  let peers := ps.map (·.1.node)
  { loc := Topology.locator (ps.map (·.1)) ks
    keyspaces := ks
    disabled := (ps.filter (fun p => p.2.contains 'd')).map (·.1.node.id)
    down := (ps.filter (fun p => p.2.contains 'x')).map (·.1.node.id)
    -- `Node::sharder()` of the hook nodes (`verif_hooks::cluster::set_sharders`)
    sharder := fun id => ((ps.find? (fun p => p.1.node.id == id)).bind (fun p => parseFlags p.2)).join
    peers := peers
    tables := tables.map (fun t => (t.1, buildTable peers t.2)) }

/-! ### plan cases -/

def showReps (l : List SRep) : String :=
  if l.isEmpty then "-" else ",".intercalate (l.map (fun r => s!"{r.1.id}.{r.2}"))

/-- `replicas_for_token(..)` iterated, with shards. -/
def replicasOf (rc : RCluster) (r : RRequest) (strat : Strategy) (tok : Int) (dc : Option Nat) : List SRep :=
  match tabletsOf rc r with
  | some xs => tabletReplicas rc xs tok dc
  | none =>
    let cl := rc.toCluster (some tok)
    ((replicasForToken rc.loc tok strat dc).iter rc.loc).map (fun n => (n, cl.sh n.id))

/-- Is `id:shard` what `Plan::next` can yield for this first target (`firstAttempt` for some shard draw)? -/
def planObsOk (rc : RCluster) (o : String) (t : Option Target) : Bool :=
  match t with
  | none => o == "-"
  | some t =>
    match o.splitOn ":" with
    | [i, sh] =>
      match i.toNat?, sh.toNat? with
      | some i, some sh =>
        i == t.1.id &&
          (match t.2 with
           | some _ => (firstAttempt rc [t] 0).map (·.shard) == some sh
           | none =>
             -- `draw % nr_shards` ranges over everything below the node's shard count
             let nr := ((rc.sharder t.1.id).map (·.nr)).getD 1
             decide (sh < nr) && (firstAttempt rc [t] sh).map (·.shard) == some sh)
      | _, _ => false
    | _ => false

def showPlanObs (t : Target) : String := s!"{t.1.id}:{t.2.getD 0}"

def showPfObs (t : Target) : String :=
  match t.2 with
  | some s => s!"{t.1.id}.s{s}"
  | none => s!"{t.1.id}.n"

/-- All first targets the model can produce: `pick` over a grid of draws, the head of `fallback` over the rotations
when `pick` can answer nothing. -/
def firstTargets (rc : RCluster) (cfg : Config) (r : RRequest) : List (Option Target) :=
  let cl := rc.toCluster r.rq.token
  let n := (allNodes cl).length + rc.peers.length + 1
  let grid : List RhoPick := (List.range n).flatMap (fun i => (List.range n).map (fun j => ⟨i, j, i, j, i, j, i, i, i, i, i⟩))
  let rots : List RhoFb := (List.range n).map (fun k => ⟨[], [], [], k, k, k⟩)
  let pickOf (ρ : RhoPick) : Option Target :=
    match tabletsOf rc r with
    | some xs => pickT cl cfg r.rq (tabletReplicas rc xs (r.rq.token.getD 0)) ρ
    | none => pick cl cfg r.rq ρ
  let fbOf (ρ : RhoFb) : List Target :=
    match tabletsOf rc r with
    | some xs => fallbackT cl cfg r.rq (tabletReplicas rc xs (r.rq.token.getD 0)) ρ
    | none => fallback cl cfg r.rq ρ
  let picks := grid.map pickOf
  let somes := (picks.filter Option.isSome)
  let heads := if picks.any Option.isNone then rots.map (fun ρ => (planOf none (fbOf ρ)).head?) else []
  somes ++ heads

/-- The observation part of a `plan` / `hist` case on the cluster the case describes. -/
def observe (rc : RCluster) (cfg : Config) (rq : Request) (tbl : Nat) (impl : String) : String :=
  let r : RRequest := ⟨rq, tbl⟩
  let cl := rc.toCluster rq.token
  -- deterministic part: the replica set of the token (as `TokenWithStrategy` + `replicas_for_token` see it)
  let ts := tokenWithStrategy cl { cfg with tokenAware := true } rq
  let pref := preference cfg rq
  let (rAll, rDc) : String × String := match ts with
    | some (strat, tok) =>
      (showReps (replicasOf rc r strat tok none),
        match pref.datacenter with
        | some d => showReps (replicasOf rc r strat tok (some d))
        | none => "x")
    | none => ("x", "x")
  let pre := s!"R={rAll} D={rDc} |"
  let firsts := firstTargets rc cfg r
  let okPlan : List String := firsts.map (fun o => match o with | some t => showPlanObs t | none => "-")
  let okPf : List String := firsts.map (fun o => match o with | some t => showPfObs t | none => "-")
  match (words impl).dropWhile (· != "|") with
  | [_, p, f] =>
    if !(p.startsWith "plan=" && f.startsWith "pf=") then pre ++ " REJECT unparsable" else
    let ps := ((p.drop 5).toString.splitOn ",")
    let fs := ((f.drop 3).toString.splitOn ",")
    match ps.find? (fun o => !firsts.any (planObsOk rc o)), fs.find? (fun o => !okPf.contains o) with
    | some bad, _ => pre ++ s!" REJECT plan-first-target {bad} not-in {" ".intercalate okPlan.eraseDups}"
    | none, some bad => pre ++ s!" REJECT policy-first-target {bad} not-in {" ".intercalate okPf.eraseDups}"
    | none, none => pre ++ " " ++ p ++ " " ++ f
  | _ => pre ++ " REJECT no-samples-part"

def runPlan (topo kss tabs cfg req tbl nSamples impl : String) : String :=
  match parseTopologyEx topo, parseStrategies kss, parseTables tabs, parseConfig cfg, parseRequest req, tbl.toNat?,
      nSamples.toNat? with
  | some ps, some ks, some tables, some cfg, some rq, some tbl, some _ =>
    if ps.any (fun p => (parseFlags p.2).isNone) then "bad-case" else
    observe (mkRCluster ps ks tables) cfg.1 rq tbl impl
  | _, _, _, _, _, _, _ => "bad-case"

/-! ### stmt cases: `Session::execute`'s routing info from a prepared statement and bound values -/

def parseExec (s : String) : Option ExecM :=
  match s.splitOn "/" with
  | [cons, ser, p] =>
    match parseConsistency cons, parsePref p with
    | some cons, some p => if ser == "-" || ser == "s" || ser == "l" then some ⟨cons, p⟩ else none
    | _, _ => none
  | _ => none

/-- `<cdc 0|1>/<marker indexes of the key columns, in key order|->/<ks>/<tbl>[/<lwt 0|1>]` -/
def parseStmt (s : String) : Option PreparedM :=
  let go (cdc wire ks tb : String) (lwt : Bool) : Option PreparedM :=
    match (if cdc == "0" then some false else if cdc == "1" then some true else none), parseNatList wire, ks.toNat?, tb.toNat? with
    | some cdc, some w, some ks, some tb =>
      if w.eraseDups.length == w.length && w.all (· < 4096) then
        some ⟨PartitionKey.pkIndexesOfWire w, cdc, some (ks, tb), lwt⟩
      else none
    | _, _, _, _ => none
  match s.splitOn "/" with
  | [cdc, wire, ks, tb] => go cdc wire ks tb false
  | [cdc, wire, ks, tb, lwt] =>
    if lwt == "1" then go cdc wire ks tb true else if lwt == "0" then go cdc wire ks tb false else none
  | _ => none

def runStmt (topo kss tabs cfg stmt vals exec nSamples impl : String) : String :=
  match parseTopologyEx topo, parseStrategies kss, parseTables tabs, parseConfig cfg, parseStmt stmt,
      (vals.splitOn ",").mapM ScyllaVerif.Drive.C03.parseValue, parseExec exec, nSamples.toNat? with
  | some ps, some ks, some tables, some cfg, some st, some values, some ex, some _ =>
    if ps.any (fun p => (parseFlags p.2).isNone) then "bad-case" else
    match sessionRoutingInfo st values ex with
    | .error e => "tok=" ++ (ScyllaVerif.Drive.C03.showTokenErr e).replace " " "_"
    | .ok r =>
      let tokS := match r.rq.token with | some t => toString t | none => "none"
      s!"tok={tokS} " ++ observe (mkRCluster ps ks tables) cfg.1 r.rq r.tbl impl
  | _, _, _, _, _, _, _, _ => "bad-case"

/-! ### hist cases: tablet updates interleaved with metadata refreshes -/

/-- One step of a history. -/
inductive HOp where
  /-- `update_tablets` with one tablet of table `k<ks>.t<tbl>` -/
  | learn (ks tbl : Nat) (t : Int × Int × List (Nat × Nat))
  /-- tablet feedback as bytes: the `tablets-routing-v1` entry of a response's custom payload -/
  | payload (ks tbl : Nat) (bytes : List UInt8)
  /-- the table exists in the (tablet-based) keyspace without any tablet learnt -/
  | declare (ks tbl : Nat)
  /-- a metadata refresh to this topology; `acc`: the host filter accepts every peer (`G` / `H` ops) -/
  | refresh (ps : List (Peer × String)) (acc : Bool)

def parseKsTbl (s : String) : Option (Nat × Nat) :=
  match s.splitOn "." with
  | [ks, tb] => match ks.toNat?, tb.toNat? with
    | some ks, some tb => some (ks, tb)
    | _, _ => none
  | _ => none

def parseHOp (s : String) : Option HOp :=
  if s.startsWith "T" then
    match (s.drop 1).toString.splitOn "@" with
    | [name, t] => match parseKsTbl name, parseTablet t with
      | some (ks, tb), some t => some (.learn ks tb t)
      | _, _ => none
    | _ => none
  else if s.startsWith "B" then
    match (s.drop 1).toString.splitOn "@" with
    | [name, hexs] => match parseKsTbl name, parseHex hexs with
      | some (ks, tb), some bs => some (.payload ks tb bs)
      | _, _ => none
    | _ => none
  else if s.startsWith "E" then (parseKsTbl (s.drop 1).toString).map (fun (ks, tb) => .declare ks tb)
  else if s.startsWith "R" then (parseTopologyEx (s.drop 1).toString).map (.refresh · false)
  else if s.startsWith "G" || s.startsWith "H" then (parseTopologyEx (s.drop 1).toString).map (.refresh · true)
  else none

def parseHOps (s : String) : Option (List HOp) :=
  if s == "-" then some [] else (s.splitOn "+").mapM parseHOp


/-- The known nodes of a peer list: the hook derives the address from the position. -/
def peersWithAddr (acc : Bool) (ps : List (Peer × String)) : List ((Node × Nat) × Bool) :=
  ps.zipIdx.map (fun (p, i) => ((p.1.node, i), acc))

/-- The model's view of one op (`declare` only contributes to the keyspace metadata). -/
def HOp.toStateOp : HOp → Option StateOp
  | .learn ks tb t => some (.learn (ksName ks, tblName tb) t.1 t.2.1 t.2.2)
  | .payload ks tb bs =>
    -- `RawTablet::from_custom_payload` (C15's model of the cell); a rejected payload teaches nothing
    match Tablets.parsePayload bs with
    | .ok (f, l, raw) => some (.learn (ksName ks, tblName tb) f l raw)
    | .error _ => none
  | .declare _ _ => none
  | .refresh ps acc => some (.refresh (peersWithAddr acc ps))

def runHist (topo kss opsS cfg req tbl nSamples impl : String) : String :=
  match parseTopologyEx topo, parseStrategies kss, parseHOps opsS, parseConfig cfg, parseRequest req, tbl.toNat?,
      nSamples.toNat? with
  | some ps0, some ks, some ops, some cfg, some rq, some tbl, some _ =>
    let topos : List (List (Peer × String)) := ps0 :: ops.filterMap (fun o => match o with | .refresh ps _ => some ps | _ => none)
    -- a history is driven with rejected peers (R) or with accepted ones (G / H; every node then reads as enabled: no `d`)
    let acc := ops.any (fun o => match o with | .refresh _ a => a | _ => false)
    if acc && (ops.any (fun o => match o with | .refresh _ a => !a | _ => false) ||
        topos.flatten.any (fun p => p.2.contains 'd')) then "bad-case" else
    let allPeers := topos.flatten
    -- flags well-formed; a host keeps its sharder for the whole history (it is a property of the node)
    if allPeers.any (fun p => (parseFlags p.2).isNone || p.2.contains 'g') then "bad-case" else
    if allPeers.any (fun p => allPeers.any (fun q => q.1.node.id == p.1.node.id && parseFlags q.2 != parseFlags p.2)) then "bad-case" else
    let declared : List (Nat × Nat) := (ops.filterMap (fun o => match o with
      | .learn ks tb _ => some (ks, tb) | .payload ks tb _ => some (ks, tb) | .declare ks tb => some (ks, tb)
      | .refresh _ _ => none)).eraseDups
    let kssMeta : List (String × Bool × List String) := ks.zipIdx.map (fun (_, i) =>
      (ksName i, declared.any (·.1 == i), (declared.filter (·.1 == i)).map (fun d => tblName d.2)))
    let st := (RState.init kssMeta (peersWithAddr acc ps0)).run kssMeta (ops.filterMap HOp.toStateOp)
    let psFinal := topos.getLast?.getD ps0
    observe (RCluster.ofState (mkRCluster psFinal ks []) st declared) cfg.1 rq tbl impl
  | _, _, _, _, _, _, _ => "bad-case"

/-! ### pool / route cases -/

def parseSize (s : String) : Option PoolSize :=
  if s.startsWith "S" then ((s.drop 1).toString.toNat?).bind (fun k => if k = 0 then none else some (.perShard k))
  else if s.startsWith "H" then ((s.drop 1).toString.toNat?).bind (fun k => if k = 0 then none else some (.perHost k))
  else none

/-- The published pool rebuilt from the shards of its connections (connection ids = positions in `have`). -/
def poolOf (nr : Nat) (msb : UInt8) (have_ : List Nat) : PoolConns :=
  let conns : List Conn := have_.zipIdx.map (fun (s, i) => ⟨i, some ⟨s, nr, msb⟩⟩)
  .sharded ⟨nr, msb⟩ ((List.range nr).map (fun s => conns.filter (fun c => shardIdOf c == s)))

/-- Reported shards of the connections `connectionForShard` can return (over all random choices that matter). -/
def possibleShards (p : PoolConns) (nr : Nat) (maxLen : Nat) (shard : Nat) : List Nat :=
  ((List.range (maxLen + 1)).flatMap (fun a => (List.range (nr + 1)).flatMap (fun b => (List.range (maxLen + 1)).map (fun c =>
    (connectionForShard p shard ⟨a, fun _ => (b, c)⟩).map shardIdOf)))).filterMap id |>.eraseDups

def parseHave (s : String) : Option (List Nat) :=
  if s.startsWith "have=" then parseNatList (s.drop 5).toString else none

def runPool (route : Bool) (nrS msbS sizeS portS reqS impl : String) : String :=
  match nrS.toNat?, msbS.toNat?, parseSize sizeS, parseIntList reqS with
  | some nr, some msb, some _, some reqs =>
    if nr = 0 || nr > 64 || msb ≥ 64 || !(portS == "p" || portS == "n" || portS == "q") || reqs.isEmpty then "bad-case" else
    if route && !reqs.all i64ok then "bad-case" else
    if !route && reqs.any (fun q => decide (q < 0 ∨ q ≥ 4294967296)) then "bad-case" else
    -- the harness gave up: the pool kept changing while it was probed (no observation to judge)
    if impl.trimAscii.toString == "unstable-pool" then "unstable-pool" else
    match words impl with
    | nrW :: haveW :: "|" :: obs =>
      match parseHave haveW with
      | none => "REJECT unparsable-have"
      | some have_ =>
        if nrW != s!"nr={nr}" then s!"REJECT pool-believes {nrW} expected nr={nr}" else
        if have_.isEmpty || have_.any (· ≥ nr) then "REJECT have-out-of-range" else
        if obs.length != reqs.length then "REJECT wrong-number-of-observations" else
        let p := poolOf nr (UInt8.ofNat msb) have_
        let maxLen := have_.length
        let verdicts := (reqs.zip obs).map (fun (q, o) =>
          let fields := o.splitOn ":"
          -- the shard that is requested: given (pool) or computed under the node's sharder (route)
          let shard : Nat := if route then computedShard (some ⟨nr, UInt8.ofNat msb⟩) (tokenNew q) else q.toNat
          let expectHead : List String := if route then [toString q, toString shard] else [toString q]
          match fields.getLast?.bind String.toNat? with
          | none => some s!"unparsable {o}"
          | some got =>
            if fields.dropLast != expectHead then some s!"{o} expected-prefix {":".intercalate expectHead}"
            else
              let poss := possibleShards p nr maxLen shard
              if poss.contains got then none else some s!"{o} connection-shard-not-in {natList poss}")
        match verdicts.find? Option.isSome with
        | some (some why) => "REJECT " ++ why
        | _ => impl.trimAscii.toString
    | _ => "REJECT unparsable"
  | _, _, _, _ => "bad-case"

/-! ### refill cases: the refiller model run on the node's own record of the connections -/

/-- `r<id>:<shard>/<nr>/<msb>[q]` / `r<id>:-[q]` (a connection became ready; `q`: it came through the shard-aware
port) and `b<id>` (the node closed the connection). -/
def parseRefillEvent (conns : List Conn) (tok : String) : Option (PoolEvt × List Conn) :=
  if tok.startsWith "b" then
    match (tok.drop 1).toString.toNat? with
    | some id => (conns.find? (fun c => c.id == id)).map (fun c => (.broken c, conns))
    | none => none
  else if tok.startsWith "r" then
    let requested := tok.endsWith "q"
    let body := if requested then (tok.dropEnd 1).toString else tok
    match (body.drop 1).toString.splitOn ":" with
    | [idS, infoS] =>
      match idS.toNat? with
      | none => none
      | some id =>
        let info : Option (Option ShardInfoM) :=
          if infoS == "-" then some none
          else match infoS.splitOn "/" with
            | [sh, nr, msb] => match sh.toNat?, nr.toNat?, msb.toNat? with
              | some sh, some nr, some msb => if msb < 256 then some (some ⟨sh, nr, UInt8.ofNat msb⟩) else none
              | _, _, _ => none
            | _ => none
        info.map (fun i => let c : Conn := ⟨id, i⟩; (.ready c requested, c :: conns))
    | _ => none
  else none

/-- Connections `connectionForShard` can return for this shard (over all random choices that matter). -/
def possibleConns (p : PoolConns) (shard : Nat) : List Conn :=
  let (nr, maxLen) : Nat × Nat := match p with
    | .notSharded l => (1, l.length)
    | .sharded s b => (s.nr, (b.map List.length).foldl max 0)
  ((List.range (maxLen + 1)).flatMap (fun a => (List.range (nr + 1)).flatMap (fun b => (List.range (maxLen + 1)).map (fun c =>
    connectionForShard p shard ⟨a, fun _ => (b, c)⟩)))).filterMap id |>.eraseDups

/-- One look at the pool, `D[cnt=..,nr=..,<shard>:<conn id>:<reported shard|->,..]`, against the model's refiller. -/
def checkDump (rf : Refiller) (items : List String) : Option String :=
  match items with
  | cntS :: nrS :: probes =>
    let cntOk := cntS == s!"cnt={if rf.shared.isSome then rf.activeCount else 0}"
    let nrM : String := match rf.shared with
      | some (.sharded s _) => toString s.nr
      | _ => "-"
    if !cntOk then some s!"{cntS} but the model's pool holds {rf.activeCount} connections (published: {rf.shared.isSome})"
    else if nrS != s!"nr={nrM}" then some s!"{nrS} but the model's published sharder has nr={nrM}"
    else
      (probes.filterMap (fun pr =>
        match pr.splitOn ":", rf.shared with
        | [_, "fail"], none => none
        | [sh, "fail"], some _ => some s!"query for shard {sh} failed on a published pool"
        | [shS, idS, repS], some p =>
          match shS.toNat?, idS.toNat? with
          | some sh, some id =>
            match (possibleConns p sh).find? (fun c => c.id == id) with
            | none => some s!"{pr}: connection {id} cannot be chosen for shard {sh}; candidates {(possibleConns p sh).map (·.id)}"
            | some c =>
              let rep := match c.info with | some i => toString i.shard | none => "-"
              if rep == repS then none else some s!"{pr}: the model's connection {id} reports shard {rep}"
          | _, _ => some s!"unparsable probe {pr}"
        | _, _ => some s!"unexpected probe {pr}")).head?
  | _ => some "unparsable dump"

def parseRParams (s : String) : Option Unit :=
  match s.splitOn "." with
  | [nr, msb] => match nr.toNat?, msb.toNat? with
    | some nr, some msb => if nr > 64 || msb ≥ 64 then none else some ()
    | _, _ => none
  | _ => none

/-- The script grammar (the model takes the events from the node's record; the script only has to be well-formed). -/
def rscriptOk (s : String) : Bool :=
  let steps := s.splitOn ";"
  let ok (st : String) : Bool :=
    let rest := (st.drop 1).toString
    if st.startsWith "N" || st.startsWith "P" then (parseRParams rest).isSome
    else if st.startsWith "A" then ((rest.splitOn ",").mapM String.toNat?).any (fun l => l.all (· < 65536))
    else if st.startsWith "M" || st.startsWith "C" then (rest.toNat?).any (· < 64)
    else if st.startsWith "Q" then ((rest.splitOn ",").mapM String.toNat?).any (fun l => l.all (· < 4294967296))
    else st == "W"
  steps.all ok && (steps.head?.any (·.startsWith "N")) &&
    (steps.getLast?.any (fun l => l == "W" || l.startsWith "Q"))

def runRefill (sizeS portS script impl : String) : String :=
  match parseSize sizeS with
  | none => "bad-case"
  | some size =>
    let k := match size with | .perHost k => k | .perShard k => k
    if k > 4 || !(portS == "p" || portS == "n") || !rscriptOk script then "bad-case" else
    if impl.trimAscii.toString == "unstable-pool" then "unstable-pool" else
    let rec go (toks : List String) (rf : Refiller) (conns : List Conn) : Option String :=
      match toks with
      | [] => none
      | t :: rest =>
        if t.startsWith "D[" && t.endsWith "]" then
          match checkDump rf (((t.drop 2).toString.dropEnd 1).toString.splitOn ",") with
          | some why => some why
          | none => go rest rf conns
        else match parseRefillEvent conns t with
          | none => some s!"unparsable event {t}"
          | some (e, conns') =>
            match rf.step e with
            | none => some s!"the model's refiller panics on {t} (bucket index out of range)"
            | some rf' => go rest rf' conns'
    match go (words impl) (Refiller.init size) [] with
    | some why => "REJECT " ++ why
    | none => impl.trimAscii.toString

def run (case impl : String) : String :=
  match words case with
  | [head, topo, kss, tabs, cfg, req, tbl, nSamples] =>
    if head == "plan" || head.startsWith "plan." then runPlan topo kss tabs cfg req tbl nSamples impl
    else if head == "hist" || head.startsWith "hist." then runHist topo kss tabs cfg req tbl nSamples impl
    else "bad-case"
  | [head, topo, kss, tabs, cfg, stmt, vals, exec, nSamples] =>
    if head == "stmt" || head.startsWith "stmt." then runStmt topo kss tabs cfg stmt vals exec nSamples impl else "bad-case"
  | [head, size, port, script] =>
    if head == "refill" || head.startsWith "refill." then runRefill size port script impl else "bad-case"
  | [head, nr, msb, size, port, reqs] =>
    if head == "pool" || head.startsWith "pool." then runPool false nr msb size port reqs impl
    else if head == "route" || head.startsWith "route." then runPool true nr msb size port reqs impl
    else "bad-case"
  | _ => "bad-case"

end ScyllaVerif.Drive.C12

import ScyllaVerif.Model.Util
import ScyllaVerif.Model.Pager
import ScyllaVerif.Model.PagerExec
import ScyllaVerif.Model.PagerWake
/-! Line-protocol driver for C07.

Case: `pg|sess|sessdg <skip 0|1> <eager|slow|drop<k>|pdrop<k>> <page> <page> ...` (`pg`: single-connection
pager, `sess`: `Session::execute_iter` on a one-node cluster with the default retry policy, `sessdg`: the
same with DowngradingConsistencyRetryPolicy on an idempotent statement), page = `<rows>:<state>:<faults>` with
state `.` = none (last page), `-` = empty byte string, else hex; faults = letters of
`Pager.connAttempts` or `-`. Rows are numbered 0,1,2,... across the pages.

Output: `rows=<delivered> fin=<end | err:<e>+end | ctor:<e> | dropped> log=<state,state,...>`.
For `eager`/`slow` the result does not depend on the schedule and the model prints it. For `drop<k>` the
number of requests the producer managed to send before it noticed the drop depends on the schedule:
the model runs as a checker (the observed request log must extend the laziest producer's log and be
extended by the most eager producer's log). -/
namespace ScyllaVerif.Drive.C07
open ScyllaVerif.Util ScyllaVerif.Pager

def showState : Option PState → String
  | none => "."
  | some bs => toHex bs

def parseState (s : String) : Option (Option PState) :=
  if s == "." then some none else (parseHex s).map some

/-- `<rows>:<state>:<faults>`; returns the row count, the state and the fault letters. -/
def parsePage3 (n st f : String) : Option (Nat × Option PState × List Char) :=
  match n.toNat?, parseState st with
  | some n, some st => some (n, st, if f == "-" then [] else f.toList)
  | _, _ => none

/-- an optional page annotation: `m` (metadata change) or `B<n>` (size of the page's RESULT body in bytes,
at most 16 MiB) or `Z<n>` (every row carries `n` zero bytes: a highly compressible page) - dimensions of the
harness only: the page loop does not look at sizes or contents -/
def annotOk (x : String) : Bool :=
  x == "m" || ((x.startsWith "B" || x.startsWith "Z") && (match (x.drop 1).toString.toNat? with | some n => decide (n ≤ 16777216) | none => false))

def parsePage (w : String) : Option (Nat × Option PState × List Char) :=
  match w.splitOn ":" with
  | [n, st, f] => parsePage3 n st f
  | [n, st, f, x] => if annotOk x then parsePage3 n st f else none
  | [n, st, f, "m", y] => if (y.startsWith "B" || y.startsWith "Z") && annotOk y then parsePage3 n st f else none
  | _ => none

/-- does the page token announce a metadata change (`:m`)? -/
def pageChanges (w : String) : Bool :=
  match w.splitOn ":" with
  | _ :: _ :: _ :: "m" :: _ => true
  | _ => false

def pageSized (w : String) : Bool :=
  match w.splitOn ":" with
  | [_, _, _, x] => x.startsWith "B" || x.startsWith "Z"
  | [_, _, _, _, _] => true
  | _ => false

/-- run-length encoding `<v>x<n>,...` of the column shape (version mod 2) of the first `m` rows -/
def rle : List Nat → List (Nat × Nat)
  | [] => []
  | v :: t =>
    match rle t with
    | (w, n) :: r => if v == w then (w, n + 1) :: r else (v, 1) :: (w, n) :: r
    | [] => [(v, 1)]

def showVer (vs : List Nat) : String :=
  if vs.isEmpty then "-" else ",".intercalate ((rle vs).map fun p => s!"{p.1}x{p.2}")

/-- Number the rows consecutively. -/
def buildPages : Nat → List (Nat × Option PState × List Char) → List Page
  | _, [] => []
  | base, (n, st, _) :: rest => ((List.range n).map (· + base), st) :: buildPages (base + n) rest

def buildFaults (ps : List (Nat × Option PState × List Char)) : List Attempt :=
  (ps.map fun p => connAttempts false p.2.2).flatten

def buildSessFaults : Bool → List (Nat × Option PState × List Char) → List Attempt
  | _, [] => []
  | first, p :: rest => sessAttempts first false false p.2.2 ++ buildSessFaults false rest

/-- Pager kinds of the case line. -/
inductive Kind where
  | conn | sess | dg | cluster (n : Nat) (idem : Bool)
  deriving DecidableEq

/-- `pg` / `pgk`: single-connection pager; `sess` / `sessk`: session pager, prepared statement; `squery`:
session pager, unprepared statement (QUERY frames); `squeryv`: `query_iter` with values (prepared
internally); `scache`: `CachingSession::execute_iter`; `sessdg`: downgrading policy; `clu<n>i` / `clu<n>n`:
session pager on an `n`-node cluster, idempotent / not idempotent statement; `cls<n>i|n`: the same on
sharded nodes. Consumer `kill<k>` (cluster kinds): the coordinator is stopped after `k` rows - for the page
loop an eager run (the dead node is skipped without a request). -/
/- `ctl`: the control connection's own use of the single-connection pager (the paged `system.peers`
query of the metadata fetch, `ControlConnection::query_iter` -> `Connection::execute_iter`). -/
def kindOf (k : String) : Option Kind :=
  if k == "pg" || k == "pgk" || k == "sessk" || k == "ctl" then some .conn
  else if k == "sess" || k == "squery" || k == "squeryv" || k == "scache" then some .sess
  else if k == "sessdg" then some .dg
  else if (k.startsWith "clu" || k.startsWith "cls") && k.length == 5 then
    match (k.drop 3).toString.toList with
    | [d, f] =>
      if d.isDigit && d != '0' && (f == 'i' || f == 'n') then some (.cluster (d.toNat - 48) (f == 'i')) else none
    | _ => none
  else none

/-- Which fault letters a kind knows, and where: `X` (constructor cancelled) only on the first page,
`k`/`K` (SetKeyspace first response) only on the first page of a session pager, no UNPREPARED for QUERY
frames, the cluster family only what `PagerExec.outcomeOf` maps (plus `d`). -/
def lettersOk (kind : String) (ps : List (Nat × Option PState × List Char)) : Bool :=
  let fs := ps.map fun p => p.2.2
  let later := (fs.drop 1).flatten
  let all := fs.flatten
  !later.contains 'X' && !later.contains 'k' && !later.contains 'K' &&
  (if kind == "pg" || kind == "pgk" || kind == "sessk" then !all.contains 'k' && !all.contains 'K' else true) &&
  (if kind == "squery" then !all.contains 'u' else true) &&
  (if kind.startsWith "clu" || kind.startsWith "cls" then all.all (fun c => c == 'd' || (ScyllaVerif.PagerExec.outcomeOf c).isSome) else true) &&
  (if kind == "sessdg" then !all.contains 'X' else true) &&
  (if kind == "ctl" then all.all (fun c => c == 'u' || c == 'd') else true)

def showLog (s : St) : String :=
  if s.log.isEmpty then "-" else ",".intercalate (s.log.map fun e => showState e.2)

def showFin (s : St) : String :=
  match s.ctorErr with
  | some e => "ctor:" ++ e
  | none =>
    if s.rx == .dropped then "dropped"
    else
      let errs := "+".intercalate (s.errs.map fun e => "err:" ++ e)
      if s.errs.isEmpty then (if s.ended then "end" else "open")
      else errs ++ (if s.ended then "+end" else "")

def showSt (s : St) (log : String) : String :=
  s!"rows={natList s.delivered} fin={showFin s} log={log}"

/-- number of rows in a printed line -/
def lineRows (line : String) : Nat :=
  match (words line).find? (·.startsWith "rows=") with
  | some w =>
    let body := (w.drop 5).toString
    if body == "-" then 0 else (body.splitOn ",").length
  | none => 0

def isPrefixStr (a b : List String) : Bool := a.isPrefixOf b

def logWords (s : St) : List String := s.log.map fun e => showState e.2

def implLog (impl : String) : Option (List String) :=
  match (words impl).find? (·.startsWith "log=") with
  | some w =>
    let body := (w.drop 4).toString
    if body == "-" then some [] else some (body.splitOn ",")
  | none => none

/-- `kill=<m>` of the implementation's line: the number of requests the node had received when it was stopped -/
def implKill (impl : String) : Option Nat :=
  match (words impl).find? (·.startsWith "kill=") with
  | some w => (w.drop 5).toString.toNat?
  | none => none

/-- number of rows in the implementation's line -/
def implRows (impl : String) : Option Nat :=
  match (words impl).find? (·.startsWith "rows=") with
  | some w =>
    let body := (w.drop 5).toString
    if body == "-" then some 0 else some (body.splitOn ",").length
  | none => none

/-- The `via` dimension of the harness - WHERE the retry policy / request timeout in force are configured
(`PagingExecutor::new`, pager.rs:147-186: statement override `o` next to a contradicting profile, the
statement's own profile `p`, the session's default profile `s`) - is below the page loop: the model sees
the policy in force through the attempt outcomes only, so the kinds reduce to `sess` / `sessdg`. -/
def baseKind (k : String) : String :=
  if k == "sesso" || k == "sessp" || k == "sesss" then "sess"
  else if k == "sessdgo" || k == "sessdgp" || k == "sessdgs" then "sessdg"
  else k

/-- connection loss and the constructor paths are scripted for the plain kinds only -/
def viaLettersOk (k : String) (pageWords : List String) : Bool :=
  baseKind k == k || !((pageWords.mapM parsePage).getD []).any fun p =>
    p.2.2.any fun c => c == 'c' || c == 'X' || c == 'k' || c == 'K'

def runCore (case impl : String) : String :=
  match words case with
  | kind0 :: skip :: cons :: pageWords =>
    if !viaLettersOk kind0 pageWords then "bad-case" else
    let kind := baseKind kind0
    if kindOf kind == none then "bad-case" else
    -- modes: 0/1 skip flag, 2/3 metadata-id extension, 4..7 frame compression (LZ4 / Snappy, without / with cached
    -- metadata) - compression is below the page loop: the model does not look at it
    if !(["0", "1", "2", "3", "4", "5", "6", "7"].contains skip) then "bad-case" else
    let compressed := skip == "4" || skip == "5" || skip == "6" || skip == "7"
    if compressed && (kind.startsWith "clu" || kind.startsWith "cls" || kind == "ctl") then "bad-case" else
    let ext := skip == "2" || skip == "3"
    if !ext && pageWords.any pageChanges then "bad-case" else
    if ext && pageWords.any pageSized then "bad-case" else
    match pageWords.mapM parsePage with
    | none => "bad-case"
    | some ps =>
      if ps.isEmpty then "bad-case" else
      let pages := buildPages 0 ps
      if kind == "sessdg" && !(ps.all fun p => dgSupported p.2.2) then "bad-case" else
      if (kind == "pgk" || kind == "sessk") && ext then "bad-case" else
      if kind == "ctl" && (ext || cons != "eager") then "bad-case" else
      if !lettersOk kind ps then "bad-case" else
      if kind == "pgk" || kind == "sessk" then
        -- the bound values lack the partition-key value: PartitionKeyError before the first fetch
        let s := initFailed pages [] "PartitionKey"
        showSt s (showLog s)
      else
      let s0 := init pages (match kindOf kind with
        | some (.cluster n idem) =>
          -- `kill<k>`: the fetches after the kill run over a plan in which the stopped node REFUSES a
          -- connection (Exec's call-indexed targets); the request index of the kill is read off the
          -- implementation's line (`kill=<m>`)
          match (if cons.startsWith "kill" then implKill impl else none) with
          | some m => ScyllaVerif.PagerExec.killedAttempts n idem (ps.map fun p => p.2.2) m
          | none => ScyllaVerif.PagerExec.clusterAttempts n idem (ps.map fun p => p.2.2)
        | some .sess => buildSessFaults true ps
        | some .dg => (ps.map fun p => dgAttempts false false p.2.2).flatten
        | _ => buildFaults ps)
      let fuel := 4 * measure s0 + 16
      if cons.startsWith "kill" && !((kind.startsWith "clu" || kind.startsWith "cls") && (cons.drop 4).toString.toNat?.isSome
          && kindOf kind != some (.cluster 1 true) && kindOf kind != some (.cluster 1 false)) then "bad-case" else
      if cons.startsWith "kill" && kindOf kind != some (.cluster 2 true) && kindOf kind != some (.cluster 2 false)
          && !((ps.map fun p => p.2.2).flatten.all fun c => c == 'd' || c == 'R') then "bad-case" else
      if cons == "eager" || cons.startsWith "kill" then
        -- a bare `next().await` loop: the consumer is polled only when woken (Model/PagerWake.lean)
        let s := (ScyllaVerif.PagerWake.runEagerW true fuel ⟨s0, true, false⟩).s
        showSt s (showLog s)
      else if cons == "slow" || cons == "timed" then
        let s := runEager fuel s0
        showSt s (showLog s)
      else if cons.startsWith "pdrop" then
        -- `k` rows, then ONE more poll, then drop: that poll yields row k+1, or is pending (possibly
        -- after swallowing an empty page), or finishes the stream - the scheduler decides
        match (cons.drop 5).toString.toNat? with
        | none => "bad-case"
        | some k =>
          let loA := runDrop false k fuel s0
          let loB := runDrop false (k + 1) fuel s0
          let hiB := runDrop true (k + 1) fuel s0
          let w := words impl
          if w.any (· == "fin=dropped") then
            match implLog impl, implRows impl with
            | some obs, some m =>
              let cand := if m == k then loA else loB
              if (m == k || m == k + 1) && cand.rx == .dropped && cand.delivered.length == m
                 && isPrefixStr (logWords loA) obs && isPrefixStr obs (logWords hiB) then
                showSt cand (",".intercalate obs)
              else s!"REJECT dropped with {m} rows, log not between {showLog loA} and {showLog hiB}"
            | _, _ => "REJECT unparsable"
          else
            let fin := if loA.rx != .dropped then loA else loB
            showSt fin (showLog fin)
      else if cons.startsWith "drop" then
        match (cons.drop 4).toString.toNat? with
        | none => "bad-case"
        | some k =>
          let lo := runDrop false k fuel s0
          let hi := runDrop true k fuel s0
          if lo.rx != .dropped then showSt lo (showLog lo)   -- the stream finished before `k` rows
          else
            match implLog impl with
            | none => "REJECT unparsable"
            | some obs =>
              if isPrefixStr (logWords lo) obs && isPrefixStr obs (logWords hi) then
                showSt lo (",".intercalate obs)
              else s!"REJECT log not between {showLog lo} and {showLog hi}"
      else "bad-case"
  | _ => "bad-case"

/-- With the metadata-id extension (`skip` 2|3) the line also says which columns each delivered row was
decoded with: `ver=` run-length encodes (version mod 2) of the first `m` entries of `rowVersions`. -/
def run (case impl : String) : String :=
  let core0 := runCore case impl
  let core := match implKill impl with
    | some m => if core0.startsWith "rows=" then core0 ++ s!" kill={m}" else core0
    | none => core0
  match words case with
  | _ :: skip :: _ :: pageWords =>
    if (skip == "2" || skip == "3") && core.startsWith "rows=" then
      match pageWords.mapM parsePage with
      | some ps =>
        let pagesM : List PageM := (buildPages 0 ps).zip (pageWords.map pageChanges)
        let vs := ((rowVersions 0 pagesM).take (lineRows core)).map (· % 2)
        core ++ " ver=" ++ showVer vs
      | none => core
    else core
  | _ => core

end ScyllaVerif.Drive.C07

import ScyllaVerif.Model.Util
import ScyllaVerif.Model.Timestamp
/-! Line-protocol driver for C18.
`seq <calls> <script>`: single-thread run, deterministic.
`mt <calls> <script0>|<script1>|…`: multi-thread run; the model is a *checker*: it decides whether the observed
per-thread value lists are producible by some interleaving of the CAS loop (every successful CAS has loaded
the previously installed value, so the global order is the order by value).
Warnings configuration word `W`: `-` = `without_warnings()`, `d` = `new()` (1 s / 1 s), `<thr_us>/<ivl_ns>` or
`<thr_us>/max` (= `Duration::MAX`) = `with_warning_times`.
`seqw <W> <calls> <script>`: single thread on a warning-configured generator; per call the value or `P` (the call
panicked), then the numbers of `warn!` events (`we` behind-epoch, `ws` skew); exact when the interval is 0 or `max`,
otherwise `ws` is checked against its upper bound.
`seqt <W> <a0,a1,…> <script>`: `seqw` under a PAUSED tokio clock advanced by a_k ns before call k: warn counts exact
for every interval. `api <st|bl|bu|bc|wl|wu|wc> <op.op…>`: set / get / clone / append on a real Statement or Batch.
`mtw <W> <calls> <scripts>`: `mt` on a warning-configured generator (values checked as in `mt`).
`mtp <W> <threads> <per> <r0,r1,…>`: paced rounds: in round k every thread's clock reads r_k, `per` calls per thread;
round k ends before round k+1 starts, so the witness schedule is built round by round.
`mtreal <W> <threads> <rounds> <per> <pause_us>`: the same on the REAL clock: the readings are existentially
quantified (a value above its predecessor is a clock reading, otherwise it must be predecessor + 1).
`page <n|start/step> <exec>+<exec>…`: paged executions one after another on one hooked connection with the counting
generator (or none); exec = `<q|e|p|i>:<n|explicit ts>:<s|saved page>:<r0.r1.…>` (per page: re-sent frames); output per
exec `<ts>@<paging state>,…#<generator calls>`. -/
namespace ScyllaVerif.Drive.C18
open ScyllaVerif.Util ScyllaVerif.Timestamp

def parseScript (s : String) : Option (List (Option Nat)) :=
  if s == "-" then some []
  else (s.splitOn ",").mapM (fun w => if w == "n" then some none else w.toNat?.map some)

def intList (xs : List Int) : String :=
  if xs.isEmpty then "-" else ",".intercalate (xs.map toString)

/-- reading number `p` of a script (the last entry repeats; an empty script always reads pre-epoch) -/
def readingAt (script : List (Option Nat)) (p : Nat) : Option Nat :=
  match script[p]? with
  | some e => e
  | none => match script.getLast? with
    | some e => e
    | none => none

/-- smallest `p ∈ [from, from+fuel)` whose reading turns `prev` into `v` -/
def findReading (script : List (Option Nat)) (prev v : Int) (p : Nat) : Nat → Option Nat
  | 0 => none
  | fuel + 1 =>
    if computeNext prev ((readingAt script p).map microsAsI64) = v then some p
    else findReading script prev v (p + 1) fuel

def setAt (xs : List Nat) (i v : Nat) : List Nat := xs.set i v

/-- replay of the observed values in global (= value) order: either a reason why no interleaving produces
them, or the witness schedule — for every value the three atomic steps `load; compute (reading); cas` of the
model (`Timestamp.step`), in global order (a failed CAS round leaves no trace in the returned values, so the
witness needs none). -/
def replay (scripts : List (List (Option Nat))) : List (Nat × Int) → Int → List Nat → List Ev → Except String (List Ev)
  | [], _, _, acc => .ok acc.reverse
  | (t, v) :: rest, prev, pos, acc =>
    let script := scripts.getD t []
    let p0 := pos.getD t 0
    -- readings beyond the script repeat, so searching up to its length + 1 is complete
    match findReading script prev v p0 (script.length + 2 - min p0 (script.length + 1)) with
    | none => .error s!"value {v} of thread {t} is not compute_next({prev}, any remaining reading)"
    | some p =>
      let clock := (readingAt script p).map microsAsI64
      replay scripts rest v (setAt pos t (p + 1)) (.cas t :: .compute t clock :: .load t :: acc)

def parseThr (s : String) : Option Int := s.toNat?.map microsAsI64

/-- `Duration::MAX` in nanoseconds -/
def durationMaxNs : Nat := (2 ^ 64 - 1) * 1000000000 + 999999999

/-- warnings word → (configuration, interval is `max`) -/
def parseW (s : String) : Option (Option WarnCfg × Bool) :=
  if s == "-" then some (none, false)
  else if s == "d" then some (some ⟨1000000, 1000000000⟩, false)
  else match s.splitOn "/" with
    | [thr, ivl] =>
      match parseThr thr with
      | none => none
      | some t =>
        if ivl == "max" then some (some ⟨t, durationMaxNs⟩, true)
        else ivl.toNat?.map (fun i => (some ⟨t, i⟩, false))
    | _ => none

def callList (xs : List (Option (Int × Warned))) : String :=
  if xs.isEmpty then "-" else ",".intercalate (xs.map fun
    | some (v, _) => toString v
    | none => "P")

def countW (k : Warned) (xs : List (Option (Int × Warned))) : Nat :=
  (xs.filter fun | some (_, w) => w == k | none => false).length

/-- `key=<nat>` -/
def kv (key s : String) : Option Nat :=
  match s.splitOn "=" with
  | [k, v] => if k == key then v.toNat? else none
  | _ => none

/-- impl line `<values> we=<n> ws=<n>` → (values part, we, ws) -/
def splitCounts (impl : String) : Option (String × Nat × Nat) :=
  match words impl with
  | [vals, we, ws] =>
    match kv "we" we, kv "ws" ws with
    | some a, some b => some (vals, a, b)
    | _, _ => none
  | _ => none

/-- the `mt` checker on the `|`-separated per-thread value lists: `none` = accepted -/
def checkMt (scs : List (List (Option Nat))) (vals : String) : Option String :=
  match (vals.splitOn "|").mapM parseIntList with
  | none => some "unparsable"
  | some perThread =>
    if perThread.length ≠ scs.length then some "thread-count" else
    let tagged : List (Nat × Int) :=
      (perThread.zipIdx.map (fun (vs, t) => vs.map (fun v => (t, v)))).flatten
    let sorted := tagged.mergeSort (fun a b => a.2 ≤ b.2)
    -- per-thread order must agree with the global order
    let perThreadOk := perThread.all (fun vs => vs.zip vs.tail |>.all (fun (a, b) => a < b))
    let distinct := (sorted.zip sorted.tail).all (fun (a, b) => a.2 < b.2)
    if !perThreadOk then some "per-thread-order"
    else if !distinct then some "duplicate"
    else match replay scs sorted 0 (List.replicate scs.length 0) [] with
      | .error why => some why
      | .ok evs =>
        -- the witness schedule is run through the MODEL's state machine (`Timestamp.run`, the object of
        -- the C18 theorems): its log of successful CASes must be exactly the observed values
        if (Timestamp.run St.init evs).log == sorted then none
        else some "model-run-differs"

/-- One round: the values (already in value order) must be `compute_next(predecessor, the round's reading)`;
`spec = none`: real clock - the reading is whatever makes the step valid (`some v` when `v` exceeds its predecessor). -/
def replayRound (spec : Option (Option Nat)) : List (Nat × Int) → Int → List Ev → Except String (Int × List Ev)
  | [], prev, acc => .ok (prev, acc)
  | (t, v) :: rest, prev, acc =>
    let clock : Option Int := match spec with
      | some r => r.map microsAsI64
      | none => some v
    if computeNext prev clock = v then replayRound spec rest v (.cas t :: .compute t clock :: .load t :: acc)
    else .error s!"value {v} of thread {t} is not compute_next({prev}, the round's reading)"

def replayRounds (perThread : List (List Int)) (per : Nat) :
    List (Option (Option Nat)) → Nat → Int → List Ev → List (Nat × Int) → Except String (List Ev × List (Nat × Int))
  | [], _, _, acc, seen => .ok (acc.reverse, seen)
  | spec :: specs, k, prev, acc, seen =>
    let tagged : List (Nat × Int) :=
      (perThread.zipIdx.map (fun (vs, t) => ((vs.drop (k * per)).take per).map (fun v => (t, v)))).flatten
    let sorted := tagged.mergeSort (fun a b => a.2 ≤ b.2)
    match replayRound spec sorted prev acc with
    | .error why => .error s!"round {k}: {why}"
    | .ok (prev', acc') => replayRounds perThread per specs (k + 1) prev' acc' (seen ++ sorted)

/-- the rounds checker (`mtp`, `mtreal`): `none` = accepted -/
def checkRounds (threads per : Nat) (specs : List (Option (Option Nat))) (vals : String) : Option String :=
  match (vals.splitOn "|").mapM parseIntList with
  | none => some "unparsable"
  | some perThread =>
    if perThread.length ≠ threads then some "thread-count"
    else if perThread.any (fun vs => vs.length ≠ specs.length * per) then some "value-count"
    else
      let all := (perThread.flatten).mergeSort (fun a b => a ≤ b)
      let perThreadOk := perThread.all (fun vs => vs.zip vs.tail |>.all (fun (a, b) => a < b))
      let distinct := (all.zip all.tail).all (fun (a, b) => a < b)
      if !perThreadOk then some "per-thread-order"
      else if !distinct then some "duplicate"
      else match replayRounds perThread per specs 0 0 [] [] with
        | .error why => some why
        | .ok (evs, seen) =>
          if (Timestamp.run St.init evs).log == seen then none else some "model-run-differs"

def parseApiOp (w : String) : Option ApiOp :=
  if w == "g" then some .get
  else if w == "c" then some .clone
  else if w == "a" then some .append
  else if w == "sn" then some (.set none)
  else if w.startsWith "s" then ((w.drop 1).toString.toInt?).map (fun v => .set (some v))
  else none

def optList (xs : List (Option Int)) : String :=
  if xs.isEmpty then "-" else ",".intercalate (xs.map fun | some v => toString v | none => "n")


/-- `<k>:<ts>:<from>:<r0.r1…>` → (explicit timestamp, pages) -/
def parseExec (w : String) : Option (Option Int × List (Option Nat × Nat)) :=
  match w.splitOn ":" with
  | [k, ts, frm, rs] =>
    if !(k == "q" || k == "e" || k == "p" || k == "i") then none else
    let tsO : Option (Option Int) := if ts == "n" then some none else ts.toInt?.map some
    let frmO : Option (Option Nat) := if frm == "s" then some none else frm.toNat?.map some
    match tsO, frmO, (rs.splitOn ".").mapM (·.toNat?) with
    | some t, some f, some resends =>
      -- a QUERY has no re-send path; the pager always starts from the start state
      if (k == "q" && resends.any (· != 0)) || (k == "i" && f.isSome) || resends.any (· > 1) then none else
      let base := f.getD 0
      some (t, resends.zipIdx.map fun (r, j) => ((if j == 0 then f else some (base + j)), r))
    | _, _, _ => none
  | _ => none

def pageFrameStr (f : PageFrame) : String :=
  (match f.timestamp with | some t => toString t | none => "n") ++ "@" ++
  (match f.paging with | some k => toString k | none => "s")

def execStr (r : List PageFrame × Nat) : String :=
  ",".intercalate (r.1.map pageFrameStr) ++ "#" ++ toString r.2

def run (case impl : String) : String :=
  match words case with
  | ["page", g, execs] =>
    let genO : Option (Option (Int × Int)) :=
      if g == "n" then some none else
      match g.splitOn "/" with
      | [a, b] => match a.toInt?, b.toInt? with
        | some a, some b => some (some (a, b))
        | _, _ => none
      | _ => none
    match genO, (execs.splitOn "+").mapM parseExec with
    | some none, some es => "+".intercalate ((pagedExecs none (0, 0) es).map execStr)
    | some (some (start, step)), some es => "+".intercalate ((pagedExecs (some (ctrGen step)) (start, 0) es).map execStr)
    | _, _ => "bad-case"
  | ["api", kind, ops] =>
    match (ops.splitOn ".").mapM parseApiOp with
    | none => "bad-case"
    | some os =>
      let one : List BatchStmtM := [.query StatementM.new]
      if kind == "st" then optList (apiRunStatement StatementM.new os)
      else if kind == "bl" then optList (apiRunBatch (BatchM.new .logged) os)
      else if kind == "bu" then optList (apiRunBatch (BatchM.new .unlogged) os)
      else if kind == "bc" then optList (apiRunBatch (BatchM.new .counter) os)
      else if kind == "wl" then optList (apiRunBatch (BatchM.newWithStatements .logged one) os)
      else if kind == "wu" then optList (apiRunBatch (BatchM.newWithStatements .unlogged one) os)
      else if kind == "wc" then optList (apiRunBatch (BatchM.newWithStatements .counter one) os)
      else "bad-case"
  | ["seqt", w, advs, script] =>
    match parseW w, parseNatList advs, parseScript script with
    | some (cfg, _), some as, some sc =>
      let r := seqRunT cfg as 0 sc none ⟨0, false⟩ 0
      s!"{callList r} we={countW .epoch r} ws={countW .skew r}"
    | _, _, _ => "bad-case"
  | ["seq", calls, script] =>
    match calls.toNat?, parseScript script with
    | some n, some sc => intList (seqRun n 0 sc none)
    | _, _ => "bad-case"
  | ["seqw", w, calls, script] =>
    match parseW w, calls.toNat?, parseScript script with
    | some (cfg, isMax), some n, some sc =>
      let exact := isMax || (match cfg with | none => true | some c => c.intervalNs == 0)
      if exact then
        let r := seqRunW cfg id n 0 sc none ⟨0, false⟩
        s!"{callList r} we={countW .epoch r} ws={countW .skew r}"
      else
        -- a finite non-zero interval: whether it has elapsed is up to the real monotonic clock; the values do not
        -- depend on it (`seqRunW_values`), the number of skew warnings is at most that of "elapsed every time"
        let ivl := match cfg with | some c => c.intervalNs | none => 0
        let r := seqRunW cfg (fun lw => lw + ivl) n 0 sc none ⟨0, false⟩
        match splitCounts impl with
        | none => "REJECT unparsable"
        | some (_, _, ws) =>
          if ws ≤ countW .skew r then s!"{callList r} we={countW .epoch r} ws={ws}"
          else s!"REJECT {ws} skew warnings, at most {countW .skew r} calls can warn"
    | _, _, _ => "bad-case"
  | ["mt", _calls, scripts] =>
    match (scripts.splitOn "|").mapM parseScript with
    | none => "bad-case"
    | some scs =>
      let implT := impl.trimAscii.toString
      match checkMt scs implT with
      | none => implT
      | some why => "REJECT " ++ why
  | ["mtw", w, _calls, scripts] =>
    match parseW w, (scripts.splitOn "|").mapM parseScript with
    | some (_, false), some scs =>
      let implT := impl.trimAscii.toString
      match splitCounts implT with
      | none => "REJECT unparsable"
      | some (vals, _, _) =>
        match checkMt scs vals with
        | none => implT
        | some why => "REJECT " ++ why
    | _, _ => "bad-case"
  | ["mtp", w, threads, per, readings] =>
    match parseW w, threads.toNat?, per.toNat?, parseScript readings with
    | some (_, false), some th, some pr, some rs =>
      let implT := impl.trimAscii.toString
      match splitCounts implT with
      | none => "REJECT unparsable"
      | some (vals, _, _) =>
        match checkRounds th pr (rs.map some) vals with
        | none => implT
        | some why => "REJECT " ++ why
    | _, _, _, _ => "bad-case"
  | ["mtreal", w, threads, rounds, per, _pause] =>
    match parseW w, threads.toNat?, rounds.toNat?, per.toNat? with
    | some (_, false), some th, some rd, some pr =>
      let implT := impl.trimAscii.toString
      match splitCounts implT with
      | none => "REJECT unparsable"
      | some (vals, _, _) =>
        match checkRounds th pr (List.replicate rd none) vals with
        | none => implT
        | some why => "REJECT " ++ why
    | _, _, _, _ => "bad-case"
  | _ => "bad-case"

end ScyllaVerif.Drive.C18

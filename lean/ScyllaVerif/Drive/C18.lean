import ScyllaVerif.Model.Util
import ScyllaVerif.Model.Timestamp
/-! Line-protocol driver for C18.
`seq <calls> <script>`: single-thread run, deterministic.
`mt <calls> <script0>|<script1>|…`: multi-thread run; the model is a *checker*: it decides whether the observed
per-thread value lists are producible by some interleaving of the CAS loop (every successful CAS has loaded
the previously installed value, so the global order is the order by value). -/
namespace ScyllaVerif.Drive.C18
open ScyllaVerif.Util ScyllaVerif.Timestamp

def parseScript (s : String) : Option (List (Option Nat)) :=
  if s == "-" then some []
  else (s.splitOn ",").mapM (fun w => if w == "n" then some none else w.toNat?.map some)

def intList (xs : List Int) : String :=
  if xs.isEmpty then "-" else ",".intercalate (xs.map toString)

/-- reading number `p` of a script (the last entry repeats; an empty script always reads pre-epoch) -/
def readingAt (script : List (Option Nat)) (p : Nat) : Option Nat :=
  match script[p]? with
  | some e => e
  | none => match script.getLast? with
    | some e => e
    | none => none

/-- smallest `p ∈ [from, from+fuel)` whose reading turns `prev` into `v` -/
def findReading (script : List (Option Nat)) (prev v : Int) (p : Nat) : Nat → Option Nat
  | 0 => none
  | fuel + 1 =>
    if computeNext prev ((readingAt script p).map microsAsI64) = v then some p
    else findReading script prev v (p + 1) fuel

def setAt (xs : List Nat) (i v : Nat) : List Nat := xs.set i v

/-- replay of the observed values in global (= value) order: either a reason why no interleaving produces
them, or the witness schedule — for every value the three atomic steps `load; compute (reading); cas` of the
model (`Timestamp.step`), in global order (a failed CAS round leaves no trace in the returned values, so the
witness needs none). -/
def replay (scripts : List (List (Option Nat))) : List (Nat × Int) → Int → List Nat → List Ev → Except String (List Ev)
  | [], _, _, acc => .ok acc.reverse
  | (t, v) :: rest, prev, pos, acc =>
    let script := scripts.getD t []
    let p0 := pos.getD t 0
    -- readings beyond the script repeat, so searching up to its length + 1 is complete
    match findReading script prev v p0 (script.length + 2 - min p0 (script.length + 1)) with
    | none => .error s!"value {v} of thread {t} is not compute_next({prev}, any remaining reading)"
    | some p =>
      let clock := (readingAt script p).map microsAsI64
      replay scripts rest v (setAt pos t (p + 1)) (.cas t :: .compute t clock :: .load t :: acc)

def run (case impl : String) : String :=
  match words case with
  | ["seq", calls, script] =>
    match calls.toNat?, parseScript script with
    | some n, some sc => intList (seqRun n 0 sc none)
    | _, _ => "bad-case"
  | ["mt", _calls, scripts] =>
    match (scripts.splitOn "|").mapM parseScript with
    | none => "bad-case"
    | some scs =>
      let implT := impl.trimAscii.toString
      match (implT.splitOn "|").mapM parseIntList with
      | none => "REJECT unparsable"
      | some perThread =>
        if perThread.length ≠ scs.length then "REJECT thread-count" else
        let tagged : List (Nat × Int) :=
          (perThread.zipIdx.map (fun (vs, t) => vs.map (fun v => (t, v)))).flatten
        let sorted := tagged.mergeSort (fun a b => a.2 ≤ b.2)
        -- per-thread order must agree with the global order
        let perThreadOk := perThread.all (fun vs => vs.zip vs.tail |>.all (fun (a, b) => a < b))
        let distinct := (sorted.zip sorted.tail).all (fun (a, b) => a.2 < b.2)
        if !perThreadOk then "REJECT per-thread-order"
        else if !distinct then "REJECT duplicate"
        else match replay scs sorted 0 (List.replicate scs.length 0) [] with
          | .error why => "REJECT " ++ why
          | .ok evs =>
            -- the witness schedule is run through the MODEL's state machine (`Timestamp.run`, the object of
            -- the C18 theorems): its log of successful CASes must be exactly the observed values
            if (Timestamp.run St.init evs).log == sorted then implT
            else "REJECT model-run-differs"
  | _ => "bad-case"

end ScyllaVerif.Drive.C18

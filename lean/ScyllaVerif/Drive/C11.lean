import ScyllaVerif.Model.Util
import ScyllaVerif.Model.Sharding
/-! Line-protocol driver for C11.  Input: `<case>\t<implementation output>`; output: the model's line.
For the two nondeterministic operations (`iter`, `draw`) the model runs as a *checker*: it echoes the
implementation's line iff that line is producible by some random choice, else prints `REJECT …`. -/
namespace ScyllaVerif.Drive.C11
open ScyllaVerif.Util ScyllaVerif.Sharding

def optNat : Option Nat → String
  | none => "none"
  | some p => toString p

def run (case impl : String) : String :=
  match (words case), (words case).tail.mapM String.toInt? with
  | "shard" :: _, some [n, msb, tok] =>
    toString (shardOfImpl n.toNat (UInt8.ofNat msb.toNat) (tokenNew (Int64.ofInt tok)))
  | "shardraw" :: _, some [n, msb, tok] =>
    -- token built by `FromStr`: the raw value, not normalised
    toString (shardOfImpl n.toNat (UInt8.ofNat msb.toNat) (Int64.ofInt tok))
  | "shardspec" :: _, some [n, msb, tok] => toString (shardOfSpec n.toNat msb.toNat tok)
  | "port" :: _, some [n, p] => toString (shardOfPort n.toNat p.toNat)
  | "lowest" :: _, some [n, s, lo, hi] => optNat (lowestPort n.toNat s.toNat lo.toNat hi.toNat)
  | "iter" :: _, some [n, s, lo, hi] =>
    let ps := ports n.toNat s.toNat lo.toNat hi.toNat
    match parseNatList impl.trimAscii.toString with
    | none => "REJECT unparsable"
    | some obs =>
      match obs with
      | [] => if ps.isEmpty then impl else "REJECT expected-rotation-of " ++ natList ps
      | h :: _ =>
        match ps.idxOf? h with
        | none => "REJECT expected-rotation-of " ++ natList ps
        | some pivot =>
          if iterPorts n.toNat s.toNat lo.toNat hi.toNat pivot == obs then impl
          else "REJECT expected-rotation-of " ++ natList ps
  | "draw" :: _, some [n, s, lo, hi, _k] =>
    let ps := ports n.toNat s.toNat lo.toNat hi.toNat
    if impl.trimAscii.toString == "none" then
      (if ps.isEmpty then impl else "REJECT expected-some-of " ++ natList ps)
    else match parseNatList impl.trimAscii.toString with
      | none => "REJECT unparsable"
      | some obs => if !obs.isEmpty && obs.all (fun p => ps.contains p) then impl
                    else "REJECT expected-subset-of " ++ natList ps
  | "shardinfo" :: _, some [shard, n, msb] =>
    match parseShardInfo shard.toNat n.toNat msb.toNat with
    | .ok si => s!"ok {si.shard} {si.nrShards} {si.msbIgnore}"
    | .error .parse => "err parse"
    | .error .zeroShards => "err zeroShards"
    | .error .shardOutOfRange => "err shardOutOfRange"
  | _, _ =>
    match words case with
    | ["shardopts", a, b, c] =>
      -- an entry is `-` (key absent), `e` (empty value list), a decimal number, or any other word (not a number)
      let entry (w : String) : Entry :=
        if w == "-" then .absent else if w == "e" then .empty else .val w.toNat?
      match parseShardOptions (entry a) (entry b) (entry c) with
      | .ok si => s!"ok {si.shard} {si.nrShards} {si.msbIgnore}"
      | .error .noShardInfo => "err noShardInfo"
      | .error .missingSome => "err missingSome"
      | .error .missingValues => "err missingValues"
      | .error (.info .parse) => "err parse"
      | .error (.info .zeroShards) => "err zeroShards"
      | .error (.info .shardOutOfRange) => "err shardOutOfRange"
    | _ => "bad-case"

end ScyllaVerif.Drive.C11

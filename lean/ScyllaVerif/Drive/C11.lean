import ScyllaVerif.Model.Util
import ScyllaVerif.Model.Sharding
import ScyllaVerif.Model.C11Connect
import ScyllaVerif.Model.C11PoolAttempt
/-! Line-protocol driver for C11.  Input: `<case>\t<implementation output>`; output: the model's line.
For the nondeterministic operations (`iter`, `draw`, `iterpub`, `drawpub`: a random pivot / index; `conn`: the pivot of
the iterator the loop walks; `sess`: which shard the pool's first connection lands on) the model runs as a *checker*: it
echoes the implementation's line iff that line is producible by some random choice, else prints `REJECT …`.
`skip …` (the environment did not allow a network case: nothing was judged) is echoed. -/
namespace ScyllaVerif.Drive.C11
open ScyllaVerif.Util ScyllaVerif.Sharding ScyllaVerif.C11Connect ScyllaVerif.C11PoolAttempt

/-- A SUPPORTED entry word: `-` = key absent, `e` = empty value list, `""` = the empty string, else the first value
itself (the harness appends a second value, which must be ignored). -/
def entryWord (w : String) : Option (List String) :=
  if w == "-" then none else if w == "e" then some [] else if w == "\"\"" then some ["", "7"] else some [w, "7"]

/-- The per-port behaviour of `open_connection` a `conn` / `sess` case scripts: a port held by a bound socket answers
EADDRINUSE at `bind`; a port whose 4-tuple is taken by an established connection answers EADDRNOTAVAIL at `connect`
when the driver binds with SO_REUSEADDR (EADDRINUSE at `bind` otherwise); a port the mock node hangs up on fails
with an error that is NOT address-unavailable; every other port connects. -/
def scripted (reuse : Bool) (inuse taken broken : List Nat) : Nat → Except ConnErr Unit := fun p =>
  if inuse.contains p then .error (.io .addrInUse)
  else if taken.contains p then .error (.io (if reuse then .addrNotAvailable else .addrInUse))
  else if broken.contains p then .error .notIo
  else .ok ()

def connCheck (n s lo hi : Nat) (reuse : Bool) (inuse taken broken : List Nat) (impl : String) : String :=
  let f := scripted reuse inuse taken broken
  let poss := possibleResults n s lo hi f
  let describe : OpenResult → String
    | .connected p => s!"ok {p}"
    | .failed p _ => s!"err {p} other"
    | .noSourcePort => s!"nosource {s}"
  let expected := " | ".intercalate (poss.map describe).eraseDups
  match words impl with
  | "skip" :: _ => impl
  | ["ok", p] =>
    match p.toNat? with
    | some p => if poss.contains (.connected p) then impl else "REJECT expected-one-of " ++ expected
    | none => "REJECT unparsable"
  | ["nosource", s'] =>
    if s'.toNat? == some s && poss.contains .noSourcePort then impl else "REJECT expected-one-of " ++ expected
  | ["err", p, "other"] =>
    match p.toNat? with
    | some p => if poss.any (fun r => match r with | .failed q _ => q == p | _ => false) then impl
                else "REJECT expected-one-of " ++ expected
    | none => "REJECT unparsable"
  | _ => "REJECT expected-one-of " ++ expected

/-- `sess`: one word per shard - the source port of the pool's connection to that shard when it lies in the configured
range, `x` otherwise. Every port must be a free port of its shard; only ONE shard that has a free port may be without
(the pool's first connection goes to the non-shard-aware port and lands on an arbitrary shard). -/
def sessCheck (n lo hi : Nat) (reuse : Bool) (inuse taken : List Nat) (impl : String) : String :=
  let f := scripted reuse inuse taken []
  match words impl with
  | "skip" :: _ => impl
  | ["shards", l] =>
    let ws := l.splitOn ","
    if ws.length != n then "REJECT expected-one-entry-per-shard" else
    let judged := (List.range n).zip ws |>.map (fun (s, w) =>
      let frees := (ports n s lo hi).filter (fun p => match f p with | .ok _ => true | .error _ => false)
      if w == "x" then (true, !frees.isEmpty)
      else match w.toNat? with
        | some p => (frees.contains p, false)
        | none => (false, false))
    if judged.all (·.1) && (judged.filter (·.2)).length ≤ 1 then impl
    else "REJECT a-shard-with-a-free-port-has-no-connection-from-the-configured-range"
  | _ => "REJECT unparsable"

/-- `sessx`: a session whose configured range starves some shard. Per shard the source port of the pool's live
connection from the configured range (`x`: none), then `outside k` - the number of connections whose source port is
neither in the configured range nor the operating system's choice. The model (`Model/C11PoolAttempt.lean`): for every
shard the refiller's attempt is `startOpening` = `shardAware s n`, run over the CONFIGURED range; a port word must be
the `connected` result of that attempt for some pivot; a shard whose attempt can only answer `noSourcePort` is followed
by a plain attempt (`followUp`) and has no port; the attempt and its follow-up bind nothing outside the range
(`chainTried`), so `outside` is 0. (Which shards are served by plain connections is the node's choice: not judged.) -/
def sessxCheck (n lo hi : Nat) (reuse : Bool) (inuse taken : List Nat) (impl : String) : String :=
  let f := scripted reuse inuse taken []
  let cfg : PortCfg := ⟨lo, hi⟩
  match words impl with
  | "skip" :: _ => impl
  | ["shards", l, "outside", k] =>
    let ws := l.splitOn ","
    if ws.length != n then "REJECT expected-one-entry-per-shard" else
    let ok := (List.range n).zip ws |>.all (fun (s, w) =>
      let a := startOpening (some n) (some 0) (some s)
      let k := (ports n s lo hi).length
      let results := (List.range (max k 1)).map (fun pivot => runAttempt cfg a pivot f)
      let tried := (List.range (max k 1)).flatMap (fun pivot => chainTried cfg a pivot f)
      tried.all (fun p => lo ≤ p && p ≤ hi) &&
      (if w == "x" then true
       else match w.toNat? with
        | some p => results.contains (some (.connected p))
        | none => false) &&
      -- a starved shard: the only result is NoSourcePortForShard, followed by a plain attempt
      (results.all (fun r => r == some .noSourcePort) → (w == "x" && results.all (fun r => followUp a r == some .plain))))
    if !ok then "REJECT a-port-word-is-not-a-result-of-the-attempt-over-the-configured-range"
    else if k != "0" then "REJECT the-driver-binds-no-source-port-outside-the-configured-range"
    else impl
  | _ => "REJECT unparsable"

/-- A long port list in a REJECT line: its length and its first elements. -/
def brief (ps : List Nat) : String :=
  if ps.length ≤ 8 then natList ps else s!"{ps.length}-ports:" ++ natList (ps.take 4) ++ ",.."

def optNat : Option Nat → String
  | none => "none"
  | some p => toString p

def run (case impl : String) : String :=
  match (words case), (words case).tail.mapM String.toInt? with
  | "shard" :: _, some [n, msb, tok] =>
    toString (shardOfImpl n.toNat (UInt8.ofNat msb.toNat) (tokenNew (Int64.ofInt tok)))
  | "shardraw" :: _, some [n, msb, tok] =>
    -- token built by `FromStr`: the raw value, not normalised
    toString (shardOfImpl n.toNat (UInt8.ofNat msb.toNat) (Int64.ofInt tok))
  | "shardspec" :: _, some [n, msb, tok] => toString (shardOfSpec n.toNat msb.toNat tok)
  | "port" :: _, some [n, p] => toString (shardOfPort n.toNat p.toNat)
  | "lowest" :: _, some [n, s, lo, hi] => optNat (lowestPort n.toNat s.toNat lo.toNat hi.toNat)
  | "iter" :: _, some [n, s, lo, hi] =>
    let ps := ports n.toNat s.toNat lo.toNat hi.toNat
    match parseNatList impl.trimAscii.toString with
    | none => "REJECT unparsable"
    | some obs =>
      match obs with
      | [] => if ps.isEmpty then impl else "REJECT expected-rotation-of " ++ natList ps
      | h :: _ =>
        match ps.idxOf? h with
        | none => "REJECT expected-rotation-of " ++ natList ps
        | some pivot =>
          if iterPorts n.toNat s.toNat lo.toNat hi.toNat pivot == obs then impl
          else "REJECT expected-rotation-of " ++ natList ps
  | "draw" :: _, some [n, s, lo, hi, _k] =>
    let ps := ports n.toNat s.toNat lo.toNat hi.toNat
    if impl.trimAscii.toString == "none" then
      (if ps.isEmpty then impl else "REJECT expected-some-of " ++ natList ps)
    else match parseNatList impl.trimAscii.toString with
      | none => "REJECT unparsable"
      | some obs => if !obs.isEmpty && obs.all (fun p => ps.contains p) then impl
                    else "REJECT expected-subset-of " ++ natList ps
  | "shardinfo" :: _, some [shard, n, msb] =>
    match parseShardInfo shard.toNat n.toNat msb.toNat with
    | .ok si => s!"ok {si.shard} {si.nrShards} {si.msbIgnore}"
    | .error .parse => "err parse"
    | .error .zeroShards => "err zeroShards"
    | .error .shardOutOfRange => "err shardOutOfRange"
  | _, _ =>
    match words case with
    | ["shardopts", a, b, c] =>
      -- an entry is `-` (key absent), `e` (empty value list), a decimal number, or any other word (not a number)
      -- the first value goes through the exact accept set of `parse::<u16>` / `parse::<u8>` (`parseUnsigned`: `+5` and `007`
      -- are numbers, `1_0` and `""` are not), not through Lean's `String.toNat?`
      let entry (w : String) : Entry := entryOf (entryWord w)
      match parseShardOptions (entry a) (entry b) (entry c) with
      | .ok si => s!"ok {si.shard} {si.nrShards} {si.msbIgnore}"
      | .error .noShardInfo => "err noShardInfo"
      | .error .missingSome => "err missingSome"
      | .error .missingValues => "err missingValues"
      | .error (.info .parse) => "err parse"
      | .error (.info .zeroShards) => "err zeroShards"
      | .error (.info .shardOutOfRange) => "err shardOutOfRange"
    | [kind, "plain", a, b, c, p, pssl] =>
      -- `features6`: the same over IPv6 loopback
      if kind != "features" && kind != "features6" then "bad-case" else
      let o : Supported := ⟨entryWord a, entryWord b, entryWord c, entryWord p, entryWord pssl⟩
      let info := match shardInfoOf o with
        | some si => s!"{si.shard}/{si.nrShards}/{si.msbIgnore}"
        | none => "none"
      s!"info={info} port={optNat (shardAwarePortOf o false)}"
    | ["drawpub", n, s, _k] =>
      match n.toNat?, s.toNat? with
      | some n, some s =>
        let ps := ports n s ephemeralLo ephemeralHi
        -- `drawPub n s idx` panics for every index iff the shard is out of range or the candidate list is empty
        let panics := match drawPub n s 0 with | .panic => true | .value _ => false
        if impl.trimAscii.toString == "panic" then (if panics then impl else "REJECT expected-some-of " ++ brief ps)
        else match parseNatList impl.trimAscii.toString with
          | none => "REJECT unparsable"
          | some obs => if !panics && !obs.isEmpty && obs.all (fun p => ps.contains p) then impl
                        else if panics then "REJECT expected-panic" else "REJECT expected-subset-of " ++ brief ps
      | _, _ => "bad-case"
    | ["iterpub", n, s] =>
      match n.toNat?, s.toNat? with
      | some n, some s =>
        match iterPub n s 0 with
        | .panic => if impl.trimAscii.toString == "panic" then impl else "REJECT expected-panic"
        | .value _ =>
          let ps := ports n s ephemeralLo ephemeralHi
          match parseNatList impl.trimAscii.toString with
          | none => "REJECT unparsable"
          | some [] => if ps.isEmpty then impl else "REJECT expected-rotation-of " ++ brief ps
          | some (h :: t) =>
            match ps.idxOf? h with
            | none => "REJECT expected-rotation-of " ++ brief ps
            | some pivot => if iterPub n s pivot == .value (h :: t) then impl else "REJECT expected-rotation-of " ++ brief ps
      | _, _ => "bad-case"
    | ["range", lo, hi] =>
      match lo.toNat?, hi.toNat? with
      | some lo, some hi => if rangeNew lo hi then "ok" else "err"
      | _, _ => "bad-case"
    | ["conn", n, s, lo, hi, reuse, inuse, taken, broken] =>
      match n.toNat?, s.toNat?, lo.toNat?, hi.toNat?, reuse.toNat?, parseNatList inuse, parseNatList taken, parseNatList broken with
      | some n, some s, some lo, some hi, some reuse, some inuse, some taken, some broken =>
        connCheck n s lo hi (reuse != 0) inuse taken broken impl
      | _, _, _, _, _, _, _, _ => "bad-case"
    | ["conn6", n, s, lo, hi, reuse, inuse, taken, broken, loc] =>
      -- the same loop over IPv6 loopback (`local` = `lo`: local_ip_address Some(::1); `any`: None): one model
      match n.toNat?, s.toNat?, lo.toNat?, hi.toNat?, reuse.toNat?, parseNatList inuse, parseNatList taken, parseNatList broken with
      | some n, some s, some lo, some hi, some reuse, some inuse, some taken, some broken =>
        if loc == "lo" || loc == "any" then connCheck n s lo hi (reuse != 0) inuse taken broken impl else "bad-case"
      | _, _, _, _, _, _, _, _ => "bad-case"
    | ["planfill", shards, pick, reps] =>
      -- checker: `max m0,m1,.. yields k` - every node is yielded once per iteration, and the largest shard seen for a node
      -- is one `with_random_shard_if_unknown` can produce: below `fillCount` of its sharder (0 = no sharder)
      match parseNatList shards, reps.toNat? with
      | some ks, some reps =>
        if ks.isEmpty || !(pick == "none" || (pick.toNat?.map (fun i => decide (i < ks.length))).getD false) then "bad-case" else
        match words impl with
        | "skip" :: _ => impl
        | ["max", ms, "yields", y] =>
          let mw := ms.splitOn ","
          let ok := mw.length == ks.length && y.toNat? == some (reps * ks.length) &&
            (ks.zip mw).all (fun (k, m) =>
              let count := fillCount (if k == 0 then none else some k)
              match m.toNat? with
              | some m => reps != 0 && decide (withRandomShard none m < count)
              | none => m == "-" && reps == 0)
          if ok then impl else "REJECT a-filled-in-shard-must-be-below " ++ natList (ks.map (fun k => fillCount (if k == 0 then none else some k)))
        | _ => "REJECT unparsable"
      | _, _ => "bad-case"
    | ["poolx", n, lo, hi, reuse, inuse, taken] =>
      -- the bare pool against a node with a shard-aware listener of its own: judged like `sessx`
      match n.toNat?, lo.toNat?, hi.toNat?, reuse.toNat?, parseNatList inuse, parseNatList taken with
      | some n, some lo, some hi, some reuse, some inuse, some taken => sessxCheck n lo hi (reuse != 0) inuse taken impl
      | _, _, _, _, _, _ => "bad-case"
    | ["sessx", n, lo, hi, reuse, inuse, taken] =>
      match n.toNat?, lo.toNat?, hi.toNat?, reuse.toNat?, parseNatList inuse, parseNatList taken with
      | some n, some lo, some hi, some reuse, some inuse, some taken => sessxCheck n lo hi (reuse != 0) inuse taken impl
      | _, _, _, _, _, _ => "bad-case"
    | ["sess", n, lo, hi, reuse, inuse, taken] =>
      match n.toNat?, lo.toNat?, hi.toNat?, reuse.toNat?, parseNatList inuse, parseNatList taken with
      | some n, some lo, some hi, some reuse, some inuse, some taken => sessCheck n lo hi (reuse != 0) inuse taken impl
      | _, _, _, _, _, _ => "bad-case"
    | _ => "bad-case"

end ScyllaVerif.Drive.C11

import ScyllaVerif.Model.Util
import ScyllaVerif.Model.FrameStream
import ScyllaVerif.Drive.C02
/-! Line-protocol driver for C10.

* `frames <hex>`            — `read_response_frame` in a loop over an in-memory reader holding exactly these bytes;
* `conn <wc> <op>;…`        — the schedule language of `Drive/C02.lean` (`b<hex>` raw bytes from the server, `x` FIN, …);
* `ka <wc>/<interval>/<timeout> <op>;…` — the same with keep-alive on and the extra operation `t<ms>` (virtual time).
-/
namespace ScyllaVerif.Drive.C10
open ScyllaVerif.Util ScyllaVerif.FrameStream

def frameStr (f : Frame) : String :=
  s!"{f.stream}/{f.opcode.toNat}/{f.flags.toNat}/{toHex f.body}"

def tailStr : Tail → String
  | .boundary => "boundary"
  | .cutInHeader n => s!"cutInHeader:{n}"
  | .cutInBody m l => s!"cutInBody:{m}:{l}"
  | .badHeader .frameFromClient => "bad:FrameFromClient"
  | .badHeader (.versionNotSupported v) => s!"bad:Version:{v.toNat}"
  | .badHeader (.unknownOpcode o) => s!"bad:Opcode:{o.toNat}"

def runFrames (bytes : List UInt8) : String :=
  let (fs, t) := readFrames bytes
  let body := if fs.isEmpty then "-" else " ".intercalate (fs.map frameStr)
  s!"{body} | {tailStr t}"

def run (case _impl : String) : String :=
  match words case with
  | ["frames", hex] =>
    match parseHex hex with
    | some bytes => runFrames bytes
    | none => "bad-case"
  | ["conn", wc, ops] => if wc == "0" || wc == "1" then C02.runConn (C02.splitOps ops) else "bad-case"
  | ["conn", wc] => if wc == "0" || wc == "1" then C02.runConn [] else "bad-case"
  | ["race", cfg, seed] =>
    -- multi-thread race of submissions with a connection reset: not deterministic, judged by the oracle only
    -- ("every submitted request completes": `Props.C10.race_window_drains`); the model's line is the constant
    match cfg.splitOn "/", seed.toNat? with
    | [wc, th, su, per, fault], some _ =>
      if (wc == "0" || wc == "1") && th.toNat?.isSome && su.toNat?.isSome && per.toNat?.isSome &&
          (fault == "fin" || fault == "garbage" || fault == "unsolicited") then "race" else "bad-case"
    | _, _ => "bad-case"
  | "ka" :: cfg :: rest =>
    match cfg.splitOn "/", rest with
    | [wc, i, t], ops =>
      if ops.length > 1 then "bad-case" else
      match i.toNat?, t.toNat? with
      | some i, some t =>
        if (wc == "0" || wc == "1") && i > 0 && t > 0 then
          C02.runConnKa i t (C02.splitOps (ops.headD "")) else "bad-case"
      | _, _ => "bad-case"
    | _, _ => "bad-case"
  | _ => "bad-case"

end ScyllaVerif.Drive.C10

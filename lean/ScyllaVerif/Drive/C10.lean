import ScyllaVerif.Model.Util
import ScyllaVerif.Model.FrameStream
import ScyllaVerif.Drive.C02
import ScyllaVerif.Model.Pool
/-! Line-protocol driver for C10.

* `frames <hex>`            — `read_response_frame` in a loop over an in-memory reader holding exactly these bytes;
* `conn <wc> <op>;…`        — the schedule language of `Drive/C02.lean` (`b<hex>` raw bytes from the server, `x` FIN, …);
* `ka <wc>/<interval>/<timeout> <op>;…` — the same with keep-alive on and the extra operation `t<ms>` (virtual time).
-/
namespace ScyllaVerif.Drive.C10
open ScyllaVerif.Util ScyllaVerif.FrameStream

def frameStr (f : Frame) : String :=
  s!"{f.stream}/{f.opcode.toNat}/{f.flags.toNat}/{toHex f.body}"

def tailStr : Tail → String
  | .boundary => "boundary"
  | .cutInHeader n => s!"cutInHeader:{n}"
  | .cutInBody m l => s!"cutInBody:{m}:{l}"
  | .badHeader .frameFromClient => "bad:FrameFromClient"
  | .badHeader (.versionNotSupported v) => s!"bad:Version:{v.toNat}"
  | .badHeader (.unknownOpcode o) => s!"bad:Opcode:{o.toNat}"

def runFrames (bytes : List UInt8) : String :=
  let (fs, t) := readFrames bytes
  let body := if fs.isEmpty then "-" else " ".intercalate (fs.map frameStr)
  s!"{body} | {tailStr t}"

/-! ### pool level (`Model/Pool.lean`) -/

open ScyllaVerif.Pool in
structure PoolSt where
  p : ScyllaVerif.Pool.Pool
  refusing : Bool := false
  settled : Bool := true
  out : List String := []

def openN : Nat → ScyllaVerif.Pool.Pool → ScyllaVerif.Pool.Pool
  | 0, p => p
  | n + 1, p => openN n (ScyllaVerif.Pool.step p .opened)

/-- The refiller has had its time: every reported death is processed; if the node accepts, the pool is refilled
to its target size, otherwise the attempts fail. -/
def poolWait (target : Nat) (st : PoolSt) : PoolSt :=
  let p1 := st.p.pending.foldl (fun p id => ScyllaVerif.Pool.step p (.process id)) st.p
  let p2 := if st.refusing then ScyllaVerif.Pool.step p1 .openFailed else openN (target - p1.conns.length) p1
  { st with p := p2, settled := true, out := s!"c={p2.shared.length}" :: st.out }

def poolStep (target : Nat) (ka : Bool) (st : PoolSt) (op : String) : Option PoolSt :=
  match C02.splitOp op with
  | none => none
  | some (c, arg) =>
    if c == 'F' || c == 'A' || c == 'W' then
      if arg != "" then none else
      if c == 'W' then some (poolWait target st)
      else some { st with refusing := c == 'F', settled := false }
    else
    match arg.toNat? with
    | none => none
    | some n =>
      if n > 64 then none else
      if c == 'K' || c == 'R' || c == 'Z' then
        if c == 'Z' && !ka then none else
        let live := st.p.conns.filter (fun id => !st.p.dead.contains id)
        match live[n]? with
        | some id => some { st with p := ScyllaVerif.Pool.step st.p (.die id), settled := false }
        | none => some { st with settled := false }
      else if c == 'Q' || c == 'H' then
        if !st.settled then none else
        -- routing reads the published list: a request succeeds iff it is handed a live connection
        let ok := if !st.p.shared.isEmpty && st.p.shared.all (fun id => !st.p.dead.contains id) then n else 0
        some { st with out := s!"{if c == 'Q' then "q" else "h"}={ok}/{n}" :: st.out }
      else none

def runPool (cfg script : String) : String :=
  match (cfg.splitOn "/").map String.toNat? with
  | [some nr, some k, some ka] =>
    if nr == 1 || nr > 8 || k == 0 || k > 8 || ka > 1 || (nr != 0 && k != 1) then "bad-case" else
    let target := if nr == 0 then k else nr * k
    let rec go : List String → PoolSt → Option PoolSt
      | [], st => some st
      | op :: rest, st =>
        match poolStep target (ka == 1) st op with
        | none => none
        | some st' => go rest st'
    match go (C02.splitOps script) { p := openN target ScyllaVerif.Pool.Pool.init } with
    | none => "bad-case"
    | some st => ",".intercalate st.out.reverse
  | _ => "bad-case"

def run (case impl : String) : String :=
  match words case with
  | ["frames", hex] =>
    match parseHex hex with
    | some bytes => runFrames bytes
    | none => "bad-case"
  | ["conn", wc, ops] => if wc == "0" || wc == "1" then C02.runConn (C02.splitOps ops) else "bad-case"
  | ["conn", wc] => if wc == "0" || wc == "1" then C02.runConn [] else "bad-case"
  | ["conne", cfg, ops] =>
    -- `<wc>` or `<wc>/<mode>`: mode 0 = the event channel is drained, 1 = its receiver is gone, 2 = one slot, never drained
    match cfg.splitOn "/" with
    | [wc] => if wc == "0" || wc == "1" then C02.runConnEv 0 (C02.splitOps ops) else "bad-case"
    | [wc, m] =>
      match m.toNat? with
      | some mode => if (wc == "0" || wc == "1") && mode ≤ 2 then C02.runConnEv mode (C02.splitOps ops) else "bad-case"
      | none => "bad-case"
    | _ => "bad-case"
  | ["kax", cfg, n] =>
    -- n requests in flight against a silent peer with keep-alive on: judged by the oracle only in this form
    -- (`Props.C10.keepalive_silence_breaks`, `keepalive_exhausted_ids_breaks`); the `ka` form of the same schedule
    -- carries the model's line (thorough tier)
    match (cfg.splitOn "/").map String.toNat?, n.toNat? with
    | [some i, some t], some n =>
      if i == 0 || t == 0 || i > 60000 || t > 60000 || n > 40000 then "bad-case" else "kax"
    | _, _ => "bad-case"
  | ["pool", cfg, script] => runPool cfg script
  | ["race", cfg, seed] =>
    -- multi-thread race of submissions with a connection reset: not deterministic, judged by the oracle only
    -- ("every submitted request completes": `Props.C10.race_window_drains`); the model's line is the constant
    match cfg.splitOn "/", seed.toNat? with
    | [wc, th, su, per, fault], some _ =>
      if (wc == "0" || wc == "1") && th.toNat?.isSome && su.toNat?.isSome && per.toNat?.isSome &&
          (fault == "fin" || fault == "garbage" || fault == "unsolicited") then "race" else "bad-case"
    | _, _ => "bad-case"
  | "ka" :: cfg :: rest =>
    match cfg.splitOn "/", rest with
    | [wc, i, t], ops =>
      if ops.length > 1 then "bad-case" else
      match i.toNat?, t.toNat? with
      | some i, some t =>
        if (wc == "0" || wc == "1") && i > 0 && t > 0 then
          C02.runConnKa i t (C02.splitOps (ops.headD "")) impl else "bad-case"
      | _, _ => "bad-case"
    | _, _ => "bad-case"
  | _ => "bad-case"

end ScyllaVerif.Drive.C10

import ScyllaVerif.Model.Util
import ScyllaVerif.Model.FrameStream
import ScyllaVerif.Drive.C02
import ScyllaVerif.Model.Pool
import ScyllaVerif.Model.PoolReconnect
import ScyllaVerif.Model.PoolKeyspace
import ScyllaVerif.Model.C10MetaFetch
/-! Line-protocol driver for C10.

* `frames <hex>`            — `read_response_frame` in a loop over an in-memory reader holding exactly these bytes;
* `conn <wc> <op>;…`        — the schedule language of `Drive/C02.lean` (`b<hex>` raw bytes from the server, `x` FIN, …);
* `ka <wc>/<interval>/<timeout> <op>;…` — the same with keep-alive on and the extra operation `t<ms>` (virtual time);
* `rp exp/<min>/<max>/<jlo>/<jhi> <op>;…`, `rp const/<delay>/<jlo>/<jhi> <op>;…` — a reconnect policy session
  (`Model/PoolReconnect.lean`; ns and parts per million), ops `e<n>` `s` `d`;
* `poolr <min ms>/<max ms>/<down ms>/<k>` — a pool whose node is down for a while and then comes back.
-/
namespace ScyllaVerif.Drive.C10
open ScyllaVerif.Util ScyllaVerif.FrameStream

def frameStr (f : Frame) : String :=
  s!"{f.stream}/{f.opcode.toNat}/{f.flags.toNat}/{toHex f.body}"

def tailStr : Tail → String
  | .boundary => "boundary"
  | .cutInHeader n => s!"cutInHeader:{n}"
  | .cutInBody m l => s!"cutInBody:{m}:{l}"
  | .badHeader .frameFromClient => "bad:FrameFromClient"
  | .badHeader (.versionNotSupported v) => s!"bad:Version:{v.toNat}"
  | .badHeader (.unknownOpcode o) => s!"bad:Opcode:{o.toNat}"

def runFrames (bytes : List UInt8) : String :=
  let (fs, t) := readFrames bytes
  let body := if fs.isEmpty then "-" else " ".intercalate (fs.map frameStr)
  s!"{body} | {tailStr t}"

/-! ### pool level (`Model/Pool.lean`) -/

open ScyllaVerif.Pool in
structure PoolSt where
  p : ScyllaVerif.Pool.Pool
  refusing : Bool := false
  settled : Bool := true
  out : List String := []

def openN : Nat → ScyllaVerif.Pool.Pool → ScyllaVerif.Pool.Pool
  | 0, p => p
  | n + 1, p => openN n (ScyllaVerif.Pool.step p .opened)

/-- The refiller has had its time: every reported death is processed; if the node accepts, the pool is refilled
to its target size, otherwise the attempts fail. -/
def poolWait (target : Nat) (st : PoolSt) : PoolSt :=
  let p1 := st.p.pending.foldl (fun p id => ScyllaVerif.Pool.step p (.process id)) st.p
  let p2 := if st.refusing then ScyllaVerif.Pool.step p1 .openFailed else openN (target - p1.conns.length) p1
  { st with p := p2, settled := true, out := s!"c={p2.shared.length}" :: st.out }

def poolStep (target : Nat) (ka : Bool) (st : PoolSt) (op : String) : Option PoolSt :=
  match C02.splitOp op with
  | none => none
  | some (c, arg) =>
    if c == 'F' || c == 'A' || c == 'W' then
      if arg != "" then none else
      if c == 'W' then some (poolWait target st)
      else some { st with refusing := c == 'F', settled := false }
    else
    match arg.toNat? with
    | none => none
    | some n =>
      if n > 64 then none else
      if c == 'K' || c == 'R' || c == 'Z' then
        if c == 'Z' && !ka then none else
        let live := st.p.conns.filter (fun id => !st.p.dead.contains id)
        match live[n]? with
        | some id => some { st with p := ScyllaVerif.Pool.step st.p (.die id), settled := false }
        | none => some { st with settled := false }
      else if c == 'Q' || c == 'H' then
        if !st.settled then none else
        -- routing reads the published list: a request succeeds iff it is handed a live connection
        let ok := if !st.p.shared.isEmpty && st.p.shared.all (fun id => !st.p.dead.contains id) then n else 0
        some { st with out := s!"{if c == 'Q' then "q" else "h"}={ok}/{n}" :: st.out }
      else none

def runPool (cfg script : String) : String :=
  match (cfg.splitOn "/").map String.toNat? with
  | [some nr, some k, some ka] =>
    if nr == 1 || nr > 8 || k == 0 || k > 8 || ka > 1 || (nr != 0 && k != 1) then "bad-case" else
    let target := if nr == 0 then k else nr * k
    let rec go : List String → PoolSt → Option PoolSt
      | [], st => some st
      | op :: rest, st =>
        match poolStep target (ka == 1) st op with
        | none => none
        | some st' => go rest st'
    match go (C02.splitOps script) { p := openN target ScyllaVerif.Pool.Pool.init } with
    | none => "bad-case"
    | some st => ",".intercalate st.out.reverse
  | _ => "bad-case"


/-! ### reconnect policies (`Model/PoolReconnect.lean`) -/

open ScyllaVerif.PoolReconnect in
/-- What one `d` may answer: `none` = the call panics for SOME multiplier of the range (then it does for the
largest), otherwise the interval spanned by the two ends of the jitter range (`mulJ`, `clamp` are monotone). -/
def rpInterval (cfg : Option ExpCfg) (cur jlo jhi : Nat) : Option (Nat × Nat) :=
  match mulJ cur jlo, mulJ cur jhi with
  | some a, some b =>
    match cfg with
    | some c => some (clamp a c.min c.max, clamp b c.min c.max)
    | none => some (a, b)
  | _, _ => none

def iterN {α : Type} (f : α → α) : Nat → α → α
  | 0, x => x
  | n + 1, x => iterN f n (f x)

open ScyllaVerif.PoolReconnect in
/-- The model's line for an `rp` case is a list of intervals; the implementation's jitter is random, so the
comparison is MEMBERSHIP: if every delay the implementation reported lies in its interval (up to the f64 rounding of
`mul_f64`: 2 ns + a relative 10⁻⁹) and it panicked exactly where the model says a call can panic, the model echoes the
implementation's line; otherwise it prints its intervals. -/
def runRp (cfg script impl : String) : String :=
  let parsed : Option (Option ExpCfg × Nat × Nat × Nat) :=
    match cfg.splitOn "/" with
    | "exp" :: rest =>
      match rest.map String.toNat? with
      | [some mn, some mx, some jlo, some jhi] =>
        if mn ≤ mx && jlo ≤ jhi && mx ≤ 2 ^ 60 && jhi ≤ 100000000 then
          some (some { min := mn, max := mx, jlo := jlo, jhi := jhi }, mn, jlo, jhi) else none
      | _ => none
    | "const" :: rest =>
      match rest.map String.toNat? with
      | [some d, some jlo, some jhi] =>
        if jlo ≤ jhi && d ≤ 2 ^ 60 && jhi ≤ 100000000 then some (none, d, jlo, jhi) else none
      | _ => none
    | _ => none
  match parsed with
  | none => "bad-case"
  | some (c, init, jlo, jhi) =>
    -- walk the script: the list of answers expected from the `d` ops (`none` = panic at that op index)
    let rec go : List String → Nat → Nat → List (Option (Nat × Nat) × Nat) → Option (List (Option (Nat × Nat) × Nat))
      | [], _, _, acc => some acc.reverse
      | op :: rest, idx, cur, acc =>
        match C02.splitOp op with
        | none => none
        | some (k, arg) =>
          if k == 'e' then
            match arg.toNat? with
            | some n =>
              if n > 100000 then none else
              let cur' := match c with
                | some cfg => iterN (expOnError cfg) n cur
                | none => cur
              go rest (idx + 1) cur' acc
            | none => none
          else if k == 's' && arg == "" then
            go rest (idx + 1) (match c with | some cfg => expOnSuccess cfg cur | none => cur) acc
          else if k == 'd' && arg == "" then
            match rpInterval c cur jlo jhi with
            | some iv => go rest (idx + 1) cur ((some iv, idx) :: acc)
            | none => some ((none, idx) :: acc).reverse     -- the session is gone after a panic
          else none
    match go (C02.splitOps script) 0 init [] with
    | none => "bad-case"
    | some exp =>
      let implToks := if impl == "-" || impl == "" then [] else impl.splitOn ","
      let okTok : (Option (Nat × Nat) × Nat) → String → Bool
        | (some (lo, hi), _), t =>
          match t.toNat? with
          | some v => let sl := 2 + hi / 1000000000; decide (lo ≤ v + sl) && decide (v ≤ hi + sl)
          | none => false
        | (none, idx), t => t == s!"PANIC@{idx}"
      if implToks.length == exp.length && (exp.zip implToks).all (fun (e, t) => okTok e t) then
        (if exp.isEmpty then "-" else impl)
      else if exp.isEmpty then "-"
      else ",".intercalate (exp.map fun
        | (some (lo, hi), _) => s!"[{lo}..{hi}]"
        | (none, idx) => s!"PANIC@{idx}")

open ScyllaVerif.PoolReconnect in
/-- `poolr`: the node refuses for the whole down time (every attempt fails: `Pool.step .openFailed`; the policy's
session is asked for a delay after each failure and must answer - checked here for 1000 consecutive failures, which
is `Props.C10.reconnect_get_delay_total` on this configuration), then accepts: the pool is refilled to its target. -/
def runPoolr (cfg : String) : String :=
  match (cfg.splitOn "/").map String.toNat? with
  | [some mn, some mx, some down, some k] =>
    if mn == 0 || mn > mx || mx > 1000 || down > 5000 || k == 0 || k > 8 then "bad-case" else
    let c : ExpCfg := { min := mn * 1000000, max := mx * 1000000, jlo := 850000, jhi := 1150000 }
    let alive := (List.range 1000).all fun n => (expGetDelay c (iterN (expOnError c) n (expInit c)) c.jhi).isSome
    let p0 := iterN (fun p => ScyllaVerif.Pool.step p .openFailed) 8 ScyllaVerif.Pool.Pool.init
    let p1 := if alive then openN k p0 else p0
    let ok := if !p1.shared.isEmpty && p1.shared.all (fun id => !p1.dead.contains id) then 5 else 0
    s!"down={p0.shared.length},c={p1.shared.length},q={ok}/5"
  | _ => "bad-case"

/-- `poolk <k>`: the pool is full; the node starts holding `USE`; a connection dies (the refiller opens the
replacements: they are accepted, their `USE` is held); 1.5 s of refiller turns; another death; turns; `trigger_refill`;
turns. Per phase: published connections, connections accepted by the node in the phase, held `USE`s so far.
`start_filling` opens `target - active` connections at once: all of them are held. -/
def runPoolk (cfg : String) (impl : String) : String :=
  if impl.startsWith "e2e-skip" then impl else
  match cfg.toNat? with
  | none => "bad-case"
  | some k =>
    if k < 2 || k > 6 then "bad-case" else
    let p0 : ScyllaVerif.PoolKeyspace.KPool := ⟨k, 0, k⟩
    let phase (p : ScyllaVerif.PoolKeyspace.KPool) (evs : List ScyllaVerif.PoolKeyspace.KEv) :
        ScyllaVerif.PoolKeyspace.KPool × String :=
      let p' := ScyllaVerif.PoolKeyspace.run p evs
      (p', s!"c={p'.conns},acc={p'.setting - p.setting},held={p'.setting}")
    let (p1, s1) := phase p0 [.die, .fill, .fill, .fill]
    let (p2, s2) := phase p1 [.die, .fill, .fill, .fill]
    let (_, s3) := phase p2 [.fill, .fill]
    s!"{s1} | {s2} | {s3} | probes=answered"

/-- `metaf <table 0..8> <e|p> <fault>`: one request of a metadata fetch meets a scripted fault
(`Model/C10MetaFetch.lean`). A fetch that fails gives the control connection up; the next one (on the re-established
connection, nothing scripted any more) is answered in full. Printed: the partitioner of `ks.c10part` in the published
metadata (`scylla_tables` names the CDC partitioner for it) and the control connections established after the fault. -/
def runMetaf (t ph f : String) (impl : String) : String :=
  if impl.startsWith "e2e-skip" then impl else
  let hexNat (s : String) : Option Nat :=
    if s.isEmpty then none else
    s.toList.foldl (fun acc c => match acc with
      | none => none
      | some a =>
        if '0' ≤ c ∧ c ≤ '9' then some (16 * a + (c.toNat - 48))
        else if 'a' ≤ c ∧ c ≤ 'f' then some (16 * a + (c.toNat - 87)) else none) (some 0)
  let fault : Option ScyllaVerif.C10MetaFetch.Fault :=
    if f == "fin" || f == "rst" || f == "garbage" || f == "unsol" || f == "stall" || f == "cut" then some .connection
    else if f == "badbody" then some .badBody
    else if f == "baderr" then some .badErr
    else if f.startsWith "db" then (hexNat (f.drop 2).toString).map .db
    else none
  match t.toNat?, fault with
  | some ti, some fl =>
    match ScyllaVerif.C10MetaFetch.Table.all[ti]? with
    | none => "bad-case"
    | some tb =>
      if ph != "e" && ph != "p" then "bad-case"
      else if ti < 2 && fl != .connection then "bad-case"
      else
        let out := ScyllaVerif.C10MetaFetch.faulted tb fl
        let tolerated := ScyllaVerif.C10MetaFetch.faultTolerated tb fl
        let show_ : Option (Option String) → String
          | some (some _) => "cdc"
          | some none => "none"
          | none => "absent"
        let part :=
          if tolerated then show_ (ScyllaVerif.C10MetaFetch.publishedPartitioner (some "cdc") (out .scyllaTables))
          else show_ (ScyllaVerif.C10MetaFetch.publishedPartitioner (some "cdc") (.ok ()))
        s!"fired=1 part={part} recc={if tolerated then 0 else 1}"
  | _, _ => "bad-case"

def run (case impl : String) : String :=
  match words case with
  | ["metaf", t, ph, f] => runMetaf t ph f impl
  | ["frames", hex] =>
    match parseHex hex with
    | some bytes => runFrames bytes
    | none => "bad-case"
  | ["conn", wc, ops] => if wc == "0" || wc == "1" then C02.runConn (C02.splitOps ops) else "bad-case"
  | ["conn", wc] => if wc == "0" || wc == "1" then C02.runConn [] else "bad-case"
  | ["conne", cfg, ops] =>
    -- `<wc>` or `<wc>/<mode>`: mode 0 = the event channel is drained, 1 = its receiver is gone, 2 = one slot, never drained
    match cfg.splitOn "/" with
    | [wc] => if wc == "0" || wc == "1" then C02.runConnEv 0 (C02.splitOps ops) else "bad-case"
    | [wc, m] =>
      match m.toNat? with
      | some mode => if (wc == "0" || wc == "1") && mode ≤ 2 then C02.runConnEv mode (C02.splitOps ops) else "bad-case"
      | none => "bad-case"
    | [wc, m, i, t] =>
      -- the control connection's configuration: an event sender AND keep-alive
      match m.toNat?, i.toNat?, t.toNat? with
      | some mode, some i, some t =>
        if (wc == "0" || wc == "1") && mode ≤ 2 && i > 0 && t > 0 && i ≤ 60000 && t ≤ 60000 then
          C02.runConnKaEv mode i t (C02.splitOps ops) impl else "bad-case"
      | _, _, _ => "bad-case"
    | _ => "bad-case"
  | ["kax", cfg, n] =>
    -- n requests in flight against a silent peer with keep-alive on: judged by the oracle only in this form
    -- (`Props.C10.keepalive_silence_breaks`, `keepalive_exhausted_ids_breaks`); the `ka` form of the same schedule
    -- carries the model's line (thorough tier)
    match (cfg.splitOn "/").map String.toNat?, n.toNat? with
    | [some i, some t], some n =>
      if i == 0 || t == 0 || i > 60000 || t > 60000 || n > 40000 then "bad-case" else "kax"
    | _, _ => "bad-case"
  | ["pool", cfg, script] => runPool cfg script
  | ["rp", cfg, script] => runRp cfg script impl
  | ["rp", cfg] => runRp cfg "" impl
  | ["poolr", cfg] => runPoolr cfg
  | ["poolk", cfg] => runPoolk cfg impl
  | ["race", cfg, seed] =>
    -- multi-thread race of submissions with a connection reset: not deterministic, judged by the oracle only
    -- ("every submitted request completes": `Props.C10.race_window_drains`); the model's line is the constant
    match cfg.splitOn "/", seed.toNat? with
    | [wc, th, su, per, fault], some _ =>
      if (wc == "0" || wc == "1") && th.toNat?.isSome && su.toNat?.isSome && per.toNat?.isSome &&
          (fault == "fin" || fault == "garbage" || fault == "unsolicited") then "race" else "bad-case"
    | _, _ => "bad-case"
  | "ka" :: cfg :: rest =>
    match cfg.splitOn "/", rest with
    | [wc, i, t], ops =>
      if ops.length > 1 then "bad-case" else
      match i.toNat?, t.toNat? with
      | some i, some t =>
        if (wc == "0" || wc == "1") && i > 0 && t > 0 then
          C02.runConnKa i t (C02.splitOps (ops.headD "")) impl else "bad-case"
      | _, _ => "bad-case"
    | _, _ => "bad-case"
  | _ => "bad-case"

end ScyllaVerif.Drive.C10

import ScyllaVerif.Model.Util
import ScyllaVerif.Model.MergeChannel
import ScyllaVerif.Model.MetaUpdate
import ScyllaVerif.Model.ClusterConsumer
import ScyllaVerif.Model.RefreshFlow
/-! Line-protocol driver for C19.

* `chan <op>;<op>;…` — the merge channel at poll granularity. Producer: `m<x>` merge, `D` drop sender.
  Consumer: `s` create a `recv()` future, `p` poll it once, `c` drop it, `X` drop the receiver (and its future).
  Each operation runs the model's atomic steps of that endpoint to its next await point and prints
  `<result>:<wake count>`.
* `slot <op>;…` — `MetadataUpdate::merge_*` on a slot: `F<tag>` / `R<tag>` merge_metadata without / with a refresh
  request (no client routes configured), `G<tag>/<routes>` / `H<tag>/<routes>` the same with client routes configured,
  `C<entries>` merge_client_routes_update (`host.conn.port` upsert, `host.conn.x` removal), `T<tag>`
  merge_topology_update, `U<addr>` / `W<addr>` up / down hint, `K` take.
* `worker <op>;…` — a real `ClusterWorker` behind the channel: the same merge ops, an optional leading `S1` (client-routes
  subscriber configured) and `K` = the consumer catches up (takes the slot, then a sentinel hint); prints what is published.
* `producer <op>;…` — a real `MetadataWorker` on a control connection to a mock node that holds every full fetch until the
  case releases it: `q` request, `o` / `e` the fetch in flight succeeds / fails, `t` the consumer takes the slot and answers.
  The driver replays the ops as `RefreshFlow` events (`request`, `recvRequest`, `periodicFetch`, `fetchOk`, `fetchErrOnCc`,
  `fetchErrNoCc`, `consumerTake`, `consumerFinish`).
* `stress <n> <mode> <seed>` — two OS threads; the schedule is not observable, the line only says that the
  concatenation of everything received was `0..n` and that `None` came last (what `Props.C19` proves for every schedule).
* `race <reps> <n> <seed>` — `reps` such rounds with a tiny `n` (the drop follows the last merge at once).
-/
namespace ScyllaVerif.Drive.C19
open ScyllaVerif.Util

def splitOp (op : String) : Option (Char × String) :=
  match op.toList with
  | [] => none
  | c :: rest => some (c, String.ofList rest)

/-! ### channel -/
section Chan
open ScyllaVerif.MergeChannel

def valStr : Option (List Nat) → String
  | none => "none"
  | some v => "ready[" ++ ",".intercalate (v.map toString) ++ "]"

def hasFuture (s : State) : Bool :=
  match s.rpc with
  | .idle | .gone => false
  | _ => true

/-- One operation; returns the new state and the result word. -/
def chanOp (s : State) (op : String) : Option (State × String) :=
  match splitOp op with
  | none => none
  | some (c, arg) =>
    if c == 'm' then
      match arg.toNat? with
      | none => none
      | some x =>
        if s.spc != .idle then some (s, "notx") else
        let s' := opMerge x s
        some (s', if s'.sends.getLast? == some true then "ok" else "senderror")
    else if arg != "" then none
    else if c == 'D' then
      if s.spc != .idle then some (s, "notx") else some (opDropSender s, "dropped")
    else if c == 's' then
      if s.rpc == .gone then some (s, "norx")
      else if hasFuture s then some (s, "busy")
      else some (step s .callRecv, "started")
    else if c == 'p' then
      if s.rpc == .gone then some (s, "norx")
      else if !hasFuture s then some (s, "nofut")
      else
        let s' := pollRecv s
        if s'.rpc == .idle then some (s', valStr (s'.received.getLast?.getD none))
        else if s'.rpc == .parked then some (s', "pending")
        else some (s', "MODEL-STUCK")
    else if c == 'c' then
      if s.rpc == .gone then some (s, "norx")
      else if !hasFuture s then some (s, "nofut")
      else some (cancel s, "cancelled")
    else if c == 'X' then
      if s.rpc == .gone then some (s, "norx") else some (opDropReceiver s, "rxdropped")
    else none

def runChan (ops : List String) : String :=
  let rec go : List String → State → List String → Option (List String)
    | [], _, out => some out.reverse
    | op :: rest, s, out =>
      match chanOp s op with
      | none => none
      | some (s', w) => go rest s' (s!"{w}:{s'.wakes}" :: out)
  match go ops init [] with
  | none => "bad-case"
  | some out => ";".intercalate out

end Chan

/-! ### slot -/
section Slot
open ScyllaVerif.MetaUpdate

structure SlotSt where
  slot : Option Update := none
  nextRefresh : Nat := 0

def insertSorted (p : Nat × Bool) : List (Nat × Bool) → List (Nat × Bool)
  | [] => [p]
  | q :: r => if p.1 ≤ q.1 then p :: q :: r else q :: insertSorted p r

def sortHints (h : List (Nat × Bool)) : List (Nat × Bool) := h.foldr insertSorted []

def listStr (xs : List String) : String := if xs.isEmpty then "-" else ",".intercalate xs

def keyLe (a b : RouteKey) : Bool := a.1 < b.1 || (a.1 == b.1 && a.2 ≤ b.2)

def insertRoute (p : RouteKey × Option Nat) : List (RouteKey × Option Nat) → List (RouteKey × Option Nat)
  | [] => [p]
  | q :: r => if keyLe p.1 q.1 then p :: q :: r else q :: insertRoute p r

def sortRoutes (rs : List (RouteKey × Option Nat)) : List (RouteKey × Option Nat) := rs.foldr insertRoute []

def routeStr (e : RouteKey × Option Nat) : String :=
  s!"{e.1.1}.{e.1.2}." ++ (match e.2 with | some p => toString p | none => "x")

def routesStr : Option (List (RouteKey × Option Nat)) → String
  | none => "none"
  | some rs => listStr ((sortRoutes rs).map routeStr)

def viewStr (slot : Option Update) : String :=
  let peers := match peersTag slot with | some t => toString t | none => "-"
  let refresh := listStr ((refreshIds slot).map toString)
  let hints := listStr ((sortHints (hintsOf slot)).map fun p => toString p.1 ++ (if p.2 then "+" else "-"))
  s!"{kind slot} peers={peers} refresh={refresh} hints={hints} routes={routesStr (routesOf slot)} lost=-"

/-- `host.conn.port` / `host.conn.x` entries, `-` = none. -/
def parseRouteEntries (s : String) (allowRemoval : Bool) : Option (List (RouteKey × Option Nat)) :=
  if s == "-" then some [] else
  (s.splitOn ",").mapM fun e =>
    match e.splitOn "." with
    | [h, c, p] =>
      match h.toNat?, c.toNat? with
      | some h, some c =>
        if c > 65535 then none
        else if p == "x" then (if allowRemoval then some ((h, c), none) else none)
        else match p.toNat? with
          | some p => if p > 65535 then none else some ((h, c), some p)
          | none => none
      | _, _ => none
    | _ => none

def slotOp (st : SlotSt) (op : String) : Option (SlotSt × String) :=
  match splitOp op with
  | none => none
  | some (c, arg) =>
    if c == 'K' then
      if arg != "" then none else some ({ st with slot := none }, viewStr st.slot)
    else if c == 'C' then
      match parseRouteEntries arg true with
      | none => none
      | some es => some ({ st with slot := mergeClientRoutes st.slot (mkRoutesUpdate es) }, "-")
    else if c == 'G' || c == 'H' then
      match arg.splitOn "/" with
      | [tag, rs] =>
        match tag.toNat?, parseRouteEntries rs false with
        | some tag, some es =>
          let routes := mkRoutes (es.filterMap fun e => e.2.map fun p => (e.1, p))
          let m : Meta := { peers := tag, clientRoutes := some routes }
          if c == 'H' then
            some ({ slot := mergeMetadata st.slot m (some st.nextRefresh), nextRefresh := st.nextRefresh + 1 },
                  s!"r{st.nextRefresh}")
          else some ({ st with slot := mergeMetadata st.slot m none }, "-")
        | _, _ => none
      | _ => none
    else
    match arg.toNat? with
    | none => none
    | some n =>
      if c == 'F' then some ({ st with slot := mergeMetadata st.slot { peers := n } none }, "-")
      else if c == 'R' then
        some ({ slot := mergeMetadata st.slot { peers := n } (some st.nextRefresh), nextRefresh := st.nextRefresh + 1 },
              s!"r{st.nextRefresh}")
      else if c == 'T' then some ({ st with slot := mergeTopology st.slot n }, "-")
      else if c == 'U' then some ({ st with slot := mergeHint st.slot n true }, "-")
      else if c == 'W' then some ({ st with slot := mergeHint st.slot n false }, "-")
      else none

def runSlot (ops : List String) : String :=
  let rec go : List String → SlotSt → List String → Option (List String)
    | [], _, out => some out.reverse
    | op :: rest, st, out =>
      match slotOp st op with
      | none => none
      | some (st', w) => go rest st' (w :: out)
  match go ops {} [] with
  | none => "bad-case"
  | some out => ";".intercalate out

end Slot

/-! ### worker: the consumer behind the channel -/
section Worker
open ScyllaVerif.MetaUpdate ScyllaVerif.ClusterConsumer ScyllaVerif

structure WorkerSt where
  pipe : Pipe
  nextRefresh : Nat := 0
  /-- `A1`: no host filter - the node of a published topology gets a real pool (nothing listens at its address, or a
  listener that closes at once: either way the pool's first connection attempt fails). -/
  accepting : Bool := false

/-- What the client-routes subscriber holds after the deliveries so far: a full snapshot replaces, a partial update is
applied (`replace_client_routes` / `merge_client_routes_update`). -/
def subscriberRoutes (ds : List Delivery) : List (RouteKey × Nat) :=
  ds.foldl (fun acc d =>
    match d with
    | .replace r => r
    | .mergeUpd upd => routesApply acc upd) []

/-- The consumer takes the slot: `apply_metadata_update`, including its wait on the pools of the new state's nodes
(one pool, whose first attempt has failed, when the host filter accepts; none otherwise). `none` = parked for good. -/
def workerTake (st : WorkerSt) (p : Pipe) : Option Pipe :=
  match p.slot with
  | none => some p
  | some u =>
    let pools : List C19PoolInit.Pool :=
      if st.accepting then [C19PoolInit.run {} [.startFilling 1, .connFail]] else []
    match consumeWaiting p.cons u pools with
    | some c => some { slot := none, cons := c }
    | none => none

/-- `K`: the consumer takes the slot; the harness then merges a sentinel DOWN hint for address 0 and the consumer takes
that, too. Prints what is published. -/
def workerCatchUp (st : WorkerSt) : WorkerSt × String :=
  match workerTake st st.pipe with
  | none => (st, "hang")
  | some p1 =>
  match workerTake st (pstep p1 (.merge (.hint 0 false))) with
  | none => (st, "hang")
  | some p2 =>
  let isNew := p2.cons.publications > st.pipe.cons.publications
  let ok := p2.cons.answered.drop st.pipe.cons.answered.length
  let routes :=
    if p2.cons.hasSubscriber then
      routesStr (some ((subscriberRoutes p2.cons.delivered).map fun e => (e.1, some e.2)))
    else "none"
  ({ st with pipe := p2 },
   s!"pub={p2.cons.published} new={if isNew then 1 else 0} ok={listStr (ok.map toString)} err=- drop=- routes={routes}")

def workerOp (st : WorkerSt) (idx : Nat) (op : String) : Option (WorkerSt × String) :=
  match splitOp op with
  | none => none
  | some (c, arg) =>
    let mergeOp (o : Op) : WorkerSt := { st with pipe := pstep st.pipe (.merge o) }
    if c == 'A' then
      if idx == 0 && arg == "1" then some (st, "-") else none
    else if c == 'S' then
      if idx == (if st.accepting then 1 else 0) && arg == "1" then some (st, "-") else none
    else if c == 'L' then
      match arg.toNat? with
      | some _ => some (st, "-")          -- a listener that closes at once: the pool's attempt fails all the same
      | none => none
    else if c == 'K' then
      if arg != "" then none else some (workerCatchUp st)
    else if c == 'C' then
      match parseRouteEntries arg true with
      | none => none
      | some es => some (mergeOp (.clientRoutes (mkRoutesUpdate es)), "-")
    else if c == 'G' || c == 'H' then
      match arg.splitOn "/" with
      | [tag, rs] =>
        match tag.toNat?, parseRouteEntries rs false with
        | some tag, some es =>
          let routes := mkRoutes (es.filterMap fun e => e.2.map fun p => (e.1, p))
          let m : Meta := { peers := tag, clientRoutes := some routes }
          if c == 'H' then
            some ({ pipe := pstep st.pipe (.merge (.metadata m (some st.nextRefresh))), nextRefresh := st.nextRefresh + 1 },
                  s!"r{st.nextRefresh}")
          else some (mergeOp (.metadata m none), "-")
        | _, _ => none
      | _ => none
    else
    match arg.toNat? with
    | none => none
    | some n =>
      if c == 'F' then some (mergeOp (.metadata { peers := n } none), "-")
      else if c == 'R' then
        some ({ pipe := pstep st.pipe (.merge (.metadata { peers := n } (some st.nextRefresh))),
                nextRefresh := st.nextRefresh + 1 }, s!"r{st.nextRefresh}")
      else if c == 'T' then some (mergeOp (.topology n), "-")
      else if c == 'U' then (if n > 65535 then none else some (mergeOp (.hint n true), "-"))
      else if c == 'W' then (if n > 65535 then none else some (mergeOp (.hint n false), "-"))
      else none

def runWorker (ops : List String) : String :=
  let acc := ops.head? == some "A1"
  let sub := (if acc then ops.tail.head? else ops.head?) == some "S1"
  let rec go : List String → Nat → WorkerSt → List String → Option (List String)
    | [], _, _, out => some out.reverse
    | op :: rest, i, st, out =>
      match workerOp st i op with
      | none => none
      | some (st', w) => go rest (i + 1) st' (w :: out)
  match go ops 0 { pipe := { cons := { hasSubscriber := sub, published := 0 } }, accepting := acc } [] with
  | none => "bad-case"
  | some out => ";".intercalate out

end Worker

/-! ### producer: the metadata worker's request handling -/
section Producer
open ScyllaVerif.MetaUpdate ScyllaVerif.RefreshFlow

structure ProducerSt where
  flow : Flow := {}
  /-- the worker serves a control connection (`work_on_cc`) / establishes one (`work_without_cc`). -/
  onCc : Bool := true
  /-- candidates left in the running establishment attempt (the harness's single node is tried twice per attempt). -/
  candidates : Nat := 0
  tag : Nat := 1

/-- What the worker does on its own once it runs: picks up a waiting request (which starts a fetch), or - without a
control connection - starts the next establishment attempt. -/
def producerSettle (st : ProducerSt) : ProducerSt :=
  if st.flow.fetching then st
  else if !st.flow.waiting.isEmpty then { st with flow := RefreshFlow.step st.flow .recvRequest, candidates := 2 }
  else if !st.onCc then { st with flow := RefreshFlow.step st.flow .periodicFetch, candidates := 2 }
  else st

def producerOp (st : ProducerSt) (op : String) : Option (ProducerSt × String) :=
  let fin (st' : ProducerSt) (took : String) : ProducerSt × String :=
    let ok := st'.flow.answeredOk.drop st.flow.answeredOk.length
    let err := st'.flow.answeredErr.drop st.flow.answeredErr.length
    let dr := st'.flow.dropped.drop st.flow.dropped.length
    (st', s!"f={if st'.flow.fetching then 1 else 0} took={took} ok={listStr (ok.map toString)} err={listStr (err.map toString)} drop={listStr (dr.map toString)}")
  if op == "q" then
    some (fin (producerSettle { st with flow := RefreshFlow.step st.flow .request }) "-")
  else if op == "o" then
    if st.flow.fetching then
      some (fin (producerSettle { st with flow := RefreshFlow.step st.flow (.fetchOk { peers := st.tag }), onCc := true,
                                          tag := st.tag + 1 }) "-")
    else some (fin st "-")
  else if op == "e" then
    if !st.flow.fetching then some (fin st "-")
    else if st.onCc then
      some (fin { st with flow := RefreshFlow.step st.flow .fetchErrOnCc, onCc := false, candidates := 2 } "-")
    else if st.candidates > 1 then
      some (fin { st with flow := RefreshFlow.step st.flow .fetchErrOnCc, candidates := st.candidates - 1 } "-")
    else some (fin (producerSettle { st with flow := RefreshFlow.step st.flow .fetchErrNoCc }) "-")
  else if op == "t" then
    match st.flow.slot with
    | none => some (fin st "-")
    | some u =>
      let took := s!"{kind (some u)}/{(refreshIds (some u)).length}"
      some (fin { st with flow := RefreshFlow.step (RefreshFlow.step st.flow .consumerTake) .consumerFinish } took)
  else none

def runProducer (ops : List String) : String :=
  let rec go : List String → ProducerSt → List String → Option (List String)
    | [], _, out => some out.reverse
    | op :: rest, st, out =>
      match producerOp st op with
      | none => none
      | some (st', w) => go rest st' (w :: out)
  match go ops {} [] with
  | none => "bad-case"
  | some out => ";".intercalate out

end Producer

def opsOf (body : String) : List String := (body.splitOn ";").filter (· ≠ "")

def run (case _impl : String) : String :=
  match words case with
  | ["chan", body] => runChan (opsOf body)
  | ["chan"] => runChan []
  | ["slot", body] => runSlot (opsOf body)
  | ["slot"] => runSlot []
  | ["producer", body] => runProducer (opsOf body)
  | ["worker", body] => runWorker (opsOf body)
  | ["worker"] => runWorker []
  | ["stress", n, _mode, _seed] =>
    match n.toNat? with
    | some _ => "stream-complete in-order none-last"
    | none => "bad-case"
  | ["race", reps, n, _seed] =>
    match reps.toNat?, n.toNat? with
    | some _, some n => s!"every-round each=0..{n} in-order none-last"
    | _, _ => "bad-case"
  | _ => "bad-case"

end ScyllaVerif.Drive.C19

import ScyllaVerif.Model.Util
import ScyllaVerif.Model.MergeChannel
import ScyllaVerif.Model.MetaUpdate
import ScyllaVerif.Model.ClusterConsumer
import ScyllaVerif.Model.RefreshFlow
import ScyllaVerif.Model.C19Establish
import ScyllaVerif.Model.C19EventWait
/-! Line-protocol driver for C19.

* `chan <op>;<op>;…` — the merge channel at poll granularity. Producer: `m<x>` merge, `D` drop sender.
  Consumer: `s` create a `recv()` future, `p` poll it once, `c` drop it, `X` drop the receiver (and its future).
  Each operation runs the model's atomic steps of that endpoint to its next await point and prints
  `<result>:<wake count>`.
* `slot <op>;…` — `MetadataUpdate::merge_*` on a slot: `F<tag>` / `R<tag>` merge_metadata without / with a refresh
  request (no client routes configured), `G<tag>/<routes>` / `H<tag>/<routes>` the same with client routes configured,
  `C<entries>` merge_client_routes_update (`host.conn.port` upsert, `host.conn.x` removal), `T<tag>`
  merge_topology_update, `U<addr>` / `W<addr>` up / down hint, `K` take.
* `worker <op>;…` — a real `ClusterWorker` behind the channel: the same merge ops, an optional leading `S1` (client-routes
  subscriber configured) and `K` = the consumer catches up (takes the slot, then a sentinel hint); prints what is published.
* `producer <op>;…` — a real `MetadataWorker` on a control connection to a mock node that holds every full fetch until the
  case releases it: `q` request, `o` / `e` the fetch in flight succeeds / fails, `t` the consumer takes the slot and answers.
  The driver replays the ops as `RefreshFlow` events (`request`, `recvRequest`, `periodicFetch`, `fetchOk`, `fetchErrOnCc`,
  `fetchErrNoCc`, `consumerTake`, `consumerFinish`).
* `stress <n> <mode> <seed>` — two OS threads; the schedule is not observable, the line only says that the
  concatenation of everything received was `0..n` and that `None` came last (what `Props.C19` proves for every schedule).
* `race <reps> <n> <seed>` — `reps` such rounds with a tiny `n` (the drop follows the last merge at once).
-/
namespace ScyllaVerif.Drive.C19
open ScyllaVerif.Util

def splitOp (op : String) : Option (Char × String) :=
  match op.toList with
  | [] => none
  | c :: rest => some (c, String.ofList rest)

/-! ### channel -/
section Chan
open ScyllaVerif.MergeChannel

def valStr : Option (List Nat) → String
  | none => "none"
  | some v => "ready[" ++ ",".intercalate (v.map toString) ++ "]"

def hasFuture (s : State) : Bool :=
  match s.rpc with
  | .idle | .gone => false
  | _ => true

/-- One operation; returns the new state and the result word. -/
def chanOp (s : State) (op : String) : Option (State × String) :=
  match splitOp op with
  | none => none
  | some (c, arg) =>
    if c == 'm' then
      match arg.toNat? with
      | none => none
      | some x =>
        if s.spc != .idle then some (s, "notx") else
        let s' := opMerge x s
        some (s', if s'.sends.getLast? == some true then "ok" else "senderror")
    else if arg != "" then none
    else if c == 'D' then
      if s.spc != .idle then some (s, "notx") else some (opDropSender s, "dropped")
    else if c == 's' then
      if s.rpc == .gone then some (s, "norx")
      else if hasFuture s then some (s, "busy")
      else some (step s .callRecv, "started")
    else if c == 'p' then
      if s.rpc == .gone then some (s, "norx")
      else if !hasFuture s then some (s, "nofut")
      else
        let s' := pollRecv s
        if s'.rpc == .idle then some (s', valStr (s'.received.getLast?.getD none))
        else if s'.rpc == .parked then some (s', "pending")
        else some (s', "MODEL-STUCK")
    else if c == 'c' then
      if s.rpc == .gone then some (s, "norx")
      else if !hasFuture s then some (s, "nofut")
      else some (cancel s, "cancelled")
    else if c == 'X' then
      if s.rpc == .gone then some (s, "norx") else some (opDropReceiver s, "rxdropped")
    else none

def runChan (ops : List String) : String :=
  let rec go : List String → State → List String → Option (List String)
    | [], _, out => some out.reverse
    | op :: rest, s, out =>
      match chanOp s op with
      | none => none
      | some (s', w) => go rest s' (s!"{w}:{s'.wakes}" :: out)
  match go ops init [] with
  | none => "bad-case"
  | some out => ";".intercalate out

end Chan

/-! ### slot -/
section Slot
open ScyllaVerif.MetaUpdate

structure SlotSt where
  slot : Option Update := none
  nextRefresh : Nat := 0

def insertSorted (p : Nat × Bool) : List (Nat × Bool) → List (Nat × Bool)
  | [] => [p]
  | q :: r => if p.1 ≤ q.1 then p :: q :: r else q :: insertSorted p r

def sortHints (h : List (Nat × Bool)) : List (Nat × Bool) := h.foldr insertSorted []

def listStr (xs : List String) : String := if xs.isEmpty then "-" else ",".intercalate xs

def keyLe (a b : RouteKey) : Bool := a.1 < b.1 || (a.1 == b.1 && a.2 ≤ b.2)

def insertRoute (p : RouteKey × Option Nat) : List (RouteKey × Option Nat) → List (RouteKey × Option Nat)
  | [] => [p]
  | q :: r => if keyLe p.1 q.1 then p :: q :: r else q :: insertRoute p r

def sortRoutes (rs : List (RouteKey × Option Nat)) : List (RouteKey × Option Nat) := rs.foldr insertRoute []

def routeStr (e : RouteKey × Option Nat) : String :=
  s!"{e.1.1}.{e.1.2}." ++ (match e.2 with | some p => toString p | none => "x")

def routesStr : Option (List (RouteKey × Option Nat)) → String
  | none => "none"
  | some rs => listStr ((sortRoutes rs).map routeStr)

def viewStr (slot : Option Update) : String :=
  let peers := match peersTag slot with | some t => "+".intercalate (t.nodes.map fun (n : NodeAttr) => toString n.host) | none => "-"
  let refresh := listStr ((refreshIds slot).map toString)
  let hints := listStr ((sortHints (hintsOf slot)).map fun p => toString p.1 ++ (if p.2 then "+" else "-"))
  s!"{kind slot} peers={peers} refresh={refresh} hints={hints} routes={routesStr (routesOf slot)} lost=-"

/-- `host.conn.port` / `host.conn.x` entries, `-` = none. -/
def parseRouteEntries (s : String) (allowRemoval : Bool) : Option (List (RouteKey × Option Nat)) :=
  if s == "-" then some [] else
  (s.splitOn ",").mapM fun e =>
    match e.splitOn "." with
    | [h, c, p] =>
      match h.toNat?, c.toNat? with
      | some h, some c =>
        if c > 65535 then none
        else if p == "x" then (if allowRemoval then some ((h, c), none) else none)
        else match p.toNat? with
          | some p => if p > 65535 then none else some ((h, c), some p)
          | none => none
      | _, _ => none
    | _ => none

def slotOp (st : SlotSt) (op : String) : Option (SlotSt × String) :=
  match splitOp op with
  | none => none
  | some (c, arg) =>
    if c == 'K' then
      if arg != "" then none else some ({ st with slot := none }, viewStr st.slot)
    else if c == 'C' then
      match parseRouteEntries arg true with
      | none => none
      | some es => some ({ st with slot := mergeClientRoutes st.slot (mkRoutesUpdate es) }, "-")
    else if c == 'G' || c == 'H' then
      match arg.splitOn "/" with
      | [tag, rs] =>
        match tag.toNat?, parseRouteEntries rs false with
        | some tag, some es =>
          let routes := mkRoutes (es.filterMap fun e => e.2.map fun p => (e.1, p))
          let m : Meta := { peers := Topo.single tag, clientRoutes := some routes }
          if c == 'H' then
            some ({ slot := mergeMetadata st.slot m (some st.nextRefresh), nextRefresh := st.nextRefresh + 1 },
                  s!"r{st.nextRefresh}")
          else some ({ st with slot := mergeMetadata st.slot m none }, "-")
        | _, _ => none
      | _ => none
    else
    match arg.toNat? with
    | none => none
    | some n =>
      if c == 'F' then some ({ st with slot := mergeMetadata st.slot { peers := Topo.single n } none }, "-")
      else if c == 'R' then
        some ({ slot := mergeMetadata st.slot { peers := Topo.single n } (some st.nextRefresh), nextRefresh := st.nextRefresh + 1 },
              s!"r{st.nextRefresh}")
      else if c == 'T' then some ({ st with slot := mergeTopology st.slot (Topo.single n) }, "-")
      else if c == 'U' then some ({ st with slot := mergeHint st.slot n true }, "-")
      else if c == 'W' then some ({ st with slot := mergeHint st.slot n false }, "-")
      else none

def runSlot (ops : List String) : String :=
  let rec go : List String → SlotSt → List String → Option (List String)
    | [], _, out => some out.reverse
    | op :: rest, st, out =>
      match slotOp st op with
      | none => none
      | some (st', w) => go rest st' (w :: out)
  match go ops {} [] with
  | none => "bad-case"
  | some out => ";".intercalate out

end Slot

/-! ### worker: the consumer behind the channel -/
section Worker
open ScyllaVerif.MetaUpdate ScyllaVerif.ClusterConsumer ScyllaVerif

/-- What listens at a node address (case ops `L` `Q` `Y` `Z`; nothing = refused at once). -/
inductive Listener where
  | closes        -- `L`: accepts and closes at once           → the attempt fails
  | closesLate    -- `Q`: answers OPTIONS, closes on STARTUP   → the attempt fails
  | handshakes    -- `Y`: completes the CQL handshake          → the connection is accepted into the pool
  | mute          -- `Z`: accepts and never answers            → the attempt stays in flight
  deriving DecidableEq

structure WorkerSt where
  pipe : Pipe
  nextRefresh : Nat := 0
  listeners : List (Nat × Listener) := []
  /-- the pools of the published state's enabled nodes: host ↦ (dc, rack, pool). A node object - and with it its pool -
  is kept as long as the node stays enabled with the same dc and rack (`calculate_new_topology`, state.rs:312-323: an
  address change alone re-creates the `Node` but inherits the pool). -/
  pools : List (Nat × Nat × Nat × C19PoolInit.Pool) := []
  /-- `publications` at the previous catch-up (what `new=` compares with). -/
  pubAtLastK : Nat := 0
  answeredAtLastK : Nat := 0

/-- `host.addr.dc.rack,…` or a bare tag. -/
def parseNodes (s : String) : Option Topo :=
  match s.toNat? with
  | some t => some (Topo.single t)
  | none =>
    if s == "-" then some ⟨[]⟩ else
    ((s.splitOn ",").mapM fun (n : String) =>
      match (n.splitOn ".").mapM String.toNat? with
      | some [h, a, d, r] => some ({ host := h, addr := a, dc := d, rack := r } : NodeAttr)
      | _ => none).map Topo.mk

def insertNode (n : NodeView) : List NodeView → List NodeView
  | [] => [n]
  | m :: r => if n.attr.host ≤ m.attr.host then n :: m :: r else m :: insertNode n r

def nodesStr (ns : List NodeView) : String :=
  listStr ((ns.foldr insertNode []).map fun n =>
    s!"{n.attr.host}.{n.attr.addr}.{n.attr.dc}.{n.attr.rack}.{if n.enabled then 1 else 0}")

/-- What the client-routes subscriber holds after the deliveries so far: a full snapshot replaces, a partial update is
applied (`replace_client_routes` / `merge_client_routes_update`). -/
def subscriberRoutes (ds : List Delivery) : List (RouteKey × Nat) :=
  ds.foldl (fun acc d =>
    match d with
    | .replace r => r
    | .mergeUpd upd => routesApply acc upd) []

/-- The first fill of a brand-new pool towards `addr`, as `Model/C19PoolInit.lean` has it: one attempt whose outcome is
decided by what listens there. -/
def newPool (st : WorkerSt) (addr : Nat) : C19PoolInit.Pool :=
  match st.listeners.lookup addr with
  | none => C19PoolInit.run {} [.startFilling 1, .connFail]                 -- refused
  | some .closes => C19PoolInit.run {} [.startFilling 1, .connFail]
  | some .closesLate => C19PoolInit.run {} [.startFilling 1, .connFail]
  | some .handshakes => C19PoolInit.run {} [.startFilling 1, .connOkAccept]
  | some .mute => C19PoolInit.run {} [.startFilling 1]                      -- still in flight

/-- `ClusterConsumer.poolsFor` with the case's listeners deciding the first attempt of a brand-new pool. -/
def poolsFor (st : WorkerSt) (t : Topo) : List (Nat × Nat × Nat × C19PoolInit.Pool) :=
  ClusterConsumer.poolsFor st.pipe.cons.filter st.pools (newPool st) t

/-- The consumer takes the slot: `apply_metadata_update`, including its wait on the pools of the new state's enabled
nodes. `none` = parked at `wait_until_all_pools_are_initialized` (a pool is still `Initializing`). -/
def workerTake (st : WorkerSt) : Option WorkerSt :=
  match st.pipe.slot with
  | none => some st
  | some u =>
    let pools := match peersTag (some u) with
      | some t => poolsFor st t
      | none => st.pools
    match consumeWaiting st.pipe.cons u (pools.map fun p => p.2.2.2) with
    | some c => some { st with pipe := { slot := none, cons := c }, pools := pools }
    | none => none

def workerSettle (st : WorkerSt) : Option WorkerSt :=
  match workerTake st with
  | none => none
  | some st1 => workerTake { st1 with pipe := pstep st1.pipe (.merge (.hint 0 false)) }

/-- `K`: the consumer catches up (takes the slot; the harness then merges a sentinel DOWN hint for address 0 and the
consumer takes that, too). Prints what is published. -/
def workerCatchUp (st : WorkerSt) : Option WorkerSt × String :=
  match workerSettle st with
  | none => (none, "hang")
  | some st2 =>
  let p2 := st2.pipe
  let isNew := p2.cons.publications > st.pubAtLastK
  let ok := p2.cons.answered.drop st.answeredAtLastK
  let routes :=
    if p2.cons.hasSubscriber then
      routesStr (some ((subscriberRoutes p2.cons.delivered).map fun e => (e.1, some e.2)))
    else "none"
  let v := p2.cons.views
  let pub := if v.allNodes == v.knownNodes && v.ring == v.knownNodes then nodesStr v.knownNodes else "VIEWS-DIFFER"
  (some { st2 with pubAtLastK := p2.cons.publications, answeredAtLastK := p2.cons.answered.length },
   s!"pub={pub} new={if isNew then 1 else 0} ok={listStr (ok.map toString)} err=- drop=- routes={routes}")

def workerOp (st : WorkerSt) (op : String) : Option (Option WorkerSt × String) :=
  match splitOp op with
  | none => none
  | some (c, arg) =>
    let mergeOp (o : Op) : Option (Option WorkerSt × String) := some (some { st with pipe := pstep st.pipe (.merge o) }, "-")
    let listen (k : Listener) : Option (Option WorkerSt × String) :=
      match arg.toNat? with
      | some a => some (some { st with listeners := (a, k) :: st.listeners }, "-")
      | none => none
    if c == 'K' then
      if arg != "" then none else some (workerCatchUp st)
    else if c == 'B' then
      if arg != "" then none else
      match workerSettle st with
      | none => some (none, "hang")
      | some st' => some (some { st' with pipe := pstep st'.pipe .tablets }, "-")
    else if c == 'L' then listen .closes
    else if c == 'Q' then listen .closesLate
    else if c == 'Y' then listen .handshakes
    else if c == 'Z' then listen .mute
    else if c == 'C' then
      match parseRouteEntries arg true with
      | none => none
      | some es => mergeOp (.clientRoutes (mkRoutesUpdate es))
    else if c == 'G' || c == 'H' then
      match arg.splitOn "/" with
      | [tag, rs] =>
        match parseNodes tag, parseRouteEntries rs false with
        | some t, some es =>
          let routes := mkRoutes (es.filterMap fun e => e.2.map fun p => (e.1, p))
          let m : Meta := { peers := t, clientRoutes := some routes }
          if c == 'H' then
            some (some { st with pipe := pstep st.pipe (.merge (.metadata m (some st.nextRefresh))),
                                 nextRefresh := st.nextRefresh + 1 }, s!"r{st.nextRefresh}")
          else mergeOp (.metadata m none)
        | _, _ => none
      | _ => none
    else if c == 'F' || c == 'M' then
      match parseNodes arg with
      | some t => mergeOp (.metadata { peers := t } none)
      | none => none
    else if c == 'R' || c == 'N' then
      match parseNodes arg with
      | some t =>
        some (some { st with pipe := pstep st.pipe (.merge (.metadata { peers := t } (some st.nextRefresh))),
                             nextRefresh := st.nextRefresh + 1 }, s!"r{st.nextRefresh}")
      | none => none
    else if c == 'T' || c == 'P' then
      match parseNodes arg with
      | some t => mergeOp (.topology t)
      | none => none
    else if c == 'U' || c == 'W' then
      match arg.toNat? with
      | some n => if n > 65535 then none else mergeOp (.hint n (c == 'U'))
      | none => none
    else none

/-- Header ops `A1`/`A2`, `S1`, `I<nodes>` (in this order, all optional); returns what is left. -/
def workerHeader (ops : List String) : Option (Nat × Bool × Topo × Nat × List String) :=
  let (filter, ops1, n1) := match ops with
    | "A1" :: r => (1, r, 1)
    | "A2" :: r => (2, r, 1)
    | r => (0, r, 0)
  let (sub, ops2, n2) := match ops1 with
    | "S1" :: r => (true, r, n1 + 1)
    | r => (false, r, n1)
  match ops2 with
  | o :: r =>
    if o.startsWith "I" then
      match parseNodes (o.drop 1).toString with
      | some t => some (filter, sub, t, n2 + 1, r)
      | none => none
    else some (filter, sub, Topo.single 0, n2, ops2)
  | [] => some (filter, sub, Topo.single 0, n2, [])

def runWorker (ops : List String) : String :=
  match workerHeader ops with
  | none => "bad-case"
  | some (filter, sub, t0, nhdr, rest) =>
    let rec go : List String → WorkerSt → List String → Option (List String)
      | [], _, out => some out.reverse
      | op :: more, st, out =>
        match workerOp st op with
        | none => none
        | some (some st', w) => go more st' (w :: out)
        | some (none, w) => some (w :: out).reverse       -- parked: the case ends here
    let st0 : WorkerSt := { pipe := { cons := Consumer.start sub filter t0 } }
    -- the initial state's pools exist already (built by `ClusterState::new`, not waited for)
    let st0 := { st0 with pools := poolsFor st0 t0 }
    match go rest st0 (List.replicate nhdr "-") with
    | none => "bad-case"
    | some out => ";".intercalate out

end Worker

/-! ### producer: the metadata worker's request handling -/
section Producer
open ScyllaVerif.MetaUpdate ScyllaVerif.RefreshFlow

structure ProducerSt where
  flow : Flow := {}
  /-- the worker serves a control connection (`work_on_cc`) / establishes one (`work_without_cc`). -/
  onCc : Bool := true
  /-- candidates left in the running establishment attempt (the harness's single node is tried twice per attempt). -/
  candidates : Nat := 0
  tag : Nat := 1

/-- What the worker does on its own once it runs: picks up a waiting request (which starts a fetch), or - without a
control connection - starts the next establishment attempt. -/
def producerSettle (st : ProducerSt) : ProducerSt :=
  if st.flow.fetching then st
  else if !st.flow.waiting.isEmpty then { st with flow := RefreshFlow.step st.flow .recvRequest, candidates := 2 }
  else if !st.onCc then { st with flow := RefreshFlow.step st.flow .periodicFetch, candidates := 2 }
  else st

def producerOp (st : ProducerSt) (op : String) : Option (ProducerSt × String) :=
  let fin (st' : ProducerSt) (took : String) : ProducerSt × String :=
    let ok := st'.flow.answeredOk.drop st.flow.answeredOk.length
    let err := st'.flow.answeredErr.drop st.flow.answeredErr.length
    let dr := st'.flow.dropped.drop st.flow.dropped.length
    (st', s!"f={if st'.flow.fetching then 1 else 0} took={took} ok={listStr (ok.map toString)} err={listStr (err.map toString)} drop={listStr (dr.map toString)}")
  if op == "q" then
    some (fin (producerSettle { st with flow := RefreshFlow.step st.flow .request }) "-")
  else if op == "o" then
    if st.flow.fetching then
      some (fin (producerSettle { st with flow := RefreshFlow.step st.flow (.fetchOk { peers := Topo.single st.tag }), onCc := true,
                                          tag := st.tag + 1 }) "-")
    else some (fin st "-")
  else if op == "e" then
    if !st.flow.fetching then some (fin st "-")
    else if st.onCc then
      some (fin { st with flow := RefreshFlow.step st.flow .fetchErrOnCc, onCc := false, candidates := 2 } "-")
    else if st.candidates > 1 then
      some (fin { st with flow := RefreshFlow.step st.flow .fetchErrOnCc, candidates := st.candidates - 1 } "-")
    else some (fin (producerSettle { st with flow := RefreshFlow.step st.flow .fetchErrNoCc }) "-")
  else if op == "t" then
    match st.flow.slot with
    | none => some (fin st "-")
    | some u =>
      let took := s!"{kind (some u)}/{(refreshIds (some u)).length}"
      some (fin { st with flow := RefreshFlow.step (RefreshFlow.step st.flow .consumerTake) .consumerFinish } took)
  else none

def runProducer (ops : List String) : String :=
  let rec go : List String → ProducerSt → List String → Option (List String)
    | [], _, out => some out.reverse
    | op :: rest, st, out =>
      match producerOp st op with
      | none => none
      | some (st', w) => go rest st' (w :: out)
  match go ops {} [] with
  | none => "bad-case"
  | some out => ";".intercalate out

end Producer

/-! ### estab: re-establishment over several candidates (checker: the candidate order is the driver's random shuffle) -/
section Estab
open ScyllaVerif.C19Establish

/-- `estab <o0><o1><o2> <rej> <f>`; `impl` = `order=<nodes whose fetch was seen> took=… ok=… err=… drop=…`. The model
replays `try_establish_on_nodes` over the candidates IN THE OBSERVED ORDER (refused candidates are invisible and do not
matter: `connectFail` only moves on) and echoes the line iff order and outcome are producible. -/
def runEstab (script rej f impl : String) : String :=
  let cs := script.toList
  if cs.length != 3 || !cs.all (fun c => c == 'o' || c == 'e' || c == 'x') || !(f == "o" || f == "e") then "bad-case" else
  let rejN : Option Nat := if rej == "-" then none else rej.toNat?
  if rej != "-" && (rejN.isNone || rejN.getD 9 > 2) then "bad-case" else
  let outcomeOf (i : Nat) : Outcome :=
    match cs[i]? with
    | some 'o' => .fetched (i + 1) (rejN == some i)
    | some 'e' => .fetchFail
    | _ => .connectFail
  let orderStr := ((impl.splitOn " ").head?.getD "").drop 6
  match (if orderStr.toString == "-" then some [] else (orderStr.toString.splitOn ",").mapM String.toNat?) with
  | none => "REJECT unparsable order"
  | some l =>
    -- the contact-point attempt: node 0 seen a second time, at the end
    let (phase1, fallbackSeen) :=
      if l.length ≥ 2 && l.getLast? == some 0 && (l.dropLast).contains 0 then (l.dropLast, true) else (l, false)
    let nonX := (List.range 3).filter fun i => cs[i]? != some 'x'
    if !(phase1.all (fun i => nonX.contains i)) || phase1.eraseDups.length != phase1.length then "REJECT order names a stopped or repeated node" else
    let r1 := tryOnNodes false (phase1.map outcomeOf) none
    let complete := match r1 with
      | .kept m => phase1.getLast?.map (· + 1) == some m
      | _ => nonX.all (fun i => phase1.contains i)
    if !complete then "REJECT the search stopped early or went on after keeping a connection" else
    let wantFallback := r1 == .err && cs[0]? != some 'x'
    if wantFallback != fallbackSeen then "REJECT contact-point fallback" else
    let result := if r1 == .err then
        (if cs[0]? == some 'x' then Result.err
         else tryOnNodes false [if f == "o" then .fetched 9 false else .fetchFail] none)
      else r1
    let orderOut := if l.isEmpty then "-" else ",".intercalate (l.map toString)
    match result.metadata with
    | some _ => s!"order={orderOut} took=full/1 ok=0 err=- drop=-"
    | none => s!"order={orderOut} took=- ok=- err=0 drop=-"

end Estab

/-! ### evwait: `ControlConnectionEvents::wait_for_event` at poll granularity (checker: `select!` picks at random when an
event and the connection error are both ready) -/
section EvWait
open ScyllaVerif.C19EventWait

def evLabel (e : Nat) : String :=
  let k := e / 256
  (if k == 0 then "up:" else if k == 1 then "down:" else "topo:") ++ toString (e % 256)

def outLabel : Out → String
  | .pending => "pending"
  | .event e => evLabel e
  | .broken => "broken"
  | .shutdown => "shutdown"

def outStr (o : Out) : String := if o == .pending then "pending" else "ready[" ++ outLabel o ++ "]"

/-- One poll; when both arms are ready the implementation's own answer (`want`, an inner label) picks the arm. -/
def pollGuided (c : Conn) (want : Option String) : Conn × Out :=
  let a := C19EventWait.poll c false
  let b := C19EventWait.poll c true
  if a.2 != b.2 && want == some (outLabel b.2) then b else a

def innerOf (tok : String) : Option String :=
  if tok.startsWith "ready[" && tok.endsWith "]" then some ((tok.drop 6).dropEnd 1).toString else none

/-- `evwait cap=<c> <op>;…`: `u<n>` / `d<n>` / `t<n>` the reader delivers STATUS_CHANGE UP / DOWN / TOPOLOGY_CHANGE of
node n (`ok` | `full`); `w` one poll of the wait (a fresh `wait_for_event()` if none is alive; `pending` keeps it alive);
`c` drops the alive wait (`cancelled` | `idle`); `b` the connection reports its failure (`ok` | `used`); `s` the error
sender is dropped. `ready[broken]` / `ready[shutdown]` end the case (`end`). Otherwise a final `drain[…]` polls until
`pending`. -/
def runEvWait (capw : String) (ops : List String) (impl : String) : String :=
  if !capw.startsWith "cap=" then "bad-case" else
  match (capw.drop 4).toString.toNat? with
  | none => "bad-case"
  | some cap =>
  if cap == 0 || cap > 64 then "bad-case" else
  let implToks := impl.splitOn ";"
  let rec drain : Nat → Conn → List String → List String → Conn × List String
    | 0, c, _, acc => (c, acc.reverse)
    | fuel + 1, c, wants, acc =>
      let (c', o) := pollGuided c wants.head?
      match o with
      | .pending => (c', acc.reverse)
      | .event _ => drain fuel c' (wants.drop 1) (outLabel o :: acc)
      | _ => (c', (outLabel o :: acc).reverse)
  let rec go : List String → Nat → Conn → Bool → List String → Option (List String)
    | [], i, c, _, out =>
      let wants := match implToks[i]? with
        | some t => if t.startsWith "drain[" && t.endsWith "]" then ((t.drop 6).dropEnd 1).toString.splitOn "," else []
        | none => []
      let (_, labs) := drain (c.queue.length + 2) c wants []
      some (("drain[" ++ (if labs.isEmpty then "-" else ",".intercalate labs) ++ "]") :: out).reverse
    | op :: rest, i, c, alive, out =>
      match splitOp op with
      | none => none
      | some (k, arg) =>
        if k == 'u' || k == 'd' || k == 't' then
          match arg.toNat? with
          | none => none
          | some n =>
            if n > 255 then none else
            let e := (if k == 'u' then 0 else if k == 'd' then 1 else 2) * 256 + n
            let c' := C19EventWait.step c (.push e)
            go rest (i + 1) c' alive ((if c'.accepted.length == c.accepted.length then "full" else "ok") :: out)
        else if arg != "" then none
        else if k == 'w' then
          let (c', o) := pollGuided c ((implToks[i]?).bind innerOf)
          match o with
          | .pending => go rest (i + 1) c' true ("pending" :: out)
          | .event _ => go rest (i + 1) c' false (outStr o :: out)
          | _ => some ("end" :: outStr o :: out).reverse
        else if k == 'c' then go rest (i + 1) c false ((if alive then "cancelled" else "idle") :: out)
        else if k == 'b' then
          go rest (i + 1) (C19EventWait.step c .breakConn) alive ((if c.err == .idle then "ok" else "used") :: out)
        else if k == 's' then go rest (i + 1) (C19EventWait.step c .dropErrSender) alive ("ok" :: out)
        else none
  match go ops 0 { cap } false [] with
  | none => "bad-case"
  | some out => ";".intercalate out

end EvWait

def opsOf (body : String) : List String := (body.splitOn ";").filter (· ≠ "")

def run (case impl : String) : String :=
  match words case with
  | ["chan", body] => runChan (opsOf body)
  | ["chan"] => runChan []
  | ["slot", body] => runSlot (opsOf body)
  | ["slot"] => runSlot []
  | ["producer", body] => runProducer (opsOf body)
  -- the refresh interval of the worker (600 s; Duration::MAX and u64::MAX/2 s overflow Instant = "never"): the same
  -- reference behaviour for all of them (Props.C19 periodic_full_fetches_are_spaced: no periodic fetch within the case)
  | ["producer", iv, body] => if iv == "iv=600" || iv == "iv=max" || iv == "iv=half" then runProducer (opsOf body) else "bad-case"
  | ["evwait", capw, body] => runEvWait capw (opsOf body) impl
  | ["evwait", capw] => runEvWait capw [] impl
  | ["estab", script, rej, f] => runEstab script rej f impl
  | ["worker", body] => runWorker (opsOf body)
  | ["worker"] => runWorker []
  | ["stress", n, _mode, _seed] =>
    match n.toNat? with
    | some _ => "stream-complete in-order none-last"
    | none => "bad-case"
  | ["race", reps, n, _seed] =>
    match reps.toNat?, n.toNat? with
    | some _, some n => s!"every-round each=0..{n} in-order none-last"
    | _, _ => "bad-case"
  | _ => "bad-case"

end ScyllaVerif.Drive.C19
